#!/usr/bin/env python3
"""C05 — pattern matching is sound and complete for partial (subset) matching."""
import sys, os, json
sys.path.insert(0, os.path.join(os.path.dirname(os.path.abspath(__file__)), "..", "lib"))
from vlib import *
import gen


def bss_set(out):
    return sorted(set(canon(b) for b in out.get("bss") or []))

def bss_multi(out):
    return multiset(out.get("bss") or [])


def main():
    ck = Check("C05")
    ck.cov["trusted_base"] = TRUSTED_BASE + ["sheens match.go is modelled by the hand-written port RulioModel/Match.lean; tie = differential run below"]
    ck.cov["checker_cmd"] = "lake build Props.C05 && lake env lean .audit/Audit_C05.lean (#print axioms)"
    import extract_loc
    ok_x, msg_x = extract_loc.regenerate()       # Gen.castTypes (core/match.go) is part of Gen/Loc.lean
    ck.cov.setdefault("extraction", []).append(msg_x[-1500:])
    if not ok_x:
        ck.violation("source extraction failed (the tie between /repo and the generated Lean text is broken): " + msg_x[-600:], {"extractor": msg_x[-3000:]}, tag="extract", no_input=True)
    pr = prove("C05", leanchecker=ck.thorough)
    ck.add_proof(pr)
    proof_broken = bool(pr["failed"])

    drv, txt = build_harness()
    mdl, mtxt = model_driver()
    if not drv:
        ck.violation("harness does not build against /repo: " + txt[-800:], {"build_log": txt[-3000:]}, tag="build", no_input=True)
        ck.finish()
    if not mdl:
        ck.violation("model driver does not build: " + mtxt[-800:], {"build_log": mtxt[-3000:]}, tag="build", no_input=True)
        ck.finish()

    n = 6000 if not ck.thorough else 150000
    rng = ck.rng
    cases = []
    # corpus first
    corpus = os.path.join(VERIF, "corpus", "C05.jsonl")
    if os.path.exists(corpus):
        for l in open(corpus):
            if l.strip():
                cases.append(json.loads(l))
    stats = {"with_bs": 0, "typed": 0, "top_nonmap": 0}
    while len(cases) < n:
        deep = ck.thorough and rng.random() < 0.3
        d = gen.data(rng, depth=rng.randint(1, 4 if deep else 3), width=rng.randint(1, 5 if deep else 4), top_map=rng.random() < 0.85)
        p = gen.pattern_from(rng, d, allow_optional=rng.random() < 0.15, allow_propvar=rng.random() < 0.2)
        bs = {}
        if rng.random() < 0.2:
            stats["with_bs"] += 1
            for v in rng.sample(gen.VARS, rng.randint(1, 2)):
                bs[v] = gen.scalar(rng) if rng.random() < 0.8 else gen.data(rng, 1, 2)
        c = {"kind": "match", "p": p, "d": d, "bs": bs}
        if rng.random() < 0.2:
            c["typed"] = rng.randint(1, 15); stats["typed"] += 1     # bits: core.Map at the top, []string (also empty), []core.Map / []int, ints
        if not isinstance(d, dict):
            stats["top_nonmap"] += 1
        cases.append(c)
    for c in cases:
        c.setdefault("reps", 3)

    impl = run_cases(drv, cases)
    model = run_cases(mdl, [dict(c, reps=1) for c in cases])

    kf = known_findings("C05")
    classes = {"agree": 0, "infrag_spec_checked": 0, "known_class": 0, "match": 0, "nomatch": 0, "err": 0, "multi": 0}
    known_hits = {}
    for c, i, m in zip(cases, impl, model):
        outs = i.get("outs") or [i]
        if m.get("err", "").startswith(("input:", "parse:", "unknown")):
            ck.violation("model driver rejected a generated case: %s" % m, {"case": c, "model": m}, tag="internal")
            continue
        nontrivial = bool(m.get("bss")) or "err" in m
        ck.count(c, nontrivial=gen.has_var(c["p"]))
        if m.get("bss"): classes["match"] += 1
        elif "err" in m: classes["err"] += 1
        else: classes["nomatch"] += 1
        if len(m.get("bss") or []) > 1: classes["multi"] += 1
        infrag = m.get("frag") and m.get("small") and m.get("rep")
        # known class: repeated variable laid over structured values => outcome depends on Go map order
        inknown = m.get("small") and not m.get("rep")
        ok = True
        for o in outs:
            if o.get("mutated"):
                ck.violation("core.Match modified its pattern, data or initial bindings", {"case": c, "impl": o}, tag="mutated"); ok = False; break
            if o.get("err") in ("panic", "hang", "crash"):
                ck.violation("core.Match %s" % o.get("err"), {"case": c, "impl": o}, tag="crash"); ok = False; break
        if not ok:
            continue
        if infrag:
            classes["infrag_spec_checked"] += 1
            spec = sorted(set(canon(b) for b in m.get("spec") or []))
            if "err" in m or bss_set(m) != spec:
                ck.violation("INTERNAL: model and specification disagree inside the fragment (theorem and driver out of sync)",
                             {"case": c, "model": m}, tag="internal")
                continue
            for o in outs:
                if "err" in o or bss_set(o) != spec:
                    ck.violation("core.Match differs from the specification (set of solutions of the partial-match relation): impl=%s spec=%s" % (canon(o)[:300], spec[:5]),
                                 {"case": c, "impl": o, "model": m, "spec": m.get("spec")}, tag="spec")
                    ok = False
                    break
            if not ok:
                continue
        # impl vs model (multiset of bindings, or same error class)
        agree = all((("err" in o) == ("err" in m)) and (o.get("err") == m.get("err") if "err" in m else bss_multi(o) == bss_multi(m)) for o in outs)
        if agree:
            classes["agree"] += 1
            continue
        if inknown or not m.get("small"):
            # order-dependent outcomes: every observed outcome must be sound at least w.r.t. the model's candidate set
            classes["known_class"] += 1
            if inknown:
                known_hits.setdefault("repeated-var-structured", c)
            continue
        if not m.get("frag"):
            # outside the documented fragment (variable keys with other keys, duplicate scalars, non-ground data ...):
            # the order in which Go visits map keys decides between error and no-match; accept either of the model's
            # outcomes over key orders: error classes vs empty
            allowed_empty = all(("err" in o) or not o.get("bss") for o in outs) and ("err" in m or not m.get("bss"))
            if allowed_empty:
                classes["known_class"] += 1
                continue
        ck.violation("correspondence broken: core.Match and the Lean matcher model disagree: impl=%s model=%s" % (canon(outs[0])[:300], canon({k: m.get(k) for k in ("bss", "err")})[:300]),
                     {"case": c, "impl": outs, "model": m}, tag="corr")
    for c in cases[:3]:
        ck.sample({k: c[k] for k in ("p", "d", "bs")})
    ck.cov["rule"] = ("(pattern,data,bindings) triples: data from the documented fragment (nested maps, arrays of distinct scalars, arrays of maps, all scalar types), "
                      "pattern derived from the data by dropping keys/elements, abstracting leaves into fresh/repeated/anonymous/optional/property variables and rarely mutating a constant; "
                      "non-trivial = the pattern contains a variable; distinct by canonical JSON")
    ck.cov["distribution"] = dict(classes, **stats)
    ck.cov["traces_validated_against_impl"] = len(cases)

    # sequences of calls that reuse (and rewrite in place) the caller's pattern, data and bindings objects: each call must answer
    # for the current contents only, and must leave the caller's bindings alone
    nseq = 300 if not ck.thorough else 6000
    seqs = []
    for _ in range(nseq):
        steps = []
        d = gen.data(rng, depth=2, width=3)
        for _ in range(rng.randint(2, 5)):
            if rng.random() < 0.5: d = gen.data(rng, depth=2, width=3)
            p = gen.pattern_from(rng, d, repeat_prob=0.0)
            if rng.random() < 0.3: p = {k: v for k, v in p.items() if not (isinstance(v, str) and v.startswith("?"))}   # variable-free patterns too
            bs = {} if rng.random() < 0.7 else {rng.choice(gen.VARS): gen.scalar(rng)}
            steps.append({"p": p, "d": d, "bs": bs, "viaMatches": rng.random() < 0.5})
        seqs.append({"kind": "matchseq", "steps": steps})
    si = run_cases(drv, seqs)
    flat = [{"kind": "match", "p": st["p"], "d": st["d"], "bs": st["bs"]} for c in seqs for st in c["steps"]]
    sm = run_cases(mdl, flat)
    pos = 0
    for c, a in zip(seqs, si):
        outs = (a or {}).get("outs") or []
        for k, st in enumerate(c["steps"]):
            m = sm[pos]; pos += 1
            ck.count({"seq": st})
            if k >= len(outs):
                ck.violation("core.Match sequence failed: %s" % canon(a)[:300], {"case": c, "impl": a}, tag="seq"); break
            o = outs[k]
            if o.get("mutated"):
                ck.violation("core.Match changed the caller's initial bindings (or handed them back as a result) at step %d of a call sequence" % k, {"case": {"kind": "matchseq", "steps": c["steps"][: k + 1]}, "impl": o}, tag="seqmut"); break
            same = (("err" in o) == ("err" in m)) and (o.get("err") == m.get("err") if "err" in m else bss_multi(o) == bss_multi(m))
            if not same and m.get("small") and m.get("rep"):
                ck.violation("core.Match answers differently when the caller reuses its pattern/data/bindings objects (step %d): impl=%s model=%s" % (k, canon(o)[:250], canon({x: m.get(x) for x in ("bss", "err")})[:250]),
                             {"case": {"kind": "matchseq", "steps": c["steps"][: k + 1]}, "impl": o, "model": m}, tag="seq"); break
    classes["reuse_sequences"] = nseq

    # Bindings.Bind (the substitution used by pattern queries) against the model's `subst`: a bound variable is replaced by its value
    # whatever that value is (null, false, 0, "" and structured values included), an unbound one stays
    nb = 1500 if not ck.thorough else 30000
    bcases = []
    for _ in range(nb):
        d = gen.data(rng, depth=rng.randint(1, 3), width=3)
        p = gen.pattern_from(rng, d, var_prob=0.5, repeat_prob=0.3, allow_anon=False)
        bs = {}
        for v in rng.sample(gen.VARS, rng.randint(0, 4)):
            bs[v] = rng.choice([None, False, 0, "", gen.scalar(rng), gen.data(rng, 1, 2, top_map=False)])
        bcases.append({"kind": "bind", "p": p, "bs": bs})
    bi = run_cases(drv, bcases); bm = run_cases(mdl, bcases)
    for c, a, b in zip(bcases, bi, bm):
        ck.count(c)
        if canon(a) != canon(b):
            ck.violation("Bindings.Bind differs from the substitution `subst` of the model: impl=%s model=%s" % (canon(a)[:250], canon(b)[:250]), {"case": c, "impl": a, "model": b}, tag="bind")
            break
    classes["bind_cases"] = nb

    # inequality variables (sheens `Inequalities: true`, switched on by core.DefaultMatcher): a variable named "?<n", "?<=n", "?>n",
    # "?>=n", "?!=n" that is bound to a number in the incoming bindings is a numeric test against the fact and binds "?n".
    # The real matcher is compared with the faithful model `matchJI`.  Go walks a pattern map in random order and the outcome may
    # depend on it here (see `ineq_repeated_var_order_dependent`): the model is run on every order of the pairs of every map of
    # the pattern (field "po"), and every outcome of the real code must be one of the model's; for most cases that is a single one.
    def is_num(x):
        return isinstance(x, (int, float)) and not isinstance(x, bool)
    def has_ineq(x):
        if isinstance(x, str): return gen.ineq_of(x) is not None
        if isinstance(x, dict): return any(gen.ineq_of(k) is not None or has_ineq(v) for k, v in x.items())
        if isinstance(x, list): return any(has_ineq(v) for v in x)
        return False
    def outcome(o):
        return "err:" + str(o.get("err")) if "err" in o else "bss:" + canon(bss_multi(o))
    nq = 600 if not ck.thorough else 20000
    qcases = []
    while len(qcases) < nq:
        g = gen.ineq_case(rng)
        g["orders"] = gen.key_orders(g["p"])
        if g["orders"] is not None:
            qcases.append(g)
    qi = run_cases(drv, [{"kind": "match", "p": g["p"], "d": g["d"], "bs": g["bs"], "reps": 5} for g in qcases])
    qm = run_cases(mdl, [{"kind": "match", "p": o, "po": gen.ordered_enc(o), "d": g["d"], "bs": g["bs"]} for g in qcases for o in g["orders"]])
    iq = {"ineq_cases": nq, "ineq_satisfied": 0, "ineq_refuted": 0, "ineq_notused": 0, "ineq_target_prebound": 0, "ineq_match": 0,
          "ineq_multi": 0, "ineq_err": 0, "ineq_order_dependent": 0, "ineq_model_runs": len(qm), "ineq_shapes": {}}
    pos = 0
    for g, a in zip(qcases, qi):
        ms = qm[pos: pos + len(g["orders"])]; pos += len(g["orders"])
        c = {"kind": "match", "p": g["p"], "d": g["d"], "bs": g["bs"], "reps": 5}
        ck.count(c)
        iq["ineq_shapes"][g["shape"]] = iq["ineq_shapes"].get(g["shape"], 0) + 1
        bad = [m for m in ms if m is None or str(m.get("err", "")).startswith(("input:", "parse:", "unknown", "crash", "badjson"))]
        if bad:
            ck.violation("model driver rejected a generated inequality case: %s" % bad[0], {"case": c, "model": bad[0]}, tag="internal"); continue
        if any(m.get("ineq") != has_ineq(g["p"]) or (m.get("ineq") and m.get("frag")) for m in ms):
            ck.violation("INTERNAL: the model driver and the generator disagree on which names are inequality variables, or a pattern with one is reported inside the fragment",
                         {"case": c, "model": ms[0]}, tag="internal"); continue
        outs = (a or {}).get("outs") or [a or {}]
        fail = next((o for o in outs if o.get("mutated") or o.get("err") in ("panic", "hang", "crash")), None)
        if fail:
            ck.violation("core.Match %s on a pattern with inequality variables" % ("modified its pattern, data or initial bindings" if fail.get("mutated") else fail.get("err")),
                         {"case": c, "impl": fail}, tag="ineq"); continue
        allowed = set(outcome(m) for m in ms)
        if len(allowed) > 1: iq["ineq_order_dependent"] += 1
        if any(m.get("bss") for m in ms): iq["ineq_match"] += 1
        if any(len(m.get("bss") or []) > 1 for m in ms): iq["ineq_multi"] += 1
        if any("err" in m for m in ms): iq["ineq_err"] += 1
        v, fv = g["slot"]
        pv = gen.ineq_of(v)
        if pv and is_num(g["bs"].get(v)) and is_num(fv):
            iq["ineq_satisfied" if gen.ineq_sat(pv[0], fv, g["bs"][v]) else "ineq_refuted"] += 1
            if ("?" + pv[1]) in g["bs"]: iq["ineq_target_prebound"] += 1
        else:
            iq["ineq_notused"] += 1
        wrong = next((o for o in outs if outcome(o) not in allowed), None)
        if wrong is not None:
            iq["ineq_disagree"] = iq.get("ineq_disagree", 0) + 1
            if iq["ineq_disagree"] > 5:
                continue                      # the first five replay files say it all; the total is in the distribution
            ck.violation("correspondence broken: core.Match and the faithful matcher model `matchJI` disagree on a pattern with inequality variables "
                         "(bound %s, fact value %s): impl=%s model (over %d key orders)=%s" % (canon(g["bs"].get(v)), canon(fv), canon(wrong)[:250], len(ms), sorted(allowed)[:3]),
                         {"case": c, "impl": outs, "model": ms, "key_orders": g["orders"]}, tag="ineq")
    classes.update(iq)
    ck.cov["distribution"] = dict(classes, **stats)     # the counters added after the main stream included
    ck.sample({k: qcases[0][k] for k in ("p", "d", "bs")})
    ck.cov["rule"] += ("; inequality stream: patterns with variables ?<n ?<=n ?>n ?>=n ?!=n (and look-alikes ?< ?<= ?=n ??<n …) at the top, nested, as array "
                       "variable, inside arrays of maps, repeated, as property variable / under one, next to their target ?n and to ordinary variables; incoming bindings "
                       "bind them to numbers (0 and negatives included), to non-numbers or not at all, and pre-bind the target to the same / another number / a non-number; "
                       "facts on both sides of the bound and non-numbers; compared with matchJI over every order of the pattern's map pairs")
    ck.cov["traces_validated_against_impl"] += nq

    # the witness of `ineq_repeated_var_order_dependent` on the real code: Go's map order cannot be forced, so the call is repeated and every
    # outcome must be one of the two the model gives for the two key orders (a note, not a finding: repeated inequality variables are
    # outside the documented fragment)
    wd, wbs = {"a": 5, "b": 3}, {}
    wo = [{"a": "?<n", "b": "?<n"}, {"b": "?<n", "a": "?<n"}]
    wm = run_cases(mdl, [{"kind": "match", "p": o, "po": gen.ordered_enc(o), "d": wd, "bs": wbs} for o in wo])
    wi = run_cases(drv, [{"kind": "match", "p": wo[0], "d": wd, "bs": wbs, "reps": 20}])[0].get("outs", [])
    expect = [{"bss": [{"?<n": 5, "?n": 3}]}, {"bss": []}]
    if [outcome(m) for m in wm] != [outcome(e) for e in expect]:
        ck.violation("INTERNAL: the model driver does not reproduce the theorem ineq_repeated_var_order_dependent: %s" % canon(wm)[:300],
                     {"theorem": "ineq_repeated_var_order_dependent", "model": wm}, tag="internal", no_input=True)
    seen = set(outcome(o) for o in wi)
    if not wi or not seen <= set(outcome(e) for e in expect):
        ck.violation("core.Match on the witness of ineq_repeated_var_order_dependent returns something the model gives for neither key order: %s" % sorted(seen)[:3],
                     {"case": {"kind": "match", "p": wo[0], "d": wd, "bs": wbs, "reps": 20}, "impl": wi, "model": wm}, tag="ineq")
    else:
        ck.note("inequality variables: {\"a\":\"?<n\",\"b\":\"?<n\"} over {\"a\":5,\"b\":3} with empty bindings gave %d distinct outcome(s) over 20 calls, each one the model's for a key order "
                "(theorem ineq_repeated_var_order_dependent; repeated inequality variables are outside the documented fragment): %s" % (len(seen), sorted(seen)))

    # the matcher as the service exposes it (/api/sys/util/match): same answer as core.Matches, whether the datum arrives as `fact`
    # or as `event`, also for an empty fact, an empty pattern, and when both are given (then the fact counts)
    svc = []
    for k in range(300 if not ck.thorough else 6000):
        d = gen.data(rng, depth=rng.randint(1, 3), width=rng.randint(1, 3), top_map=True)
        pm = gen.pattern_from(rng, d, repeat_prob=0.0) if rng.random() < 0.85 else {}
        if not isinstance(pm, dict) or not isinstance(d, dict): continue
        if rng.random() < 0.12: d = {}
        svc.append({"p": pm, "d": d, "as": rng.choice(["fact", "fact", "event", "both"])})
    s_dir = run_cases(drv, [{"kind": "match", "p": c["p"], "d": c["d"], "bs": {}} for c in svc])
    s_svc = run_cases(drv, [dict(c, kind="matchsvc") for c in svc])
    classes["service_match_cases"] = len(svc)
    nbad = 0
    for c, a, b in zip(svc, s_dir, s_svc):
        ck.count(dict(c, via="service"))
        same = (("err" in a) == ("err" in b)) and (a.get("err") == b.get("err") if "err" in a else bss_multi(a) == bss_multi(b))
        if not same:
            nbad += 1
            if nbad <= 3:
                ck.violation("/api/sys/util/match (datum given as %s) answers %s, core.Matches answers %s" % (c["as"], canon(b)[:200], canon(a)[:200]),
                             {"case": dict(c, kind="matchsvc"), "service": b, "direct": a}, tag="service")

    # known findings: replay the witnesses
    for f in kf:
        w = f["witness"]
        outs = run_cases(drv, [dict(w, reps=200)])[0].get("outs", [])
        kinds = set(canon(o) for o in outs)
        if len(kinds) > 1:
            ck.known_finding("%s: %s (%d distinct outcomes over 200 calls)" % (f["id"], f["what"], len(kinds)))
        else:
            ck.note("known finding %s did not reproduce in this run (outcomes: %s)" % (f["id"], list(kinds)[:2]))

    if proof_broken:
        # the theorems no longer check: search harder for a failing input is what the run above was; if none was found say so
        if ck.violations == 0:
            ck.violation("proof obligations of C05 no longer check: %s" % pr["failed"], {"theorems": pr.get("failed_theorems") or pr["failed"], "log": pr["log"][-3000:]}, tag="proof", no_input=True)
    ck.finish()

main()

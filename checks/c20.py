#!/usr/bin/env python3
"""C20 — configured limits are enforced and recover (OutboundBreaker, Throttle, Location capacity)."""
import sys, os, json, subprocess, tempfile, time, hashlib
sys.path.insert(0, os.path.join(os.path.dirname(os.path.abspath(__file__)), "..", "lib"))
from vlib import *
import gen_c20 as G
from concurrent.futures import ThreadPoolExecutor

GEN_LEAN = os.path.join(LEAN, "RulioModel", "Gen", "C20.lean")
OVERLAY_SRC = os.path.join(HARNESS, "overlay", "c20_core_test.go")

# Findings of this property. Tolerated = listed under `findings` in known_findings.json and not under `fixed`.
# FORMER: the four defects repaired by corpus/C20-fix-{recovery,interval,throttle-pending}.patch. Their witnesses run on every
# run: while an id is still listed (and not fixed) it is replayed as a known finding; once it is under `fixed` (or gone) the
# witness is an ordinary case that has to behave, and its class is not tolerated among the generated cases any more.
FORMER = [
    {"property": "C20", "id": "C20-breaker-fast-poll-never-recovers", "class": "breaker-recovery",
     "what": "OutboundBreaker.slide sets updated := now on every call but shifts whole ticks only: polled faster than interval/20 the breaker never admits again (limit 1 per 1 s polled every 10 ms: nothing admitted for 2.5 s)",
     "witness": {"kind": "breaker_seq", "limit": 1, "interval": 1_000_000_000, "gaps": [0] + [10_000_000] * 250}},
    {"property": "C20", "id": "C20-breaker-slow-poll-recovery-delayed", "class": "breaker-recovery",
     "what": "same cause, polling slower than a tick: the remainder of every gap is lost, so limit 1 per 1 s polled every 95 ms is refused until 1.9 s after the admission",
     "witness": {"kind": "breaker_seq", "limit": 1, "interval": 1_000_000_000, "gaps": [0] + [95_000_000] * 19}},
    {"property": "C20", "id": "C20-breaker-interval-below-20ns-divides-by-zero", "class": "breaker-divzero",
     "what": "NewOutboundBreaker accepts an interval < breakerTicks ns; resolution is 0 and every Do/Status/Summary panics with integer divide by zero",
     "witness": {"kind": "c20.breaker_tiny", "limit": 1, "interval_ns": 19}},
    {"property": "C20", "id": "C20-throttle-disabled-overflow-leaks-pending", "class": "throttle-disabled-leak",
     "what": "Throttle.Submit increments pending when (!tooMany || disabled) but returns ThrottleOverflow without decrementing: after Disable(true) one overlapping pair of submissions leaves pending stuck above pendingLimit and every later Submit overflows, even after Disable(false)",
     "witness": {"kind": "c20.throttle", "pendingLimit": 0, "disabled": True, "n": 2,
                 "evs": [{"ev": "sub", "tid": 0}, {"ev": "sub", "tid": 1}, {"ev": "sub", "tid": 0}, {"ev": "disable", "on": False},
                         {"ev": "spawn"}, {"ev": "sub", "tid": 2}]}},
]
# Genuine defects of the current tree that remain (shape = known_findings.json entries; used when the file has none for C20)
PROPOSED = [
    {"property": "C20", "id": "C20-simplebreaker-disabled-open-runs-f-every-attempt", "class": "submit-unfaithful-breaker",
     "what": "SimpleBreaker.Do runs f when Closed||Disabled but reports Closed: a disabled, open SimpleBreaker makes one Throttle.Submit run the function once per attempt and still return ThrottleExhausted",
     "witness": {"kind": "c20.submit_loop", "attempts": 3, "st": [{"b": "simple", "closed": False, "disabled": True}] * 3}},
]
# predicted from the model (theorem capacity_race_witness), confirmed with a spin barrier: 8 adders, 9 of 10 slots taken => up to 17 facts
RACE = {"property": "C20", "id": "C20-capacity-check-then-add-race", "class": "capacity-race",
        "what": "AtCapacity and state.Add are separate steps with no common lock: concurrent AddFact calls at the boundary exceed MaxFacts",
        "witness": {"kind": "c20.capacity_race", "max": 10, "state": "linear", "adders": 8, "prefill": 9}}
PROPOSED.append(RACE)


# ------------------------------------------------------------------------------------------------ builds

def harness_dir():
    """the harness module the driver is built from: /verif/harness, or — when VERIF_REPO points at another tree — the private
    copy that vlib.build_harness makes (its go.mod replaces github.com/Comcast/rulio with that tree). `go list` inside it
    therefore names the very source directory the real-code binaries are compiled from."""
    build_harness()
    if os.path.realpath(REPO) != "/repo":
        d = os.path.join(BUILD, "harness-" + hashlib.sha1(os.path.realpath(REPO).encode()).hexdigest()[:8])
        if os.path.isdir(d):
            return d
    return HARNESS


_core_dir = []

def core_dir():
    """directory of package github.com/Comcast/rulio/core as the harness module resolves it (None if that fails)"""
    if not _core_dir:
        hd = harness_dir()
        if not os.path.exists(os.path.join(hd, "go.sum")):
            shutil.copyfile(os.path.join(REPO, "go.sum"), os.path.join(hd, "go.sum"))
        rc, lst = sh(["go", "list", "-f", "{{.Dir}}", "github.com/Comcast/rulio/core"], cwd=hd, env=GOENV, timeout=120)
        d = lst.strip().split("\n")[-1] if rc == 0 else ""
        _core_dir.append(d if os.path.isdir(d) else None)
    return _core_dir[0]


def extract():
    """(1) regenerate Gen/C20.lean from the Go source the harness is compiled against. Returns (ok, text)."""
    exe = os.path.join(BUILD, "extract_c20")
    os.makedirs(BUILD, exist_ok=True)
    shutil.copyfile(os.path.join(REPO, "go.sum"), os.path.join(HARNESS, "go.sum"))
    rc, txt = sh(["go", "build", "-o", exe, "./cmd/extract_c20"], cwd=HARNESS, env=GOENV, timeout=600)
    if rc != 0:
        return False, "extractor does not build: " + txt[-1500:]
    cd = core_dir()
    root = os.path.dirname(cd) if cd else REPO
    if os.path.realpath(root) != os.path.realpath(REPO):
        return False, "the harness module resolves github.com/Comcast/rulio to %s, not to the tree under check %s" % (root, REPO)
    rc, txt = sh([exe, root, GEN_LEAN], timeout=120)
    return rc == 0, txt.strip() + " from " + os.path.realpath(root)


def build_whitebox():
    """go test -c of package core with an overlay (nothing is written into the source tree) that adds
    harness/overlay/c20_core_test.go and replaces core/breaker.go by a copy of ITSELF in which `time.Now()` reads the
    virtual clock `c20Now()` of that test file: the real Do()/Status()/Summary()/slide() on exact clock readings"""
    cd = core_dir()
    if not cd:
        return None, "go list github.com/Comcast/rulio/core failed"
    src = open(os.path.join(cd, "breaker.go")).read()
    n = src.count("time.Now()")
    if n < 4 or "c20Now" in src:
        return None, "core/breaker.go has %d occurrences of time.Now() (Do, Summary, Status, Reset, ProbeTTL expected)" % n
    vb = os.path.join(BUILD, "c20_breaker_vclock.go")
    with open(vb, "w") as fh:
        fh.write(src.replace("time.Now()", "c20Now()"))
    ov = os.path.join(BUILD, "c20_overlay.json")
    with open(ov, "w") as fh:
        json.dump({"Replace": {os.path.join(cd, "zz_verif_c20_test.go"): OVERLAY_SRC, os.path.join(cd, "breaker.go"): vb}}, fh)
    out = os.path.join(BUILD, "c20_core.test")
    rc, txt = sh(["go", "test", "-c", "-vet=off", "-tags", "verif verif_overlay", "-overlay", ov, "-o", out,
                  "github.com/Comcast/rulio/core"], cwd=harness_dir(), env=GOENV, timeout=900)
    return (out if rc == 0 else None), txt


def run_whitebox(exe, cases, jobs=None):
    if not cases:
        return []
    jobs = max(1, min(jobs or NPROC, (len(cases) + 99) // 100))
    chunks = [cases[i::jobs] for i in range(jobs)]

    def one(ch):
        d = tempfile.mkdtemp(prefix="c20wb", dir=BUILD)
        try:
            inp, outp = os.path.join(d, "in.jsonl"), os.path.join(d, "out.jsonl")
            with open(inp, "w") as fh:
                for c in ch:
                    fh.write(json.dumps(c, separators=(",", ":")) + "\n")
            env = dict(os.environ, VERIF_C20_IN=inp, VERIF_C20_OUT=outp)
            p = subprocess.run([exe, "-test.run", "^TestVerifC20$", "-test.timeout", "300s"], env=env, cwd=d,
                               stdout=subprocess.PIPE, stderr=subprocess.STDOUT, text=True, timeout=400)
            res = []
            if os.path.exists(outp):
                for l in open(outp):
                    if l.strip():
                        try:
                            res.append(json.loads(l))
                        except Exception:
                            res.append({"err": "badjson"})
            while len(res) < len(ch):
                res.append({"err": "crash", "log": p.stdout[-400:]})
            return res
        finally:
            shutil.rmtree(d, ignore_errors=True)

    with ThreadPoolExecutor(max_workers=jobs) as ex:
        outs = list(ex.map(one, chunks))
    res = [None] * len(cases)
    for ci, out in enumerate(outs):
        for j, r in enumerate(out):
            res[ci + j * jobs] = r
    return res


# ------------------------------------------------------------------------------------------------ helpers

def model_seq(mdl, cases):
    return run_cases(mdl, [dict(c, kind="c20." + c["kind"]) if not c["kind"].startswith("c20.") else c for c in cases])


def window_violation(before, after, closed, limit, W):
    """sound check of the rate clause on wall-clock observations: limit+1 admissions whose whole [before, after] brackets fit
    into one window of length W. Returns the indices or None."""
    adm = [(b, a, i) for i, (b, a, c) in enumerate(zip(before, after, closed)) if c]
    adm.sort()
    for k, (b0, _, _) in enumerate(adm):
        inside = [i for (b, a, i) in adm[k:] if a < b0 + W]
        if len(inside) > limit:
            return inside
    return None


def seq_times(c):
    """clock readings (ns from the start of the script) of a breaker_seq case"""
    if "times" in c:
        return c["times"]
    out, t = [], 0
    for g in c["gaps"]:
        t += g
        out.append(t)
    return out


def describe_seq(c, k=None):
    """one line naming the arrival pattern of a breaker_seq case (for VIOLATION lines)"""
    ts = seq_times(c)
    ops = c.get("ops") or ["do"] * len(ts)
    gaps = [b - a for a, b in zip(ts, ts[1:])]
    res = c["interval"] // G.TICKS
    polls = sum(1 for o in ops if o != "do")
    txt = "limit %d per %d ns (tick %d ns), %d arrivals (%d Status/Summary polls) over %d ns" % (c["limit"], c["interval"], res, len(ts), polls, ts[-1] - ts[0] if ts else 0)
    if gaps:
        txt += ", gaps min/median/max %d/%d/%d ns" % (min(gaps), sorted(gaps)[len(gaps) // 2], max(gaps))
    if k is not None and k < len(ts):
        txt += "; arrival %d at t=%d ns" % (k, ts[k])
    return txt


def model_cap_ops(ops):
    """translate a real history into model ops: a property fact has its own id and is removed with its target"""
    out, idx = [], []
    props = set()
    for o in ops:
        if o["op"] == "setProp":
            pid = "!%s.p" % o["id"]
            props.add(pid)
            out.append({"op": "setProp", "id": pid, "v": o["v"]})
        elif o["op"] == "rem":
            pid = "!%s.p" % o["id"]
            if pid in props:
                out.append({"op": "rem", "id": pid, "v": ""})
            out.append(dict(o, v=""))
        else:
            out.append(o)
        idx.append(len(out) - 1)
    return out, idx


# ------------------------------------------------------------------------------------------------ main

def nerr(r):
    """error kind of a result: 'new' = NewOutboundBreaker refused the arguments"""
    e = r.get("err") if isinstance(r, dict) else None
    return e.split(":")[0] if isinstance(e, str) else e


def replay(path):
    """./check C20 --replay <file>: re-run the recorded case on the real code and on the model, print both"""
    obj = json.load(open(path))
    rep = obj.get("replay", {})
    c = rep.get("case")
    if not c:
        log("replay file has no input (%s): %s" % (path, obj.get("what", "")[:300]))
        sys.exit(1)
    extract()
    drv, _ = build_harness()
    mdl, _ = model_driver()
    wb, _ = build_whitebox()
    if c["kind"] in ("slide", "breaker_seq"):
        i = run_whitebox(wb, [c])[0]
        m = run_cases(mdl, [dict(c, kind="c20." + c["kind"])])[0]
        same = nerr(i) == nerr(m) and all(i.get(k) == m.get(k) for k in ("closed", "counts", "updated") if k in i or k in m)
    else:
        i = run_cases(drv, [c])[0]
        m = run_cases(mdl, [c])[0] if c["kind"] in ("c20.throttle", "c20.submit_loop", "c20.capacity", "c20.breaker_new") else {}
        same = None
    log("what : " + obj.get("what", "")[:500])
    log("case : " + canon(c)[:1500])
    log("impl : " + canon(i)[:1500])
    log("model: " + canon(m)[:1500])
    if same is not None:
        log("impl and model %s" % ("agree" if same else "DIFFER"))
    sys.exit(0 if same in (None, True) else 1)


def main():
    if "--replay" in sys.argv:
        replay(sys.argv[sys.argv.index("--replay") + 1])
    ck = Check("C20")
    ck.cov["trusted_base"] = TRUSTED_BASE + [
        "extractor harness/cmd/extract_c20 (go/ast, ~500 lines): the generated RulioModel/Gen/C20.lean is what the theorems are about",
        "white-box binary: core/breaker.go is compiled with the single textual substitution time.Now() -> c20Now() (virtual clock of harness/overlay/c20_core_test.go)",
        "monotone clock: time.Now() readings taken under the breaker's mutex are non-decreasing (Go monotonic clock)",
        "sync.Mutex gives mutual exclusion (the interleaving model takes a locked section as one atomic step)",
    ]
    ck.cov["checker_cmd"] = "extract_c20 /repo lean/RulioModel/Gen/C20.lean && lake build Props.C20 && lake env lean .audit/Audit_C20.lean (#print axioms)"
    n_scale = 12 if ck.thorough else 1
    # at most three replay files per kind of failure (the counts go into the evidence)
    _viol, seen = ck.violation, {}
    def limited(what, obj, tag="", no_input=False):
        seen[tag] = seen.get(tag, 0) + 1
        if seen[tag] <= 3:
            return _viol(what, obj, tag, no_input)
    ck.violation = limited
    rng = ck.rng
    dist = {}

    # (1) extraction tie
    ok, xtxt = extract()
    tie_broken = None if ok else xtxt
    ck.cov["extracted"] = xtxt[-300:]
    if not ok:
        log("note: extraction failed (broken tie): " + xtxt[-400:])
        # the model then keeps the committed definitions (lean/GenBaseline), not whatever an earlier run left behind
        base = os.path.join(LEAN, "GenBaseline", "C20.lean.txt")
        if os.path.exists(base) and open(base).read() != (open(GEN_LEAN).read() if os.path.exists(GEN_LEAN) else ""):
            shutil.copyfile(base, GEN_LEAN)

    # (2) proofs
    pr = prove("C20", leanchecker=ck.thorough)
    ck.add_proof(pr)
    proof_broken = bool(pr["failed"])

    # (3) builds
    drv, txt = build_harness()
    if not drv:
        ck.violation("harness does not build against /repo: " + txt[-800:], {"build_log": txt[-3000:]}, tag="build", no_input=True)
        ck.finish()
    mdl, mtxt = model_driver()
    if not mdl:
        what = "model driver does not build (the extracted definitions changed shape?): " + mtxt[-800:]
        ck.violation(what, {"build_log": mtxt[-3000:], "extract": xtxt}, tag="build", no_input=True)
        ck.finish()
    wb, wtxt = build_whitebox()
    if not wb:
        ck.violation("white-box test binary does not build against /repo/core: " + wtxt[-800:], {"build_log": wtxt[-3000:]}, tag="build", no_input=True)
        ck.finish()

    listed = known_findings("C20")
    repaired = fixed_finding_ids("C20")
    former_ids = set(f["id"] for f in FORMER)
    # tolerated: listed and not repaired (with no entry at all for C20 in the file: the remaining PROPOSED ones)
    kf = [f for f in (listed or PROPOSED) if f["id"] not in repaired]
    known_classes = set(f["class"] for f in kf)
    # witnesses of the former findings that are no longer tolerated: ordinary cases that have to behave
    former_strict = [f for f in FORMER if f["id"] not in set(k["id"] for k in kf)]
    known_hits = {}
    ck.cov["tolerated_classes"] = sorted(known_classes)
    ck.cov["repaired_not_tolerated"] = sorted(f["id"] for f in former_strict)

    # ------------------------------------------------------------------ (4a) slide with explicit times, white box
    cases = [G.slide_case(rng) for _ in range(1500 * n_scale)]
    corpus = os.path.join(VERIF, "corpus", "C20.jsonl")
    corpus_cases = [json.loads(l) for l in open(corpus)] if os.path.exists(corpus) else []
    cases = [c for c in corpus_cases if c.get("kind") == "slide"] + cases
    impl = run_whitebox(wb, cases)
    model = model_seq(mdl, cases)
    bad = refused_new = 0
    for c, i, m in zip(cases, impl, model):
        ck.count(c, nontrivial=any(c["counts"]))
        if "err" in i or "err" in m:
            if nerr(i) == nerr(m) == "new":
                refused_new += 1
                continue
            if nerr(i) == nerr(m) == "divzero" and "breaker-divzero" in known_classes:
                continue
            bad += 1
            if bad <= 3:
                if nerr(i) == "divzero":
                    what = "NewOutboundBreaker(1, %d ns) was accepted and slide() panics: integer divide by zero (interval below breakerTicks ns)" % c["interval"]
                else:
                    what = "slide: real code and model disagree (error): impl=%s model=%s" % (canon(i)[:200], canon(m)[:200])
                ck.violation(what, {"case": c, "impl": i, "model": m}, tag="slide")
            continue
        if i["counts"] != m["counts"] or i["updated"] != m["updated"]:
            bad += 1
            if bad <= 3:
                ck.violation("OutboundBreaker.slide differs from the model (interval %d ns, %d ns after `updated`): counts impl=%s model=%s, updated (ns after the old value) impl=%s model=%s"
                             % (c["interval"], c["gap"], i["counts"], m["counts"], i["updated"], m["updated"]),
                             {"case": c, "impl": i, "model": m}, tag="slide")
    dist["slide_cases"] = len(cases)
    dist["slide_disagree"] = bad
    dist["slide_interval_refused"] = refused_new
    ck.sample(cases[0])

    # ------------------------------------------------------------------ (4b) the real Do()/Status()/Summary() on a virtual clock
    wit = [dict(f["witness"], pattern="witness:" + f["id"]) for f in former_strict if f["witness"]["kind"] == "breaker_seq"]
    cases = wit + [c for c in corpus_cases if c.get("kind") == "breaker_seq"] + [G.breaker_seq_case(rng, ck.thorough) for _ in range(1500 * n_scale)]
    impl = run_whitebox(wb, cases)
    mcases = [dict({k: v for k, v in c.items() if k != "pattern"}, kind="c20.breaker_seq") for c in cases]
    model = run_cases(mdl, mcases)
    pat = {}
    bad = wbad = 0
    rec_miss = strict_miss = 0
    for c, i, m, mc in zip(cases, impl, model, mcases):
        ck.count(c)
        pn = c.get("pattern", "corpus").split("+")[0]
        pat[pn] = pat.get(pn, 0) + 1
        if "err" in i or "err" in m:
            if nerr(i) == nerr(m):
                continue
            bad += 1
            if bad <= 3:
                ck.violation("OutboundBreaker.Do: real code and model disagree: impl=%s model=%s (%s)" % (canon(i)[:300], canon(m)[:300], describe_seq(c)),
                             {"case": c, "impl": i, "model": m}, tag="do")
            continue
        # spec, rate clause (zero start only): the model follows the extracted comparisons, so a changed source can make
        # impl = model and both break the bound; the concrete sequence is then the failing input
        spec_bad = (not m["spec_window_ok"]) or m["spec_over_admits"]
        if spec_bad and i["closed"] == m["closed"]:
            wbad += 1
            if wbad <= 3:
                k = (m["spec_over_admits"] or [0])[0]
                ck.violation(("%sOutboundBreaker admitted more than limit=%d calls within one window of %d ns (real Do(), exact clock readings; arrival %d was admitted with %d admissions already inside the window): %s"
                              % ("" if proof_broken else "INTERNAL (the theorem breaker_window_counts is proved about this model): ", c["limit"], m["W"], k, c["limit"], describe_seq(c, k))),
                             {"case": c, "impl": i, "spec_over_admits": m["spec_over_admits"]}, tag="window")
            continue
        if i["closed"] != m["closed"] or i["counts"] != m["counts"] or i["updated"] != m["updated"]:
            bad += 1
            if bad <= 3:
                k = next((j for j in range(len(m["closed"])) if j >= len(i["closed"]) or i["closed"][j] != m["closed"][j] or i["counts"][j] != m["counts"][j]
                          or i["updated"][j] != m["updated"][j]), 0)
                ck.violation("OutboundBreaker differs from the model at arrival %d of %d (exact clock readings): impl closed=%s counts=%s updated=%s, model closed=%s counts=%s updated=%s; %s"
                             % (k, len(m["closed"]), i["closed"][k:k + 1], i["counts"][k:k + 1], i["updated"][k:k + 1], m["closed"][k:k + 1], m["counts"][k:k + 1], m["updated"][k:k + 1], describe_seq(c, k)),
                             {"case": c, "impl": i, "model": m, "first_difference": k}, tag="do")
            continue
        strict_miss += 1 if m["spec_strict_misses"] else 0
        if m["spec_recovery_misses"]:
            # impl = model ≠ spec (recovery clause: theorems breaker_recovers / breaker_recovers_graded)
            rec_miss += 1
            if "breaker-recovery" in known_classes:
                known_hits.setdefault("breaker-recovery", mc)
            else:
                k = m["spec_recovery_misses"][0]
                ts = seq_times(c)
                adm = [ts[j] for j in range(k) if i["closed"][j] and (c.get("ops") or ["do"] * len(ts))[j] == "do"]
                ck.violation(("%sOutboundBreaker does not recover: the call at t=%d ns is refused although the last admission was at t=%s ns, %s ns earlier (window %d ns; %d of the %d arrivals are refused like that): %s"
                              % ("" if proof_broken else "INTERNAL (the theorems breaker_recovers/_graded are proved about this model): ",
                                 ts[k], adm[-1] if adm else "-", ts[k] - adm[-1] if adm else "-", m["W"], len(m["spec_recovery_misses"]), len(ts), describe_seq(c, k))),
                             {"case": c, "impl": i, "refused_although_recovered": m["spec_recovery_misses"]}, tag="recovery")
    dist["do_cases"] = len(cases)
    dist["do_patterns"] = pat
    dist["do_disagree"] = bad
    dist["do_window_bound_broken"] = wbad
    dist["do_recovery_clause_missed"] = rec_miss
    dist["do_cases_where_exact_window_reading_would_admit_earlier"] = strict_miss
    ck.sample({k: (cases[-1][k] if k != "times" else cases[-1][k][:12]) for k in ("limit", "interval", "times", "pattern")})

    # ------------------------------------------------------------------ (4b') NewOutboundBreaker / Adjust: what is refused
    tiny = [{"kind": "c20.breaker_new", "limit": 1, "interval": f["witness"]["interval_ns"], "adjust": False, "pattern": "witness:" + f["id"]}
            for f in former_strict if f["witness"]["kind"] == "c20.breaker_tiny"]
    cases = tiny + [c for c in corpus_cases if c.get("kind") == "c20.breaker_new"] + \
        [{"kind": "c20.breaker_new", "limit": 1, "interval": iv, "adjust": adj} for iv in (0, 1, 19, 20, 21, -1) for adj in (False, True)] + \
        [G.new_case(rng) for _ in range(150 * n_scale)]
    impl = run_cases(drv, cases)
    model = run_cases(mdl, [{k: v for k, v in c.items() if k != "pattern"} for c in cases])
    bad = nrej = 0
    for c, i, m in zip(cases, impl, model):
        ck.count(c)
        nrej += 1 if m.get("rejected") else 0
        what = None
        if "err" in i or "err" in m:
            what = "error: impl=%s model=%s" % (canon(i)[:200], canon(m)[:200])
        elif i.get("do") in ("divzero", "panic"):
            if not ("breaker-divzero" in known_classes and m.get("do") == i.get("do")):
                what = "%s(limit %d, interval %d ns) is accepted and the next Do() panics: %s" % ("Adjust" if c["adjust"] else "NewOutboundBreaker", c["limit"], c["interval"], i.get("panic"))
        elif i["rejected"] != m["rejected"]:
            what = "%s(limit %d, interval %d ns): real code %s, model %s" % ("Adjust" if c["adjust"] else "NewOutboundBreaker", c["limit"], c["interval"],
                                                                              "refuses" if i["rejected"] else "accepts", "refuses" if m["rejected"] else "accepts")
        elif c["adjust"] and i["rejected"] and not (i.get("first") is True and i.get("second") is False):
            what = "a refused Adjust(limit %d, interval %d ns) changed the breaker (1 per hour before: first Do %s, second Do %s)" % (c["limit"], c["interval"], i.get("first"), i.get("second"))
        elif not i["rejected"] and i.get("do") != m.get("do"):
            what = "Do() after %s(limit %d, interval %d ns): impl %s, model %s" % ("Adjust" if c["adjust"] else "NewOutboundBreaker", c["limit"], c["interval"], i.get("do"), m.get("do"))
        if what:
            bad += 1
            ck.violation("OutboundBreaker construction: " + what, {"case": c, "impl": i, "model": m}, tag="new")
    dist["new_cases"] = len(cases)
    dist["new_refused"] = nrej
    dist["new_disagree"] = bad

    # ------------------------------------------------------------------ (4c) wall clock: one caller, and concurrent callers
    def timed_round(scripts):
        res = run_cases(drv, scripts, jobs=len(scripts))
        out = []
        for s, r in zip(scripts, res):
            if "err" in r:
                out.append(("err", r, None)); continue
            W, resn = None, s["interval_ns"] // G.TICKS
            W = resn * G.TICKS
            wv = window_violation(r["before"], r["after"], r["closed"], s["limit"], W)
            if wv:
                out.append(("window", r, wv)); continue
            if s["kind"] == "c20.breaker_timed":
                # the clock reading taken inside Do lies between the two brackets: run the model on the lower brackets, the upper
                # brackets and the midpoints; equal to one of them = explained, the three disagreeing = no verdict from this run
                mid = [(a + b) // 2 for a, b in zip(r["before"], r["after"])]
                ms = run_cases(mdl, [{"kind": "c20.breaker_seq", "limit": s["limit"], "interval": s["interval_ns"], "times": ts} for ts in (r["before"], mid, r["after"])])
                cl = [m.get("closed") for m in ms]
                if r["closed"] in cl:
                    out.append(("ok", r, None))
                elif cl[0] != cl[1] or cl[1] != cl[2]:
                    out.append(("ambiguous", r, None))
                else:
                    out.append(("differs", r, ms[1]))
            else:
                span = max(r["after"]) - min(r["before"])
                n_adm = sum(r["closed"])
                if r.get("ran") != n_adm:
                    out.append(("ran", r, None))
                elif span < resn and n_adm != min(len(r["closed"]), s["limit"]):
                    out.append(("burstcount", r, None))
                else:
                    out.append(("ok", r, None))
        return out

    scripts = [G.timed_script(rng) for _ in range(20 * (3 if ck.thorough else 1))] + [G.conc_script(rng) for _ in range(8 * (3 if ck.thorough else 1))]
    outs = timed_round(scripts)
    tstat = {}
    for s, (st, r, extra) in zip(scripts, outs):
        ck.count(s)
        if st in ("ok",):
            tstat[st] = tstat.get(st, 0) + 1
            continue
        # no verdict from one timing observation: re-run three times in isolation
        again = [timed_round([s])[0] for _ in range(3)]
        sts = [a[0] for a in again]
        if st == "ambiguous" or all(x in ("ok", "ambiguous") for x in sts):
            st2 = "ok-after-rerun" if "ok" in sts else "ambiguous"
            tstat[st2] = tstat.get(st2, 0) + 1
            continue
        if all(x == st for x in sts):
            what = {"window": "more than limit admissions certainly inside one window of the interval (wall clock, brackets included)",
                    "differs": "admission decisions differ from the model run on the recorded clock readings",
                    "ran": "number of executed functions differs from the number of admissions",
                    "burstcount": "a burst shorter than one tick admitted a number of calls different from min(calls, limit)",
                    "err": "breaker call failed"}.get(st, st)
            ck.violation("OutboundBreaker under the wall clock: " + what, {"case": s, "observed": r, "extra": extra, "reruns": sts}, tag="timed")
        else:
            tstat["flaky"] = tstat.get("flaky", 0) + 1
    dist["wall_clock"] = tstat
    ck.sample({k: scripts[0][k] for k in ("limit", "interval_ns", "sleeps_us", "pattern")})

    # ------------------------------------------------------------------ (4d) throttle bookkeeping, forced schedules
    cases = [dict(f["witness"], pattern="witness:" + f["id"]) for f in former_strict if f["witness"]["kind"] == "c20.throttle"] + \
        [c for c in corpus_cases if c.get("kind") == "c20.throttle"] + [G.throttle_case(rng) for _ in range(500 * n_scale)]
    impl = run_cases(drv, cases)
    model = run_cases(mdl, [{k: v for k, v in c.items() if k != "pattern"} for c in cases])
    bad = leaky = 0
    tpat = {}
    for c, i, m in zip(cases, impl, model):
        ck.count(c)
        tpat[c.get("pattern", "corpus").split(":")[0]] = tpat.get(c.get("pattern", "corpus").split(":")[0], 0) + 1
        if "err" in i or "err" in m or i["pcs"] != m["pcs"] or i["trace_pending"] != m["trace_pending"] or i["pending"] != m["pending"]:
            bad += 1
            if bad <= 3:
                ck.violation("Throttle.Submit bookkeeping differs from the model: impl=%s model=%s" % (canon(i)[:300], canon(m)[:300]),
                             {"case": c, "impl": i, "model": m}, tag="throttle")
            continue
        if i.get("max_runs", 0) > 1:
            ck.violation("Throttle.Submit ran a submitted function more than once", {"case": c, "impl": i}, tag="throttle-once")
            continue
        if m["max_waiting"] > c["pendingLimit"] + 1:
            ck.violation("more than pendingLimit+1 submissions waiting", {"case": c, "impl": i, "model": m}, tag="throttle-bound")
            continue
        # spec: pending = number waiting at every step
        if m["trace_pending"] != m["trace_waiting"]:
            if m["leaks"] > 0 and m["pending"] - m["waiting"] == m["leaks"] and "throttle-disabled-leak" in known_classes:
                leaky += 1
                known_hits.setdefault("throttle-disabled-leak", c)
            else:
                k = next(j for j in range(len(m["trace_pending"])) if m["trace_pending"][j] != m["trace_waiting"][j])
                ck.violation(("%sThrottle.pending does not match the submissions in flight: pendingLimit %d, %s, after event %d (%s) pending=%d with %d submission(s) waiting; at the end pending=%d with %d waiting, submitters %s (schedule: %s)"
                              % ("" if proof_broken else "INTERNAL (theorem throttle_pending_exact is proved about this model): ", c["pendingLimit"],
                                 "Disable(true) at the start" if c["disabled"] else "enabled at the start", k, canon(c["evs"][k]), i["trace_pending"][k], m["trace_waiting"][k],
                                 i["pending"], i["waiting"], i["pcs"], canon(c["evs"])[:400])),
                             {"case": c, "impl": i, "model": m}, tag="throttle-pending")
    dist["throttle_cases"] = len(cases)
    dist["throttle_disagree"] = bad
    dist["throttle_in_leak_class"] = leaky
    dist["throttle_patterns"] = tpat
    ck.sample(cases[-1])

    # real goroutines
    stress = []
    for _ in range(6 * n_scale):
        stress.append({"kind": "c20.throttle_stress", "attempts": rng.choice([3, 10, 40]), "pendingLimit": rng.choice([0, 1, 3, 8]),
                       "pause_us": rng.choice([100, 500]), "limit": rng.choice([1, 2, 5]), "interval_ns": rng.choice([2, 10, 20]) * 1_000_000,
                       "submitters": rng.choice([4, 12, 24]), "each": rng.choice([3, 8]), "hold_us": rng.choice([0, 100, 400]),
                       "toggle": len(stress) % 2 == 0})
    # two hammer runs: many submitters released at once, short holds, so that many Submit calls sit between "read pending" and
    # "increment pending" at the same time (a check-then-act window there shows up as pending > pendingLimit + 1)
    for pl in (2, 1):
        stress.append({"kind": "c20.throttle_stress", "attempts": 3, "pendingLimit": pl, "pause_us": 50, "limit": 2, "interval_ns": 1_000_000,
                       "submitters": 48, "each": 120 * n_scale, "hold_us": 30, "toggle": pl == 1})
    for s, r in zip(stress, run_cases(drv, stress, jobs=3)):
        ck.count(s)
        probs = []
        if "err" in r: probs.append("error " + str(r))
        else:
            if r["multi_run"]: probs.append("a submitted function ran more than once (%d submissions)" % r["multi_run"])
            if r["run_result_mismatch"]: probs.append("result does not match whether the function ran (%d)" % r["run_result_mismatch"])
            if r["max_pending"] > s["pendingLimit"] + 1: probs.append("Pending() reached %d > pendingLimit+1 = %d" % (r["max_pending"], s["pendingLimit"] + 1))
            if r["final_pending"] != 0: probs.append("pending is %d after all %d submissions returned (%d overflowed%s)" % (r["final_pending"], r["total"], r["overflow"], ", Disable toggled meanwhile" if s.get("toggle") else ""))
            if r["other"]: probs.append("unexpected Submit results")
        if probs:
            ck.violation("Throttle under real concurrency: " + "; ".join(probs), {"case": s, "impl": r}, tag="throttle-stress")
    dist["throttle_stress_runs"] = len(stress)

    # ------------------------------------------------------------------ (4e) the retry loop against real breakers
    cases = [c for c in corpus_cases if c.get("kind") == "c20.submit_loop"] + [G.submit_loop_case(rng) for _ in range(300 * n_scale)]
    for k, c in enumerate(cases):
        if k % 3 == 2: c["ferr"] = True      # the submitted function returns an error of its own (its result; the model's loop does not look at it)
    impl = run_cases(drv, cases)
    model = run_cases(mdl, cases)
    bad = unfaithful = 0
    for c, i, m in zip(cases, impl, model):
        ck.count(c)
        if "err" in i or "err" in m or i["runs"] != m["runs"] or i["worked"] != m["worked"] or i.get("pending") != 0:
            bad += 1
            if bad <= 3:
                ck.violation("Throttle.Submit retry loop differs from the model: impl=%s model=%s" % (canon(i)[:200], canon(m)[:200]),
                             {"case": c, "impl": i, "model": m}, tag="loop")
            continue
        spec_ok = i["runs"] <= 1 and ((i["runs"] == 1) == i["worked"])
        if not spec_ok:
            if not m["faithful"] and "submit-unfaithful-breaker" in known_classes:
                unfaithful += 1
                known_hits.setdefault("submit-unfaithful-breaker", c)
            else:
                ck.violation("Throttle.Submit ran the function %d times (worked=%s) with breakers that report attempted iff ran" % (i["runs"], i["worked"]),
                             {"case": c, "impl": i, "model": m}, tag="once")
    dist["loop_cases"] = len(cases)
    dist["loop_disagree"] = bad
    dist["loop_in_unfaithful_class"] = unfaithful

    # ------------------------------------------------------------------ (4f) capacity histories
    cases = [c for c in corpus_cases if c.get("kind") == "c20.capacity"] + [G.capacity_case(rng, with_props=(k % 4 == 3)) for k in range(600 * n_scale)]
    impl = run_cases(drv, cases)
    mcases, idxs = [], []
    for c in cases:
        ops, idx = model_cap_ops(c["ops"])
        mcases.append(dict(c, ops=ops)); idxs.append(idx)
    model = run_cases(mdl, mcases)
    bad = refused = over = ungated = 0
    for c, i, m, idx in zip(cases, impl, model, idxs):
        ck.count(c)
        if "err" in i or "err" in m:
            bad += 1
            if bad <= 3:
                ck.violation("capacity history failed: impl=%s model=%s" % (canon(i)[:200], canon(m)[:200]), {"case": c, "impl": i, "model": m}, tag="cap")
            continue
        mouts = [m["outs"][j] for j in idx]
        msizes = [m["sizes"][j] for j in idx]
        norm = lambda o, op: "ok" if (op["op"] == "rem" and o in ("ok", "notFound")) else o
        iouts = [norm(o, op) for o, op in zip(i["outs"], c["ops"])]
        mouts = [norm(o, op) for o, op in zip(mouts, c["ops"])]
        refused += iouts.count("capacity")
        if i["refused_changed"]:
            ck.violation("an add refused for capacity changed the storage", {"case": c, "impl": i}, tag="cap-noop")
            continue
        if iouts != mouts or i["sizes"] != msizes or sorted(i["ids"] or []) != sorted(m["ids"] or []):
            bad += 1
            if bad <= 3:
                k = next((j for j in range(len(iouts)) if iouts[j] != mouts[j] or i["sizes"][j] != msizes[j]), len(iouts) - 1)
                ck.violation("Location.%s differs from the capacity model at op %d (%s): impl %s size %s, model %s size %s" %
                             (c["ops"][k]["op"], k, c["ops"][k], iouts[k], i["sizes"][k], mouts[k], msizes[k]),
                             {"case": c, "impl": i, "model": m, "first_difference": k}, tag="cap")
            continue
        # spec: through the add operations the location never holds more than its maximum
        mx = max(c["max"], 0)
        if max(i["sizes"] + [0]) > mx:
            if m["public"]:
                ck.violation("a location holds %d facts+rules with MaxFacts=%d after add/remove operations only" % (max(i["sizes"]), c["max"]),
                             {"case": c, "impl": i}, tag="cap-spec")
            else:
                ungated += 1   # property facts (SetProp/EnableRule/SetParents) are not add operations; the model reproduces the growth
        over += 1 if max(i["sizes"] + [0]) == mx and mx > 0 else 0
    # (4f') the maximum in force is the one configured when the add arrives: a location living on the default control
    # (no control of its own), used once, then DefaultControl.MaxFacts changed in place (what /api/sys/loccontrol does)
    dcases = [{"kind": "c20.defaultcap", "first_max": a, "then_max": b, "n": n, "state": st}
              for (a, b, n) in ((50, 4, 10), (3, 8, 12), (1000, 2, 5), (6, 6, 9)) for st in ("indexed", "linear")]
    dimpl = run_cases(drv, dcases, jobs=4, per_chunk=1)
    dmodel = run_cases(mdl, [{"kind": "c20.capacity", "max": c["then_max"], "state": c["state"],
                              "ops": model_cap_ops([{"op": "addFact", "id": "f0", "v": "0"}] +
                                                   [{"op": "addRule" if k % 2 == 0 else "addFact", "id": "%s%d" % ("r" if k % 2 == 0 else "f", k), "v": "1"} for k in range(1, c["n"] + 1)])[0]}
                             for c in dcases])
    for c, i, m in zip(dcases, dimpl, dmodel):
        ck.count(c)
        if "err" in i or "err" in m or i.get("crash"):
            ck.violation("default-control capacity case failed: impl=%s model=%s" % (canon(i)[:200], canon(m)[:200]), {"case": c, "impl": i, "model": m}, tag="defaultcap")
            continue
        want_size = m["sizes"][-1]
        want_ref = m["outs"].count("capacity")
        if i["size"] != want_size or i["refused"] != want_ref or i["other"]:
            ck.violation("a location on the default control, used once under MaxFacts=%d, then DefaultControl.MaxFacts set to %d in place: %d further adds end with %d facts and %d refusals; the capacity model under the maximum in force (%d) says %d facts and %d refusals"
                         % (c["first_max"], c["then_max"], c["n"], i["size"], i["refused"], c["then_max"], want_size, want_ref),
                         {"case": c, "impl": i, "model": {"size": want_size, "refused": want_ref}}, tag="defaultcap")
    dist["capacity_default_control_cases"] = len(dcases)
    dist["capacity_histories"] = len(cases)
    dist["capacity_disagree"] = bad
    dist["capacity_refusals_seen"] = refused
    dist["capacity_histories_reaching_max"] = over
    dist["capacity_histories_over_max_via_property_facts"] = ungated
    ck.sample(cases[-1])
    if ungated:
        ck.note("observation (not an add operation, so outside the clause): SetProp/EnableRule(false)/SetParents write property facts without the capacity gate; %d generated histories end above MaxFacts that way (theorem capacity_ungated_witness)" % ungated)

    # HTTPRequest consults HTTPBreakers
    for lim, n, key in ((1, 4, "uri"), (3, 7, "uri"), (2, 6, "host"), (1, 3, "host")):
        hc = {"kind": "c20.http_breaker", "limit": lim, "n": n, "key": key}
        r = run_cases(drv, [hc])[0]
        ck.count({"http": lim, "n": n, "key": key})
        if r.get("hits") != lim or r.get("throttled") != n - lim or r.get("other"):
            ck.violation("HTTPRequest.Do with a breaker of %d registered for the %s: server saw %s requests, %s throttled with status 430" % (lim, key, r.get("hits"), r.get("throttled")),
                         {"case": hc, "impl": r}, tag="http")

    # ... and keeps consulting the registry: histories in which breakers are registered for the host or for one exact URI, replaced,
    # removed, and requests go to several URIs of the host. Specification: a request is guarded by the entry for its exact URI if there
    # is one, else by the entry for its host (the entries as they are NOW), and each breaker admits `limit` requests (interval 1 h).
    def http_hist(rng):
        paths = ["/p", "/q?x=1", ""]
        steps = []
        for _ in range(rng.randint(6, 16)):
            r = rng.random()
            if r < 0.25:
                steps.append({"t": "set", "key": rng.choice(["host", "host", "uri:" + rng.choice(paths)]), "limit": rng.randint(1, 3)})
            elif r < 0.33:
                steps.append({"t": "del", "key": rng.choice(["host", "uri:" + rng.choice(paths)])})
            else:
                steps.append({"t": "get", "path": rng.choice(paths)})
        return {"kind": "c20.http_hist", "steps": steps}
    def http_spec(steps):
        reg, outs = {}, []
        for st in steps:
            if st["t"] == "set":
                reg[st["key"]] = [st["limit"], 0]; outs.append("set")        # a fresh breaker object
            elif st["t"] == "del":
                reg.pop(st["key"], None); outs.append("del")
            else:
                b = reg.get("uri:" + st["path"]) or reg.get("host")
                if b is None: outs.append("ok")
                elif b[1] < b[0]: b[1] += 1; outs.append("ok")
                else: outs.append("throttled")
        return outs
    directed = [{"kind": "c20.http_hist", "steps": [{"t": "set", "key": "host", "limit": 3}, {"t": "get", "path": "/p"}, {"t": "set", "key": "host", "limit": 1},
                                                   {"t": "get", "path": "/p"}, {"t": "get", "path": "/p"}, {"t": "get", "path": "/q?x=1"}, {"t": "del", "key": "host"}, {"t": "get", "path": "/p"}]}]
    hh = directed + [http_hist(ck.rng) for _ in range(40 if not ck.thorough else 600)]
    for hc, r in zip(hh, run_cases(drv, hh)):
        ck.count(hc)
        want = http_spec(hc["steps"])
        got = (r or {}).get("outs")
        if got != want:
            k = next((k for k in range(min(len(got or []), len(want))) if got[k] != want[k]), 0)
            ck.violation("HTTPRequest.Do and the registry HTTPBreakers: step %d %s answered %s, the entry in force (exact URI, else host) says %s; steps: %s" % (
                k, canon(hc["steps"][k]), (got or [None] * (k + 1))[k], want[k], canon(hc["steps"][: k + 1])[:400]), {"case": hc, "impl": r, "spec": want}, tag="http-hist")

    # ------------------------------------------------------------------ (5) known findings: replay each witness on the real code
    for f in kf:
        w = f["witness"]
        cls = f["class"]
        if cls == "breaker-recovery":
            i = run_whitebox(wb, [w])[0]
            m = run_cases(mdl, [dict(w, kind="c20.breaker_seq")])[0]
            if "err" not in i and m.get("spec_recovery_misses") and i["closed"] == m["closed"]:
                ck.known_finding("%s: %s (replayed on the real Do(): %d of %d calls refused although the window holds fewer than limit admissions)" %
                                 (f["id"], f["what"], len(m["spec_recovery_misses"]), len(i["closed"])))
            else:
                ck.note("known finding %s did not reproduce (impl=%s)" % (f["id"], canon(i)[:200]))
        elif cls == "breaker-divzero":
            i = run_cases(drv, [w])[0]
            if i.get("err") == "divzero":
                ck.known_finding("%s: %s" % (f["id"], f["what"]))
            else:
                ck.note("known finding %s did not reproduce (impl=%s)" % (f["id"], canon(i)[:200]))
        elif cls == "throttle-disabled-leak":
            i = run_cases(drv, [w])[0]
            if "err" not in i and i["pending"] > i["waiting"] and i["pcs"][-1] == "overflow":
                ck.known_finding("%s: %s (pending=%d with %d waiting; the last Submit overflowed)" % (f["id"], f["what"], i["pending"], i["waiting"]))
            else:
                ck.note("known finding %s did not reproduce (impl=%s)" % (f["id"], canon(i)[:200]))
        elif cls == "submit-unfaithful-breaker":
            i = run_cases(drv, [w])[0]
            if i.get("runs", 0) > 1:
                ck.known_finding("%s: %s (%d runs for %d attempts, result %s)" % (f["id"], f["what"], i["runs"], w["attempts"], i.get("result")))
            else:
                ck.note("known finding %s did not reproduce (impl=%s)" % (f["id"], canon(i)[:200]))
        elif cls == "capacity-race":
            pass  # handled below
    # wall clock, recovery while polled faster than a tick: limit 1 per 200 ms (tick 10 ms) polled every 2 ms for 0.5 s. Every poll
    # later than interval + one tick + 15 ms of scheduling slack after the admission must find the breaker closed again at least
    # once (theorem breaker_recovery_bound); an apparent failure is re-run three times
    def fast_poll_round():
        s_ = {"kind": "c20.breaker_timed", "limit": 1, "interval_ns": 200_000_000, "sleeps_us": [0] + [2000] * 250}
        r_ = run_cases(drv, [s_])[0]
        if "err" in r_:
            return s_, r_, None
        late = [j for j in range(1, len(r_["closed"])) if r_["before"][j] > r_["after"][0] + 225_000_000]
        return s_, r_, {"polls": len(r_["closed"]), "polls_later_than_interval_plus_25ms": len(late), "admitted_again": sum(r_["closed"][1:]),
                        "first_readmission_ms": next((r_["before"][j] // 1_000_000 for j in range(1, len(r_["closed"])) if r_["closed"][j]), None),
                        "stuck": bool(late) and not any(r_["closed"][1:late[-1] + 1])}
    s_, r_, fp = fast_poll_round()
    ck.count(s_)
    dist["wall_clock_fast_poll"] = fp
    if fp and fp["stuck"]:
        if "breaker-recovery" in known_classes:
            log("note: wall-clock replay: polled every 2 ms, a 1/200 ms breaker refused all %d polls later than interval + 25 ms after its admission" % fp["polls_later_than_interval_plus_25ms"])
        else:
            again = [fast_poll_round()[2] for _ in range(3)]
            if all(a and a["stuck"] for a in again):
                ck.violation("OutboundBreaker under the wall clock never recovers while polled: limit 1 per 200 ms, one admission, then polled every 2 ms (faster than the 10 ms tick) for %d ms: all %d polls refused, %d of them later than interval + 25 ms after the admission"
                             % (r_["after"][-1] // 1_000_000, fp["polls"] - 1, fp["polls_later_than_interval_plus_25ms"]),
                             {"case": s_, "observed": {k: r_[k][:60] for k in ("before", "after", "closed")}, "reruns": again}, tag="timed-recovery")

    # rounding of the window (theorem breaker_window_rounding_witness): cosmetic, reported as a note
    r = run_whitebox(wb, [{"kind": "slide", "interval": 39, "counts": [1] + [0] * 19, "gap": 20}])[0]
    if r.get("counts") == [0] * 20:
        ck.note("observation: the enforced window is 20*floor(interval/20) ns, up to 19 ns shorter than the interval (interval 39 ns: an admission is forgotten after 20 ns)")

    # the check-then-add race (scheduling dependent: up to 40 attempts, both states)
    for f in [f for f in kf if f["class"] == "capacity-race"]:
        race_seen = None
        for rep in range(40 if not ck.thorough else 400):
            w = dict(f["witness"], state=("linear" if rep % 2 else "indexed"))
            r = run_cases(drv, [w])[0]
            if r.get("size", 0) > w["max"]:
                race_seen = (w, r, rep + 1)
                break
        dist["capacity_race_reps"] = rep + 1
        if race_seen:
            ck.known_finding("%s: %s (replayed: %d facts with MaxFacts=%d after %d concurrent AddFact calls on a location holding %d, attempt %d)" %
                             (f["id"], f["what"], race_seen[1]["size"], race_seen[0]["max"], race_seen[0]["adders"], race_seen[0]["prefill"], race_seen[2]))
        else:
            ck.note("known finding %s did not reproduce in %d attempts (scheduling dependent; theorem capacity_race_witness shows the schedule)" % (f["id"], rep + 1))

    # ... repaired (the capacity test and the addition it admits are one step under Location.admission): the former witness, with its
    # spin barrier, many times, both states, more adders than free slots -- the location never holds more than MaxFacts
    if RACE["id"] in fixed_finding_ids("C20"):
        worst = None
        for rep in range(40 if not ck.thorough else 400):
            w = dict(RACE["witness"], state=("linear" if rep % 2 else "indexed"), adders=8 + 4 * (rep % 3), prefill=9 - (rep % 2))
            r = run_cases(drv, [w])[0]
            ck.count(dict(w, rep=rep))
            if not isinstance(r, dict) or "size" not in r:
                ck.violation("the capacity scenario could not be run: %s" % canon(r)[:200], {"case": w, "impl": r}, tag="capacity-race"); break
            if r.get("size", 0) > w["max"]:
                worst = (w, r, rep + 1); break
        dist["capacity_race_reps"] = rep + 1
        if worst:
            ck.violation("%d facts with MaxFacts=%d after %d concurrent AddFact calls on a location holding %d (attempt %d, %s state): the capacity test and the addition are not one step" % (
                worst[1]["size"], worst[0]["max"], worst[0]["adders"], worst[0]["prefill"], worst[2], worst[0]["state"]), {"case": worst[0], "impl": worst[1]}, tag="capacity-race")

    for cls, c in known_hits.items():
        log("note: generated cases in known class %s (impl = model ≠ spec), e.g. %s" % (cls, canon(c)[:160]))

    # ------------------------------------------------------------------ (5b) the capacity gate on every public add path, rule actions included:
    # a rule action that calls Env.AddFact goes through Location.AddFact and must be refused at capacity like a direct add
    from lochist import js_of_tmpl, run_histories, compare_history
    acases = []
    arng = ck.rng
    for _ in range(120 if not ck.thorough else 2000):
        mx = arng.randint(2, 6)
        ops = [{"op": "setMaxFacts", "n": mx}]
        t = {"t": "addfact", "id": "made%d" % arng.randint(0, 2), "fact": {"by": "action"}}
        ops.append({"op": "addRule", "id": "r1", "rule": {"when": {"pattern": {"go": "?x"}}, "action": {"code": js_of_tmpl(t), "verif_tmpl": t}}})
        for k in range(arng.randint(0, mx + 1)):
            ops.append({"op": "addFact", "id": "f%d" % k, "fact": {"k": k}})
            if arng.random() < 0.2: ops.append({"op": "remFact", "id": "f%d" % arng.randint(0, k)})
        for _ in range(arng.randint(1, 3)):
            ops.append({"op": "event", "event": {"go": 1}})
            ops.append({"op": "size"})
        for o in ops: o["loc"] = "a"
        acases.append({"kind": "loc", "state": arng.choice(["indexed", "linear"]), "locs": ["a"], "ops": ops, "_max": mx})
    ai, am, amc = run_histories(acases, drv, mdl)
    for c, i, m in zip(amc, ai, am):
        ck.count(c)
        dist["capacity_action_cases"] = dist.get("capacity_action_cases", 0) + 1
        for k, op, io, mo, same in compare_history(c, i, m):
            if op is None: break
            if op["op"] == "size" and isinstance(io, dict) and isinstance(io.get("ok"), (int, float)) and io["ok"] > c["_max"]:
                ck.violation("the location holds %d facts with MaxFacts=%d after a rule action added a fact (%s state)" % (io["ok"], c["_max"], c["state"]),
                             {"case": {kk: (v if kk != "ops" else v[: k + 1]) for kk, v in c.items()}, "impl": io}, tag="capacity-action")
                break
            if not same:
                ck.violation("capacity history with a fact-adding rule action differs from the model at op %d (%s): impl=%s model=%s" % (k, op["op"], canon(io)[:250], canon(mo)[:250]),
                             {"case": {kk: (v if kk != "ops" else v[: k + 1]) for kk, v in c.items()}, "impl": io, "model": mo}, tag="capacity-action")
                break

    ck.cov["rule"] = ("breaker: 20-bucket states x gaps on/around every multiple of a tick (explicit-time slide, white box); sequences of Do/Status/Summary "
                      "through the real code on a virtual clock (exact clock readings; resolutions 1 ns .. 50 ms; patterns: burst, faster than a tick, whole ticks, "
                      "lossy, pauses around one window, boundaries, mixed, fill-then-poll faster / slower than a tick for more than a window, Status polls, sub-tick admissions; "
                      "fresh and arbitrary start states); NewOutboundBreaker/Adjust with limits and intervals around the refused region; wall-clock scripts and concurrent "
                      "callers checked against the model/the window bound with brackets, wall-clock recovery under 2 ms polling; throttle: forced schedules of <= 8 submitters "
                      "with Disable toggles around overflow, stress with real goroutines; retry loop against real Outbound/Simple/Combo breakers; "
                      "capacity: add/remove histories over <= 7 ids around MaxFacts in {-1..5}, both states; distinct by canonical JSON")
    dist["failures_by_kind"] = seen
    ck.cov["distribution"] = dist
    ck.cov["traces_validated_against_impl"] = ck.cov["evaluations"]

    # ------------------------------------------------------------------ (6) broken proof / broken tie and nothing found: search harder
    if (proof_broken or tie_broken) and ck.violations == 0:
        found = False
        rdrv, rtxt = build_harness(race=True)
        if rdrv:
            env = dict(os.environ, GORACE="halt_on_error=0 log_path=" + os.path.join(BUILD, "c20race"))
            for f_ in os.listdir(BUILD):
                if f_.startswith("c20race"):
                    os.remove(os.path.join(BUILD, f_))
            s = {"kind": "c20.breaker_conc", "limit": 3, "interval_ns": 20_000_000, "threads": 16, "calls": 200, "sleep_us": 0}
            s2 = {"kind": "c20.throttle_stress", "attempts": 5, "pendingLimit": 2, "pause_us": 50, "limit": 3, "interval_ns": 2_000_000,
                  "submitters": 16, "each": 20, "hold_us": 10}
            run_cases(rdrv, [s, s2], jobs=1, env=env)
            reports = [f_ for f_ in os.listdir(BUILD) if f_.startswith("c20race")]
            for f_ in reports:
                t = open(os.path.join(BUILD, f_)).read()
                if "DATA RACE" in t and "breaker.go" in t:
                    ck.violation("data race in core/breaker.go under concurrent callers (the lock no longer covers the section the model treats as atomic): "
                                 + " | ".join(l.strip() for l in t.split("\n") if "breaker.go" in l)[:400],
                                 {"case": s, "race_report": t[:3000], "theorems": pr.get("failed_theorems") or pr["failed"], "extract": tie_broken}, tag="race")
                    found = True
                    break
        if not found:
            ck.violation("proof obligations / source tie of C20 no longer check and no failing input was found: %s %s" %
                         (pr["failed"], tie_broken or ""), {"theorems": pr.get("failed_theorems") or pr["failed"], "extract": tie_broken,
                                                              "log": pr["log"][-3000:]}, tag="proof", no_input=True)
    ck.finish()


main()

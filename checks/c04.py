#!/usr/bin/env python3
"""C04 — an event runs each action exactly once per rule and binding result."""
import sys, os, json
sys.path.insert(0, os.path.join(os.path.dirname(os.path.abspath(__file__)), "..", "lib"))
from loccheck import *

def gen_case(rng, thorough):
    ops = []
    # facts the conditions join with: 0..3 bindings per condition
    nf = rng.randint(0, 4)
    for i in range(nf):
        ops.append({"op": "addFact", "loc": "a", "id": "f%d" % i, "fact": {"likes": rng.choice(["tacos", "chips", "beer"]), "who": rng.choice(["homer", "bart"])}})
    nr = rng.randint(0, 4)
    failing = False
    for i in range(nr):
        multi = rng.random() < 0.4
        when = {"who": "?w"} if not multi else {"tags": ["?t"], "who": "?w"}       # an array pattern with a variable: one `when` binding per element
        if rng.random() < 0.2: when = {"other": "?o"}
        if rng.random() < 0.15: when = dict(when, who=rng.choice(["?location", "?ruleId", "?event"]))   # a pattern may bind these names itself: they are then not overwritten
        r = {"when": {"pattern": when}}
        c = rng.random()
        if c < 0.45: r["condition"] = {"pattern": {"who": "?w", "likes": "?l"}}
        elif c < 0.55: r["condition"] = {"or": [{"pattern": {"likes": "?l"}}, {"pattern": {"who": "?w2"}}]}
        elif c < 0.62: r["condition"] = {"not": {"pattern": {"who": "?w"}}}
        elif c < 0.72:
            # two disjuncts that each return an object: one binding set per disjunct, each with only its own extension
            t1 = {"t": "bindvar", "k": "n", "x": "w" if "who" in when else "ruleId"}; t2 = {"t": "lit", "v": {"m": rng.choice([1, "z"])}}
            r["condition"] = {"or": [{"code": js_of_tmpl(t1), "verif_tmpl": t1}, {"code": js_of_tmpl(t2), "verif_tmpl": t2}]}
        elif c < 0.76: r["condition"] = {"code": "throw 'verifthrow'", "verif_tmpl": {"t": "throw"}}; failing = True
        k = rng.randint(1, 3)
        acts = []
        for _ in range(k):
            a = action(rng, fail_prob=0.15)
            if a["verif_tmpl"]["t"] == "throw": failing = True
            if "who" in when and isinstance(when["who"], str) and when["who"] == "?w" and rng.random() < 0.2:
                # an action that names a variable of its bindings (bound by `when`; the event may bind it to null)
                t = rng.choice([{"t": "bindvar", "k": "n", "x": "w"}, {"t": "eqvar", "x": "w", "v": rng.choice(["homer", "bart"])}])
                a = {"code": js_of_tmpl(t), "verif_tmpl": t}
            acts.append(a)
        if k == 1 and rng.random() < 0.5: r["action"] = acts[0]
        else: r["actions"] = acts
        if rng.random() < 0.25: r["policies"] = {"serialActions": True}
        if rng.random() < 0.15: r["id"] = rng.choice(["r0", "zz", "r%d" % ((i + 1) % 4)])     # an `id` inside the rule body is data: the rule is known by the id it is stored under
        ops.append({"op": "addRule", "loc": "a", "id": "r%d" % i, "rule": r})
        if rng.random() < 0.1: ops.append({"op": "enableRule", "loc": "a", "id": "r%d" % i, "enable": False})
    if rng.random() < 0.2:
        # a scheduled rule (no `when`) is evaluated through the event that names it, the way the cron service does it: every evaluation
        # starts from fresh, empty bindings (plus event/location/ruleId)
        sid = "s%d" % rng.randint(0, 1)
        sr = {"schedule": rng.choice(["* * * * * * 2099", "0 0 0 1 1 * 2098"]), "actions": [action(rng, fail_prob=0.0) for _ in range(rng.randint(1, 2))]}
        if rng.random() < 0.4: sr["condition"] = {"pattern": {"likes": "?l"}}
        ops.append({"op": "addRule", "loc": "a", "id": sid, "rule": sr})
        for _ in range(rng.randint(1, 2)):
            ops.append({"op": "event", "loc": "a", "event": {"trigger!": sid}})
    for _ in range(rng.randint(1, 3)):
        ev = {"who": rng.choice(["homer", "bart", "lisa", None])}
        if rng.random() < 0.6: ev["tags"] = rng.sample(["x", "y", "z"], rng.randint(1, 3))
        if rng.random() < 0.2: ev["other"] = 1
        ops.append({"op": "event", "loc": "a", "event": ev})
    return ops, failing

def tree_counts(t):
    rules = t.get("rules") or []
    acts = sum(len(c.get("acts") or []) for r in rules for c in r.get("conds") or [])
    okacts = sum(1 for r in rules for c in r.get("conds") or [] for a in c.get("acts") or [] if a.get("ok"))
    return len(rules), acts, okacts

def main():
    ck = Check("C04")
    if "--replay" in sys.argv:
        replay_main(ck, sys.argv[sys.argv.index("--replay") + 1])
    pr = proof_part(ck, "C04")
    # the walk stops at the first failed condition or failed serial action; which rules ran before that depends on Go's
    # map iteration order over the dispatched rules: such trees are compared up to the aborted part
    def order_dependent(c, k, op, mo, io):
        return op["op"] == "event" and isinstance(mo, dict) and mo.get("aborted") and isinstance(io, dict) and io.get("aborted")
    lr = LocRun(ck, [("doc:abort-order-dependent", order_dependent)]); lr.build()
    n = 700 if not ck.thorough else 15000
    gens = [gen_case(ck.rng, ck.thorough) for _ in range(n)]
    cases = [{"kind": "loc", "state": ck.rng.choice(["indexed", "linear"]), "locs": ["a"], "ops": o, "_failing": f} for o, f in gens]
    impl, model, mc = lr.run(cases, nontrivial=lambda c: sum(1 for o in c["ops"] if o["op"] == "addRule") >= 1)
    # the property directly on the real trees: values = values of complete action nodes; each (rule, when-binding) has one condition node;
    # every condition result binding carries event/location/ruleId; number of actions = bindings x |actions|
    dist = collections.Counter()
    for c, i in zip(mc, impl):
        outs = (i or {}).get("outs") or []
        nact = {o["id"]: len(o["rule"].get("actions") or [o["rule"].get("action")]) for o in c["ops"] if o["op"] == "addRule"}
        binds_builtin = {o["id"]: any(v in json.dumps(o["rule"].get("when")) for v in ("?location", "?ruleId", "?event")) for o in c["ops"] if o["op"] == "addRule"}
        for k, op in enumerate(c["ops"]):
            if op["op"] != "event" or k >= len(outs) or not isinstance(outs[k], dict): continue
            t = outs[k]
            nr, na, nok = tree_counts(t)
            dist["rules=%d" % min(nr, 4)] += 1; dist["actions=%s" % (na if na < 6 else "6+")] += 1
            rp = {"case": {kk: (v if kk != "ops" else v[: k + 1]) for kk, v in c.items()}, "impl": t}
            vals = multiset(t.get("values") or [])
            okvals = multiset([a.get("value") for r in t.get("rules") or [] for cn in r.get("conds") or [] for a in cn.get("acts") or [] if a.get("ok")])
            if vals != okvals:
                ck.violation("the values list differs from the values of the complete action nodes: values=%s nodes=%s" % (vals[:4], okvals[:4]), rp, tag="values")
            if t.get("aborted"): dist["aborted"] += 1; continue
            for r in t.get("rules") or []:
                if len(r.get("conds") or []) != len(r.get("bss") or []):
                    ck.violation("rule %s: %d when-bindings but %d condition nodes" % (r["id"], len(r.get("bss") or []), len(r.get("conds") or [])), rp, tag="conds")
                for cn in r.get("conds") or []:
                    bs = cn.get("bs") or {}
                    if not binds_builtin.get(r["id"]) and (bs.get("?ruleId") != r["id"] or bs.get("?location") != "a" or canon(sort_arrays(bs.get("?event"))) != canon(sort_arrays(op["event"]))):
                        ck.violation("rule %s: condition bindings lack event/location/ruleId: %s" % (r["id"], canon(bs)[:200]), rp, tag="env")
                    if nact.get(r["id"]) and len(cn.get("acts") or []) % nact[r["id"]] != 0:
                        ck.violation("rule %s has %d actions but its condition node carries %d action nodes" % (r["id"], nact[r["id"]], len(cn.get("acts") or [])), rp, tag="count")
    for c in cases[:2]:
        ck.sample({"state": c["state"], "ops": c["ops"][:6]})
    lr.finish_cov("rule sets of 0-4 rules with 1-3 actions each (template family: echo of the visible variables, literals, throw), conditions yielding 0-3 bindings (pattern joins, or, not, a failing code "
                  "term), multi-binding `when` matches through an array pattern with a variable, serialActions on/off, disabled rules; 1-3 events each; the whole work tree (rule nodes, condition nodes with "
                  "their bindings, action nodes with disposition and value, values list) is compared with the Lean model and checked against the counting property directly; trees whose walk was aborted "
                  "(failed condition / failed serial action) are compared only up to the abort because the visiting order of rules is Go's map order")
    ck.cov["distribution"]["trees"] = dict(dist)
    ck.cov["trusted_base"].append("otto for the action templates; the goroutine fan-out of concurrent actions is exercised, not modelled (see C12)")
    proof_verdict(ck, pr)
    ck.finish()

if __name__ == "__main__":
    main()

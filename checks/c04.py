#!/usr/bin/env python3
"""C04 — an event runs each action exactly once per rule and binding result."""
import sys, os, json
sys.path.insert(0, os.path.join(os.path.dirname(os.path.abspath(__file__)), "..", "lib"))
from loccheck import *

POST_STATS = collections.Counter()

# Proposed known finding (until it is in known_findings.json): SubstituteBindings ends with CoerceFakeFloats(x), which WRITES into every
# map of the substituted document -- and a variable bound to a map (`?event`) is substituted by reference, so the map written to is the
# event shared by all concurrently running actions of the rule (they read it: json.Marshal of the bindings, Copy in maybeCopyEvent).
RACE_ID = "C04-post-subvars-writes-shared-event"
PROPOSED = [
    {"property": "C04", "id": RACE_ID, "class": "crash: a rule without serialActions, one of whose actions has an HTTP endpoint, subvars, and a code that names a variable bound to a map (?event)",
     "what": "SubstituteBindings -> CoerceFakeFloats assigns to the keys of the event map (substituted by reference) while the other actions of the rule "
             "iterate over the same map (json.Marshal of the bindings / maybeCopyEvent): the Go runtime kills the process with 'fatal error: concurrent map iteration and map write' "
             "(or 'concurrent map writes' when two such actions run); expected: the event of a running rule is not written to",
     "witness": {"kind": "loc", "state": "linear", "locs": ["a"], "ops":
                 [{"op": "addRule", "loc": "a", "id": "r1", "rule": {"when": {"pattern": {"who": "?w"}}, "actions": [
                     {"endpoint": "http://verif.post/", "code": "{\"e\": \"?event\"}", "verif_tmpl": {"t": "post", "code": {"e": "?event"}, "subvars": True}},
                     {"endpoint": "http://verif.post/", "code": "{\"e\": \"?event\"}", "verif_tmpl": {"t": "post", "code": {"e": "?event"}, "subvars": True}},
                     {"code": "Env.bindings", "verif_tmpl": {"t": "echo"}}]}}] +
                 [{"op": "event", "loc": "a", "event": {"who": "homer", "a": 1, "b": 2, "c": 3, "d": {"e": 4}}}] * 40}},
]

def racy_case(c):
    """The class of RACE_ID: the history may kill the process (by chance of scheduling)."""
    for o in c["ops"]:
        if o["op"] != "addRule" or (o["rule"].get("policies") or {}).get("serialActions"): continue
        for a in rule_actions(o["rule"]):
            if is_post(a) and a.get("subvars") is not False and not a["verif_tmpl"].get("badjson") and "?event" in vars_of(a["verif_tmpl"]["code"]):
                return True
    return False

def post_template(rng, vars_):
    """A JSON template over the variables `vars_` (all start with `?`): exact-variable strings, constants, numbers, nested in
    arrays and maps. Returns (template, has_unbound, mixed)."""
    flags = {"unbound": False, "mixed": False}
    def leaf():
        r = rng.random()
        if r < 0.5: return rng.choice(vars_)
        if r < 0.58: flags["unbound"] = True; return rng.choice(["?zz", "?_u1", "?W"])     # a naked variable nothing binds
        if r < 0.60: flags["mixed"] = True; return rng.choice(["?w?", "??w", "?event!", "cost $1 ?w", "?w?l"])   # text mixed with variables in ways the model does not follow (a token right after another: the answer depends on Go's map order)
        if r < 0.66:
            # text mixed with variables (modelled: substMixed): every `?name` token that is a bound variable is replaced by the text of its
            # value, and only whole tokens are -- `?w` inside `?w2` or `?wx` is not the variable ?w
            vs = [v for v in vars_ if v != "?event"] or ["?w"]
            a, b = rng.choice(vs), rng.choice(vs)
            return rng.choice(["id-%s" % a, "%s/%s" % (a, b), "x %s." % a, "<%s2>" % a, "%s %sx %s_" % (a, a, b), "%s,%s;%s" % (a, b, a), "%s-2" % a])
        if r < 0.75: return rng.choice(["c", "tacos", "", "w", "no var here", "a.b-c"])
        if r < 0.9: return rng.choice([0, 1, 2, -7, 1000000])
        return rng.choice([True, False, None])
    def node(depth):
        r = rng.random()
        if depth == 0 or r < 0.35: return leaf()
        if r < 0.65: return [node(depth - 1) for _ in range(rng.randint(0, 3))]
        return {k: node(depth - 1) for k in rng.sample(["a", "b", "k", "who", "n1"], rng.randint(0, 3))}
    t = node(rng.randint(0, 3))
    return t, flags["unbound"], flags["mixed"]

def post_for(rng, vars_):
    """One action with an HTTP endpoint for a rule whose `when`/condition may bind `vars_`."""
    tmpl, unbound, mixed = post_template(rng, vars_ + ["?event", "?location", "?ruleId"])
    subvars = rng.choice([None, None, True, True, False])
    opts = rng.choice([None, None, {}, {"x": 1}, {"k": "v", "n": [1, 2]}])
    text = "not json" if rng.random() < 0.04 else None
    a = post_action(tmpl, subvars=subvars, opts=opts, text=text)
    POST_STATS["post_actions"] += 1
    if subvars is not False: POST_STATS["post_subvars"] += 1
    if opts is not None: POST_STATS["post_with_opts"] += 1
    if text is not None: POST_STATS["post_badjson"] += 1; mixed = False; unbound = False
    if unbound: POST_STATS["post_unbound"] += 1
    if mixed: POST_STATS["post_mixed"] += 1
    return a, (unbound or text is not None) and subvars is not False, mixed and subvars is not False and text is None

def vars_of(x):
    out = []
    def go(v):
        if isinstance(v, str) and v.startswith("?") and v not in out: out.append(v)
        elif isinstance(v, dict):
            for k, w in v.items(): go(k); go(w)
        elif isinstance(v, list):
            for w in v: go(w)
    go(x)
    return out

def gen_case(rng, thorough):
    ops = []
    # facts the conditions join with: 0..3 bindings per condition
    nf = rng.randint(0, 4)
    for i in range(nf):
        ops.append({"op": "addFact", "loc": "a", "id": "f%d" % i, "fact": {"likes": rng.choice(["tacos", "chips", "beer"]), "who": rng.choice(["homer", "bart"])}})
    nr = rng.randint(0, 4)
    failing = False
    mixed = False
    for i in range(nr):
        multi = rng.random() < 0.4
        when = {"who": "?w"} if not multi else {"tags": ["?t"], "who": "?w"}       # an array pattern with a variable: one `when` binding per element
        if rng.random() < 0.2: when = {"other": "?o"}
        if rng.random() < 0.15: when = dict(when, who=rng.choice(["?location", "?ruleId", "?event"]))   # a pattern may bind these names itself: they are then not overwritten
        r = {"when": {"pattern": when}}
        c = rng.random()
        if c < 0.45: r["condition"] = {"pattern": {"who": "?w", "likes": "?l"}}
        elif c < 0.55: r["condition"] = {"or": [{"pattern": {"likes": "?l"}}, {"pattern": {"who": "?w2"}}]}
        elif c < 0.62: r["condition"] = {"not": {"pattern": {"who": "?w"}}}
        elif c < 0.72:
            # two disjuncts that each return an object: one binding set per disjunct, each with only its own extension
            t1 = {"t": "bindvar", "k": "n", "x": "w" if "who" in when else "ruleId"}; t2 = {"t": "lit", "v": {"m": rng.choice([1, "z"])}}
            r["condition"] = {"or": [{"code": js_of_tmpl(t1), "verif_tmpl": t1}, {"code": js_of_tmpl(t2), "verif_tmpl": t2}]}
        elif c < 0.76: r["condition"] = {"code": "throw 'verifthrow'", "verif_tmpl": {"t": "throw"}}; failing = True
        k = rng.randint(1, 3)
        acts = []
        for _ in range(k):
            a = action(rng, fail_prob=0.15)
            if a["verif_tmpl"]["t"] == "throw": failing = True
            if "who" in when and isinstance(when["who"], str) and when["who"] == "?w" and rng.random() < 0.2:
                # an action that names a variable of its bindings (bound by `when`; the event may bind it to null)
                t = rng.choice([{"t": "bindvar", "k": "n", "x": "w"}, {"t": "eqvar", "x": "w", "v": rng.choice(["homer", "bart"])}])
                a = {"code": js_of_tmpl(t), "verif_tmpl": t}
            acts.append(a)
        if rng.random() < 0.2:
            # actions with an HTTP endpoint: the code is a JSON template over the variables `when` and the condition bind
            vs = [v for v in vars_of(when) + vars_of(r.get("condition", {}).get("pattern") or r.get("condition", {}).get("or") or {}) if v not in ("?location", "?ruleId", "?event")]
            if isinstance(r.get("condition", {}).get("or"), list) and any("code" in d for d in r["condition"]["or"]): vs += ["?n", "?m"]
            some = False
            for j in range(k):
                if rng.random() < 0.6 or (j == k - 1 and not some):
                    acts[j], may_fail, mx = post_for(rng, vs or ["?w"]); some = True
                    failing = failing or may_fail; mixed = mixed or mx
        if k == 1 and rng.random() < 0.5: r["action"] = acts[0]
        else: r["actions"] = acts
        if rng.random() < 0.25: r["policies"] = {"serialActions": True}
        if rng.random() < 0.15: r["id"] = rng.choice(["r0", "zz", "r%d" % ((i + 1) % 4)])     # an `id` inside the rule body is data: the rule is known by the id it is stored under
        ops.append({"op": "addRule", "loc": "a", "id": "r%d" % i, "rule": r})
        if rng.random() < 0.1: ops.append({"op": "enableRule", "loc": "a", "id": "r%d" % i, "enable": False})
    if rng.random() < 0.2:
        # a scheduled rule (no `when`) is evaluated through the event that names it, the way the cron service does it: every evaluation
        # starts from fresh, empty bindings (plus event/location/ruleId)
        sid = "s%d" % rng.randint(0, 1)
        sr = {"schedule": rng.choice(["* * * * * * 2099", "0 0 0 1 1 * 2098"]), "actions": [action(rng, fail_prob=0.0) for _ in range(rng.randint(1, 2))]}
        if rng.random() < 0.4: sr["condition"] = {"pattern": {"likes": "?l"}}
        if rng.random() < 0.2:
            j = rng.randrange(len(sr["actions"]))
            sr["actions"][j], may_fail, mx = post_for(rng, ["?l"]); failing = failing or may_fail; mixed = mixed or mx
        ops.append({"op": "addRule", "loc": "a", "id": sid, "rule": sr})
        for _ in range(rng.randint(1, 2)):
            ops.append({"op": "event", "loc": "a", "event": {"trigger!": sid}})
    for _ in range(rng.randint(1, 3)):
        ev = {"who": rng.choice(["homer", "bart", "lisa", None])}
        if rng.random() < 0.6: ev["tags"] = rng.sample(["x", "y", "z"], rng.randint(1, 3))
        if rng.random() < 0.2: ev["other"] = 1
        ops.append({"op": "event", "loc": "a", "event": ev})
    if any(is_post(a) for o in ops if o["op"] == "addRule" for a in rule_actions(o["rule"])):
        # DefaultControl sets UseDefaultVariableValue (an unbound variable is sent as "undefined"); a deployment may switch it off
        for o in ops:
            if o["op"] == "event" and rng.random() < 0.4: o["noDefaultVar"] = True
    return ops, failing, mixed

def rule_actions(r):
    return r.get("actions") or [r.get("action")]

def tree_counts(t):
    rules = t.get("rules") or []
    acts = sum(len(c.get("acts") or []) for r in rules for c in r.get("conds") or [])
    okacts = sum(1 for r in rules for c in r.get("conds") or [] for a in c.get("acts") or [] if a.get("ok"))
    return len(rules), acts, okacts

def main():
    ck = Check("C04")
    if "--replay" in sys.argv:
        replay_main(ck, sys.argv[sys.argv.index("--replay") + 1])
    pr = proof_part(ck, "C04")
    # the walk stops at the first failed condition or failed serial action; which rules ran before that depends on Go's
    # map iteration order over the dispatched rules: such trees are compared up to the aborted part
    def order_dependent(c, k, op, mo, io):
        return op["op"] == "event" and isinstance(mo, dict) and mo.get("aborted") and isinstance(io, dict) and io.get("aborted")
    lr = LocRun(ck, [("doc:abort-order-dependent", order_dependent)]); lr.build()
    n = 700 if not ck.thorough else 15000
    gens = [gen_case(ck.rng, ck.thorough) for _ in range(n)]
    allcases = [{"kind": "loc", "state": ck.rng.choice(["indexed", "linear"]), "locs": ["a"], "ops": o, "_failing": f, "_mixed": mx} for o, f, mx in gens]
    listed = {f["id"]: f for f in known_findings("C04")}
    kf = [listed.get(f["id"], f) for f in PROPOSED if f["id"] not in fixed_finding_ids("C04")]
    tolerate_race = any(f["id"] == RACE_ID for f in kf)
    # templates with a string that mixes text and variables are outside the model (the real answer depends on regexp details and on
    # Go's map order): such histories only have to be answered
    cases = [c for c in allcases if not c["_mixed"]]
    mixed_cases = [c for c in allcases if c["_mixed"]]
    POST_STATS["post_mixed_skipped"] = len(mixed_cases)
    for c, i in zip(mixed_cases, run_cases(lr.drv, mixed_cases)):
        outs = (i or {}).get("outs") if isinstance(i, dict) else None
        if tolerate_race and racy_case(c) and isinstance(i, dict) and i.get("err") == "crash" and "concurrent map" in str(i.get("stderr")):
            POST_STATS["known_race_crashes"] += 1
            continue
        bad = outs is None or len(outs) != len(c["ops"]) or any(not isinstance(o, dict) or o.get("err") in ("panic", "hang", "crashed") for o in outs)
        if not bad:
            bad = any(op["op"] == "event" and not isinstance(o.get("rules"), list) for op, o in zip(c["ops"], outs))
        if bad:
            ck.violation("a history with a post action whose code mixes text and variables is not answered: %s" % canon(i)[:300], {"case": c, "impl": i}, tag="mixed")
    racy_cases = [c for c in cases if tolerate_race and racy_case(c)]
    cases = [c for c in cases if not (tolerate_race and racy_case(c))]
    impl, model, mc = lr.run(cases, nontrivial=lambda c: sum(1 for o in c["ops"] if o["op"] == "addRule") >= 1)
    # histories in the class of the known finding RACE_ID: a run that dies with the runtime's 'concurrent map' error is that finding; every
    # run that survives is compared with the model like the others
    survived = []
    racy_reported = 0
    rimpl, rmodel, rmc = run_histories(racy_cases, lr.drv, lr.mdl)
    POST_STATS["histories_in_known_race_class"] = len(racy_cases)
    for c, i, m in zip(rmc, rimpl, rmodel):
        if isinstance(i, dict) and i.get("err") in ("crash", "hang", "skipped", "badjson"):
            if i.get("err") == "crash" and "concurrent map" in str(i.get("stderr")):
                POST_STATS["known_race_crashes"] += 1
                continue
            ck.violation("the real code %s on this history: %s" % (i.get("err"), str(i.get("stderr", ""))[-400:]), {"case": c, "impl": i}, tag="crash")
            continue
        ck.count({"s": c.get("state"), "ops": [{k: v for k, v in o.items() if k != "now"} for o in c["ops"]]})
        survived.append((c, i))
        for k, op, io, mo, same in compare_history(c, i, m):
            if op is None:
                ck.violation("driver failure: impl=%s model=%s" % (canon(io)[:300], canon(mo)[:300]), {"case": c, "impl": io, "model": mo}, tag="internal")
                break
            if not same:
                if not order_dependent(c, k, op, mo, io) and racy_reported < 3:
                    racy_reported += 1
                    ck.violation("correspondence broken at op %d (%s, %s state): impl=%s model=%s" % (k, op["op"], c.get("state"), canon_out(op, io)[1][:400], canon_out(op, mo)[1][:400]),
                                 lr.replay(c, k, io, mo), tag="corr")
                break
    # the property directly on the real trees: values = values of complete action nodes; each (rule, when-binding) has one condition node;
    # every condition result binding carries event/location/ruleId; number of actions = bindings x |actions|
    dist = collections.Counter()
    reported = collections.Counter()
    def post_violation(what, rp, tag):
        reported[tag] += 1
        if reported[tag] <= 3: ck.violation(what, rp, tag=tag)
    for c, i in list(zip(mc, impl)) + survived:
        outs = (i or {}).get("outs") or []
        nact = {o["id"]: len(o["rule"].get("actions") or [o["rule"].get("action")]) for o in c["ops"] if o["op"] == "addRule"}
        actsof = {o["id"]: rule_actions(o["rule"]) for o in c["ops"] if o["op"] == "addRule"}
        allposts = [a for acts in actsof.values() for a in acts if is_post(a)]
        binds_builtin = {o["id"]: any(v in json.dumps(o["rule"].get("when")) for v in ("?location", "?ruleId", "?event")) for o in c["ops"] if o["op"] == "addRule"}
        for k, op in enumerate(c["ops"]):
            if op["op"] != "event" or k >= len(outs) or not isinstance(outs[k], dict): continue
            t = outs[k]
            nr, na, nok = tree_counts(t)
            dist["rules=%d" % min(nr, 4)] += 1; dist["actions=%s" % (na if na < 6 else "6+")] += 1
            rp = {"case": {kk: (v if kk != "ops" else v[: k + 1]) for kk, v in c.items()}, "impl": t}
            vals = multiset(t.get("values") or [])
            okvals = multiset([a.get("value") for r in t.get("rules") or [] for cn in r.get("conds") or [] for a in cn.get("acts") or [] if a.get("ok")])
            if vals != okvals:
                ck.violation("the values list differs from the values of the complete action nodes: values=%s nodes=%s" % (vals[:4], okvals[:4]), rp, tag="values")
            # each post action exactly once: the recording server received as many POSTs during the event as the tree has completed
            # post action nodes (node i under a condition node belongs to action i mod |actions|), and every body is the body of
            # one of the post actions under the bindings it carries (exact, array order included)
            posts = t.get("posts") or []
            oknodes = failednodes = 0
            for r in t.get("rules") or []:
                acts = actsof.get(r["id"]) or []
                for cn in r.get("conds") or []:
                    for j, a in enumerate(cn.get("acts") or []):
                        if acts and is_post(acts[j % len(acts)]):
                            if a.get("ok"):
                                oknodes += 1
                                if a.get("value") != "posted":
                                    post_violation("rule %s: a completed post action has the value %s instead of the response body" % (r["id"], canon(a.get("value"))[:100]), rp, tag="postvalue")
                            elif not a.get("notrun"): failednodes += 1
            if allposts or posts:
                dist["events_with_post_rules"] += 1
                POST_STATS["posts_received"] += len(posts); POST_STATS["post_nodes_completed"] += oknodes; POST_STATS["post_nodes_failed"] += failednodes
                if op.get("noDefaultVar"): POST_STATS["events_noDefaultVar"] += 1
                if len(posts) != oknodes:
                    post_violation("%d POSTs were received during the event but the tree has %d completed post action nodes" % (len(posts), oknodes), rp, tag="postcount")
                for b in posts:
                    if not isinstance(b, dict) or not isinstance(b.get("bindings"), dict) or not any(
                            canon(post_body(a, b["bindings"], bool(op.get("noDefaultVar")))) == canon(b) for a in allposts):
                        post_violation("a POST body is not the body of any post action under the bindings it carries: %s" % canon(b)[:300], rp, tag="postbody")
                        break
            if t.get("aborted"): dist["aborted"] += 1; continue
            for r in t.get("rules") or []:
                if len(r.get("conds") or []) != len(r.get("bss") or []):
                    ck.violation("rule %s: %d when-bindings but %d condition nodes" % (r["id"], len(r.get("bss") or []), len(r.get("conds") or [])), rp, tag="conds")
                for cn in r.get("conds") or []:
                    bs = cn.get("bs") or {}
                    if not binds_builtin.get(r["id"]) and (bs.get("?ruleId") != r["id"] or bs.get("?location") != "a" or canon(sort_arrays(bs.get("?event"))) != canon(sort_arrays(op["event"]))):
                        ck.violation("rule %s: condition bindings lack event/location/ruleId: %s" % (r["id"], canon(bs)[:200]), rp, tag="env")
                    if nact.get(r["id"]) and len(cn.get("acts") or []) % nact[r["id"]] != 0:
                        ck.violation("rule %s has %d actions but its condition node carries %d action nodes" % (r["id"], nact[r["id"]], len(cn.get("acts") or [])), rp, tag="count")
    # the known finding itself: its witness (40 events on a rule with two such post actions and a script) is run until the process dies
    for f in kf:
        res = run_cases(lr.drv, [f["witness"]] * (6 if not ck.thorough else 20), jobs=2)
        died = [r for r in res if isinstance(r, dict) and r.get("err") == "crash" and "concurrent map" in str(r.get("stderr"))]
        POST_STATS["witness_runs_died"] = "%d/%d" % (len(died), len(res))
        if died:
            ck.known_finding("%s: %s" % (f["id"], f["what"]))
    # witnesses of findings that were repaired (listed under `fixed`) keep running as ordinary cases: the process must survive them
    for f in PROPOSED:
        if f["id"] in fixed_finding_ids("C04"):
            res = run_cases(lr.drv, [f["witness"]] * (6 if not ck.thorough else 20), jobs=2)
            died = [r for r in res if isinstance(r, dict) and r.get("err") in ("crash", "hang")]
            POST_STATS["repaired_witness_runs_died"] = "%d/%d" % (len(died), len(res))
            for c_ in res: ck.count({"witness": f["id"]})
            if died:
                ck.violation("the process %s on the witness of the repaired finding %s (%d of %d runs): %s" % (died[0].get("err"), f["id"], len(died), len(res), str(died[0].get("stderr"))[:300]),
                             {"case": f["witness"], "impl": died[0]}, tag="crash")
    for c in cases[:2]:
        ck.sample({"state": c["state"], "ops": c["ops"][:6]})
    lr.finish_cov("rule sets of 0-4 rules with 1-3 actions each (template family: echo of the visible variables, literals, throw), conditions yielding 0-3 bindings (pattern joins, or, not, a failing code "
                  "term), multi-binding `when` matches through an array pattern with a variable, serialActions on/off, disabled rules; 1-3 events each; the whole work tree (rule nodes, condition nodes with "
                  "their bindings, action nodes with disposition and value, values list) is compared with the Lean model and checked against the counting property directly; about a fifth of the rules have "
                  "actions with an HTTP endpoint (a recording server per history): JSON templates over the bound variables, subvars on/off/absent, opts, unbound variables with and without "
                  "UseDefaultVariableValue, code that is not JSON; the received bodies are compared with the model's (substD, RulioModel/Subst.lean) and the number of POSTs with the number of completed "
                  "post nodes; trees whose walk was aborted "
                  "(failed condition / failed serial action) are compared only up to the abort because the visiting order of rules is Go's map order")
    ck.cov["distribution"]["trees"] = dict(dist)
    ck.cov["distribution"]["post"] = dict(POST_STATS)
    ck.cov["trusted_base"].append("the recording HTTP server of the harness (net/http/httptest) as the observer of what is POSTed; lib/lochist.py py_subst/post_body (a second, "
                                  "independent reading of substituteInterface on the fragment) for the exact check of every received body")
    ck.cov["trusted_base"].append("otto for the action templates; the goroutine fan-out of concurrent actions is exercised, not modelled (see C12)")
    proof_verdict(ck, pr)
    ck.finish()

if __name__ == "__main__":
    main()

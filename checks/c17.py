#!/usr/bin/env python3
"""C17 — the location cache is transparent (TTL never / 1 ms / forever x CheckExistence x indexed/linear)."""
import sys, os, json, copy, collections
sys.path.insert(0, os.path.join(os.path.dirname(os.path.abspath(__file__)), "..", "lib"))
from vlib import *
from lochist import *
import gen, gen_c17

TTLS = gen_c17.TTLS

# Findings proposed for known_findings.json (used until the entries are in the file). Each witness is replayed on the
# real code in every run; the KNOWN-FINDING line is printed only when it still fails.
PROPOSED = [
    {"property": "C17", "id": "C17-open-window", "class": "open-window",
     "what": "CachedLocations.Open unlocks the table (system.go:157) before CachedLocation.Get locks the entry (229): a second first request arriving in between installs a second entry => two loads, two instances, an acknowledged write invisible to later requests",
     "witness": {"kind": "c17.window", "ttl": "forever", "state": "indexed", "check": False}},
    {"property": "C17", "id": "C17-pending-bool", "class": "pending-bool",
     "what": "CachedLocation.Pending is a bool, not a count: a Release by one holder clears it and (TTL expired) drops the entry while another request still uses the instance; the next request loads a second instance and later requests miss the first holder's acknowledged write",
     "witness": {"kind": "c17.proto", "ttl": 40000000, "state": "indexed", "check": False, "steps": [
         {"t": "open", "h": "A", "loc": "y", "check": False}, {"t": "open", "h": "B", "loc": "y", "check": False},
         {"t": "sleep", "ms": 70, "loc": "y"}, {"t": "release", "h": "A", "loc": "y"},
         {"t": "req", "loc": "y", "op": {"op": "search", "pattern": {"a": "?v"}, "inherited": False}},
         {"t": "op", "h": "B", "op": {"op": "addFact", "id": "w", "fact": {"a": 7}}}, {"t": "release", "h": "B", "loc": "y"},
         {"t": "req", "loc": "y", "op": {"op": "search", "pattern": {"a": "?v"}, "inherited": False}}]}},
    {"property": "C17", "id": "C17-clear-erases-marker", "class": "marker-erased",
     "what": "with CheckExistence on, ClearLocation (or RemFact of '!.createdAt') erases the createdAt marker but a cached entry is never re-checked: later requests succeed while the entry is cached and fail with NotFound once it is reloaded => results depend on the TTL",
     "witness": {"kind": "c17.sys", "check": True, "state": "indexed", "ops": [
         {"op": "create", "loc": "x"}, {"op": "clear", "loc": "x"}, {"op": "addFact", "loc": "x", "id": "f1", "fact": {"a": 1}}]}},
    {"property": "C17", "id": "C17-unchecked-open-bypass", "class": "unchecked-open",
     "what": "with CheckExistence on, an unchecked open that is never released (System.GetLocation, used to resolve parents) caches a never-created location; a following checked request is served from the cache, succeeds and writes to the never-created location (forever: always, never: once)",
     "witness": {"kind": "c17.sys", "check": True, "state": "indexed", "ops": [
         {"op": "create", "loc": "c"}, {"op": "setParents", "loc": "c", "parents": ["p"]},
         {"op": "addFact", "loc": "p", "id": "f1", "fact": {"a": 1}},
         {"op": "search", "loc": "c", "pattern": {"a": "?x"}, "inherited": True},
         {"op": "addFact", "loc": "p", "id": "f1", "fact": {"a": 1}},
         {"op": "addFact", "loc": "p", "id": "f2", "fact": {"a": 2}}, {"op": "store", "loc": "p"}]}},
]



def effective_findings(prop, proposed):
    """entries of known_findings.json for the property; until some are listed, the PROPOSED ones minus those whose id
    appears among the file's `fixed` entries (a repaired defect must not be expected to fail)"""
    listed = known_findings(prop)
    if listed:
        return listed
    fixed = set()
    p = os.path.join(VERIF, "known_findings.json")
    if os.path.exists(p):
        for f in json.load(open(p)).get("fixed", []):
            if f.get("property") == prop and f.get("id"):
                fixed.add(f["id"])
    return [f for f in proposed if f["id"] not in fixed]


def norm_created(x):
    if isinstance(x, dict):
        return {k: ("T" if k == "!createdAt" else norm_created(v)) for k, v in x.items()}
    if isinstance(x, list):
        return [norm_created(v) for v in x]
    return x


def canon17(op, out, tables):
    """canonical comparable form of one System-level result (UUIDs numbered per location)"""
    if not isinstance(out, dict):
        return ("bad", canon(out))
    o = {k: v for k, v in out.items() if k in ("ok", "err", "rules", "values")}
    o = norm_created(map_ids(o, tables.setdefault(op.get("loc", ""), {})))
    kind = op["op"]
    if kind == "store" and "ok" in o:
        return ("ok", canon({k: canon_fact(f) for k, f in (o["ok"] or {}).items()}))
    if kind in ("create", "peek", "sleep"):
        return ("err", o["err"]) if o.get("err") else ("ok", canon(o.get("ok")))
    return canon_out(op, o)


def run_sys(cases, drv, mdl):
    """impl, then the model with the recorded clocks and cache observations"""
    impl = run_cases(drv, cases)
    mcases = []
    for c, i in zip(cases, impl):
        mc = copy.deepcopy(c)
        outs = (i or {}).get("outs") or []
        for k, op in enumerate(mc["ops"]):
            o = outs[k] if k < len(outs) and isinstance(outs[k], dict) else {}
            op["now"] = o.get("now", 0); op["t0"] = o.get("t0", 0); op["t1"] = o.get("t1", 0)
            if "cached" in o:
                op["obs"] = o["cached"]
        mcases.append(mc)
    model = run_cases(mdl, mcases)
    return impl, model


def diff_sys(case, i, m, with_cache=True):
    """first divergence between impl and model (result, loads, cached) or None; also the list of canonical impl outputs"""
    iouts, mouts = (i or {}).get("outs"), (m or {}).get("outs")
    if iouts is None or mouts is None or len(iouts) != len(case["ops"]) or len(mouts) != len(case["ops"]):
        return {"at": -1, "impl": i, "model": m}, None, None
    ti, tm = {}, {}
    ci, cs = [], []
    first = None
    for k, op in enumerate(case["ops"]):
        a = canon17(op, iouts[k], ti)
        b = canon17(op, mouts[k], tm)
        ci.append(a)
        cs.append(canon17(op, mouts[k].get("spec") or {}, {}) if isinstance(mouts[k], dict) else None)
        if first is None:
            if a != b:
                first = {"at": k, "op": op, "impl": iouts[k], "model": mouts[k], "what": "result"}
            elif with_cache and op["op"] not in ("store", "sleep") and (iouts[k].get("loads") != mouts[k].get("loads") or iouts[k].get("cached") != mouts[k].get("cached")):
                first = {"at": k, "op": op, "impl": iouts[k], "model": mouts[k], "what": "loads/cached"}
    return first, ci, cs


def spec_canon(case, m):
    """canonical spec outputs with UUID numbering of their own"""
    t = {}
    return [canon17(op, (o or {}).get("spec") or {}, t) for op, o in zip(case["ops"], m["outs"])]


def model_canon(case, m):
    t = {}
    return [canon17(op, o, t) for op, o in zip(case["ops"], m["outs"])]


def to_loc_case(case):
    """the same requests addressed to core.Location directly (kind "loc")"""
    ops = [o for o in case["ops"] if o["op"] not in ("create", "peek", "store", "sleep")]
    locs = sorted(set(o["loc"] for o in case["ops"]))
    return {"kind": "c17.loc", "state": case["state"], "locs": locs, "ops": copy.deepcopy(ops)}


MAXV = 25          # replay files written per run; further violations are only counted
RETRIES = [12]     # re-runs available for apparent (possibly timing-induced) failures


def report(ck, stats, what, obj, tag, no_input=False):
    if ck.violations >= MAXV:
        stats["violations_not_written"] += 1
        return
    ck.violation(what, obj, tag=tag, no_input=no_input)


def main():
    ck = Check("C17")
    ck.cov["trusted_base"] = TRUSTED_BASE + [
        "ReloadOK (reloading a location from storage is the identity on observations) is an explicit hypothesis of cache_transparent_seq; it is the statement of C06 and is exercised here by TTL never (reload before every request)",
        "the Location model (RulioModel/Loc.lean) used to instantiate the cache model in the driver is validated by the `loc` correspondence",
        "clock reconstruction in Driver/C17.lean (chooses model clock readings inside the recorded brackets)"]
    ck.cov["checker_cmd"] = "lake build Props.C17 && lake env lean .audit/Audit_C17.lean (#print axioms)"
    pr = prove("C17", leanchecker=ck.thorough)
    ck.add_proof(pr)
    drv, txt = build_harness()
    mdl, mtxt = model_driver()
    if not drv:
        ck.violation("harness does not build against /repo: " + txt[-800:], {"build_log": txt[-3000:]}, tag="build", no_input=True); ck.finish()
    if not mdl:
        ck.violation("model driver does not build: " + mtxt[-800:], {"build_log": mtxt[-3000:]}, tag="build", no_input=True); ck.finish()
    rng = ck.rng
    kf = effective_findings("C17", PROPOSED)
    listed = {f.get("class") for f in kf}
    stats = collections.Counter()

    # ------------------------------------------------------------------ A. sequential histories, twin Systems
    nh = 240 if not ck.thorough else 1500
    hists = []
    for hnum in range(nh):
        stream = ["plain", "check", "cachettl", "sleep"][hnum % 4]
        ops = gen_c17.sys_history(rng, check_stream=(stream == "check"), cache_ttl=(stream == "cachettl"), sleeps=(stream == "sleep"),
                                  clear_prob=0.0 if stream == "check" else 0.03)
        hists.append((stream, ops))
    # rare stream outside the fragment: checking on + clear / GetLocation (classes marker-erased, unchecked-open)
    for _ in range(10 if not ck.thorough else 150):
        ops = gen_c17.sys_history(rng, nlocs=2, nops=10, check_stream=True, clear_prob=0.08)
        for _ in range(2):
            ops.insert(rng.randint(0, len(ops) // 2), {"op": "peek", "loc": rng.choice(["a", "b"])})
        hists.append(("outside", ops))
    cases, meta = [], []
    for hi, (stream, ops) in enumerate(hists):
        for state in ("indexed", "linear"):
            for check in ((True,) if stream in ("check", "outside") else (False, True) if hi % 3 == 0 else (False,)):
                for ttl in TTLS:
                    cases.append({"kind": "c17.sys", "ttl": ttl, "check": check, "state": state, "ops": copy.deepcopy(ops)})
                    meta.append((hi, stream, state, check, ttl))
    corpus = os.path.join(VERIF, "corpus", "C17.jsonl")
    if os.path.exists(corpus):
        for l in open(corpus):
            if l.strip():
                c = json.loads(l)
                if c.get("kind") == "c17.sys":
                    cases.append(c); meta.append((-1, "corpus", c.get("state"), c.get("check"), c.get("ttl")))
    impl, model = run_sys(cases, drv, mdl)
    groups = collections.defaultdict(dict)
    known_hits = collections.Counter()
    for idx, (c, i, m) in enumerate(zip(cases, impl, model)):
        hi, stream, state, check, ttl = meta[idx]
        ck.count(c)
        stats["sys_cases"] += 1; stats["sys_ops"] += len(c["ops"]); stats["ttl_" + str(ttl)] += 1; stats["check_on" if check else "check_off"] += 1
        stats["stream_" + stream] += 1
        first, ci, cs = diff_sys(c, i, m)
        tries = 0
        while first is not None and tries < 3 and RETRIES[0] > 0:
            RETRIES[0] -= 1
            # timing: re-run the case in isolation before believing it
            tries += 1
            i2, m2 = run_sys([c], drv, mdl)
            f2, ci2, cs2 = diff_sys(c, i2[0], m2[0])
            if f2 is None:
                first, ci, cs, i, m = None, ci2, cs2, i2[0], m2[0]
                stats["retry_cleared"] += 1
        if first is not None:
            if first.get("at") == -1 and isinstance(i, dict) and i.get("err") in ("crash", "hang", "panic"):
                report(ck, stats, "System %s on a sequential history (ttl=%s check=%s %s)" % (i.get("err"), ttl, check, state), {"case": c, "impl": i}, "crash")
            else:
                report(ck, stats, "correspondence broken: sys.System and the cache model disagree (%s) at op %s: impl=%s model=%s" % (
                    first.get("what"), first.get("at"), canon(first.get("impl"))[:260], canon({k: v for k, v in (first.get("model") or {}).items() if k != "spec"})[:260] if isinstance(first.get("model"), dict) else first.get("model")),
                    {"case": c, "first": first}, "corr")
            continue
        stats["ops_loaded"] += sum(1 for o in i["outs"] if o.get("loads"))
        stats["ops_notFound"] += sum(1 for o in i["outs"] if o.get("err") == "notFound")
        # model vs direct operation (the specification)
        mc, sc = model_canon(c, m), spec_canon(c, m)
        if mc != sc:
            if m.get("frag"):
                ck.violation("INTERNAL: cache model and direct operation disagree inside the fragment of cache_transparent_seq",
                             {"case": c, "model": m}, tag="internal")
                continue
            k = next(k for k in range(len(mc)) if mc[k] != sc[k])
            cls = "unchecked-open" if any(o["op"] == "peek" for o in c["ops"][:k + 1]) and not any(o["op"] == "clear" for o in c["ops"][:k + 1]) else "marker-erased"
            known_hits[cls] += 1
            stats["outside_fragment_diff"] += 1
        else:
            stats["equals_direct"] += 1
        if m.get("frag"):
            stats["in_fragment"] += 1
            groups[(hi, state, check)][ttl] = (ci, c)
    # results independent of the TTL (inside the fragment)
    for key, by_ttl in groups.items():
        if key[0] < 0 or len(by_ttl) < 2:
            continue
        ref_ttl = sorted(by_ttl)[0]
        for ttl, (ci, c) in by_ttl.items():
            if ci != by_ttl[ref_ttl][0]:
                k = next(k for k in range(len(ci)) if ci[k] != by_ttl[ref_ttl][0][k])
                ck.violation("results depend on the cache TTL: op %d %s gives %s under ttl=%s and %s under ttl=%s" % (
                    k, canon(c["ops"][k])[:200], ci[k][1][:200], ttl, by_ttl[ref_ttl][0][k][1][:200], ref_ttl),
                    {"case": c, "other_ttl": ref_ttl, "op_index": k}, tag="ttl")
                break
        stats["ttl_groups"] += 1
    # identical to operating core.Location directly (existence checking off)
    lcases, lrefs = [], []
    for key, by_ttl in groups.items():
        if key[2] or key[0] < 0:
            continue
        ttl = sorted(by_ttl)[0]
        ci, c = by_ttl[ttl]
        lcases.append(to_loc_case(c)); lrefs.append((ci, c))
    limpl = run_cases(drv, lcases)
    for lc, li, (ci, c) in zip(lcases, limpl, lrefs):
        keep = [k for k, o in enumerate(c["ops"]) if o["op"] not in ("create", "peek", "store", "sleep")]
        t = {}
        louts = (li or {}).get("outs") or []
        got = [canon17(op, louts[j] if j < len(louts) else None, t) for j, op in enumerate(lc["ops"])]
        want = [ci[k] for k in keep]
        stats["direct_location_runs"] += 1
        if got != want:
            j = next(j for j in range(len(got)) if got[j] != want[j])
            ck.violation("through the System differs from operating core.Location directly at %s: system=%s direct=%s" % (
                canon(lc["ops"][j])[:200], want[j][1][:200], got[j][1][:200]), {"case": c, "loc_case": lc, "op_index": j}, tag="direct")
    for c in cases[:2]:
        ck.sample({"ttl": c["ttl"], "check": c["check"], "state": c["state"], "ops": c["ops"][:6]})

    # ------------------------------------------------------------------ B. the exported protocol, step by step
    pcases = []
    for _ in range(300 if not ck.thorough else 2500):
        for ttl in ("never", "forever", 40000000):
            pcases.append(gen_c17.proto_case(rng, ttl, rng.choice(["indexed", "linear"])))
    pimpl = run_cases(drv, pcases)

    def proto_model(cs, impls):
        mcs = []
        for c, i in zip(cs, impls):
            mc = copy.deepcopy(c)
            outs = (i or {}).get("outs") or []
            for k, st in enumerate(mc["steps"]):
                o = outs[k] if k < len(outs) and isinstance(outs[k], dict) else {}
                st["now"] = o.get("now", 0); st["t0"] = o.get("t0", 0); st["t1"] = o.get("t1", 0)
            mcs.append(mc)
        return run_cases(mdl, mcs)

    def proto_diff(c, i, m):
        iouts, mouts = (i or {}).get("outs"), (m or {}).get("outs")
        if iouts is None or mouts is None or len(iouts) != len(c["steps"]) or len(mouts) != len(c["steps"]):
            return {"at": -1, "impl": i, "model": m}, False
        ti, tm, ts = {}, {}, {}
        pi, pm = {}, {}   # instance numbering by first appearance among the opens (requests load instances nobody sees)
        specdiff = False
        for k, st in enumerate(c["steps"]):
            op = dict(st.get("op") or {"op": st["t"]}, loc=st.get("loc", ""))
            if st["t"] == "open":
                a = ("err", iouts[k]["err"]) if iouts[k].get("err") else ("ok", pi.setdefault(iouts[k].get("ok"), len(pi)))
                b = ("err", mouts[k]["err"]) if mouts[k].get("err") else ("ok", pm.setdefault(mouts[k].get("ok"), len(pm)))
            elif st["t"] in ("release", "sleep"):
                a = ("err", iouts[k]["err"]) if iouts[k].get("err") else ("ok", canon(iouts[k].get("ok")))
                b = ("err", mouts[k]["err"]) if mouts[k].get("err") else ("ok", canon(mouts[k].get("ok")))
            else:
                a, b = canon17(op, iouts[k], ti), canon17(op, mouts[k], tm)
                if "spec" in mouts[k] and canon17(op, mouts[k]["spec"], ts) != b:
                    specdiff = True
            if a != b or iouts[k].get("loads") != mouts[k].get("loads") or iouts[k].get("cached") != mouts[k].get("cached"):
                return {"at": k, "step": st, "impl": iouts[k], "model": mouts[k]}, specdiff
        return None, specdiff

    pmodel = proto_model(pcases, pimpl)
    for c, i, m in zip(pcases, pimpl, pmodel):
        ck.count(c)
        stats["proto_cases"] += 1; stats["proto_steps"] += len(c["steps"])
        first, specdiff = proto_diff(c, i, m)
        tries = 0
        while first is not None and tries < 3 and RETRIES[0] > 0:
            RETRIES[0] -= 1
            tries += 1
            i2 = run_cases(drv, [c]); m2 = proto_model([c], i2)
            f2, sd2 = proto_diff(c, i2[0], m2[0])
            if f2 is None:
                first, specdiff, m = None, sd2, m2[0]
        if first is not None:
            report(ck, stats, "correspondence broken: CachedLocations.Open/Release and the protocol model disagree at step %s: impl=%s model=%s" % (
                first.get("at"), canon(first.get("impl"))[:260], canon({k: v for k, v in (first.get("model") or {}).items() if k != "spec"})[:260] if isinstance(first.get("model"), dict) else first.get("model")),
                {"case": c, "first": first}, "proto")
            continue
        if m.get("multiLive"):
            stats["proto_multiLive"] += 1
        if specdiff:
            if m.get("multiLive"):
                known_hits["pending-bool"] += 1
            else:
                ck.violation("protocol model differs from direct operation although only one instance was ever live", {"case": c, "model": m}, tag="internal")

    # ------------------------------------------------------------------ C. concurrent first requests: single load
    ccases = []
    reps = 16 if not ck.thorough else 300
    for r in range(reps):
        for ttl in TTLS:
            ccases.append({"kind": "c17.conc", "ttl": ttl, "state": "indexed" if r % 2 else "linear", "check": False,
                           "mode": "gate" if r % 2 == 0 else "free", "n": rng.choice([2, 4, 8, 16])})
    cimpl = run_cases(drv, ccases, jobs=4)
    for c, o in zip(ccases, cimpl):
        ck.count(c, nontrivial=False)
        stats["conc_runs"] += 1
        if not isinstance(o, dict) or "loads" not in o:
            ck.violation("concurrent first requests: %s" % canon(o)[:300], {"case": c, "impl": o}, tag="conc-crash"); continue
        if o["acked"] != o["n"] or o["stored"] != o["n"]:
            ck.violation("concurrent first requests: %d of %d acknowledged, %d stored" % (o["acked"], o["n"], o["stored"]), {"case": c, "impl": o}, tag="conc")
            continue
        if c["mode"] == "gate" and c["ttl"] == "forever":
            # the loader holds the entry lock while everybody else arrives: window-free, single_load_partial applies
            stats["conc_gate_forever"] += 1
            if o["loads"] != 1 or o["visible"] != o["n"]:
                ck.violation("%d concurrent first requests (loader held inside Storage.Load): %d loads, %d of %d acknowledged facts visible" % (
                    o["n"], o["loads"], o["visible"], o["n"]), {"case": c, "impl": o}, tag="single-load")
        elif c["ttl"] == "forever" and (o["loads"] != 1 or o["visible"] != o["n"]):
            if "open-window" in listed:
                known_hits["open-window"] += 1
            else:
                ck.violation("%d concurrent first requests: %d loads, %d of %d acknowledged facts visible" % (o["n"], o["loads"], o["visible"], o["n"]),
                             {"case": c, "impl": o}, tag="single-load")
        if o["loads"] == 1:
            stats["conc_single_load"] += 1

    # ------------------------------------------------------------------ D. known findings: replay the witnesses
    for f in kf:
        w, cls = f["witness"], f.get("class")
        if cls == "open-window":
            o = run_cases(drv, [w])[0]
            if isinstance(o, dict) and o.get("loads", 0) >= 2 and len(o.get("visible") or []) < 2:
                ck.known_finding("%s: %s (witness: 2 acknowledged first requests, %d loads, visible afterwards: %s)" % (f["id"], f["what"], o["loads"], o["visible"]))
            elif isinstance(o, dict) and o.get("err"):
                ck.violation("forced schedule for %s could not be replayed: %s" % (f["id"], o.get("err")), {"case": w, "impl": o}, tag="witness", no_input=True)
            else:
                ck.note("known finding %s did not reproduce: %s" % (f["id"], canon(o)[:200]))
                ck.violation("the witness of %s no longer fails but the model still predicts it (model out of date)" % f["id"], {"case": w, "impl": o, "theorem": "single_load_open_window"}, tag="stale-finding", no_input=True)
        elif cls == "pending-bool":
            o = run_cases(drv, [w])[0]
            m = proto_model([w], [o])[0]
            last = ((o or {}).get("outs") or [{}])[-1]
            first, specdiff = proto_diff(w, o, m)
            if first is None and last.get("ok") == []:
                ck.known_finding("%s: %s (witness: the last request, issued after B's write was acknowledged, finds no fact)" % (f["id"], f["what"]))
            else:
                ck.violation("the witness of %s no longer behaves as the model predicts" % f["id"], {"case": w, "impl": o, "model": m, "theorem": "pending_bool_stale"}, tag="stale-finding", no_input=True)
        elif cls == "marker-erased":
            res = {}
            for ttl in ("forever", "never"):
                c = dict(w, ttl=ttl)
                o = run_cases(drv, [c])[0]
                res[ttl] = [("err:" + x["err"]) if x.get("err") else "ok" for x in (o.get("outs") or [])]
            if res["forever"] != res["never"]:
                ck.known_finding("%s: %s (witness create;clear;addFact: forever=%s never=%s)" % (f["id"], f["what"], res["forever"], res["never"]))
            else:
                ck.violation("the witness of %s no longer fails but the model still predicts it" % f["id"], {"case": w, "impl": res, "theorem": "clear_breaks_transparency"}, tag="stale-finding", no_input=True)
        elif cls == "unchecked-open":
            res = {}
            for ttl in ("forever", "never"):
                c = dict(w, ttl=ttl)
                o = run_cases(drv, [c])[0]
                outs = o.get("outs") or []
                res[ttl] = [("err:" + x["err"]) if x.get("err") else "ok" for x in outs[:-1]] + [sorted((outs[-1].get("ok") or {}).keys())] if outs else []
            bypass = len(res["forever"]) >= 5 and res["forever"][2] == "err:notFound" and res["forever"][4] == "ok"
            if bypass:
                ck.known_finding("%s: %s (witness through a child's inherited search: forever=%s never=%s)" % (f["id"], f["what"], res["forever"], res["never"]))
            else:
                ck.violation("the witness of %s no longer fails but the model still predicts it" % f["id"], {"case": w, "impl": res, "theorem": "unchecked_open_bypasses_check"}, tag="stale-finding", no_input=True)
    if "open-window" not in listed:
        # the finding is not (or no longer) listed: the forced schedule must find the window closed
        w = {"kind": "c17.window", "ttl": "forever", "state": "indexed", "check": False}
        o = run_cases(drv, [w])[0]
        if not isinstance(o, dict) or o.get("loads", 0) != 1 or len(o.get("visible") or []) != 2:
            ck.violation("two first requests for one location, the second arriving between Open's table section and Get: %s" % canon(o)[:300], {"case": w, "impl": o}, tag="single-load")
    for cls, n in known_hits.items():
        ck.note("generated cases in known class %s: %d (impl = model there)" % (cls, n))

    ck.cov["rule"] = ("request histories over 2-3 locations (facts, rules, events, searches, removals, clears, CreateLocation, `!cacheTTL` facts, pauses) run through twin "
                      "Systems under TTL never/1ms/forever x CheckExistence x indexed/linear; interleavings of Open/call/Release over the exported cache protocol; "
                      "N=2..16 concurrent first requests; non-trivial = distinct by canonical JSON")
    ck.cov["distribution"] = dict(stats, known_class_hits=dict(known_hits))
    ck.cov["traces_validated_against_impl"] = stats["sys_cases"] + stats["proto_cases"] + stats["direct_location_runs"]
    if pr["failed"] and ck.violations == 0:
        ck.violation("proof obligations of C17 no longer check: %s" % pr["failed"], {"theorems": pr.get("failed_theorems") or pr["failed"], "log": pr["log"][-3000:]}, tag="proof", no_input=True)
    ck.finish()


main()

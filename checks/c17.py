#!/usr/bin/env python3
"""C17 — the location cache is transparent (TTL never / 1 ms / forever x CheckExistence x indexed/linear)."""
import sys, os, json, copy, collections, re, shutil, random
sys.path.insert(0, os.path.join(os.path.dirname(os.path.abspath(__file__)), "..", "lib"))
from vlib import *
from lochist import *
import gen, gen_c17

TTLS = gen_c17.TTLS

# The slice describes the tree in which three former defects of the cache are repaired (patches corpus/C17-fix-*.patch):
#   C17-pending-bool          Pending is a holder count now; every Open is followed by a Release
#   C17-clear-erases-marker   ClearLocation keeps the createdAt marker
#   C17-unchecked-open-bypass a checked request served from the cache looks at the marker again
# (and C17-open-window, repaired earlier).  Their witnesses (FORMER) run in every run as ordinary cases and must behave.
# An id that is still listed under `findings` in known_findings.json (and not under `fixed`) is tolerated: generated
# cases that fall into its class are counted, not reported; any other failure of the property still is.
FORMER = [
    {"property": "C17", "id": "C17-open-window", "class": "open-window",
     "what": "two concurrent first requests for one location could install and load two instances",
     "witness": {"kind": "c17.window", "ttl": "forever", "state": "indexed", "check": False}},
    {"property": "C17", "id": "C17-pending-bool", "class": "pending-bool",
     "what": "a Release by one holder dropped the (expired) entry while another request still used the instance; the next request loaded a second instance and later requests missed the first holder's acknowledged write",
     "witness": {"kind": "c17.proto", "ttl": 40000000, "state": "indexed", "check": False, "steps": [
         {"t": "open", "h": "A", "loc": "y", "check": False}, {"t": "open", "h": "B", "loc": "y", "check": False},
         {"t": "sleep", "ms": 70, "loc": "y"}, {"t": "release", "h": "A", "loc": "y"},
         {"t": "req", "loc": "y", "op": {"op": "search", "pattern": {"a": "?v"}, "inherited": False}},
         {"t": "op", "h": "B", "op": {"op": "addFact", "id": "w", "fact": {"a": 7}}}, {"t": "release", "h": "B", "loc": "y"},
         {"t": "req", "loc": "y", "op": {"op": "search", "pattern": {"a": "?v"}, "inherited": False}}]}},
    {"property": "C17", "id": "C17-clear-erases-marker", "class": "marker-erased",
     "what": "with CheckExistence on, ClearLocation (or RemFact of '!.createdAt') erased the createdAt marker but a cached entry was never looked at again: later requests succeeded while the entry was cached and failed with NotFound once it was reloaded",
     "witness": {"kind": "c17.sys", "check": True, "state": "indexed", "ops": [
         {"op": "create", "loc": "x"}, {"op": "clear", "loc": "x"}, {"op": "addFact", "loc": "x", "id": "f1", "fact": {"a": 1}}]}},
    {"property": "C17", "id": "C17-unchecked-open-bypass", "class": "unchecked-open",
     "what": "with CheckExistence on, an unchecked open (System.GetLocation, used to resolve parents) cached a never-created location; a following checked request was served from the cache, succeeded and wrote to the never-created location",
     "witness": {"kind": "c17.sys", "check": True, "state": "indexed", "ops": [
         {"op": "create", "loc": "c"}, {"op": "setParents", "loc": "c", "parents": ["p"]},
         {"op": "addFact", "loc": "p", "id": "f1", "fact": {"a": 1}},
         {"op": "search", "loc": "c", "pattern": {"a": "?x"}, "inherited": True},
         {"op": "addFact", "loc": "p", "id": "f1", "fact": {"a": 1}},
         {"op": "addFact", "loc": "p", "id": "f2", "fact": {"a": 2}}, {"op": "store", "loc": "p"}]}},
]


def tolerated_classes(prop):
    """classes of the findings still listed (not repaired): id under `findings` and not under `fixed`"""
    fixed = fixed_finding_ids(prop)
    return {f.get("class") for f in known_findings(prop) if f.get("id") not in fixed and f.get("class")}


def erases_marker(op):
    return op.get("op") == "clear" or (op.get("op") in ("remFact", "remRule") and op.get("id") in ("", gen_c17.MARKER_ID))


def sys_class(case, k):
    """the former class a divergence at op k of a sequential history falls into (None: none of them)"""
    upto = case["ops"][:k + 1] if k >= 0 else case["ops"]
    if case.get("check") and any(o["op"] == "peek" for o in upto):
        return "unchecked-open"
    if case.get("check") and any(erases_marker(o) for o in upto):
        return "marker-erased"
    if any(o["op"] in ("create", "peek") for o in upto):
        return "pending-bool"      # CreateLocation / GetLocation used to leave their hold behind: loads / cached differ
    return None


def proto_class(case, k):
    """overlapping holders of one name before step k => the former class pending-bool"""
    held = {}
    for st in case["steps"][:k + 1] if k >= 0 else case["steps"]:
        if st["t"] == "open":
            if any(n == st["loc"] for n in held.values()):
                return "pending-bool"
            held[st["h"]] = st["loc"]
        elif st["t"] == "release":
            held.pop(st.get("h"), None)
        elif st["t"] == "req" and any(n == st["loc"] for n in held.values()):
            return "pending-bool"
    if case.get("check"):
        return "unchecked-open"
    return None


def short_hist(ops, k):
    """the history up to op k, compactly (for VIOLATION lines)"""
    def one(o):
        x = {a: b for a, b in o.items() if a not in ("now", "t0", "t1", "obs", "inherited")}
        return canon(x)
    hist = [one(o) for o in ops[:k + 1]]
    if len(hist) > 12:
        hist = hist[:4] + ["... %d more ..." % (len(hist) - 8)] + hist[-4:]
    return "[" + ", ".join(hist) + "]"


def norm_created(x):
    if isinstance(x, dict):
        return {k: ("T" if k == "!createdAt" else norm_created(v)) for k, v in x.items()}
    if isinstance(x, list):
        return [norm_created(v) for v in x]
    return x


def canon17(op, out, tables):
    """canonical comparable form of one System-level result (UUIDs numbered per location)"""
    if not isinstance(out, dict):
        return ("bad", canon(out))
    o = {k: v for k, v in out.items() if k in ("ok", "err", "rules", "values")}
    o = norm_created(map_ids(o, tables.setdefault(op.get("loc", ""), {})))
    kind = op["op"]
    if kind == "store" and "ok" in o:
        return ("ok", canon({k: canon_fact(f) for k, f in (o["ok"] or {}).items()}))
    if kind in ("create", "peek", "sleep"):
        return ("err", o["err"]) if o.get("err") else ("ok", canon(o.get("ok")))
    return canon_out(op, o)


def run_sys(cases, drv, mdl):
    """impl, then the model with the recorded clocks and cache observations"""
    impl = run_cases(drv, cases)
    mcases = []
    for c, i in zip(cases, impl):
        mc = copy.deepcopy(c)
        outs = (i or {}).get("outs") or []
        for k, op in enumerate(mc["ops"]):
            o = outs[k] if k < len(outs) and isinstance(outs[k], dict) else {}
            op["now"] = o.get("now", 0); op["t0"] = o.get("t0", 0); op["t1"] = o.get("t1", 0)
            if "cached" in o:
                op["obs"] = o["cached"]
        mcases.append(mc)
    model = run_cases(mdl, mcases)
    return impl, model


def diff_sys(case, i, m, with_cache=True):
    """first divergence between impl and model (result, loads, cached) or None; also the list of canonical impl outputs"""
    iouts, mouts = (i or {}).get("outs"), (m or {}).get("outs")
    if iouts is None or mouts is None or len(iouts) != len(case["ops"]) or len(mouts) != len(case["ops"]):
        return {"at": -1, "impl": i, "model": m}, None, None
    ti, tm = {}, {}
    ci, cs = [], []
    first = None
    for k, op in enumerate(case["ops"]):
        a = canon17(op, iouts[k], ti)
        b = canon17(op, mouts[k], tm)
        ci.append(a)
        cs.append(canon17(op, mouts[k].get("spec") or {}, {}) if isinstance(mouts[k], dict) else None)
        if first is None:
            if a != b:
                first = {"at": k, "op": op, "impl": iouts[k], "model": mouts[k], "what": "result"}
            elif with_cache and op["op"] not in ("store", "sleep") and (iouts[k].get("loads") != mouts[k].get("loads") or iouts[k].get("cached") != mouts[k].get("cached")):
                first = {"at": k, "op": op, "impl": iouts[k], "model": mouts[k], "what": "loads/cached"}
    return first, ci, cs


def spec_canon(case, m):
    """canonical spec outputs with UUID numbering of their own"""
    t = {}
    return [canon17(op, (o or {}).get("spec") or {}, t) for op, o in zip(case["ops"], m["outs"])]


def model_canon(case, m):
    t = {}
    return [canon17(op, o, t) for op, o in zip(case["ops"], m["outs"])]


def to_loc_case(case):
    """the same requests addressed to core.Location directly (kind "loc")"""
    ops = [o for o in case["ops"] if o["op"] not in ("create", "peek", "store", "sleep")]
    locs = sorted(set(o["loc"] for o in case["ops"]))
    return {"kind": "c17.loc", "state": case["state"], "locs": locs, "ops": copy.deepcopy(ops)}


MAXV = 40          # replay files written per run; further violations are only counted
MAXTAG = 6         # ... and per kind of violation, so that every kind that occurs is shown
RETRIES = [12]     # re-runs available for apparent (possibly timing-induced) failures
TAGGED = collections.Counter()


def report(ck, stats, what, obj, tag, no_input=False):
    TAGGED[tag] += 1
    if ck.violations >= MAXV or TAGGED[tag] > MAXTAG:
        stats["violations_not_written"] += 1
        stats["violations_not_written_" + tag] += 1
        return
    ck.violation(what, obj, tag=tag, no_input=no_input)


def main():
    ck = Check("C17")
    ck.cov["trusted_base"] = TRUSTED_BASE + [
        "ReloadOK (reloading a location from storage is the identity on observations) is an explicit hypothesis of cache_transparent_seq / cache_transparent_under_overlap; it is the statement of C06 (discharged for the State model in Props/C17.lean) and is exercised here by TTL never (reload before every request)",
        "the Location model (RulioModel/Loc.lean) used to instantiate the cache model in the driver is validated by the `loc` correspondence",
        "clock reconstruction in Driver/C17.lean (chooses model clock readings inside the recorded brackets)",
        "Open (table section, load under the entry lock, second look at the marker) is one atomic step of the concurrent model: the entry is locked before the table is unlocked (forced schedule c17.window, and -race stress in C12)"]
    ck.cov["checker_cmd"] = "lake build Props.C17 && lake env lean .audit/Audit_C17.lean (#print axioms)"
    # the bracket table of the System's methods, regenerated from the source
    gen_out = os.path.join(LEAN, "RulioModel", "Gen", "C17.lean")
    shutil.copyfile(os.path.join(REPO, "go.sum"), os.path.join(HARNESS, "go.sum"))
    rc, xtxt = sh(["go", "run", "./cmd/extract_c17", REPO, gen_out + ".new"], cwd=HARNESS, env=GOENV, timeout=600)
    if rc == 0:
        new = open(gen_out + ".new").read()
        if not os.path.exists(gen_out) or open(gen_out).read() != new:
            os.replace(gen_out + ".new", gen_out)
        else:
            os.remove(gen_out + ".new")
        ck.cov["extracted"] = xtxt.strip()
        unbalanced = [(n, int(f), int(p), int(d), int(r)) for n, f, p, d, r in
                      re.findall(r'name := "([^"]+)", finds := (\d+), releasesPlain := (\d+), releasesDeferred := (\d+), returnsHeld := (\d+)', new)
                      if not (int(f) == 1 and int(p) + int(d) == 1 and int(r) == 0)]
    else:
        unbalanced = []
    pr = prove("C17", leanchecker=ck.thorough)
    ck.add_proof(pr)
    if rc != 0:
        ck.violation("extract_c17 failed on the current source: " + xtxt[-600:], {"log": xtxt[-3000:], "theorem": "requests_release_once"}, tag="extract", no_input=True)
    drv, txt = build_harness()
    mdl, mtxt = model_driver()
    if not drv:
        ck.violation("harness does not build against /repo: " + txt[-800:], {"build_log": txt[-3000:]}, tag="build", no_input=True); ck.finish()
    if not mdl:
        ck.violation("model driver does not build: " + mtxt[-800:], {"build_log": mtxt[-3000:]}, tag="build", no_input=True); ck.finish()
    rng = ck.rng
    tolerated = tolerated_classes("C17")
    listed_ids = {f.get("id") for f in known_findings("C17")} - fixed_finding_ids("C17")
    stats = collections.Counter()
    known_hits = collections.Counter()

    def fail(cls, what, obj, tag):
        """a divergence: tolerated when it falls into the class of a finding that is still listed, else a violation"""
        if cls is not None and cls in tolerated:
            known_hits[cls] += 1
            return
        report(ck, stats, what, obj, tag)

    # ------------------------------------------------------------------ A. sequential histories, twin Systems
    nh = 240 if not ck.thorough else 1500
    hists = []
    for hnum in range(nh):
        stream = ["plain", "check", "cachettl", "sleep"][hnum % 4]
        # existence checked: clears, removals of the marker, unchecked opens (GetLocation) and late creates are part of
        # the ordinary stream (they used to be outside the fragment of the transparency theorem)
        ops = gen_c17.sys_history(rng, check_stream=(stream == "check"), cache_ttl=(stream == "cachettl"), sleeps=(stream == "sleep"),
                                  clear_prob=0.04 if stream == "check" else 0.03, marker_ops=0.12 if stream == "check" else 0.0)
        hists.append((stream, ops))
    for _ in range(40 if not ck.thorough else 400):
        hists.append(("marker", gen_c17.marker_history(rng)))
    for _ in range(10 if not ck.thorough else 150):
        ops = gen_c17.sys_history(rng, nlocs=2, nops=10, check_stream=True, clear_prob=0.08, marker_ops=0.1)
        for _ in range(2):
            ops.insert(rng.randint(0, len(ops) // 2), {"op": "peek", "loc": rng.choice(["a", "b"])})
        hists.append(("marker", ops))
    # the witnesses of the former findings about the marker, as ordinary histories under every TTL
    for f in FORMER:
        if f["class"] == "marker-erased":
            hists.append(("former", copy.deepcopy(f["witness"]["ops"]) + gen_c17.probes("x")))
    cases, meta = [], []
    for hi, (stream, ops) in enumerate(hists):
        for state in ("indexed", "linear"):
            for check in ((True,) if stream in ("check", "marker", "former") else (False, True) if hi % 3 == 0 else (False,)):
                for ttl in TTLS:
                    cases.append({"kind": "c17.sys", "ttl": ttl, "check": check, "state": state, "ops": copy.deepcopy(ops)})
                    meta.append((hi, stream, state, check, ttl))
    corpus = os.path.join(VERIF, "corpus", "C17.jsonl")
    if os.path.exists(corpus):
        for l in open(corpus):
            if l.strip():
                c = json.loads(l)
                if c.get("kind") == "c17.sys":
                    cases.append(c); meta.append((-1, "corpus", c.get("state"), c.get("check"), c.get("ttl")))
    impl, model = run_sys(cases, drv, mdl)
    groups = collections.defaultdict(dict)
    for idx, (c, i, m) in enumerate(zip(cases, impl, model)):
        hi, stream, state, check, ttl = meta[idx]
        ck.count(c)
        stats["sys_cases"] += 1; stats["sys_ops"] += len(c["ops"]); stats["ttl_" + str(ttl)] += 1; stats["check_on" if check else "check_off"] += 1
        stats["stream_" + stream] += 1
        if check:
            stats["check_on_peek"] += sum(1 for o in c["ops"] if o["op"] == "peek")
            stats["check_on_erase_marker"] += sum(1 for o in c["ops"] if erases_marker(o))
        first, ci, cs = diff_sys(c, i, m)
        tries = 0
        while first is not None and tries < 3 and RETRIES[0] > 0:
            RETRIES[0] -= 1
            # timing: re-run the case in isolation before believing it
            tries += 1
            i2, m2 = run_sys([c], drv, mdl)
            f2, ci2, cs2 = diff_sys(c, i2[0], m2[0])
            if f2 is None:
                first, ci, cs, i, m = None, ci2, cs2, i2[0], m2[0]
                stats["retry_cleared"] += 1
        if first is not None:
            if first.get("at") == -1 and isinstance(i, dict) and i.get("err") in ("crash", "hang", "panic"):
                report(ck, stats, "System %s on a sequential history (ttl=%s check=%s %s)" % (i.get("err"), ttl, check, state), {"case": c, "impl": i}, "crash")
                continue
            if first.get("at") == -1 or ci is None:
                report(ck, stats, "sequential history could not be compared: impl=%s model=%s" % (canon(i)[:200], canon(m)[:200]), {"case": c, "impl": i, "model": m}, "corr")
                continue
            # what the System answered against operating the locations directly (the specification)
            cs = spec_canon(c, m)
            k = next((k for k in range(len(ci)) if ci[k] != cs[k]), None)
            if k is not None:
                fail(sys_class(c, k), "the cache is not transparent (ttl=%s CheckExistence=%s %s): request %d %s is answered %s through the System and %s when the location is operated directly; history: %s" % (
                    ttl, check, state, k, canon({a: b for a, b in c["ops"][k].items() if a != "fact"})[:120], ci[k][1][:160], cs[k][1][:160], short_hist(c["ops"], k)),
                    {"case": c, "op_index": k, "impl": i["outs"][k], "direct": (m["outs"][k] or {}).get("spec")}, "transparency")
            else:
                k = first.get("at")
                fail(sys_class(c, k), "correspondence broken: sys.System and the cache model disagree (%s) at request %s (ttl=%s CheckExistence=%s %s): impl=%s model=%s; history: %s" % (
                    first.get("what"), k, ttl, check, state, canon({a: b for a, b in (first.get("impl") or {}).items() if a in ("ok", "err", "loads", "cached")})[:200],
                    canon({a: b for a, b in (first.get("model") or {}).items() if a in ("ok", "err", "loads", "cached")})[:200], short_hist(c["ops"], k)),
                    {"case": c, "first": first}, "corr")
            continue
        stats["ops_loaded"] += sum(1 for o in i["outs"] if o.get("loads"))
        stats["ops_notFound"] += sum(1 for o in i["outs"] if o.get("err") == "notFound")
        # model vs direct operation (the specification): cache_transparent_seq has no side condition
        mc, sc = model_canon(c, m), spec_canon(c, m)
        if mc != sc:
            k = next(k for k in range(len(mc)) if mc[k] != sc[k])
            ck.violation("INTERNAL: the cache model and direct operation disagree at request %d although cache_transparent_seq covers every history: %s" % (k, short_hist(c["ops"], k)),
                         {"case": c, "model": m, "theorem": "cache_transparent_seq"}, tag="internal")
            continue
        stats["equals_direct"] += 1
        stats["in_fragment"] += 1
        groups[(hi, state, check)][ttl] = (ci, c)
    # results independent of the TTL
    for key, by_ttl in groups.items():
        if key[0] < 0 or len(by_ttl) < 2:
            continue
        ref_ttl = sorted(by_ttl)[0]
        for ttl, (ci, c) in by_ttl.items():
            if ci != by_ttl[ref_ttl][0]:
                k = next(k for k in range(len(ci)) if ci[k] != by_ttl[ref_ttl][0][k])
                fail(sys_class(c, k), "results depend on the cache TTL: op %d %s gives %s under ttl=%s and %s under ttl=%s; history: %s" % (
                    k, canon(c["ops"][k])[:200], ci[k][1][:200], ttl, by_ttl[ref_ttl][0][k][1][:200], ref_ttl, short_hist(c["ops"], k)),
                    {"case": c, "other_ttl": ref_ttl, "op_index": k}, "ttl")
                break
        stats["ttl_groups"] += 1
    # identical to operating core.Location directly (existence checking off)
    lcases, lrefs = [], []
    for key, by_ttl in groups.items():
        if key[2] or key[0] < 0:
            continue
        ttl = sorted(by_ttl)[0]
        ci, c = by_ttl[ttl]
        lcases.append(to_loc_case(c)); lrefs.append((ci, c))
    limpl = run_cases(drv, lcases)
    for lc, li, (ci, c) in zip(lcases, limpl, lrefs):
        keep = [k for k, o in enumerate(c["ops"]) if o["op"] not in ("create", "peek", "store", "sleep")]
        t = {}
        louts = (li or {}).get("outs") or []
        got = [canon17(op, louts[j] if j < len(louts) else None, t) for j, op in enumerate(lc["ops"])]
        want = [ci[k] for k in keep]
        stats["direct_location_runs"] += 1
        if got != want:
            j = next(j for j in range(len(got)) if got[j] != want[j])
            ck.violation("through the System differs from operating core.Location directly at %s: system=%s direct=%s" % (
                canon(lc["ops"][j])[:200], want[j][1][:200], got[j][1][:200]), {"case": c, "loc_case": lc, "op_index": j}, tag="direct")
    for c in cases[:2]:
        ck.sample({"ttl": c["ttl"], "check": c["check"], "state": c["state"], "ops": c["ops"][:6]})

    # ------------------------------------------------------------------ A2. histories over locations with parents
    # A parent is opened by the request that walks to it (System.GetLocation): already in memory under TTL forever, loaded in
    # the middle of the request under TTL never / an expired TTL.  Same histories under the three TTLs and against
    # core.Location operated directly (SimpleLocationProvider: nothing is ever loaded).  The histories are those of C09
    # (parents set, replaced, looped; rules with pattern conditions whose actions write through Env.*).
    import importlib
    sys.path.insert(0, os.path.dirname(os.path.abspath(__file__)))
    c09 = importlib.import_module("c09")
    WALK_ERRS = ("dupId", "notFound", "loop", "noProvider")
    pcs, pmeta = [], []
    for hnum in range(36 if not ck.thorough else 500):
        locs, pops = c09.gen_case(rng, ck.thorough)
        ops = []
        for op in pops:
            if op["op"] == "snapshot":
                continue
            op = copy.deepcopy(op)
            if op["op"] == "setParents":
                op["parents"] = [x for x in op["parents"] if x != "nowhere"]      # the System creates a location that is asked for
            ops.append(op)
        if not any(o["op"] == "setParents" and o["parents"] for o in ops):
            continue
        if '"remfact"' in json.dumps(ops):
            continue        # concurrent actions that remove one fact: which of them finds it is not a function of the history

        for l in locs:
            ops += [{"op": "search", "pattern": {"k": "?v"}, "inherited": False, "loc": l}, {"op": "search", "pattern": {"written": "?v"}, "inherited": False, "loc": l},
                    {"op": "listRules", "inherited": False, "loc": l}, {"op": "size", "loc": l}]
        for state in ("indexed", "linear"):
            for ttl in TTLS:
                pcs.append({"kind": "c17.sys", "ttl": ttl, "check": False, "state": state, "locs": locs, "ops": copy.deepcopy(ops)})
                pmeta.append((hnum, state, ttl))
    pimpl = run_cases(drv, pcs)

    def par_canon(c, i):
        outs = (i or {}).get("outs")
        if not isinstance(outs, list) or len(outs) != len(c["ops"]):
            return None
        t = {}
        res = []
        for op, o in zip(c["ops"], outs):
            a = canon17(op, o, t)
            if isinstance(o, dict) and o.get("err") in WALK_ERRS:
                a = ("err", "walk")          # which of two errors lying on one ancestor walk is met first is not part of the answer
            res.append(a)
        return res
    pgroups = collections.defaultdict(dict)
    for c, i, (hnum, state, ttl) in zip(pcs, pimpl, pmeta):
        ck.count(c)
        stats["parent_cases"] += 1; stats["parent_ops"] += len(c["ops"])
        if isinstance(i, dict) and i.get("err") in ("crash", "hang", "panic"):
            report(ck, stats, "System %s on a history over locations with parents (ttl=%s %s)" % (i.get("err"), ttl, state), {"case": c, "impl": i}, "crash")
            continue
        pgroups[(hnum, state)][ttl] = (par_canon(c, i), c)
    plc, plref = [], []
    for key, by_ttl in pgroups.items():
        ref_ttl = "forever" if "forever" in by_ttl else sorted(by_ttl)[0]
        ref, rc_ = by_ttl[ref_ttl]
        if ref is None:
            report(ck, stats, "history over locations with parents could not be run (ttl=%s)" % ref_ttl, {"case": rc_}, "corr")
            continue
        for ttl, (ci, c) in by_ttl.items():
            if ttl == ref_ttl or ci == ref:
                continue
            # believed only when it reproduces on an isolated re-run of both settings
            again = run_cases(drv, [c, rc_])
            a2, r2 = par_canon(c, again[0]), par_canon(rc_, again[1])
            if a2 is None or r2 is None or a2 == r2:
                stats["parent_retry_cleared"] += 1
                continue
            k = next((k for k in range(len(a2)) if a2[k] != r2[k]), 0)
            report(ck, stats, "results depend on the cache TTL (locations with parents, %s state): request %d %s gives %s under ttl=%s and %s under ttl=%s; history: %s" % (
                key[1], k, canon(c["ops"][k])[:200], a2[k][1][:200], ttl, r2[k][1][:200], ref_ttl, short_hist(c["ops"], k)),
                {"case": dict(c, ops=c["ops"][: k + 1]), "other_ttl": ref_ttl, "op_index": k}, "ttl-parents")
            break
        stats["parent_ttl_groups"] += 1
        lc = to_loc_case(rc_); lc["locs"] = rc_["locs"]
        plc.append(lc); plref.append((ref, rc_))
    plimpl = run_cases(drv, plc)
    for lc, li, (ref, c) in zip(plc, plimpl, plref):
        louts = (li or {}).get("outs") or []
        t = {}
        got = []
        for j, op in enumerate(lc["ops"]):
            o = louts[j] if j < len(louts) else None
            a = canon17(op, o, t)
            if isinstance(o, dict) and o.get("err") in WALK_ERRS:
                a = ("err", "walk")
            got.append(a)
        stats["parent_direct_runs"] += 1
        if got != ref:
            j = next((j for j in range(min(len(got), len(ref))) if got[j] != ref[j]), 0)
            op = lc["ops"][j]
            # a System installs the cron hooks on every location it opens: the rem hook reads the fact first, so removing what is
            # not there is an error through the System and ok directly; nothing changes either way
            if op["op"] in ("remFact", "remRule", "enableRule") and ref[j][0] == "err" and got[j][0] == "ok":
                stats["parent_direct_rem_missing"] += 1
                continue
            report(ck, stats, "through the System (ttl=%s, %s state) differs from operating core.Location directly at request %d %s: system=%s direct=%s; history: %s" % (
                c["ttl"], c["state"], j, canon(op)[:200], ref[j][1][:200], got[j][1][:200], short_hist(lc["ops"], j)), {"case": c, "loc_case": lc, "op_index": j}, "direct-parents")

    # ------------------------------------------------------------------ A3. DeleteLocation while a request holds the location
    # A request that is in flight holds the instance; DeleteLocation (and further requests) arrive meanwhile; what the holder writes
    # afterwards is acknowledged and must be seen by every later request under every TTL (the cache model has no delete request:
    # compared between the TTL settings on the real code)
    def delete_case(ttl, state, rng):
        n = "y"
        srch = {"op": "search", "pattern": {"a": "?v"}, "inherited": False}
        steps = [{"t": "req", "loc": n, "op": {"op": "addFact", "id": "f0", "fact": {"a": 0}}}, {"t": "open", "h": "A", "loc": n, "check": False}]
        if rng.random() < 0.5: steps.append({"t": "op", "h": "A", "op": {"op": "addFact", "id": "f1", "fact": {"a": 1}}})
        steps.append({"t": "req", "loc": n, "op": {"op": "deleteLocation"}})
        for _ in range(rng.randint(1, 2)): steps.append({"t": "req", "loc": n, "op": rng.choice([srch, {"op": "size"}, {"op": "getFact", "id": "f0"}])})
        steps.append({"t": "op", "h": "A", "op": {"op": "addFact", "id": "w", "fact": {"a": 7}}})
        if rng.random() < 0.5: steps.append({"t": "req", "loc": n, "op": dict(srch)})
        steps += [{"t": "release", "h": "A", "loc": n}, {"t": "req", "loc": n, "op": dict(srch)}, {"t": "req", "loc": n, "op": {"op": "size"}}]
        return {"kind": "c17.proto", "ttl": ttl, "state": state, "check": False, "steps": steps}
    dcs = []
    for r_ in range(6 if not ck.thorough else 60):
        st_ = rng.random()
        proto = delete_case("never", "indexed", random.Random(1000 + r_))
        for state in ("indexed", "linear"):
            for ttl in ("never", "forever", 40000000):
                dcs.append(dict(copy.deepcopy(proto), ttl=ttl, state=state))
    dimpl = run_cases(drv, dcs)
    def dcanon(c, i):
        outs = (i or {}).get("outs")
        if not isinstance(outs, list) or len(outs) != len(c["steps"]): return None
        t = {}
        return [canon17(dict(st.get("op") or {"op": st["t"]}, loc="y"), {k: v for k, v in o.items() if k in ("ok", "err")} if st["t"] != "open" else {"ok": True if "ok" in o else None, "err": o.get("err")}, t)
                for st, o in zip(c["steps"], outs)]
    for j in range(0, len(dcs), 3):
        grp = [(dcs[j + d], dcanon(dcs[j + d], dimpl[j + d])) for d in range(3)]
        stats["delete_held_groups"] += 1
        for c in grp: ck.count(c[0])
        ref = grp[0][1]
        for c, ci in grp[1:]:
            if ci is None or ref is None:
                report(ck, stats, "a history with DeleteLocation during a held request could not be run (ttl=%s): %s" % (c["ttl"], canon(dimpl[j])[:200]), {"case": c}, "corr"); break
            if ci != ref:
                k = next(k for k in range(len(ci)) if ci[k] != ref[k])
                report(ck, stats, "results depend on the cache TTL (DeleteLocation while a request holds the location, %s state): step %d %s gives %s under ttl=%s and %s under ttl=never" % (
                    c["state"], k, canon(c["steps"][k])[:160], str(ci[k][1])[:160], c["ttl"], str(ref[k][1])[:160]), {"case": c, "op_index": k}, "ttl-delete")
                break

    # ------------------------------------------------------------------ B. the exported protocol, step by step
    pcases = []
    for r in range(300 if not ck.thorough else 2500):
        for ttl in ("never", "forever", 40000000):
            state = rng.choice(["indexed", "linear"])
            kind = r % 3
            if kind == 0:
                pcases.append(gen_c17.proto_case(rng, ttl, state))
            elif kind == 1:
                pcases.append(gen_c17.overlap_case(rng, ttl, state))        # holders overlap, one releases after the TTL
            else:
                pcases.append(gen_c17.proto_case(rng, ttl, state, check=True))
    for f in FORMER:
        if f["class"] == "pending-bool":
            pcases.append(copy.deepcopy(f["witness"]))
    pimpl = run_cases(drv, pcases)

    def proto_model(cs, impls):
        mcs = []
        for c, i in zip(cs, impls):
            mc = copy.deepcopy(c)
            outs = (i or {}).get("outs") or []
            for k, st in enumerate(mc["steps"]):
                o = outs[k] if k < len(outs) and isinstance(outs[k], dict) else {}
                st["now"] = o.get("now", 0); st["t0"] = o.get("t0", 0); st["t1"] = o.get("t1", 0)
            mcs.append(mc)
        return run_cases(mdl, mcs)

    def proto_diff(c, i, m):
        """first step at which impl and model differ; first step at which impl and direct operation differ; model = direct?"""
        iouts, mouts = (i or {}).get("outs"), (m or {}).get("outs")
        if iouts is None or mouts is None or len(iouts) != len(c["steps"]) or len(mouts) != len(c["steps"]):
            return {"at": -1, "impl": i, "model": m}, None, False
        ti, tm, ts = {}, {}, {}
        pi, pm = {}, {}   # instance numbering by first appearance among the opens (requests load instances nobody sees)
        first, firstspec, specdiff = None, None, False
        for k, st in enumerate(c["steps"]):
            op = dict(st.get("op") or {"op": st["t"]}, loc=st.get("loc", ""))
            sp = None
            if st["t"] == "open":
                a = ("err", iouts[k]["err"]) if iouts[k].get("err") else ("ok", pi.setdefault(iouts[k].get("ok"), len(pi)))
                b = ("err", mouts[k]["err"]) if mouts[k].get("err") else ("ok", pm.setdefault(mouts[k].get("ok"), len(pm)))
                if "spec" in mouts[k]:
                    # directly: a checked open fails exactly when the location does not carry the marker
                    sa = ("err", iouts[k]["err"]) if iouts[k].get("err") else ("ok", True)
                    sb = ("err", mouts[k]["err"]) if mouts[k].get("err") else ("ok", True)
                    sp = ("err", mouts[k]["spec"]["err"]) if mouts[k]["spec"].get("err") else ("ok", True)
                    if sb != sp:
                        specdiff = True
                    if sa != sp and firstspec is None:
                        firstspec = {"at": k, "step": st, "impl": sa, "direct": sp}
            elif st["t"] in ("release", "sleep"):
                a = ("err", iouts[k]["err"]) if iouts[k].get("err") else ("ok", canon(iouts[k].get("ok")))
                b = ("err", mouts[k]["err"]) if mouts[k].get("err") else ("ok", canon(mouts[k].get("ok")))
            else:
                a, b = canon17(op, iouts[k], ti), canon17(op, mouts[k], tm)
                if "spec" in mouts[k]:
                    sp = canon17(op, mouts[k]["spec"], ts)
                    if sp != b:
                        specdiff = True
                    if sp != a and firstspec is None:
                        firstspec = {"at": k, "step": st, "impl": a, "direct": sp}
            if first is None and (a != b or iouts[k].get("loads") != mouts[k].get("loads") or iouts[k].get("cached") != mouts[k].get("cached")):
                first = {"at": k, "step": st, "impl": iouts[k], "model": mouts[k]}
        return first, firstspec, specdiff

    def short_steps(steps, k):
        return "[" + ", ".join(canon({a: b for a, b in st.items() if a not in ("now", "t0", "t1")}) for st in steps[:k + 1]) + "]"

    pmodel = proto_model(pcases, pimpl)
    for c, i, m in zip(pcases, pimpl, pmodel):
        ck.count(c)
        stats["proto_cases"] += 1; stats["proto_steps"] += len(c["steps"])
        if proto_class(c, -1) == "pending-bool":
            stats["proto_overlapping_holders"] += 1
        if c.get("check"):
            stats["proto_check_on"] += 1
        first, firstspec, specdiff = proto_diff(c, i, m)
        tries = 0
        while first is not None and tries < 3 and RETRIES[0] > 0:
            RETRIES[0] -= 1
            tries += 1
            i2 = run_cases(drv, [c]); m2 = proto_model([c], i2)
            f2, fs2, sd2 = proto_diff(c, i2[0], m2[0])
            if f2 is None:
                first, firstspec, specdiff, i, m = None, fs2, sd2, i2[0], m2[0]
        if first is not None:
            k = first.get("at")
            if firstspec is not None and firstspec["at"] <= (k if k >= 0 else 10**9):
                kk = firstspec["at"]
                fail(proto_class(c, kk), "the cache serves state that differs from the location operated directly (ttl=%s %s): step %d %s is answered %s, directly %s; steps: %s" % (
                    c["ttl"], c["state"], kk, canon(firstspec["step"])[:160], str(firstspec["impl"][1])[:160], str(firstspec["direct"][1])[:160], short_steps(c["steps"], kk)),
                    {"case": c, "first": firstspec, "impl": i}, "proto-transparency")
            else:
                fail(proto_class(c, k), "correspondence broken: CachedLocations.Open/Release and the protocol model disagree at step %s (ttl=%s %s): impl=%s model=%s; steps: %s" % (
                    k, c["ttl"], c["state"], canon({a: b for a, b in (first.get("impl") or {}).items() if a in ("ok", "err", "loads", "cached")})[:200] if isinstance(first.get("impl"), dict) else first.get("impl"),
                    canon({a: b for a, b in (first.get("model") or {}).items() if a in ("ok", "err", "loads", "cached")})[:200] if isinstance(first.get("model"), dict) else first.get("model"),
                    short_steps(c["steps"], k if k >= 0 else len(c["steps"]))),
                    {"case": c, "first": first}, "proto")
            continue
        if m.get("multiLive") or specdiff:
            ck.violation("INTERNAL: the protocol model %s although cache_transparent_under_overlap / single_instance_under_overlap exclude it" % (
                "loaded a second instance while one was held" if m.get("multiLive") else "differs from direct operation"),
                {"case": c, "model": m, "theorem": "cache_transparent_under_overlap"}, tag="internal")

    # ------------------------------------------------------------------ C. concurrent first requests: single load
    ccases = []
    reps = 16 if not ck.thorough else 300
    for r in range(reps):
        for ttl in TTLS:
            ccases.append({"kind": "c17.conc", "ttl": ttl, "state": "indexed" if r % 2 else "linear", "check": False,
                           "mode": "gate" if r % 2 == 0 else "free", "n": rng.choice([2, 4, 8, 16])})
    cimpl = run_cases(drv, ccases, jobs=4)
    for c, o in zip(ccases, cimpl):
        ck.count(c, nontrivial=False)
        stats["conc_runs"] += 1
        if not isinstance(o, dict) or "loads" not in o:
            ck.violation("concurrent first requests: %s" % canon(o)[:300], {"case": c, "impl": o}, tag="conc-crash"); continue
        if o["acked"] != o["n"] or o["stored"] != o["n"]:
            ck.violation("%d concurrent first requests (ttl=%s): %d acknowledged, %d stored" % (o["n"], c["ttl"], o["acked"], o["stored"]), {"case": c, "impl": o}, tag="conc")
            continue
        if o["visible"] != o["n"]:
            # a request issued after all N were acknowledged misses some of their writes: two instances were live (an
            # entry was dropped under a holder: the former class pending-bool)
            fail("pending-bool", "%d concurrent first requests (ttl=%s), all acknowledged and stored; the next request sees only %d of their facts (%d loads)" % (
                o["n"], c["ttl"], o["visible"], o["loads"]), {"case": c, "impl": o}, "conc-visible")
            continue
        if c["mode"] == "gate" and c["ttl"] == "forever":
            # the loader is held inside Storage.Load (it holds the entry lock) while everybody else arrives (single_load).
            # Under a TTL that runs out, goroutines still queued on the table mutex when the holders have all released
            # have not opened yet: they do not overlap with them and may load again; the overlap itself is driven
            # deterministically by the protocol-level cases (section B)
            stats["conc_gate_forever"] += 1
            if o.get("overlapLoads") != 1:
                fail("open-window", "%d concurrent first requests (loader held inside Storage.Load, ttl=forever): %s loads" % (o["n"], o.get("overlapLoads")), {"case": c, "impl": o}, "single-load")
        elif c["ttl"] == "forever" and o["loads"] != 1:
            fail("open-window", "%d concurrent first requests (ttl=forever): %d loads, %d of %d acknowledged facts visible" % (o["n"], o["loads"], o["visible"], o["n"]),
                 {"case": c, "impl": o}, "single-load")
        if o["loads"] == 1:
            stats["conc_single_load"] += 1

    # ------------------------------------------------------------------ D. the witnesses of the former findings
    def replay_former(f):
        """(behaves, description of what the witness did)"""
        w, cls = f["witness"], f["class"]
        if cls == "open-window":
            o = run_cases(drv, [w])[0]
            if isinstance(o, dict) and o.get("err"):
                return None, "forced schedule could not be replayed: %s" % o.get("err")
            ok = isinstance(o, dict) and o.get("loads", 0) == 1 and len(o.get("visible") or []) == 2
            return ok, "two first requests for one location, the second arriving while the first is inside CachedLocation.get: %s" % canon(o)[:260]
        if cls == "pending-bool":
            o = run_cases(drv, [w])[0]
            outs = (o or {}).get("outs") or [{}]
            last = outs[-1]
            seen = [x.get("id") for x in (last.get("ok") or [])] if isinstance(last.get("ok"), list) else None
            loads = [x.get("loads") for x in outs]
            # one load while A or B hold y (the request in between is served their instance); the last request may load again
            ok = seen == ["w"] and sum(l or 0 for l in loads[:-1]) == 1
            return ok, "A and B hold y, A releases after the TTL, somebody asks for y, B adds w and releases: the last search finds %s; loads per step %s; steps: %s" % (seen, loads, short_steps(w["steps"], len(w["steps"])))
        if cls == "marker-erased":
            res = {}
            for ttl in ("forever", "never"):
                o = run_cases(drv, [dict(w, ttl=ttl)])[0]
                res[ttl] = [("err:" + x["err"]) if x.get("err") else "ok" for x in (o.get("outs") or [])]
            ok = res["forever"] == res["never"] == ["ok", "ok", "ok"]
            return ok, "create x; clear x; addFact x: forever=%s never=%s" % (res["forever"], res["never"])
        if cls == "unchecked-open":
            res = {}
            for ttl in ("forever", "never"):
                o = run_cases(drv, [dict(w, ttl=ttl)])[0]
                outs = o.get("outs") or []
                res[ttl] = [("err:" + x["err"]) if x.get("err") else "ok" for x in outs[:-1]] + [sorted((outs[-1].get("ok") or {}).keys())] if outs else []
            want = ["ok", "ok", "err:notFound", "ok", "err:notFound", "err:notFound", []]
            ok = res["forever"] == want and res["never"] == want
            return ok, "create c; setParents c [p]; addFact p; search c (inherited: opens p unchecked); addFact p; addFact p; store p: forever=%s never=%s" % (res["forever"], res["never"])
        return None, "unknown class"

    for f in FORMER:
        ok, desc = replay_former(f)
        stats["former_witnesses"] += 1
        if f["id"] in listed_ids:
            # still listed as a finding of the tree: it is expected to fail
            if ok is False:
                ck.known_finding("%s: %s (%s)" % (f["id"], f["what"], desc))
            elif ok:
                ck.violation("%s is listed as a finding but its witness behaves (move it to `fixed`): %s" % (f["id"], desc), {"case": f["witness"]}, tag="stale-finding", no_input=True)
            else:
                ck.violation("the witness of %s could not be replayed: %s" % (f["id"], desc), {"case": f["witness"]}, tag="witness", no_input=True)
        elif not ok:
            ck.violation("the repaired defect %s is back: %s -- %s" % (f["id"], f["what"], desc), {"case": f["witness"], "finding": f["id"]}, tag="former-" + f["class"])
    for cls, n in known_hits.items():
        ck.note("generated cases in the class of a finding that is still listed (%s): %d" % (cls, n))

    ck.cov["rule"] = ("request histories over 2-3 locations (facts, rules, events, searches, removals, clears, CreateLocation, GetLocation, removal of the createdAt marker, `!cacheTTL` facts, pauses) run through twin "
                      "Systems under TTL never/1ms/forever x CheckExistence x indexed/linear; interleavings of Open/call/Release over the exported cache protocol with overlapping holders and expiring TTLs, checked and unchecked opens; "
                      "N=2..16 concurrent first requests; non-trivial = distinct by canonical JSON")
    ck.cov["distribution"] = dict(stats, known_class_hits=dict(known_hits))
    ck.cov["traces_validated_against_impl"] = stats["sys_cases"] + stats["proto_cases"] + stats["direct_location_runs"]
    if stats["violations_not_written"]:
        ck.note("%d further violations were found and not written out (per kind: %s)" % (stats["violations_not_written"], dict(TAGGED)))
    if pr["failed"] and ck.violations == 0:
        ck.violation("proof obligations of C17 no longer check: %s" % pr["failed"], {"theorems": pr.get("failed_theorems") or pr["failed"], "log": pr["log"][-3000:]}, tag="proof", no_input=True)
    ck.finish()


main()

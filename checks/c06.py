#!/usr/bin/env python3
"""C06 — acknowledged changes are durable; reload reproduces the live location."""
import sys, os, json, time
sys.path.insert(0, os.path.join(os.path.dirname(os.path.abspath(__file__)), "..", "lib"))
from loccheck import *

IDS = ["f1", "f2", "f3", "r1", "r2"]
A = {"code": "(1)", "verif_tmpl": {"t": "lit", "v": 1}}

def observe(rng):
    o = [{"op": "snapshot"}]
    o.append({"op": "search", "pattern": {"k": "?k"}, "inherited": rng.random() < 0.3})
    o.append({"op": "search", "pattern": rng.choice([{"tags": ["red"]}, {"parts": [{"n": 1}]}, {"parts": [{"n": "?n"}]}]), "inherited": False})
    o.append({"op": "getFact", "id": rng.choice(IDS)})
    o.append({"op": "event", "event": {"go": rng.choice([1, "x"]), "k": 1}})
    o.append({"op": "listRules", "inherited": False})
    o.append({"op": "getParents"})
    o.append({"op": "ruleEnabled", "id": rng.choice(["r1", "r2"])})
    return o

def gen_ops(rng, thorough, with_reload=True):
    now = int(time.time())
    ops = []
    n = rng.randint(5, 12 if not thorough else 24)
    for _ in range(n):
        r = rng.random()
        i = rng.choice(IDS)
        if r < 0.30:
            f = {"k": rng.choice([1, 2, "x"]), "v": i}
            if rng.random() < 0.3: f["deleteWith"] = [rng.choice(IDS)]
            e = rng.random()
            if e < 0.15: f["ttl"] = rng.choice([100000, "1000s", "90m"])
            elif e < 0.3: f["expires"] = rng.choice([now + 100000, time.strftime("%Y-%m-%dT%H:%M:%SZ", time.gmtime(now + 100000))])
            ops.append({"op": "addFact", "id": i if rng.random() < 0.85 else "", "fact": f})
        elif r < 0.45:
            # rules differ in pattern, bindings and result, so that a replaced rule that lingers anywhere is visible in the next dispatch
            v = rng.choice([1, 2, "a", "b"])
            rule = {"when": {"pattern": {rng.choice(["go", "k"]): rng.choice(["?x", "?y"])}}, "action": {"code": "(%s)" % json.dumps(v), "verif_tmpl": {"t": "lit", "v": v}}}
            if rng.random() < 0.3: rule["ttl"] = rng.choice([100000, "1000s"])
            if rng.random() < 0.2: rule["deleteWith"] = [rng.choice(IDS)]
            if rng.random() < 0.18:
                # a scheduled rule (no `when`): stored and listed, never dispatched for events -- also when it replaces an event rule
                # under the same id, live and after a reload alike (the schedule lies far in the future; no cron is attached here)
                rule = {"schedule": rng.choice(["0 0 1 1 *", "+1000h", "!2099-01-01T00:00:00Z"]), "action": rule["action"]}
            ops.append({"op": "addRule", "id": rng.choice(["r1", "r2"]), "rule": rule})
        elif r < 0.58: ops.append({"op": "remFact", "id": i})
        elif r < 0.64: ops.append({"op": "remRule", "id": rng.choice(["r1", "r2"])})
        elif r < 0.72: ops.append({"op": "enableRule", "id": rng.choice(["r1", "r2"]), "enable": rng.random() < 0.4})
        elif r < 0.78: ops.append({"op": "setParents", "parents": rng.choice([["p"], [], ["p", "q"]])})
        elif r < 0.82: ops.append({"op": "addFact", "id": "", "fact": {"id": i, "!tag": rng.choice(["t", 1])}})
        elif r < 0.83: ops.append({"op": "clear"})
        elif r < 0.85:
            # a fact written by a rule action: it reaches the state typed as the Javascript runtime exports it ([]string, []map, int64);
            # the live location and the reloaded one (which reads JSON) answer alike
            f = {"k": rng.choice([1, "x"]), "v": i, "tags": rng.sample(["red", "green", "blue"], rng.randint(1, 2)), "parts": [{"n": rng.choice([1, 2])}]}
            t = {"t": "addfact", "id": i, "fact": f}
            ops += [{"op": "addRule", "id": "mk", "rule": {"when": {"pattern": {"make!": "?m"}}, "action": {"code": js_of_tmpl(t), "verif_tmpl": t}}},
                    {"op": "event", "event": {"make!": 1}}, {"op": "remRule", "id": "mk"}]
        elif r < 0.92: ops.append({"op": "event", "event": {"go": rng.choice([1, "x"]), "k": 1}})
        elif with_reload:
            ops += observe(rng); ops.append({"op": "reload"}); ops += observe(rng)
    if with_reload:
        ops += observe(rng); ops.append({"op": "reload"}); ops += observe(rng)
    for o in ops: o.setdefault("loc", "a")
    return ops

def closure_py(facts, roots):
    dead = set(roots)
    changed = True
    while changed:
        changed = False
        for i, f in facts.items():
            dw = f.get("deleteWith") if isinstance(f, dict) else None
            if i not in dead and isinstance(dw, list) and any(isinstance(x, str) and x in dead for x in dw):
                dead.add(i); changed = True
    return dead

def named_ids(op, fresh_ok=True):
    k = op["op"]
    if k in ("addFact",):
        f = op.get("fact", {})
        props = [p for p in f if p.startswith("!")]
        if props: return ["!%s.%s" % (f.get("id", ""), props[0][1:])]
        return [op.get("id") or "*fresh*"]
    if k in ("addRule", "remFact"): return [op.get("id") or "*fresh*"]
    if k == "remRule": return [op["id"], "!%s.disabled" % op["id"]]
    if k == "enableRule": return ["!%s.disabled" % op["id"]]
    if k == "setParents": return ["!.parents"]
    if k == "clear": return ["*all*"]
    return []

def main():
    ck = Check("C06", level="proof")
    if "--replay" in sys.argv:
        replay_main(ck, sys.argv[sys.argv.index("--replay") + 1])
    pr = proof_part(ck, "C06")
    lr = LocRun(ck, []); lr.build()
    rng = ck.rng
    # ---- A: reload refinement, state x storage
    nA = 150 if not ck.thorough else 3000
    opsA = [gen_ops(rng, ck.thorough) for _ in range(nA)]
    casesA = [{"kind": "loc", "state": st, "storage": sto, "locs": ["a", "p", "q"], "ops": copy.deepcopy(o)} for o in opsA for st in ("indexed", "linear") for sto in ("mem", "bolt")]
    # minimised / recorded past failures run first (corpus/C06.jsonl)
    corpus = os.path.join(VERIF, "corpus", "C06.jsonl")
    if os.path.exists(corpus) and not os.environ.get("VERIF_NO_CORPUS"):       # (VERIF_NO_CORPUS: trying a seeded change on a commit older than the repair the corpus case belongs to)
        pre = []
        for l in open(corpus):
            if l.strip():
                cc = json.loads(l); cc.pop("note", None)
                pre.append(cc)
        casesA = pre + casesA
    implA, modelA, mcA = lr.run(casesA, nontrivial=lambda c: True)
    # direct: the observations right before and right after every reload are identical
    for c, i in zip(mcA, implA):
        outs = (i or {}).get("outs") or []
        for k, op in enumerate(c["ops"]):
            if op["op"] == "reload" and k >= 7 and k + 7 < len(outs):
                t = {}
                for d in range(1, 8):
                    a, b = map_ids(outs[k - 8 + d], t), map_ids(outs[k + d], t)
                    oa, ob = c["ops"][k - 8 + d], c["ops"][k + d]
                    if oa["op"] != ob["op"]: break
                    # same question asked before and after?
                    if canon({x: v for x, v in oa.items() if x != "now"}) != canon({x: v for x, v in ob.items() if x != "now"}): continue
                    if canon_out(oa, a) != canon_out(ob, b):
                        ck.violation("reload changed what the location answers to %s (%s state, %s storage): before=%s after=%s" % (oa["op"], c["state"], c["storage"], canon_out(oa, a)[1][:250], canon_out(ob, b)[1][:250]),
                                     {"case": {kk: (v if kk != "ops" else v[: k + d + 1]) for kk, v in c.items()}, "before": a, "after": b}, tag="reload")
                        break
    # ---- B and C: every storage write of a history made to fail / every crash point
    nB = 40 if not ck.thorough else 600
    opsB = [gen_ops(rng, ck.thorough, with_reload=False) for _ in range(nB)]
    base = [{"kind": "loc", "state": st, "storage": "mem", "locs": ["a", "p", "q"], "ops": copy.deepcopy(o)} for o in opsB for st in ("indexed", "linear")]
    base_out = run_cases(lr.drv, base)
    fcases, ccases = [], []
    for c, o in zip(base, base_out):
        W = (o.get("outs") or [{}])[-1].get("writes", 0) if o.get("outs") else 0
        pts = list(range(1, W + 1))
        if not ck.thorough and len(pts) > 6: pts = rng.sample(pts, 6)
        for n in pts:
            fcases.append(dict(copy.deepcopy(c), failAt=n))
            # the op during which write n happens (from the fault-free run); the crash history stops right after it
            ws = [r.get("writes", 0) for r in (o.get("outs") or [])]
            kc = next((k for k, w in enumerate(ws) if w >= n), None)
            if kc is None: continue
            cc = dict(copy.deepcopy(c), crashAt=n)
            cc["ops"] = cc["ops"][: kc + 1] + [{"op": "snapshot", "loc": "a"}]
            ccases.append(cc)
    fout = run_cases(lr.drv, fcases)
    nfail = 0
    for c, o in zip(fcases, fout):
        ck.count({"f": c["failAt"], "s": c["state"], "ops": c["ops"]})
        outs = o.get("outs") or []
        if o.get("err") in ("crash", "hang"):
            ck.violation("the real code %s when storage write %d failed" % (o.get("err"), c["failAt"]), {"case": c, "impl": o}, tag="faultcrash"); continue
        prev = 0
        for k, r in enumerate(outs):
            w = r.get("writes", prev)
            if prev < c["failAt"] <= w:
                nfail += 1
                ok = ("err" in r and r["err"] is not None) if c["ops"][k]["op"] != "event" else True
                # an expiry/purge write failing inside a read is logged, not reported; only mutating ops must report
                if not ok and c["ops"][k]["op"] in ("addFact", "addRule", "remFact", "remRule", "enableRule", "setParents", "clear"):
                    ck.violation("storage write %d (%s) failed during %s but the operation reported success: %s (%s state)" % (
                        c["failAt"], (o.get("storage_log") or ["?"] * c["failAt"])[c["failAt"] - 1], c["ops"][k]["op"], canon(r)[:200], c["state"]),
                        {"case": {kk: (v if kk != "ops" else v[: k + 1]) for kk, v in c.items()}, "impl": r}, tag="fault")
                break
            prev = w
    lr.stats["fault_points"] = nfail
    # ---- B2: the failed operation is repeated. A retry that is acknowledged is an acknowledged operation: what it names is in storage
    # afterwards, and a reload answers like the live location (an operation that found its result "already there" in memory
    # after the failed attempt and skipped the write would be acknowledged and lost)
    RETRY = ("addFact", "addRule", "setParents", "enableRule")
    rcases, rinfo = [], []
    for c, o in zip(fcases, fout):
        outs = o.get("outs") or []
        prev, kf_ = 0, None
        for k, r in enumerate(outs):
            w = r.get("writes", prev)
            if prev < c["failAt"] <= w:
                kf_ = k; break
            prev = w
        if kf_ is None or c["ops"][kf_]["op"] not in RETRY or outs[kf_].get("err") is None:
            continue
        opk = c["ops"][kf_]
        if opk["op"] == "enableRule" and opk.get("enable"):
            continue            # enabling = removing the flag: the removals are looked at by C08
        if opk["op"] in ("addFact", "addRule") and not opk.get("id"):
            continue            # a fresh id per attempt
        rc_ = dict(copy.deepcopy(c))
        rc_["ops"] = rc_["ops"][: kf_ + 1] + [copy.deepcopy(opk), {"op": "snapshot", "loc": opk.get("loc", "a")}, {"op": "reload", "loc": opk.get("loc", "a")},
                                             {"op": "snapshot", "loc": opk.get("loc", "a")}]
        rcases.append(rc_); rinfo.append(kf_)
    if not ck.thorough and len(rcases) > 150:
        pick = sorted(rng.sample(range(len(rcases)), 150))
        rcases, rinfo = [rcases[i] for i in pick], [rinfo[i] for i in pick]
    rout = run_cases(lr.drv, rcases)
    for c, o, kf_ in zip(rcases, rout, rinfo):
        ck.count({"retry": c["failAt"], "s": c["state"], "ops": c["ops"]})
        outs = o.get("outs") or []
        if len(outs) != len(c["ops"]):
            continue
        lr.stats["retry_cases"] += 1
        retry, live, after = outs[kf_ + 1], (outs[kf_ + 2].get("ok") or {}), (outs[kf_ + 4].get("ok") or {})
        if retry.get("err") is not None:
            lr.stats["retry_refused"] += 1
            continue
        named = [i for i in named_ids(c["ops"][kf_]) if not i.startswith("*")]
        cf = lambda d: {k: canon(canon_fact(v)) for k, v in (d or {}).items()}
        lf, ls, af = cf(live.get("facts")), cf(live.get("store")), cf(after.get("facts"))
        bad = [i for i in named if lf.get(i) != ls.get(i)]
        if bad:
            ck.violation("%s failed (storage write %d), was repeated and acknowledged, but what it names is not in storage: id %s memory=%s storage=%s (%s state)" % (
                c["ops"][kf_]["op"], c["failAt"], bad[0], str(lf.get(bad[0]))[:160], str(ls.get(bad[0]))[:160], c["state"]),
                {"case": {kk: (v if kk != "ops" else v[: kf_ + 3]) for kk, v in c.items()}, "snapshot": live}, tag="retry")
            continue
        bad = [i for i in named if lf.get(i) != af.get(i)]
        if bad:
            ck.violation("%s failed (storage write %d), was repeated and acknowledged, and is lost by a reload: id %s live=%s reloaded=%s (%s state)" % (
                c["ops"][kf_]["op"], c["failAt"], bad[0], str(lf.get(bad[0]))[:160], str(af.get(bad[0]))[:160], c["state"]),
                {"case": c, "live": live, "reloaded": after}, tag="retry-reload")
    # ---- B3: after a storage failure the live location is still one location: what it dispatches and finds is what a healthy
    # location holding the same documents (the live one's own memory, read back by `snapshot`) dispatches and finds -- an index
    # that was taken apart for an update and not put together again when the write failed shows here
    OBS = [{"op": "event", "event": {"go": 1, "k": 1}}, {"op": "event", "event": {"go": "x", "k": 2}}, {"op": "search", "pattern": {"k": "?k"}, "inherited": False},
           {"op": "search", "pattern": {"v": "?v"}, "inherited": False}, {"op": "searchRules", "event": {"go": 1, "k": "x"}, "inherited": False}, {"op": "listRules", "inherited": False}]
    selfcons_phase(ck, lr, fcases, fout, OBS, rng, 160 if not ck.thorough else 100000)
    remrule_fault_phase(ck, lr)
    # crash points: run the acknowledged prefix on the model; after the crash storage must hold exactly that, except for the ids the interrupted op names (and their dependents)
    cout = run_cases(lr.drv, ccases)
    mprefix = []
    info = []
    for c, o in zip(ccases, cout):
        outs = o.get("outs") or []
        kcrash = next((k for k, r in enumerate(outs) if r.get("err") == "crashed"), None)
        if kcrash is None:
            info.append(None); mprefix.append({"kind": "loc", "state": c["state"], "locs": c["locs"], "ops": [{"op": "snapshot", "loc": "a", "now": 0}]}); continue
        pre = copy.deepcopy(c["ops"][:kcrash])
        for k, op in enumerate(pre): op["now"] = outs[k].get("now", 0)
        mprefix.append({"kind": "loc", "state": c["state"], "locs": c["locs"], "ops": pre + [{"op": "snapshot", "loc": "a", "now": outs[kcrash].get("now", 0)}]})
        info.append(kcrash)
    mout = run_cases(lr.mdl, mprefix)
    ncrash = 0
    for c, o, m, kcrash in zip(ccases, cout, mout, info):
        if kcrash is None: continue
        ck.count({"c": c["crashAt"], "s": c["state"], "ops": c["ops"]})
        ncrash += 1
        outs = o.get("outs") or []
        final = outs[-1].get("ok") if outs and isinstance(outs[-1], dict) else None
        # the last snapshot is taken after the remaining ops ran on the reopened location; use the state right after the crash: re-derive from a dedicated run
        # (the harness reopens inside the crashed op; we appended a snapshot at the very end, so cut the history right after the crash)
        expected = ((m.get("outs") or [{}])[-1].get("ok") or {}).get("store")
        if expected is None: continue
        c2 = c
        snap = ((outs or [{}])[-1].get("ok") or {})
        got = snap.get("store", {})
        t = {}
        got = map_ids(got, t)
        named = named_ids(c["ops"][kcrash])
        if "*all*" in named: continue
        touched = closure_py(expected, [x for x in named])
        touched |= set(named)
        bad = [i for i in set(expected) | set(got) if i not in touched and not i.startswith("fresh#") and canon(canon_fact(expected.get(i))) != canon(canon_fact(got.get(i)))]
        if bad:
            ck.violation("after a crash before storage write %d (inside %s %s) the reloaded location differs from the acknowledged history at ids %s it does not name (%s state)" % (
                c["crashAt"], c["ops"][kcrash]["op"], c["ops"][kcrash].get("id", ""), sorted(bad), c["state"]),
                {"case": c2, "expected_store": expected, "got_store": got}, tag="crash")
        # a write that replaces a stored document is one storage write: a crash inside the operation leaves the old or the new document,
        # never none (enableRule(true) and the removals are the operations that delete)
        opk = c["ops"][kcrash]
        if opk["op"] in ("addFact", "addRule", "setParents") or (opk["op"] == "enableRule" and not opk.get("enable")):
            lost = [i for i in named if i in expected and i not in got]
            if lost:
                ck.violation("a crash before storage write %d inside %s lost the previously stored document %s: an overwrite left nothing behind (%s state)" % (
                    c["crashAt"], opk["op"], lost, c["state"]), {"case": c2, "expected_store": expected, "got_store": got}, tag="crash-lost")
        # memory after reopen must equal storage
        if canon({k: canon_fact(v) for k, v in snap.get("facts", {}).items()}) != canon({k: canon_fact(v) for k, v in snap.get("store", {}).items()}):
            ck.violation("after reopening, memory and storage differ (%s state)" % c["state"], {"case": c2, "snapshot": snap}, tag="reopen")
    lr.stats["crash_points"] = ncrash
    # ---- D: back-end limits: whatever a storage back end refuses must surface as an error, never as an acknowledged write
    # (bolt rejects keys above 32768 bytes and empty keys; nothing in core validates ids before they reach the back end)
    dcases = []
    for st in ("indexed", "linear"):
        for sto in ("bolt", "mem"):
            for n_ in (100, 32768, 32769, 40000):
                big = "k" * n_
                dcases.append({"kind": "loc", "state": st, "storage": sto, "locs": ["a"], "ops": [
                    {"op": "addFact", "loc": "a", "id": big, "fact": {"k": 1}}, {"op": "reload", "loc": "a"}, {"op": "getFact", "loc": "a", "id": big},
                    # whatever the back end made of that id, it keeps taking writes afterwards (a refused write must not hold its lock)
                    {"op": "addFact", "loc": "a", "id": "after", "fact": {"k": 2}}, {"op": "remFact", "loc": "a", "id": "after"}, {"op": "addFact", "loc": "a", "id": "after", "fact": {"k": 3}},
                    {"op": "reload", "loc": "a"}, {"op": "getFact", "loc": "a", "id": "after"}]})
    dout = run_cases(lr.drv, dcases)
    for c, o in zip(dcases, dout):
        ck.count({"limits": len(c["ops"][0]["id"]), "s": c["state"], "sto": c["storage"]})
        outs = o.get("outs") or []
        if o.get("err") in ("crash", "hang") or len(outs) != len(c["ops"]) or any(isinstance(x, dict) and x.get("err") in ("hang", "panic", "crashed") for x in outs) or \
                (len(outs) == len(c["ops"]) and ("ok" not in outs[-1] or (outs[-1].get("ok") or {}).get("k") != 3)):
            ck.violation("after an AddFact with a %d byte id on %s storage (%s state) the location no longer takes writes: %s" % (
                len(c["ops"][0]["id"]), c["storage"], c["state"], canon([{k: v for k, v in (x or {}).items() if k in ("ok", "err", "msg")} for x in outs[3:]] or o)[:300]),
                {"case": {kk: (v if kk != "ops" else [dict(op, id="k*%d" % len(op["id"])) if len(op.get("id", "")) > 100 else op for op in v]) for kk, v in c.items()}}, tag="limits-after")
            continue
        if len(outs) >= 3 and "ok" in outs[0] and "ok" not in outs[2]:
            ck.violation("AddFact with a %d byte id was acknowledged on %s storage (%s state) but the fact is gone after reload: %s" % (
                len(c["ops"][0]["id"]), c["storage"], c["state"], canon(outs[2])[:150]),
                {"case": {kk: (v if kk != "ops" else [dict(op, id="k*%d" % len(op["id"])) if "id" in op else op for op in v]) for kk, v in c.items()}, "impl": [outs[0].get("err"), outs[2].get("err")]}, tag="limits")
    lr.stats["backend_limit_cases"] = len(dcases)
    for c in casesA[:1] + fcases[:1] + ccases[:1]:
        ck.sample({k: (v if k != "ops" else v[:6]) for k, v in c.items()})
    lr.finish_cov("(A) histories of fact/rule/property/parent operations with reloads, {indexed, linear} x {memory, bolt}: every answer compared with the Lean model (whose reload is Load over the "
                  "stored documents) and the observations before/after each reload compared with each other; (B) for histories without reload, every storage write (quick: up to 6 per history) made "
                  "to fail in turn: the operation containing it must report an error; (C) every such write turned into a crash point (process state dropped, locations reopened from storage): storage "
                  "must equal the model's state after the acknowledged prefix except at the ids the interrupted operation names and their dependents, and memory must equal storage")
    ck.cov["trusted_base"].append("Bolt transaction atomicity/durability and mmap behaviour; MemStorage; a crash is modelled as dropping all in-memory objects just before a storage write")
    proof_verdict(ck, pr)
    ck.finish()

main()

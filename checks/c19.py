#!/usr/bin/env python3
"""C19 — access controls and enablement are enforced on every path."""
import sys, os, json
sys.path.insert(0, os.path.join(os.path.dirname(os.path.abspath(__file__)), "..", "lib"))
from loccheck import *
import extract_loc

A = {"code": "(1)", "verif_tmpl": {"t": "lit", "v": 1}}
EFFECT = {"code": js_of_tmpl({"t": "addfact", "id": "made", "fact": {"by": "action"}}), "verif_tmpl": {"t": "addfact", "id": "made", "fact": {"by": "action"}}}
MUTATING = {"addFact", "remFact", "addRule", "remRule", "enableRule", "setParents", "clear"}
REVEALING = {"getFact", "search", "getRule", "searchRules", "listRules", "getParents", "ruleEnabled", "size", "event", "query"}

def all_ops(rng):
    return [
        {"op": "addFact", "id": rng.choice(["f1", "f9"]), "fact": {"k": rng.choice([1, 2]), "w": "x"}},
        {"op": "remFact", "id": "f1"},
        {"op": "getFact", "id": "f1"},
        {"op": "search", "pattern": {"k": "?k"}, "inherited": rng.random() < 0.5},
        {"op": "addRule", "id": rng.choice(["r1", "r9"]), "rule": {"when": {"pattern": {"go": "?x"}}, "action": A}},
        {"op": "remRule", "id": "r1"},
        {"op": "enableRule", "id": "r1", "enable": rng.random() < 0.5},
        {"op": "ruleEnabled", "id": "r1"},
        {"op": "getRule", "id": "r1"},
        {"op": "searchRules", "event": {"go": 1}, "inherited": rng.random() < 0.5},
        {"op": "listRules", "inherited": rng.random() < 0.5},
        {"op": "getParents"},
        {"op": "setParents", "parents": ["b"]},
        {"op": "clear"},
        {"op": "size"},
        {"op": "event", "event": {"go": 1}},
        {"op": "query", "query": {"pattern": {"k": "?k"}}},
        # what the cron service sends when a scheduled rule is due; after a one-shot rule ran it is removed -- a removal like any other:
        # it needs the caller's write key
        {"op": "event", "event": {"trigger!": "s1"}},
        {"op": "getRule", "id": "s1"},
    ]

def gen_case(rng, thorough):
    prot = rng.choice(["none", "write", "read", "both", "readonly", "disabled", "write+ro"])
    ops = [
        {"op": "addFact", "id": "f1", "fact": {"k": 1, "w": "y"}},
        {"op": "addFact", "id": "f2", "fact": {"k": 2}},
        # a rule whose action writes through Env.AddFact: it runs with the caller's context, so it needs the caller's write key
        {"op": "addRule", "id": "r1", "rule": {"when": {"pattern": {"go": "?x"}}, "actions": [A, EFFECT]}},
        # a one-shot scheduled rule (far in the future; no cron is attached here), added before the location is protected
        {"op": "addRule", "id": "s1", "rule": {"schedule": "+1000h", "action": A}},
    ]
    wk = rk = None
    if prot in ("write", "both", "write+ro"):
        wk = "W1"; ops.append({"op": "addFact", "id": rng.choice(["", "", "mykey"]), "fact": {"!writeKey": wk}})   # a property fact is stored under its canonical id whatever id is given
    if prot in ("read", "both"):
        rk = "R1"; ops.append({"op": "addFact", "id": rng.choice(["", "", "rk1"]), "fact": {"!readKey": rk}, "wk": wk or ""})
    if prot == "disabled":
        ops.append({"op": "addFact", "id": rng.choice(["", "", "sw"]), "fact": {"!enabled": rng.choice(["no", "false", "off"])}})
    if prot in ("readonly", "write+ro"):
        ops.append({"op": "setReadOnly", "v": True})
    body = []
    cand = all_ops(rng)
    rng.shuffle(cand)
    for o in cand[: rng.randint(4, len(cand))]:
        caller = rng.choice(["none", "wrong", "right"])
        o = dict(o)
        if caller == "wrong": o["wk"], o["rk"] = "nope", "nope"
        if caller == "right": o["wk"], o["rk"] = wk or "", rk or ""
        o["_caller"] = caller
        if rng.random() < 0.35: o["subctx"] = True      # as when the request arrives through the HTTP service (a sub-context of the service's context)
        body.append({"op": "snapshot", "wk": wk or "", "rk": rk or ""})
        body.append(o)
        body.append({"op": "snapshot", "wk": wk or "", "rk": rk or ""})
    ops += body
    for o in ops: o.setdefault("loc", "a")
    return prot, wk, rk, ops

SYS_MUTATING = ("addFact", "remFact", "addRule", "remRule", "enableRule", "setParents", "clear", "deleteLocation")


def sys_ro_case(rng, state):
    loc = "a"
    probes = [{"op": "store", "_probe": True}, {"op": "search", "pattern": {"k": "?v"}, "inherited": False, "_probe": True},
              {"op": "listRules", "inherited": False, "_probe": True}, {"op": "getParents", "_probe": True}]
    ops = [{"op": "create"}, {"op": "create", "loc": "p"},
           {"op": "addFact", "id": "f1", "fact": {"k": 1}}, {"op": "addFact", "id": "f2", "fact": {"k": "two"}},
           {"op": "addRule", "id": "r1", "rule": {"when": {"pattern": {"go": "?x"}}, "action": {"code": "Env.AddFact(\"made\", {\"k\": \"made\"})"}}}]
    if rng.random() < 0.5:
        ops.append({"op": "setParents", "parents": ["p"]})
    ops.append({"op": "setReadOnly", "value": True})
    ops += copy.deepcopy(probes)
    for _ in range(rng.randint(2, 7)):
        r = rng.random()
        if r < 0.22: o = {"op": "deleteLocation"}
        elif r < 0.36: o = {"op": "addFact", "id": rng.choice(["f1", "f3", ""]), "fact": {"k": rng.choice([1, 2, "x"])}}
        elif r < 0.46: o = {"op": "remFact", "id": rng.choice(["f1", "f2", "nope"])}
        elif r < 0.54: o = {"op": "clear"}
        elif r < 0.62: o = {"op": "setParents", "parents": rng.choice([[], ["p"], ["q"]])}
        elif r < 0.70: o = {"op": "addRule", "id": rng.choice(["r1", "r2"]), "rule": {"when": {"pattern": {"go": "?y"}}, "action": {"code": "1"}}}
        elif r < 0.76: o = {"op": "remRule", "id": "r1"}
        elif r < 0.82: o = {"op": "enableRule", "id": "r1", "enable": False}
        elif r < 0.92: o = {"op": "event", "event": {"go": rng.choice([1, "now"])}}
        else: o = {"op": "getFact", "id": "f1"}
        ops.append(o)
        ops += copy.deepcopy(probes)
    ops.append({"op": "setReadOnly", "value": False})
    ops.append({"op": "addFact", "id": "after", "fact": {"k": "after"}, "_must_succeed": True})
    ops.append({"op": "store", "_probe": True})
    for o in ops: o.setdefault("loc", loc)
    return {"kind": "c17.sys", "ttl": "forever", "state": state, "check": False, "ops": ops}


def main():
    ck = Check("C19")
    if "--replay" in sys.argv:
        replay_main(ck, sys.argv[sys.argv.index("--replay") + 1])
    pr = proof_part(ck, "C19", pre=extract_loc.regenerate if hasattr(extract_loc, "regenerate") else None)
    lr = LocRun(ck, []); lr.build()
    n = 400 if not ck.thorough else 8000
    gens = [gen_case(ck.rng, ck.thorough) for _ in range(n)]
    cases = []
    for prot, wk, rk, ops in gens:
        for st in ("indexed", "linear"):
            cases.append({"kind": "loc", "state": st, "locs": ["a", "b"], "ops": copy.deepcopy(ops), "_prot": prot, "_wk": wk, "_rk": rk})
    impl, model, mc = lr.run(cases, nontrivial=lambda c: c["_prot"] != "none")
    # the property, stated directly on the real outputs
    matrix = collections.Counter()
    for c, i in zip(mc, impl):
        outs = (i or {}).get("outs") or []
        prot, wk, rk = c["_prot"], c["_wk"], c["_rk"]
        for k, op in enumerate(c["ops"]):
            if "_caller" not in op or k + 1 >= len(outs) or not isinstance(outs[k], dict): continue
            o, before, after = outs[k], outs[k - 1].get("ok"), outs[k + 1].get("ok")
            caller = op["_caller"]
            # the protection in force is what the location holds right now (an earlier, permitted op may have cleared it)
            bf = (before or {}).get("facts", {}) if isinstance(before, dict) else {}
            wk = (bf.get("!.writeKey") or {}).get("!writeKey")
            rk = (bf.get("!.readKey") or {}).get("!readKey")
            en = (bf.get("!.enabled") or {}).get("!enabled", "")
            ro = prot in ("readonly", "write+ro")
            eff = "disabled" if en not in ("", "yes", "true") else prot
            refused = "err" in o and o.get("err") is not None if op["op"] != "event" else o.get("err") is not None
            matrix[(prot, caller, op["op"], "refused" if refused else "served")] += 1
            has_w = wk in (None, "") or op.get("wk", "") == wk
            has_r = rk in (None, "") or op.get("rk", "") == rk
            must_refuse = None
            if eff == "disabled":
                must_refuse = "disabled"
            elif op["op"] in MUTATING and (ro or not has_w):
                must_refuse = "write"
            elif op["op"] in REVEALING and not has_r:
                must_refuse = "read"
            rp = {"case": {kk: (v if kk != "ops" else v[: k + 2]) for kk, v in c.items()}, "impl": o}
            if must_refuse and not refused:
                ck.violation("%s served although the location is %s and the caller has %s key (%s state): %s" % (op["op"], prot, caller, c["state"], canon(o)[:200]), rp, tag="served")
            elif must_refuse and op["op"] in MUTATING and canon(before) != canon(after):
                ck.violation("%s was refused (%s) but state or storage changed (%s state)" % (op["op"], o.get("err"), c["state"]), rp, tag="sideeffect")
            elif op["op"] == "event" and not refused and (ro or not has_w) and canon((before or {}).get("facts", {}).get("made")) != canon((after or {}).get("facts", {}).get("made")):
                ck.violation("a rule action wrote a fact through Env.AddFact although the caller of ProcessEvent has no write access (%s location, caller %s, %s state)" % (prot, caller, c["state"]), rp, tag="action")
            elif not must_refuse and refused and o.get("err") in ("writeDenied", "readDenied", "readOnly", "disabled"):
                ck.violation("%s refused (%s) although the caller presented the right keys on a %s location (%s state)" % (op["op"], o.get("err"), prot, c["state"]), rp, tag="refused")
    lr.stats["matrix_cells"] = len(matrix)
    # ---- System level: the read-only flag lives on the *Location the System hands out (location cache, TTL forever): while it is
    # set, every mutating request through the System API -- DeleteLocation and rule actions included -- fails and leaves the
    # stored documents and the answers unchanged; after it is cleared writes are served again
    nsys = 60 if not ck.thorough else 1500
    scases = [sys_ro_case(ck.rng, st) for _ in range(nsys) for st in ("indexed", "linear")]
    for c, o in zip(scases, run_cases(lr.drv, scases)):
        ck.count({"sys": c["ops"], "s": c["state"]})
        lr.stats["sys_readonly_histories"] += 1
        outs = (o or {}).get("outs")
        if not isinstance(outs, list) or len(outs) != len(c["ops"]):
            ck.violation("System-level read-only history failed to run: %s" % canon(o)[:300], {"case": c, "impl": o}, tag="crash")
            continue
        ro, base = False, None
        for k, (op, r) in enumerate(zip(c["ops"], outs)):
            refused = r.get("err") is not None
            rp = {"case": dict(c, ops=c["ops"][: k + 1]), "impl": r, "baseline": base}
            if op["op"] == "setReadOnly":
                ro = op["value"]; base = None
                continue
            if op.get("_probe"):
                if ro and base is None:
                    base = {}
                if ro:
                    key = canon({kk: v for kk, v in op.items() if kk != "_probe"})
                    val = str(canon_out({kk: v for kk, v in op.items() if kk != "_probe"}, r)[1]) if op["op"] != "store" else canon(r.get("ok"))
                    if key in base and base[key] != val:
                        ck.violation("System level: while the location was read-only the answer to %s changed from %s to %s (%s state; previous request: %s)" % (
                            op["op"], base[key][:200], val[:200], c["state"], canon(c["ops"][k - 1] if k else None)[:200]), rp, tag="sys-sideeffect")
                        break
                    base.setdefault(key, val)
                continue
            lr.stats["sys_readonly_ops"] += 1 if ro else 0
            if ro and op["op"] in SYS_MUTATING and not refused:
                ck.violation("System.%s served although the location is read-only (%s state): %s" % (op["op"], c["state"], canon(r)[:200]), rp, tag="sys-served")
                break
            if not ro and op.get("_must_succeed") and refused and r.get("err") == "readOnly":
                ck.violation("System.%s refused as read-only after the flag was cleared (%s state)" % (op["op"], c["state"]), rp, tag="sys-refused")
                break
    # ---- scheduled rules under keys: a rule added with the right keys runs, when its schedule is due, on behalf of that request
    # (the running cron of a System fires it about a second later): what its condition reads and its action writes, and the removal
    # of the one-shot rule afterwards, are the same as in an unprotected twin location (timed scenario, real InternalCron)
    def sched_case(state, prot):
        wk = "W1" if prot in ("write", "both") else ""
        rk = "R1" if prot in ("read", "both") else ""
        ops = []
        if wk: ops.append({"op": "addFact", "loc": "P", "id": "", "fact": {"!writeKey": wk}})
        if rk: ops.append({"op": "addFact", "loc": "P", "id": "", "fact": {"!readKey": rk}, "wk": wk})
        t1 = {"t": "addfact", "id": "done", "fact": {"by": "schedule"}}
        t2 = {"t": "addfact", "id": "done2", "fact": {"by": "schedule-with-condition"}}
        t3 = {"t": "remfact", "id": "victim"}
        # (rule ids differ between the twins: the built-in cron keys its jobs by rule id alone, finding C15-shared-id)
        for loc, kw in (("P", {"wk": wk, "rk": rk}), ("U", {})):
            ops += [dict({"op": "addFact", "loc": loc, "id": "seen", "fact": {"have": "chips"}}, **kw),
                    dict({"op": "addFact", "loc": loc, "id": "victim", "fact": {"to": "be-removed"}}, **kw),
                    dict({"op": "addRule", "loc": loc, "id": loc + "s1", "rule": {"schedule": "+1s", "action": {"code": js_of_tmpl(t1), "verif_tmpl": t1}}}, **kw),
                    dict({"op": "addRule", "loc": loc, "id": loc + "s2", "rule": {"schedule": "+1s", "condition": {"pattern": {"have": "?h"}}, "action": {"code": js_of_tmpl(t2), "verif_tmpl": t2}}}, **kw),
                    dict({"op": "addRule", "loc": loc, "id": loc + "s3", "rule": {"schedule": "+1s", "action": {"code": js_of_tmpl(t3), "verif_tmpl": t3}}}, **kw)]
        ops.append({"op": "fireAll", "ms": 2400, "loc": "P"})
        return {"kind": "c15.sys", "mode": "real", "state": state, "locs": ["P", "U"], "ops": ops, "_prot": prot}
    def sched_diff(c, o):
        """None when the twin locations ended up alike; else a description"""
        outs = (o or {}).get("outs")
        if not isinstance(outs, list) or len(outs) != len(c["ops"]):
            return "the scenario failed to run: %s" % canon(o)[:300]
        for op, r in zip(c["ops"], outs):
            if r.get("err") is not None:
                return "%s at %s with the right keys failed: %s" % (op["op"], op.get("loc"), canon(r)[:200])
        if (outs[-1].get("elapsed_ms") or 0) > 3300 or any((r.get("elapsed_ms") or 0) > 800 for r in outs[:-1]):
            return "slow"       # the writes did not all happen inside the first second: the schedules are not comparable
        snap = outs[-1].get("snap") or {}
        docs = lambda n: {k: canon_fact(v) for k, v in (((snap.get(n) or {}).get("store")) or {}).items() if k not in ("!.writeKey", "!.readKey")}
        p, u = docs("P"), docs("U")
        if p != u:
            return "stored documents of the protected location after the schedules ran: %s; of its unprotected twin: %s" % (canon(p)[:300], canon(u)[:300])
        if "done" not in u or "done2" not in u or "victim" in u or "Us1" in u:
            return "unprotected:" + canon(u)[:300]       # the scenario itself did not run as expected (C15's business): not comparable
        return None
    sc = [sched_case(st, prot) for st in ("indexed", "linear") for prot in ("write", "read", "both")]
    for c, o in zip(sc, run_cases(lr.drv, sc)):
        ck.count({"sched": c["_prot"], "s": c["state"]})
        d = sched_diff(c, o)
        tries = 0
        while d is not None and tries < 3:
            tries += 1
            d = sched_diff(c, run_cases(lr.drv, [c])[0])       # timing: believed only when it fails alone, repeatedly
        lr.stats["scheduled_under_keys"] += 1
        if d == "slow" or (d or "").startswith("unprotected:"):
            lr.stats["scheduled_under_keys_not_comparable"] += 1
        elif d is not None:
            ck.violation("scheduled rules added with the right keys (%s key, %s state) do not behave as in an unprotected location: %s" % (c["_prot"], c["state"], d),
                         {"case": {k: v for k, v in c.items() if k != "_prot"}, "impl": o}, tag="sched-keys")
    for c in cases[:2]:
        ck.sample({"state": c["state"], "prot": c["_prot"], "ops": c["ops"][3:9]})
    lr.finish_cov("protection states {none, write key, read key, both, read-only, write key + read-only, disabled} x callers {no key, wrong key, right key} x every operation of the "
                  "Location API the harness reaches (17 ops), at a random point of a short history, both states; snapshots of memory and storage around each call; "
                  "compared with the Lean model and with the property itself (must refuse / refusal is a no-op / right key is transparent); "
                  "plus System-level histories (location cache TTL forever) with the read-only flag set on the Location the System hands out: every mutating request incl. DeleteLocation "
                  "and rule actions refused, stored documents and answers unchanged while the flag is set")
    ck.cov["distribution"]["matrix"] = {"cells": len(matrix)}
    proof_verdict(ck, pr)
    ck.finish()

if __name__ == "__main__":
    main()

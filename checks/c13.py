#!/usr/bin/env python3
"""C13 — no input can crash, hang or poison a location.

(1) regenerate lean/RulioModel/Gen/C13.lean from the Go source (unchecked assertions, panics, constant indexes,
    condition-less loops; lock acquisitions with/without deferred release);
(2) build + audit the theorems of Props/C13.lean (the table theorems are about the regenerated text);
(3) malformed-input stream, each malformed operation followed by canaries with known answers, through core.Location
    (both states), sys.System and service.HTTPService; outcome classes (ok / err / panic+site / hang / crash) are
    compared with the prediction of the lock-aware Lean model; the inputs of the five repaired defect classes (non-map
    `when` / `when.pattern`, scheduled rules with such a `when` that are overwritten / removed / expire, non-map `rule`
    in the linear state) are generated with high frequency and compared with the model by value;
(4) replay of the witnesses of the known findings that remain. The repaired classes (ids under `fixed` in
    known_findings.json) are not tolerated: a panic or a blocked location on such an input is a VIOLATION.
"""
import sys, os, json, copy, collections, time
sys.path.insert(0, os.path.join(os.path.dirname(os.path.abspath(__file__)), "..", "lib"))
from vlib import *
import gen_c13 as g

GEN = os.path.join(LEAN, "RulioModel", "Gen", "C13.lean")
MAXREP = 8      # distinct failing inputs reported per run (more of the same add nothing)


def regenerate(ck):
    ext, txt = build_harness(name="extract_c13")
    if not ext:
        ck.violation("the extractor does not build: " + txt[-600:], {"build_log": txt[-3000:]}, tag="build", no_input=True)
        return None
    js = os.path.join(BUILD, "c13_sites.json")
    rc, out = sh([ext, REPO, GEN, js], timeout=120)
    if rc != 0:
        ck.violation("the extractor failed on the current source (broken tie): " + out[-600:], {"log": out[-3000:]}, tag="extract", no_input=True)
        return None
    return json.load(open(js))


def src_line(site):
    try:
        p = os.path.join(REPO, site["file"])
        return open(p).read().split("\n")[int(site["line"]) - 1]
    except Exception:
        return ""


def site_rows(tables, fn):
    return [r for r in (tables or {}).get("accounted", []) if r["func"] == fn and r["class"]["cls"] == "modelled"]


def confirm_site(tables, site):
    """the panic's source line must contain the expression of a `modelled` row of its function"""
    line = src_line(site)
    rows = site_rows(tables, site.get("fn"))
    for r in rows:
        e = r["expr"]
        if r["kind"] == "panic":
            e = "panic("
        if e.replace(" ", "") in line.replace(" ", ""):
            return r
    return None


def locate_crash(case, drv):
    """index of the first op whose execution kills the process (prefixes are monotone)"""
    n = len(case["ops"])
    lo, hi = 1, n
    def crashes(j):
        c = dict(case, ops=case["ops"][:j])
        for _ in range(2):
            r = run_cases(drv, [c], jobs=1)[0]
            if isinstance(r, dict) and r.get("err") == "crash":
                return True, r
        return False, None
    ok, r = crashes(n)
    if not ok:
        return None, None
    while lo < hi:
        mid = (lo + hi) // 2
        if crashes(mid)[0]:
            hi = mid
        else:
            lo = mid + 1
    return lo - 1, r


def signature(res, case=None):
    if res.get("crash"):
        return ("crash",)
    if res["issues"]:
        k, kind, txt = res["issues"][0]
        if case is not None and 0 <= k < len(case["ops"]):
            op = case["ops"][k]
            return (kind, op.get("op"), op.get("cn"), txt[:40])
        return (kind,)
    return None


def dedup_key(kind, case, k, txt, impl):
    """one report per kind of failure: a panic is identified by its site and the four frames that lead to it (and the state),
    whatever the way in and the operation; anything else by way in, operation and the head of its text"""
    io = ((impl or {}).get("outs") or [{}] * (k + 1))[k] if k >= 0 and k < len((impl or {}).get("outs") or []) else {}
    if io.get("cls") == "panic":
        site = io.get("site") or {}
        return (kind, "panic", site.get("fn"), tuple((site.get("frames") or [])[:5]), case.get("state"))
    op = case["ops"][k] if 0 <= k < len(case["ops"]) else {}
    return (kind, case.get("via"), op.get("op"), txt[:50])


def rerun(case, drv, mdl, known, patient=True):
    c = copy.deepcopy(case)
    for o in c["ops"]:
        o.pop("now", None)
    if patient:
        c["canary_timeout_ms"] = 3000
        c["op_timeout_ms"] = 10000
    impl, model, mc = g.run_both([c], drv, mdl, jobs=1)
    return mc[0], impl[0], model[0], g.compare(mc[0], impl[0], model[0], known)


def shrink(case, drv, mdl, known, sig, budget=24):
    """drop operations while the same kind of failure remains"""
    best = copy.deepcopy(case)
    i = len(best["ops"]) - 1
    while i >= 0 and budget > 0:
        if len(best["ops"]) <= 1:
            break
        if best["ops"][i].get("canary"):
            i -= 1
            continue        # the canaries stay: they are the oracle
        trial = copy.deepcopy(best)
        del trial["ops"][i]
        budget -= 1
        c3, _, _, res = rerun(trial, drv, mdl, known, patient=False)
        if signature(res, c3) == sig:
            best = trial
        i -= 1
    # canaries after the first failing operation add nothing
    _, _, _, res = rerun(best, drv, mdl, known, patient=False)
    if res.get("issues"):
        k = res["issues"][0][0]
        if 0 <= k < len(best["ops"]) - 1:
            best["ops"] = best["ops"][:k + 1]
    for o in best["ops"]:
        o.pop("now", None)
    return best


def main():
    ck = Check("C13")
    ck.cov["trusted_base"] = TRUSTED_BASE + [
        "extractor harness/cmd/extract_c13 (go/ast): syntactic notion of 'unchecked assertion / explicit panic / constant index / condition-less loop' and of 'deferred unlock'",
        "the hand-written classification (safe / unreachable / outOfScope, with reasons) of the extracted rows in RulioModel/C13.lean: read, not proved",
        "the sequential State/Location model under the lock wrapper (RulioModel/State.lean, Loc.lean ...; the functions on the two repaired paths -- GetRulePatterns, LinearState.doFindRules -- are restated with the repaired behaviour in RulioModel/C13.lean section 2); tie = the differential run below",
        "the fault oracle of the wrapper model (a State method body that panics at a place the tables do not list) is hypothetical: no run exercises it; it gives the lock theorems their 'whatever panics' reading",
        "panics that are not unchecked assertions / explicit panics / constant indexes (nil dereference, nil map write, concurrent map access, stack exhaustion) are only searched by the malformed stream",
        "stack depth and wall-clock bounds are runtime: per-op watchdog (0.5 s ordinary traffic, 3 s malformed op), 96 MB stack limit in the harness",
    ]
    ck.cov["checker_cmd"] = "extract_c13 /repo -> lean/RulioModel/Gen/C13.lean; lake build Props.C13 && lake env lean .audit/Audit_C13.lean (#print axioms)"

    extracted = regenerate(ck)
    pr = prove("C13", leanchecker=ck.thorough)
    ck.add_proof(pr)
    proof_broken = bool(pr["failed"])
    if proof_broken:
        log("note: proof obligations of C13 do not check: %s %s" % (pr["failed"], pr.get("failed_theorems")))

    drv, txt = build_harness()
    mdl, mtxt = model_driver()
    if not drv:
        ck.violation("harness does not build against the repository: " + txt[-800:], {"build_log": txt[-3000:]}, tag="build", no_input=True)
        ck.finish()
    if not mdl:
        ck.violation("model driver does not build: " + mtxt[-800:], {"build_log": mtxt[-3000:]}, tag="build", no_input=True)
        ck.finish()

    tables = run_cases(mdl, [{"kind": "c13.tables"}], jobs=1)[0]
    new_rows, gone_rows, lock_changes = [], [], []
    if isinstance(tables, dict) and "accounted" in tables:
        key = lambda r: (r["file"], r["func"], r["kind"], r["expr"])
        acc = collections.Counter(key(r) for r in tables["accounted"])
        gen = collections.Counter(key(r) for r in tables["generated"])
        new_rows = sorted((gen - acc).elements())
        gone_rows = sorted((acc - gen).elements())
        lk = lambda r: (r["file"], r["func"], r["lock"], r["deferred"])
        la = collections.Counter(lk(r) for r in tables["lockTable"])
        lg = collections.Counter(lk(r) for r in tables["lockUses"])
        lock_changes = [("source now", x) for x in sorted((lg - la).elements())] + [("model assumes", x) for x in sorted((la - lg).elements())]
        ck.cov["extracted"] = {"sites": len(tables["generated"]), "lock_uses": len(tables["lockUses"]),
                               "classes": dict(collections.Counter(r["class"]["cls"] for r in tables["accounted"]))}
    table_broken = bool(new_rows or gone_rows or lock_changes)
    if table_broken:
        log("note: extracted tables differ from the accounted ones: new=%s gone=%s locks=%s" % (new_rows, gone_rows, lock_changes))

    # repaired classes are no longer tolerated; their former witnesses keep running as ordinary cases (g.FORMER)
    repaired = fixed_finding_ids("C13") | set(f["id"] for f in g.FORMER)
    listed = {f["id"]: f for f in known_findings("C13")}
    kf = [listed.get(f["id"], f) for f in g.PROPOSED] + [f for i, f in listed.items() if i not in [p["id"] for p in g.PROPOSED]]
    kf = [f for f in kf if f["id"] not in repaired and f.get("witness")]
    rng = ck.rng
    if "--replay" in sys.argv:
        d = json.load(open(sys.argv[sys.argv.index("--replay") + 1]))
        case = (d.get("replay") or d).get("case") or d
        c2, i2, m2, r2 = rerun(case, drv, mdl, kf)
        log(json.dumps({"impl": i2, "model": m2}, indent=1)[:6000])
        if r2.get("crash") or r2["issues"]:
            ck.violation("replay still fails: %s" % (r2.get("issues") or "crash"), {"case": case}, tag="replay")
        ck.finish()
    widen = ck.thorough or proof_broken or table_broken     # a broken obligation widens the search
    deep = 200 if widen else 40

    # ---------------------------------------------------------------- cases: corpus, systematic, shapes, random
    cases = []
    corpus = os.path.join(VERIF, "corpus", "C13.jsonl")
    if os.path.exists(corpus):
        for l in open(corpus):
            if l.strip():
                cases.append(json.loads(l))
    ncorpus = len(cases)
    cases += g.former_witnesses()
    cases += g.formerly_fatal(rng, 8000 if ck.thorough else (2000 if widen else 1000))
    cases += g.sysconf_cases(rng, 3000 if ck.thorough else 240)
    cases += g.odd_variable_cases(rng, 3000 if ck.thorough else 200)
    if ck.thorough:
        for via in ("core", "sys", "http"):
            cases += g.systematic(rng, vias=(via,), deep=deep, stride=1, both=True)
        cases += g.shapes(rng, vias=("core",)) + g.shapes(rng, vias=("sys",)) + g.shapes(rng, vias=("http",))
        nrand = 150000
    elif widen:
        cases += g.systematic(rng, vias=("core",), deep=deep, stride=1, both=True)
        cases += g.systematic(rng, vias=("sys", "http"), deep=deep, stride=2)
        cases += g.shapes(rng, vias=("core",)) + g.shapes(rng, vias=("sys",)) + g.shapes(rng, vias=("http",))
        nrand = 6000
    else:
        cases += g.systematic(rng, vias=("core",), deep=deep, stride=2, both=True)
        cases += g.systematic(rng, vias=("sys", "http"), deep=deep, stride=4)
        cases += g.shapes(rng, vias=("core", "sys", "http"))
        nrand = 1500
    for i in range(nrand):
        cases.append(g.random_case(rng, vias=("core", "core", "sys", "http"), maxdepth=6 if widen else 4))

    stats = collections.Counter()
    families = collections.Counter()
    known_hits = collections.Counter()
    reported = set()
    vias = collections.Counter()
    roles = collections.Counter()

    def report(case, res, impl, model):
        """confirm (timing!), shrink, report one failing case"""
        sig = signature(res)
        if sig is None:
            return
        kind = sig[0]
        if kind == "crash":
            if ck.violations >= MAXREP:
                return
            idx, r = locate_crash(case, drv)
            if idx is None:
                if any((o or {}).get("err") == "nonGround" for o in (model or {}).get("outs", [])):
                    known_hits["C13-matcher-nonground-overflow"] += 1
                    return
                ck.violation("the driver process died on this case (not reproduced when run alone): %s" % (impl or {}).get("stderr", "")[-300:], {"case": case}, tag="crash")
                return
            mo = ((model or {}).get("outs") or [{}] * (idx + 1))[idx]
            f = [x for x in kf if x["id"] == "C13-matcher-nonground-overflow"]
            if mo.get("err") == "nonGround" and f:
                known_hits[f[0]["id"]] += 1
                return
            key = ("crash", case["ops"][idx]["op"])
            if key in reported or ck.violations >= MAXREP:
                return
            reported.add(key)
            small = dict(case, ops=case["ops"][:idx + 1])
            ck.violation("process-killing crash (stack overflow / fatal error) at op %d %s; the model predicts %s: %s" % (
                idx, json.dumps(case["ops"][idx])[:200], mo.get("cls"), (r or {}).get("stderr", "")[-300:]), {"case": small, "full": case}, tag="crash")
            return
        k0, _, txt0 = res["issues"][0]
        op0 = case["ops"][k0] if k0 >= 0 else {}
        pre = dedup_key(kind, case, k0, txt0, impl)
        if pre in reported or ck.violations >= MAXREP:
            stats["duplicate_" + kind] += 1
            return
        # timing-sensitive verdicts: three patient re-runs must agree
        for _ in range(3):
            c2, i2, m2, r2 = rerun(case, drv, mdl, kf)
            if signature(r2) != sig:
                stats["not_reproduced_" + kind] += 1
                return
        k, _, txt = r2["issues"][0]
        op = c2["ops"][k] if k >= 0 else {}
        key = dedup_key(kind, case, k, txt, i2)
        if key in reported:
            stats["duplicate_" + kind] += 1
            return
        reported.add(key)
        reported.add(pre)
        small = shrink(case, drv, mdl, kf, signature(r2, c2))
        io = i2["outs"][k] if 0 <= k < len(i2.get("outs", [])) else {}
        impl_fails = io.get("cls") in g.BAD or bool(op.get("canary") and g.canary_ok(op, io))
        # impl != model while the implementation itself answers fine: the correspondence is broken, no failing input
        no_input = kind == "internal" or (kind in ("class", "site", "canary-value", "value") and not impl_fails)
        what = "%s [%s/%s op %d %s]: %s" % (kind, case.get("via"), case.get("state"), k, op.get("op"), txt)
        # what the requests after the failing one saw: a blocked (poisoned) location shows as hangs
        after = [(o or {}).get("cls") for o in (i2.get("outs") or [])[k + 1:]]
        blocked = sum(1 for x in after if x in ("hang", "skipped"))
        if after and io.get("cls") in g.BAD:
            what += " | afterwards %d of the %d following requests blocked%s" % (
                blocked, len(after), " (the location is poisoned)" if blocked else " (the location still serves)")
        ck.violation(what, {"case": small, "full_case": case, "impl": i2, "model": m2, "correspondence": "c13.run outcome classes impl vs lock-aware Lean model"}, tag=kind, no_input=bool(no_input))

    # run in slices so that memory stays flat on the thorough tier
    SL = 6000
    for a in range(0, len(cases), SL):
        chunk = cases[a:a + SL]
        impl, model, mcases = g.run_both(chunk, drv, mdl)
        for c, i, m in zip(mcases, impl, model):
            vias[c.get("via", "core") + "/" + c.get("state", "indexed")] += 1
            if c.get("family"):
                families[c["family"].split(":")[0]] += 1
            for o in c["ops"]:
                if o.get("slow"):
                    roles[o["op"]] += 1
            res = g.compare(c, i, m, kf)
            stats.update(res["stats"])
            for kid in res["known"]:
                known_hits[kid] += 1
            # every modelled panic must sit on a `modelled` row of the table (function + expression on the panicking line)
            for (k, site) in res.get("sites", []):
                if confirm_site(tables, site) is None and not res["issues"]:
                    res["issues"].append((k, "site-row", "panic at %s:%s (%s) is on no `modelled` row of the accounted table: %s" % (
                        site.get("file"), site.get("line"), site.get("fn"), src_line(site).strip()[:120])))
            # lock discipline: the accounted table must explain every hang
            acc = (m or {}).get("accCls")
            if acc and not res["issues"] and not res.get("crash"):
                for k, (io, mo) in enumerate(zip((i or {}).get("outs", []), (m or {}).get("outs", []))):
                    icls = "hang" if io.get("cls") == "skipped" else io.get("cls")
                    if k < len(acc) and mo.get("cls") != acc[k] and icls == mo.get("cls"):
                        res["issues"].append((k, "lock", "the lock discipline of the source differs from the accounted one and it shows: op answers %s, "
                                              "with the accounted lock table the model says %s" % (icls, acc[k])))
                        break
            ck.count({"via": c.get("via"), "state": c.get("state"), "ops": [o for o in c["ops"] if not o.get("canary")]}, nontrivial=True)
            if res.get("crash") or res["issues"]:
                report(c, res, i, m)
        if a == 0:
            for c in chunk[ncorpus:ncorpus + 3]:
                ck.sample({"via": c["via"], "state": c["state"], "ops": [o for o in c["ops"] if not o.get("canary")][:3]})

    ck.cov["rule"] = ("histories on one location: [optional ordinary prefix] + malformed operation(s) (reserved key x wrong type x role fact/rule/pattern/query/event; "
                      "variable-looking strings as values and keys; empty, deep (to depth %d) and heterogeneous containers; long strings; near-duplicate keys; random documents over reserved keys) "
                      "+ follow-up operations on the same id + 8 canaries with known answers; "
                      "the formerly fatal family (non-map `when` / `when.pattern` incl. null through AddFact and AddRule, with and without schedule / ttl, non-map `rule`; "
                      "over nothing / a good rule / another bad rule / a dependent fact; followed by get, overwrite, remove, expiry (sleep), events, rule searches, trigger, listRules, queries) "
                      "whose every answer is compared with the model by value; via core.Location (indexed, linear), sys.System, service.HTTPService.ServeHTTP; "
                      "non-trivial = every case (each carries at least one malformed document); distinct by via, state and non-canary ops" % deep)
    ck.cov["distribution"] = {"outcomes": dict(stats), "via_state": dict(vias), "malformed_op_roles": dict(roles),
                              "known_class_hits": dict(known_hits), "cases": len(cases), "corpus": ncorpus,
                              "families": dict(families), "repaired_classes_not_tolerated": sorted(repaired)}
    ck.cov["traces_validated_against_impl"] = len(cases)

    # ---------------------------------------------------------------- known findings: replay the witnesses
    for f in kf:
        w = copy.deepcopy(f["witness"])
        c2, i2, m2, r2 = rerun(w, drv, mdl, kf, patient=False)
        if r2.get("crash"):
            if f["id"] == "C13-matcher-nonground-overflow":
                ck.known_finding("%s: %s (the process died replaying the witness)" % (f["id"], f["what"]))
            else:
                ck.violation("witness of %s now kills the process" % f["id"], {"case": w, "finding": f["id"]}, tag="witness")
            continue
        bad = [k for k, o in enumerate(i2.get("outs", [])) if o.get("cls") in g.BAD or (c2["ops"][k].get("canary") and g.canary_ok(c2["ops"][k], o))]
        if r2["issues"]:
            k, kind, txt = r2["issues"][0]
            nothing_fails = not bad
            ck.violation("witness of known finding %s no longer behaves as the model says (%s): %s" % (f["id"], kind, txt),
                         {"case": w, "finding": f["id"], "impl": i2, "model": m2,
                          "correspondence": "replay of the listed witness against the Lean model (which reproduces the defect)"},
                         tag="witness", no_input=nothing_fails)
        elif bad:
            classes = [o.get("cls") for o in i2["outs"]]
            ck.known_finding("%s: %s [replayed: %s]" % (f["id"], f["what"], ",".join(classes[:len(w["ops"]) - 8] + ["canaries:" + "/".join(classes[-8:])])))
        else:
            ck.note("known finding %s did not reproduce" % f["id"])

    # ---------------------------------------------------------------- broken obligations
    if (proof_broken or table_broken) and ck.violations == 0:
        names = pr.get("failed_theorems") or pr["failed"]
        ck.violation("proof obligations / extracted tables of C13 no longer check and the widened search found no failing input: theorems=%s new rows=%s removed rows=%s lock changes=%s" % (
            names, new_rows, gone_rows, lock_changes),
            {"theorems": names, "new_rows": new_rows, "removed_rows": gone_rows, "lock_changes": lock_changes, "log": pr["log"][-3000:]},
            tag="proof", no_input=True)
    elif proof_broken or table_broken:
        log("note: broken obligations: theorems=%s new rows=%s removed rows=%s lock changes=%s" % (pr.get("failed_theorems") or pr["failed"], new_rows, gone_rows, lock_changes))
    ck.finish()


main()

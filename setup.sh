#!/bin/sh
# Offline setup: builds the Lean project (model, proofs, driver) and the Go harness from files on disk only.
cd "$(dirname "$0")" || exit 1
export GOFLAGS=-mod=mod GOPROXY=off GOSUMDB=off GOTOOLCHAIN=local
mkdir -p .build evidence replays
(cd lean && lake build RulioModel rulio-model) || exit 1
# the theorems of each property are (re)built and audited by its check; pre-build them here so that checks are fast
(cd lean && lake build Props) || echo "warning: some property modules did not build; their checks will report it"
cp /repo/go.sum harness/go.sum
(cd harness && go build -tags verif -o ../.build/driver ./cmd/driver) || exit 1
echo setup ok

#!/bin/sh
# Offline setup: builds the Lean project (model, proofs, driver) and the Go harness from files on disk only.
set -e
cd "$(dirname "$0")"
export GOFLAGS=-mod=mod GOPROXY=off GOSUMDB=off GOTOOLCHAIN=local
mkdir -p .build evidence replays
(cd lean && lake build)
cp /repo/go.sum harness/go.sum
(cd harness && go build -tags verif -o ../.build/driver ./cmd/driver)
echo setup ok

import RulioProofs.ReloadLinear

open AM

/-! # C06 — acknowledged changes are durable; reload reproduces the live location (property theorems only)

Model: `RulioModel/State.lean` (both `State` implementations over a reliable storage map; storage faults and
the Bolt back end are exercised by the dynamic part of the C06 check). Vocabulary: `RulioModel/SysInv.lean`. -/

/-- **store_mirrors_facts** — for every history of `Add`/`Rem`/`Get`/`Search`/`FindRules`/`Clear` operations
(successful or not, both state kinds, cascades and expiry-triggered removals included) started from the empty
state: the storage map is exactly the image of the in-memory facts — for every id the stored document is the
prepared in-memory fact — and both are finite maps with unique ids. -/
theorem store_mirrors_facts (k : Kind) (ops : List StOp) :
    let s := (St.empty k).runOps ops
    (∀ id, amGet s.store id = (amGet s.facts id).map J.obj) ∧
      (s.facts.map (·.1)).Nodup ∧ (s.store.map (·.1)).Nodup :=
  have ok := St.runOps_storeOK ops (St.empty_storeOK k)
  ⟨ok.mirror, ok.factsNodup, ok.storeNodup⟩

/-- the invariant is inductive: one more operation on any state that satisfies it keeps it -/
theorem store_mirrors_facts_step {s : St} (ok : StoreOK s) (op : StOp) : StoreOK (s.stepOp op).1 :=
  St.stepOp_storeOK ok op

example : StoreOK ((St.empty .indexed).runOps
    [.add "x" [("a", .num 1), ("ttl", .num 5)] 10, .add "" [("deleteWith", .arr [.str "x"])] 11,
     .search [("a", .str "?v")] 20, .rem "x" 21]) :=
  St.runOps_storeOK _ (St.empty_storeOK _)

/-- **reload_facts_linear** — for every state satisfying the invariant, the linear `Load` of its storage
succeeds and yields the same facts (as a finite map), the same storage, and again a state satisfying the invariant. -/
theorem reload_facts_linear {s : St} (ok : StoreOK s) :
    ∃ t, St.lLoad s.store = .ok t ∧ t.kind = .linear ∧ t.store = s.store ∧
      (∀ id, amGet t.facts id = amGet s.facts id) ∧ StoreOK t :=
  lLoad_spec ok

/-- … in particular after every history on a linear state -/
theorem reload_facts_linear_history (ops : List StOp) :
    ∃ t, ((St.empty .linear).runOps ops).reload 0 = .ok t ∧
      ∀ id, amGet t.facts id = amGet ((St.empty .linear).runOps ops).facts id := by
  have ok := St.runOps_storeOK ops (St.empty_storeOK .linear)
  obtain ⟨t, ht, _, _, hf, _⟩ := lLoad_spec ok
  have hk : ((St.empty .linear).runOps ops).kind = .linear := St.runOps_kind ops _
  refine ⟨{ t with fresh := ((St.empty .linear).runOps ops).fresh }, ?_, hf⟩
  unfold St.reload
  rw [hk]
  simp only [ht, Except.map]

/-- **ack_durable (add)** — an acknowledged `Add` is in storage: the returned id maps to the prepared fact now
held in memory. -/
theorem ack_durable_add {s s' : St} {given : String} {x : Obj} {now : Int} {id : String}
    (h : s.add given x now = (s', .ok id)) :
    ∃ fact, amGet s'.facts id = some fact ∧ amGet s'.store id = some (.obj fact) :=
  St.add_ack h

/-- **ack_durable (rem)** — after an acknowledged `Rem id` (on a state whose storage mirrors its facts) the id is
gone from memory and from storage. -/
theorem ack_durable_rem {s s' : St} (hm : Mirror s) {id : String} {now : Int} {b : Bool}
    (h : s.rem id now = (s', .ok b)) : amGet s'.facts id = none ∧ amGet s'.store id = none :=
  St.rem_ack hm h

/-- **failed_add_no_write** — an `Add` that reports an error has written nothing: facts and storage are unchanged. -/
theorem failed_add_no_write {s s' : St} {given : String} {x : Obj} {now : Int} {e : LErr}
    (h : s.add given x now = (s', .error e)) : s'.facts = s.facts ∧ s'.store = s.store :=
  have sp := St.add_spec h
  ⟨sp.1, sp.2.1⟩

/-- **rem_only_removes_partial** — whatever `Rem` returns (also on failure half-way through a cascade), every id
is either untouched in memory and storage, or gone from both; nothing is ever written or altered.
(Full statement — "only the named id and its `deleteWith` dependents are touched, for every crash point between
two storage writes" — is left to the dynamic check, which stops histories after k storage writes.) -/
theorem rem_only_removes_partial (s : St) (id : String) (now : Int) (k : String) :
    let s' := (s.rem id now).1
    (amGet s'.facts k = amGet s.facts k ∧ amGet s'.store k = amGet s.store k) ∨
      (amGet s'.facts k = none ∧ amGet s'.store k = none) :=
  (St.rem_shrinks s id now).2.2.2.2 k

example : isOk ((St.empty .indexed).add "" [("a", .num 1)] 5).2 = true := by decide +kernel
example : isOk ((((St.empty .linear).add "x" [("a", .num 1)] 5).1.rem "x" 6).2) = true := by decide +kernel

import RulioProofs.ReloadIndexed

open AM

/-! # C06 — acknowledged changes are durable; reload reproduces the live location (property theorems only)

Model: `RulioModel/State.lean` (both `State` implementations over a reliable storage map; storage faults and
the Bolt back end are exercised by the dynamic part of the C06 check). Vocabulary: `RulioModel/SysInv.lean`. -/

/-- **store_mirrors_facts** — for every history of `Add`/`Rem`/`Get`/`Search`/`FindRules`/`Clear` operations
(successful or not, both state kinds, cascades and expiry-triggered removals included) started from the empty
state: the storage map is exactly the image of the in-memory facts — for every id the stored document is the
prepared in-memory fact — and both are finite maps with unique ids. -/
theorem store_mirrors_facts (k : Kind) (ops : List StOp) :
    let s := (St.empty k).runOps ops
    (∀ id, amGet s.store id = (amGet s.facts id).map J.obj) ∧
      (s.facts.map (·.1)).Nodup ∧ (s.store.map (·.1)).Nodup :=
  have ok := St.runOps_storeOK ops (St.empty_storeOK k)
  ⟨ok.mirror, ok.factsNodup, ok.storeNodup⟩

/-- the invariant is inductive: one more operation on any state that satisfies it keeps it -/
theorem store_mirrors_facts_step {s : St} (ok : StoreOK s) (op : StOp) : StoreOK (s.stepOp op).1 :=
  St.stepOp_storeOK ok op

example : StoreOK ((St.empty .indexed).runOps
    [.add "x" [("a", .num 1), ("ttl", .num 5)] 10, .add "" [("deleteWith", .arr [.str "x"])] 11,
     .search [("a", .str "?v")] 20, .rem "x" 21]) :=
  St.runOps_storeOK _ (St.empty_storeOK _)

/-- **reload_facts_linear** — for every state satisfying the invariant, the linear `Load` of its storage
succeeds and yields the same facts (as a finite map), the same storage, and again a state satisfying the invariant. -/
theorem reload_facts_linear {s : St} (ok : StoreOK s) :
    ∃ t, St.lLoad s.store = .ok t ∧ t.kind = .linear ∧ t.store = s.store ∧
      (∀ id, amGet t.facts id = amGet s.facts id) ∧ StoreOK t :=
  lLoad_spec ok

/-- … in particular after every history on a linear state -/
theorem reload_facts_linear_history (ops : List StOp) :
    ∃ t, ((St.empty .linear).runOps ops).reload 0 = .ok t ∧
      ∀ id, amGet t.facts id = amGet ((St.empty .linear).runOps ops).facts id := by
  have ok := St.runOps_storeOK ops (St.empty_storeOK .linear)
  obtain ⟨t, ht, _, _, hf, _⟩ := lLoad_spec ok
  have hk : ((St.empty .linear).runOps ops).kind = .linear := St.runOps_kind ops _
  refine ⟨{ t with fresh := ((St.empty .linear).runOps ops).fresh }, ?_, hf⟩
  unfold St.reload
  rw [hk]
  simp only [ht, Except.map]

/-- **ack_durable (add)** — an acknowledged `Add` is in storage: the returned id maps to the prepared fact now
held in memory. -/
theorem ack_durable_add {s s' : St} {given : String} {x : Obj} {now : Int} {id : String}
    (h : s.add given x now = (s', .ok id)) :
    ∃ fact, amGet s'.facts id = some fact ∧ amGet s'.store id = some (.obj fact) :=
  St.add_ack h

/-- **ack_durable (rem)** — after an acknowledged `Rem id` (on a state whose storage mirrors its facts) the id is
gone from memory and from storage. -/
theorem ack_durable_rem {s s' : St} (hm : Mirror s) {id : String} {now : Int} {b : Bool}
    (h : s.rem id now = (s', .ok b)) : amGet s'.facts id = none ∧ amGet s'.store id = none :=
  St.rem_ack hm h

/-- **failed_add_no_write** — an `Add` that reports an error has written nothing: facts and storage are unchanged. -/
theorem failed_add_no_write {s s' : St} {given : String} {x : Obj} {now : Int} {e : LErr}
    (h : s.add given x now = (s', .error e)) : s'.facts = s.facts ∧ s'.store = s.store :=
  have sp := St.add_spec h
  ⟨sp.1, sp.2.1⟩

/-- **rem_only_removes_partial** — whatever `Rem` returns (also on failure half-way through a cascade), every id
is either untouched in memory and storage, or gone from both; nothing is ever written or altered.
(Full statement — "only the named id and its `deleteWith` dependents are touched, for every crash point between
two storage writes" — is left to the dynamic check, which stops histories after k storage writes.) -/
theorem rem_only_removes_partial (s : St) (id : String) (now : Int) (k : String) :
    let s' := (s.rem id now).1
    (amGet s'.facts k = amGet s.facts k ∧ amGet s'.store k = amGet s.store k) ∨
      (amGet s'.facts k = none ∧ amGet s'.store k = none) :=
  (St.rem_shrinks s id now).2.2.2.2 k

example : isOk ((St.empty .indexed).add "" [("a", .num 1)] 5).2 = true := by decide +kernel
example : isOk ((((St.empty .linear).add "x" [("a", .num 1)] 5).1.rem "x" 6).2) = true := by decide +kernel


/-- **store_is_facts_image** — stronger, list-level form of the mirror for every history of either kind: storage is
the in-memory fact list document by document *in the same order* (both are updated by the same `amSet`/`amErase`). -/
theorem store_is_facts_image (k : Kind) (ops : List StOp) :
    ((St.empty k).runOps ops).store = ((St.empty k).runOps ops).facts.map (fun p => (p.1, J.obj p.2)) :=
  St.runOps_storeEq ops (s := St.empty k) rfl

/-- **reload_linear_identity** — for every history on a linear state, reloading from storage gives back *the very
same state* (facts, storage, id counter; the linear state never touches the indexes). -/
theorem reload_linear_identity (ops : List StOp) (now : Int) :
    ((St.empty .linear).runOps ops).reload now = .ok ((St.empty .linear).runOps ops) :=
  reload_linear_id (St.runOps_storeEq ops (s := St.empty .linear) rfl)
    (St.runOps_linIdx ops (s := St.empty .linear) ⟨rfl, rfl, rfl⟩) now

/-- **reload_observationally_equal (linear)** — hence every later history of operations behaves identically on the
reloaded and on the live state: same results, same final state. -/
theorem reload_observationally_equal_linear (ops later : List StOp) (now : Int) (t : St)
    (h : ((St.empty .linear).runOps ops).reload now = .ok t) (op : StOp) :
    (t.runOps later).stepOp op = (((St.empty .linear).runOps ops).runOps later).stepOp op := by
  rw [reload_linear_identity] at h
  cases h
  rfl

/-- **prepare_idempotent** — a fact that came out of `PrepareFact` (under a non-empty fresh id) is a fixed point:
`ExtractRule` leaves it unchanged, and preparing it again with its own id at any later time `now'` yields the same
id and the same fact as long as it is not expired at `now'` (property facts regenerate their canonical id, other
facts keep the given one), and the `expired` error exactly when it is. -/
theorem prepare_idempotent {given fresh : String} {x : Obj} {now : Int} {id : String} {m x' : Obj}
    (hp : prepareFact given fresh x now = .ok (id, m, x')) (hfresh : fresh ≠ "") (fresh' : String) (now' : Int) :
    indexedForm m = m ∧
    (unexpired m now' = true → ∃ x'', prepareFact id fresh' m now' = .ok (id, m, x'')) ∧
    (unexpired m now' = false → prepareFact id fresh' m now' = .error "expired") := by
  obtain ⟨hform, hc⟩ := canon_of_prepare hp hfresh
  refine ⟨hform, ?_, ?_⟩
  · intro hu
    rcases prepare_canon hc fresh' now' with ⟨h, _⟩ | ⟨_, h⟩
    · rw [hu] at h; cases h
    · exact h
  · intro hu
    rcases prepare_canon hc fresh' now' with ⟨_, h⟩ | ⟨h, _⟩
    · exact h
    · rw [hu] at h; cases h

example : isOk (prepareFact "r1" "fresh#0"
    [("rule", .obj [("when", .obj [("a", .num 1)])]), ("ttl", .num 5)] 100) = true := by decide +kernel

/-- **reload_facts_indexed** — for every history on an indexed state and every reload time `now`, the indexed `Load`
of the storage succeeds and its in-memory facts are exactly the live facts that are not expired at `now`, in the same
order, with the same contents (hence the same absolute `expires`). That stored rule patterns can be re-indexed
(`AllIndexable`) is proved from reachability: whether `AddPatternMap` fails depends on the pattern only. -/
theorem reload_facts_indexed (ops : List StOp) (now : Int) :
    ∃ t, St.iLoad ((St.empty .indexed).runOps ops).store now = .ok t ∧ t.kind = .indexed ∧
      t.facts = ((St.empty .indexed).runOps ops).facts.filter (fun p => unexpired p.2 now) :=
  have inv := IdxInv.runOps ops IdxInv.empty
  iLoad_spec inv.storeEq inv.canon inv.indexable inv.nodup now

/-- non-vacuity: `x` (ttl 5 at 10) is expired at 20 and dropped by the reload, `y` survives … -/
example : (match St.iLoad ((St.empty .indexed).runOps
      [.add "x" [("a", .num 1), ("ttl", .num 5)] 10, .add "y" [("b", .num 2)] 11]).store 20 with
    | .ok t => t.facts.map (·.1) | .error _ => []) = ["y"] := by decide +kernel

/-- … and at 12 both are reloaded, the rule `y` (array pattern) being re-indexed -/
example : (match St.iLoad ((St.empty .indexed).runOps
      [.add "x" [("a", .num 1), ("ttl", .num 5)] 10,
       .add "y" [("rule", .obj [("when", .obj [("a", .arr [.num 1, .num 2])])])] 11]).store 12 with
    | .ok t => t.facts.map (·.1) | .error _ => []) = ["x", "y"] := by decide +kernel

/-- the same from the invariant (any state with list-mirrored storage and canonical, indexable, uniquely keyed facts) -/
theorem reload_facts_indexed_of_inv {s : St} (he : StoreEq s) (hc : AllCanon s) (hi : AllIndexable s)
    (hnd : (s.facts.map (·.1)).Nodup) (now : Int) :
    ∃ t, St.iLoad s.store now = .ok t ∧ t.kind = .indexed ∧ t.facts = s.facts.filter (fun p => unexpired p.2 now) :=
  iLoad_spec he hc hi hnd now

/-- **reload_observationally_equal_indexed_partial** — for the indexed kind the reloaded state has the live state's
unexpired facts but freshly built indexes. Any observation `obs` (search results, rule dispatch, …) that, on states
satisfying the index invariants `IndexInv` (intended: `WF` with `TIOK`/`TINodup` of `RulioModel/StateInv.lean` and the
pattern-index invariant `Indexed`), is determined by the unexpired facts, takes the same value on the live and on the
reloaded state. MISSING for the full statement: that `iLoad` re-establishes `IndexInv` (it does so by the same `iadd`
that the live state used; that proof belongs to the index provers), so it is a hypothesis here. -/
theorem reload_observationally_equal_indexed_partial {β : Type} (IndexInv : St → Prop) (obs : St → β) (now : Int)
    (hobs : ∀ s t : St, IndexInv s → IndexInv t →
      s.facts.filter (fun p => unexpired p.2 now) = t.facts.filter (fun p => unexpired p.2 now) → obs s = obs t)
    (ops : List StOp) (t : St) (ht : St.iLoad ((St.empty .indexed).runOps ops).store now = .ok t)
    (hlive : IndexInv ((St.empty .indexed).runOps ops)) (hre : IndexInv t) :
    obs t = obs ((St.empty .indexed).runOps ops) := by
  obtain ⟨t', ht', _, hf⟩ := reload_facts_indexed ops now
  rw [ht] at ht'
  cases ht'
  apply hobs t _ hre hlive
  rw [hf, List.filter_filter]
  simp

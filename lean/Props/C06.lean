import RulioModel.State

/-! # C06 — durability (placeholder obligations until the reload proofs land) -/

/-- clearing a state empties memory and storage -/
theorem clear_empties (s : St) : (s.clear).facts = [] ∧ (s.clear).store = [] := ⟨rfl, rfl⟩

import RulioProofs.ReloadIndexed
import RulioProofs.CloseReload
import Props.C01

open AM

/-! # C06 — acknowledged changes are durable; reload reproduces the live location (property theorems only)

Model: `RulioModel/State.lean` (both `State` implementations over a reliable storage map; storage faults and
the Bolt back end are exercised by the dynamic part of the C06 check). Vocabulary: `RulioModel/SysInv.lean`. -/

/-- **store_mirrors_facts** — for every history of `Add`/`Rem`/`Get`/`Search`/`FindRules`/`Clear` operations
(successful or not, both state kinds, cascades and expiry-triggered removals included) started from the empty
state: the storage map is exactly the image of the in-memory facts — for every id the stored document is the
prepared in-memory fact — and both are finite maps with unique ids. -/
theorem store_mirrors_facts (k : Kind) (ops : List ROp) :
    let s := (St.empty k).runOps ops
    (∀ id, amGet s.store id = (amGet s.facts id).map J.obj) ∧
      (s.facts.map (·.1)).Nodup ∧ (s.store.map (·.1)).Nodup :=
  have ok := St.runOps_storeOK ops (St.empty_storeOK k)
  ⟨ok.mirror, ok.factsNodup, ok.storeNodup⟩

/-- the invariant is inductive: one more operation on any state that satisfies it keeps it -/
theorem store_mirrors_facts_step {s : St} (ok : StoreOK s) (op : ROp) : StoreOK (s.stepOp op).1 :=
  St.stepOp_storeOK ok op

example : StoreOK ((St.empty .indexed).runOps
    [.add "x" [("a", .num 1), ("ttl", .num 5)] 10, .add "" [("deleteWith", .arr [.str "x"])] 11,
     .search [("a", .str "?v")] 20, .rem "x" 21]) :=
  St.runOps_storeOK _ (St.empty_storeOK _)

/-- **reload_facts_linear** — for every state satisfying the invariant, the linear `Load` of its storage
succeeds and yields the same facts (as a finite map), the same storage, and again a state satisfying the invariant. -/
theorem reload_facts_linear {s : St} (ok : StoreOK s) :
    ∃ t, St.lLoad s.store = .ok t ∧ t.kind = .linear ∧ t.store = s.store ∧
      (∀ id, amGet t.facts id = amGet s.facts id) ∧ StoreOK t :=
  lLoad_spec ok

/-- … in particular after every history on a linear state -/
theorem reload_facts_linear_history (ops : List ROp) :
    ∃ t, ((St.empty .linear).runOps ops).reload 0 = .ok t ∧
      ∀ id, amGet t.facts id = amGet ((St.empty .linear).runOps ops).facts id := by
  have ok := St.runOps_storeOK ops (St.empty_storeOK .linear)
  obtain ⟨t, ht, _, _, hf, _⟩ := lLoad_spec ok
  have hk : ((St.empty .linear).runOps ops).kind = .linear := St.runOps_kind ops _
  refine ⟨{ t with fresh := ((St.empty .linear).runOps ops).fresh }, ?_, hf⟩
  unfold St.reload
  rw [hk]
  simp only [ht, Except.map]

/-- **ack_durable (add)** — an acknowledged `Add` is in storage: the returned id maps to the prepared fact now
held in memory. -/
theorem ack_durable_add {s s' : St} {given : String} {x : Obj} {now : Int} {id : String}
    (h : s.add given x now = (s', .ok id)) :
    ∃ fact, amGet s'.facts id = some fact ∧ amGet s'.store id = some (.obj fact) :=
  St.add_ack h

/-- **ack_durable (rem)** — after an acknowledged `Rem id` (on a state whose storage mirrors its facts) the id is
gone from memory and from storage. -/
theorem ack_durable_rem {s s' : St} (hm : Mirror s) {id : String} {now : Int} {b : Bool}
    (h : s.rem id now = (s', .ok b)) : amGet s'.facts id = none ∧ amGet s'.store id = none :=
  St.rem_ack hm h

/-- **failed_add_no_write** — an `Add` that reports an error has written nothing: facts and storage are unchanged. -/
theorem failed_add_no_write {s s' : St} {given : String} {x : Obj} {now : Int} {e : LErr}
    (h : s.add given x now = (s', .error e)) : s'.facts = s.facts ∧ s'.store = s.store :=
  have sp := St.add_spec h
  ⟨sp.1, sp.2.1⟩

/-- **rem_only_removes_partial** — whatever `Rem` returns (also on failure half-way through a cascade), every id
is either untouched in memory and storage, or gone from both; nothing is ever written or altered.
(Full statement — "only the named id and its `deleteWith` dependents are touched, for every crash point between
two storage writes" — is left to the dynamic check, which stops histories after k storage writes.) -/
theorem rem_only_removes_partial (s : St) (id : String) (now : Int) (k : String) :
    let s' := (s.rem id now).1
    (amGet s'.facts k = amGet s.facts k ∧ amGet s'.store k = amGet s.store k) ∨
      (amGet s'.facts k = none ∧ amGet s'.store k = none) :=
  (St.rem_shrinks s id now).2.2.2.2 k

example : isOk ((St.empty .indexed).add "" [("a", .num 1)] 5).2 = true := by decide +kernel
example : isOk ((((St.empty .linear).add "x" [("a", .num 1)] 5).1.rem "x" 6).2) = true := by decide +kernel


/-- **store_is_facts_image** — stronger, list-level form of the mirror for every history of either kind: storage is
the in-memory fact list document by document *in the same order* (both are updated by the same `amSet`/`amErase`). -/
theorem store_is_facts_image (k : Kind) (ops : List ROp) :
    ((St.empty k).runOps ops).store = ((St.empty k).runOps ops).facts.map (fun p => (p.1, J.obj p.2)) :=
  St.runOps_storeEq ops (s := St.empty k) rfl

/-- **reload_linear_identity** — for every history on a linear state, reloading from storage gives back *the very
same state* (facts, storage, id counter; the linear state never touches the indexes). -/
theorem reload_linear_identity (ops : List ROp) (now : Int) :
    ((St.empty .linear).runOps ops).reload now = .ok ((St.empty .linear).runOps ops) :=
  reload_linear_id (St.runOps_storeEq ops (s := St.empty .linear) rfl)
    (St.runOps_linIdx ops (s := St.empty .linear) ⟨rfl, rfl, rfl⟩) now

/-- **reload_observationally_equal (linear)** — hence every later history of operations behaves identically on the
reloaded and on the live state: same results, same final state. -/
theorem reload_observationally_equal_linear (ops later : List ROp) (now : Int) (t : St)
    (h : ((St.empty .linear).runOps ops).reload now = .ok t) (op : ROp) :
    (t.runOps later).stepOp op = (((St.empty .linear).runOps ops).runOps later).stepOp op := by
  rw [reload_linear_identity] at h
  cases h
  rfl

/-- **prepare_idempotent** — a fact that came out of `PrepareFact` (under a non-empty fresh id) is a fixed point:
`ExtractRule` leaves it unchanged, and preparing it again with its own id at any later time `now'` yields the same
id and the same fact as long as it is not expired at `now'` (property facts regenerate their canonical id, other
facts keep the given one), and the `expired` error exactly when it is. -/
theorem prepare_idempotent {given fresh : String} {x : Obj} {now : Int} {id : String} {m x' : Obj}
    (hp : prepareFact given fresh x now = .ok (id, m, x')) (hfresh : fresh ≠ "") (fresh' : String) (now' : Int) :
    indexedForm m = m ∧
    (unexpired m now' = true → ∃ x'', prepareFact id fresh' m now' = .ok (id, m, x'')) ∧
    (unexpired m now' = false → prepareFact id fresh' m now' = .error "expired") := by
  obtain ⟨hform, hc⟩ := canon_of_prepare hp hfresh
  refine ⟨hform, ?_, ?_⟩
  · intro hu
    rcases prepare_canon hc fresh' now' with ⟨h, _⟩ | ⟨_, h⟩
    · rw [hu] at h; cases h
    · exact h
  · intro hu
    rcases prepare_canon hc fresh' now' with ⟨_, h⟩ | ⟨h, _⟩
    · exact h
    · rw [hu] at h; cases h

example : isOk (prepareFact "r1" "fresh#0"
    [("rule", .obj [("when", .obj [("a", .num 1)])]), ("ttl", .num 5)] 100) = true := by decide +kernel

/-- **reload_facts_indexed** — for every history on an indexed state and every reload time `now`, the indexed `Load`
of the storage succeeds and its in-memory facts are exactly the live facts that are not expired at `now`, in the same
order, with the same contents (hence the same absolute `expires`). That stored rule patterns can be re-indexed
(`AllIndexable`) is proved from reachability: whether `AddPatternMap` fails depends on the pattern only. -/
theorem reload_facts_indexed (ops : List ROp) (now : Int) :
    ∃ t, St.iLoad ((St.empty .indexed).runOps ops).store now = .ok t ∧ t.kind = .indexed ∧
      t.facts = ((St.empty .indexed).runOps ops).facts.filter (fun p => unexpired p.2 now) :=
  have inv := IdxInv.runOps ops IdxInv.empty
  iLoad_spec inv.storeEq inv.canon inv.indexable inv.nodup now

/-- non-vacuity: `x` (ttl 5 at 10) is expired at 20 and dropped by the reload, `y` survives … -/
example : (match St.iLoad ((St.empty .indexed).runOps
      [.add "x" [("a", .num 1), ("ttl", .num 5)] 10, .add "y" [("b", .num 2)] 11]).store 20 with
    | .ok t => t.facts.map (·.1) | .error _ => []) = ["y"] := by decide +kernel

/-- … and at 12 both are reloaded, the rule `y` (array pattern) being re-indexed -/
example : (match St.iLoad ((St.empty .indexed).runOps
      [.add "x" [("a", .num 1), ("ttl", .num 5)] 10,
       .add "y" [("rule", .obj [("when", .obj [("a", .arr [.num 1, .num 2])])])] 11]).store 12 with
    | .ok t => t.facts.map (·.1) | .error _ => []) = ["x", "y"] := by decide +kernel

/-- the same from the invariant (any state with list-mirrored storage and canonical, indexable, uniquely keyed facts) -/
theorem reload_facts_indexed_of_inv {s : St} (he : StoreEq s) (hc : AllCanon s) (hi : AllIndexable s)
    (hnd : (s.facts.map (·.1)).Nodup) (now : Int) :
    ∃ t, St.iLoad s.store now = .ok t ∧ t.kind = .indexed ∧ t.facts = s.facts.filter (fun p => unexpired p.2 now) :=
  iLoad_spec he hc hi hnd now

/-- **reload_observationally_equal_indexed_partial** — for the indexed kind the reloaded state has the live state's
unexpired facts but freshly built indexes. Any observation `obs` (search results, rule dispatch, …) that, on states
satisfying the index invariants `IndexInv` (intended: `WF` with `TIOK`/`TINodup` of `RulioModel/StateInv.lean` and the
pattern-index invariant `Indexed`), is determined by the unexpired facts, takes the same value on the live and on the
reloaded state. MISSING for the full statement: that `iLoad` re-establishes `IndexInv` (it does so by the same `iadd`
that the live state used; that proof belongs to the index provers), so it is a hypothesis here. -/
theorem reload_observationally_equal_indexed_partial {β : Type} (IndexInv : St → Prop) (obs : St → β) (now : Int)
    (hobs : ∀ s t : St, IndexInv s → IndexInv t →
      s.facts.filter (fun p => unexpired p.2 now) = t.facts.filter (fun p => unexpired p.2 now) → obs s = obs t)
    (ops : List ROp) (t : St) (ht : St.iLoad ((St.empty .indexed).runOps ops).store now = .ok t)
    (hlive : IndexInv ((St.empty .indexed).runOps ops)) (hre : IndexInv t) :
    obs t = obs ((St.empty .indexed).runOps ops) := by
  obtain ⟨t', ht', _, hf⟩ := reload_facts_indexed ops now
  rw [ht] at ht'
  cases ht'
  apply hobs t _ hre hlive
  rw [hf, List.filter_filter]
  simp


/-! ## closing `reload_observationally_equal_indexed_partial` (composition with the invariants of C01 / C02 / C08)

`IdxInvs s` (RulioModel/CloseFrag.lean) = indexed kind ∧ `WF s` (unique ids, no variable-looking id, `TIOK`, `TINodup`) ∧
`StIdx s` (the rule-index invariant of C01). `ReloadSim s t` = same facts, storage and id counter, `IdxInvs` of both. -/

/-- **reload_index_invariants** — the indexed `Load` of *any* storage contents at *any* time, whenever it succeeds,
yields a state that satisfies the same invariants as a live reachable state: `WF` (with `KeysNodup`, `IdsOK`, `TIOK`,
`TINodup`) and the rule-index invariant `StIdx`. Reason: `Load` is a history of the very in-memory `add`s the live
state uses, started from empty indexes (`iLoad_go_inv`); dropping an expired record touches storage only.
The same holds for `St.reload` of an indexed state. -/
theorem reload_index_invariants (docs : List (String × J)) (now : Int) :
    (∀ t, St.iLoad docs now = .ok t → t.kind = .indexed ∧ WF t ∧ StIdx t) ∧
    (∀ s t : St, s.kind = .indexed → s.reload now = .ok t → t.kind = .indexed ∧ WF t ∧ StIdx t) :=
  ⟨fun _ h => ⟨(iLoad_inv h).kind, (iLoad_inv h).wf, (iLoad_inv h).idx⟩,
   fun _ _ hk h => ⟨(reload_inv hk h).kind, (reload_inv hk h).wf, (reload_inv hk h).idx⟩⟩

/-- **live_index_invariants** — every state reachable by a history of `Add`/`Rem`/`Get`/`Search`/`FindRules`/`Clear`
(the six-operation histories of this file, any clocks) is well-formed, for both kinds; an indexed one moreover
satisfies `StIdx` and is reachable in the sense of C01 (`IReach`). -/
theorem live_index_invariants (k : Kind) (ops : List ROp) :
    WF ((St.empty k).runOps ops) ∧
    (k = .indexed → StIdx ((St.empty k).runOps ops) ∧ IReach ((St.empty k).runOps ops)) := by
  refine ⟨WF.runOps ops ((wf_empty k).of_eq rfl rfl rfl), fun hk => ?_⟩
  subst hk
  exact ⟨(IdxInvs.runOps ops IdxInvs.empty).idx, IReach.runOps ops .init rfl⟩

/-- **reload_observationally_equal_indexed** — `reload_observationally_equal_indexed_partial` with its two invariant
hypotheses discharged: any observation `obs` that, on states satisfying the index invariants, is determined by the
facts unexpired at `now`, takes the same value on the reloaded and on the live state — for every history and every
reload time. (What such observations are is spelled out in `in_step_observations`.) -/
theorem reload_observationally_equal_indexed {β : Type} (obs : St → β) (now : Int)
    (hobs : ∀ s t : St, IdxInvs s → IdxInvs t →
      s.facts.filter (fun p => unexpired p.2 now) = t.facts.filter (fun p => unexpired p.2 now) → obs s = obs t)
    (ops : List ROp) (t : St) (ht : St.iLoad ((St.empty .indexed).runOps ops).store now = .ok t) :
    obs t = obs ((St.empty .indexed).runOps ops) :=
  reload_observationally_equal_indexed_partial IdxInvs obs now hobs ops t ht
    (IdxInvs.runOps ops IdxInvs.empty) (iLoad_inv ht)

/-- **in_step_observations** — what is equal on two states in step (`ReloadSim`: live indexed state and its reload):
1. facts, storage and id counter are equal (as lists, hence as finite maps);
2. `Get` answers the same fact for every id at every time (`.ok f` on one iff on the other); when the addressed fact is
   absent or not expired the two `Get`s are the same pure read (identical result, error included, states untouched);
3. `Add` answers the same id or the same error; `Rem` inside the fragment of `OpsOK` succeeds on both with the same flag;
4. inside the C02 fragment (`TermOK` pattern, matcher sound on the stored facts, nothing expired at that time) both
   `Search`es succeed, change nothing, and return the matches of the specification `specSearch` up to order —
   i.e. equal multisets of (id, bindings); the order differs because the term-index candidate order differs;
5. inside the C01 fragment (`IdxOK` pattern over an `EvOK` event) every stored non-scheduled rule whose `when` lies
   over the event is among the dispatch candidates of both pattern indexes. -/
theorem in_step_observations {s t : St} (h : ReloadSim s t) :
    (t.facts = s.facts ∧ t.store = s.store ∧ t.fresh = s.fresh) ∧
    ((∀ id now f, (t.get id now).2 = .ok f ↔ (s.get id now).2 = .ok f) ∧
     (∀ id now, (∀ f, amGet s.facts id = some f → checkExpiration f now = .ok false) →
        ∃ r, s.get id now = (s, r) ∧ t.get id now = (t, r))) ∧
    ((∀ g x now, (t.add g x now).2 = (s.add g x now).2) ∧
     (∀ id now, NoneExpired s now → isVar id = false → UnindexOK s →
        (t.rem id now).2 = (s.rem id now).2 ∧ ∃ b, (s.rem id now).2 = .ok b)) ∧
    (∀ p now R, NoneExpired s now → TermOK p = true → MatcherSoundOn s.facts p → specSearch s.facts p now = .ok R →
      ∃ Rs Rt, s.search p now = (s, .ok Rs) ∧ t.search p now = (t, .ok Rt) ∧
        (projRes Rs).Perm R ∧ (projRes Rt).Perm R ∧ (projRes Rt).Perm (projRes Rs)) ∧
    (∀ ev id fact pat σ, amGet s.facts id = some fact → whenOf fact = some pat → IdxOK pat = true → EvOK ev = true →
      pmv σ (.obj pat) (.obj ev) = true →
      (∃ ids, piSearch s.ri ev = .ok ids ∧ id ∈ ids) ∧ (∃ ids, piSearch t.ri ev = .ok ids ∧ id ∈ ids)) := by
  refine ⟨⟨h.mem.facts, h.mem.store, h.mem.fresh⟩,
    ⟨fun id now f => get_ok_congr h.mem.facts id now f, fun id now hq => get_quiet_congr h.mem.facts id now hq⟩,
    ⟨fun g x now => h.add_result g x now, fun id now hne hid hun => h.rem_result ⟨hne, hid, hun⟩⟩, ?_, ?_⟩
  · intro p now R hne hterm hsound hspec
    obtain ⟨Rs, Rt, h1, h2, h3, h4⟩ := search_perm_congr h.live h.re h.mem.facts hne hterm hsound hspec
    exact ⟨Rs, Rt, h1, h2, h3, h4, h4.trans h3.symm⟩
  · intro ev id fact pat σ hst hwhen hp hev hm
    have key : ∀ u : St, StIdx u → amGet u.facts id = some fact → ∃ ids, piSearch u.ri ev = .ok ids ∧ id ∈ ids := by
      intro u hu hg
      obtain ⟨π, hπ, hid⟩ := hu.2 id fact pat hg hwhen
      obtain ⟨π', hπ', hemb⟩ := match_embeds σ pat ev hp hev hm
      rw [hπ] at hπ'; cases hπ'
      obtain ⟨ids, hs⟩ := piSearch_succeeds u.ri ev hev
      exact ⟨ids, hs, piSearch_embeds _ ev π id ids hid hemb hs⟩
    exact ⟨key s h.live.idx hst, key t h.re.idx (by rw [h.mem.facts]; exact hst)⟩

/-- **reload_in_step** — for every history `ops` on an indexed state, every reload time `now` at which no stored fact is
expired, and every later history inside the fragment `OpsOK` (writes and `Clear` unrestricted; `Get` of an absent or
unexpired fact; `Search`/`FindRules` while nothing is expired; `Rem` of a non-variable id while nothing is expired and
every stored rule can leave the pattern index): the reload succeeds with the same facts, storage and id counter, and
after **every** prefix of the later history the live and the reloaded state are still in step — so all of
`in_step_observations` holds after every step — and each write is acknowledged identically on both.

Not covered (full statement of C06 for the indexed kind): later operations that run while some stored fact is expired
(expiry-triggered cascades visit the term-index lists in their own order, and an aborting cascade stops at an
order-dependent point), `Rem` when some stored rule cannot leave the pattern index, search results outside the C02
fragment and dispatch candidates outside the C01 fragment (stale index entries are not excluded by `WF`/`StIdx`).
When some fact *is* expired at `now`, `reload_facts_indexed` + `reload_index_invariants` +
`reload_observationally_equal_indexed` still give: the reload holds exactly the unexpired facts and satisfies the
invariants, so every observation determined by the unexpired facts agrees. -/
theorem reload_in_step (ops later : List ROp) (now : Int)
    (hne : NoneExpired ((St.empty .indexed).runOps ops) now) (hok : OpsOK ((St.empty .indexed).runOps ops) later) :
    ∃ t, ((St.empty .indexed).runOps ops).reload now = .ok t ∧
      ReloadSim ((St.empty .indexed).runOps ops) t ∧
      ∀ k, ReloadSim (((St.empty .indexed).runOps ops).runOps (later.take k)) (t.runOps (later.take k)) := by
  obtain ⟨t, hr, hsim⟩ := ReloadSim.of_reload (IdxInv.runOps ops IdxInv.empty) (IdxInvs.runOps ops IdxInvs.empty) hne
  exact ⟨t, hr, hsim, fun k => hsim.runOps _ (OpsOK.take k hok)⟩

/-- non-vacuity of `reload_index_invariants`: a `Load` that succeeds (a fact and a rule; the expired record is dropped) -/
example : (match St.iLoad [("x", .obj [("a", .num 1)]), ("e", .obj [("expires", .num 5)]),
      ("r", .obj [("rule", .obj [("when", .obj [("a", .num 1)])])])] 10 with
    | .ok t => t.facts.map (·.1) | .error _ => []) = ["x", "r"] := by decide +kernel

/-- non-vacuity of `reload_in_step`: after `reloadOps` (an expiring fact, a rule, a dependent, an overwritten fact that
leaves stale ids in the live term index) nothing is expired at 15, `laterOps` is inside the fragment, so the reloaded
state stays in step through all of it; the live term index really differs from the rebuilt one -/
example :
    NoneExpired ((St.empty .indexed).runOps reloadOps) 15 ∧ OpsOK ((St.empty .indexed).runOps reloadOps) laterOps ∧
    (∃ t, ((St.empty .indexed).runOps reloadOps).reload 15 = .ok t ∧
      (t.runOps laterOps).facts = (((St.empty .indexed).runOps reloadOps).runOps laterOps).facts ∧
      t.facts.map (·.1) = ["x", "r", "d", "o"]) ∧
    (match ((St.empty .indexed).runOps reloadOps).reload 15 with
      | .ok t => t.ti.length | .error _ => 0) ≠ ((St.empty .indexed).runOps reloadOps).ti.length := by
  have hne : NoneExpired ((St.empty .indexed).runOps reloadOps) 15 := noneExpired_of_check (by decide +kernel)
  have hok : OpsOK ((St.empty .indexed).runOps reloadOps) laterOps :=
    ⟨trivial,
     fun f hg => (noneExpired_of_check (s := (((St.empty .indexed).runOps reloadOps).runOps (laterOps.take 1))) (now := 21)
       (by decide +kernel)) ("x", f) (amGet_some_mem hg),
     trivial,
     fun f hg => (noneExpired_of_check (s := (((St.empty .indexed).runOps reloadOps).runOps (laterOps.take 3))) (now := 24)
       (by decide +kernel)) ("d", f) (amGet_some_mem hg),
     ⟨noneExpired_of_check (by decide +kernel), by decide +kernel, unindexOK_of_check (by decide +kernel)⟩,
     trivial⟩
  refine ⟨hne, hok, ?_, by decide +kernel⟩
  obtain ⟨t, hr, hsim, hall⟩ := reload_in_step reloadOps laterOps 15 hne hok
  refine ⟨t, hr, ?_, ?_⟩
  · have := (hall laterOps.length).mem.facts
    rw [List.take_length] at this
    exact this
  · rw [hsim.mem.facts]; decide +kernel

import RulioModel.LocInv
import RulioProofs.LocGuards
import RulioProofs.LocState
import RulioProofs.LocLife

open LocP

/-! # C10 — rule lifecycle: only live, enabled rules fire (property theorems only)

Over the Location model (`locX = guards of "X"; body`), whose guard table is tied to `location.go` by
`guards_match_model` (Props/C19).  The pattern-index side of dispatch (C01) and reload (C06) are proved
elsewhere; here: the `Enabled` gate, the disabled flag as a property fact, removal, re-adding, and the
dispatch specification. -/

/-- **In a disabled location every operation reports "disabled".**  Every method of the model carries the
`Enabled` guard, and it is the first guard everywhere except in `AddFact` (where `CheckWrite` and the capacity
test come first, as in the source).  On a location whose `!enabled` property is none of "", "yes", "true"
each method returns an error and leaves the location unchanged; the error is "disabled" (for `AddFact`:
whenever the write key is right and there is room). -/
theorem disabled_location_reports (l : Loc) (c : Ctx) (now : Int) (hf : GuardFresh l.st now) (hd : Disabled l now) :
    (∀ m ∈ modelMethods, Guard.enabled ∈ guardsOf m) ∧
    (∀ m ∈ modelMethods, m ≠ "AddFact" → runGuards c now (guardsOf m) l = (l, .error "disabled")) ∧
    (∃ e, runGuards c now (guardsOf "AddFact") l = (l, .error e) ∧
      (¬ WriteDenied l c now → l.st.count < l.maxFacts → e = "disabled")) ∧
    (∀ id, locRemFact c id now l = (l, .error "disabled")) ∧
    (∀ id, locGetFact c id now l = (l, .error "disabled")) ∧
    (∀ id r, locAddRule c id r now l = (l, .error "disabled")) ∧
    (∀ id, locRemRule c id now l = (l, .error "disabled")) ∧
    (∀ id b, locEnableRule c id b now l = (l, .error "disabled")) ∧
    (∀ id, locRuleEnabled c id now l = (l, .error "disabled")) ∧
    (∀ id, locGetRule c id now l = (l, .error "disabled")) ∧
    (∀ p, locSearchFacts c p now l = (l, .error "disabled")) ∧
    (∀ ev, locSearchRules c ev now l = (l, .error "disabled")) ∧
    (locGetParents c now l = (l, .error "disabled")) ∧
    (∀ ps, locSetParents c ps now l = (l, .error "disabled")) ∧
    (locClear c now l = (l, .error "disabled")) ∧
    (locStateSize c now l = (l, .error "disabled")) ∧
    (∀ id f, ∃ e, locAddFact c id f now l = (l, .error e)) := by
  have hv : guardVerdict c now l .enabled = .error "disabled" := verdict_disabled hd
  have hhead : ∀ m ∈ modelMethods, m ≠ "AddFact" → (guardsOf m).head? = some Guard.enabled := by decide
  have key : ∀ m ∈ modelMethods, m ≠ "AddFact" → guardsVerdict c now l (guardsOf m) = .error "disabled" := by
    intro m hm hne
    have := hhead m hm hne
    cases hg : guardsOf m with
    | nil => rw [hg] at this; cases this
    | cons g gs =>
      rw [hg] at this
      simp only [List.head?_cons, Option.some.injEq] at this
      subst this
      exact guardsVerdict_head hv
  have run : ∀ {α} (m : String) (body : LM α), m ∈ modelMethods → m ≠ "AddFact" →
      (runGuards c now (guardsOf m) >>= fun _ => body) l = (l, .error "disabled") := by
    intro α m body hm hne; rw [guarded_eq hf c _ body, key m hm hne]
  have addFact : ∃ e, guardsVerdict c now l (guardsOf "AddFact") = .error e ∧
      (¬ WriteDenied l c now → l.st.count < l.maxFacts → e = "disabled") := by
    show ∃ e, guardsVerdict c now l [.checkWrite, .atCapacity, .enabled] = .error e ∧ _
    by_cases hw : WriteDenied l c now
    · obtain ⟨e, he⟩ := verdict_writeDenied hw
      exact ⟨e, guardsVerdict_head he, fun h => absurd hw h⟩
    · by_cases hc : l.maxFacts ≤ l.st.count
      · refine ⟨"capacity", ?_, fun _ h => absurd hc (Nat.not_le.2 h)⟩
        simp [guardsVerdict, verdict_writeOK hw, verdict_capacity, hc]
      · refine ⟨"disabled", ?_, fun _ _ => rfl⟩
        simp [guardsVerdict, verdict_writeOK hw, verdict_capacity, hc, hv]
  refine ⟨by decide, fun m hm hne => by rw [runGuards_eq hf c, key m hm hne], ?_,
    fun id => ?_, fun id => ?_, fun id r => ?_, fun id => ?_, fun id b => ?_, fun id => ?_, fun id => ?_,
    fun p => ?_, fun ev => ?_, ?_, fun ps => ?_, ?_, ?_, fun id f => ?_⟩
  · obtain ⟨e, he, h2⟩ := addFact
    exact ⟨e, by rw [runGuards_eq hf c, he], h2⟩
  · rw [locRemFact_split]; exact run "RemFact" _ (by decide) (by decide)
  · rw [locGetFact_split]; exact run "GetFact" _ (by decide) (by decide)
  · rw [locAddRule_split]; exact run "AddRule" _ (by decide) (by decide)
  · rw [locRemRule_split]; exact run "RemRule" _ (by decide) (by decide)
  · rw [locEnableRule_split]; exact run "EnableRule" _ (by decide) (by decide)
  · rw [locRuleEnabled_split]; exact run "RuleEnabled" _ (by decide) (by decide)
  · rw [locGetRule_split]; exact run "GetRule" _ (by decide) (by decide)
  · rw [locSearchFacts_split]; exact run "searchFacts" _ (by decide) (by decide)
  · rw [locSearchRules_split]; exact run "searchRules" _ (by decide) (by decide)
  · rw [locGetParents_split]; exact run "GetParents" _ (by decide) (by decide)
  · rw [locSetParents_split]; exact run "SetParents" _ (by decide) (by decide)
  · rw [locClear_split]; exact run "Clear" _ (by decide) (by decide)
  · rw [locStateSize_split]; exact run "StateSize" _ (by decide) (by decide)
  · obtain ⟨e, he, _⟩ := addFact
    exact ⟨e, by rw [locAddFact_split, guarded_eq hf c _ _, he]⟩

/-- **The disabled flag is a property fact.**  A successful `EnableRule id false` stores exactly
`{id, !disabled: true, deleteWith: [id]}` under `!id.disabled` in memory and storage (every entry under that id);
a successful `EnableRule id true` leaves no fact under `!id.disabled`; `RuleEnabled` reads that fact: it
answers the negation of `ruleDisabled` (the predicate the dispatch specification filters with). -/
theorem flag_is_property_fact (c : Ctx) (id : String) (now : Int) (l l' : Loc) :
    (locEnableRule c id false now l = (l', .ok ()) →
      amGet l'.st.facts (genPropId id "disabled") = some (flagFact id) ∧
      amGet l'.st.store (genPropId id "disabled") = some (.obj (flagFact id)) ∧
      (∀ p ∈ l'.st.facts, p.1 = genPropId id "disabled" → p.2 = flagFact id) ∧
      ruleDisabled l'.st.facts id now = true) ∧
    (locEnableRule c id true now l = (l', .ok ()) →
      amGet l'.st.facts (genPropId id "disabled") = none ∧ ruleDisabled l'.st.facts id now = false) ∧
    (GuardFresh l.st now → FreshAt l.st (genPropId id "disabled") now →
      ∀ b, locRuleEnabled c id now l = (l', .ok b) → l' = l ∧ b = !ruleDisabled l.st.facts id now) := by
  refine ⟨fun h => ?_, fun h => ?_, fun hf hfl b h => ?_⟩
  · rw [locEnableRule_split] at h
    obtain ⟨l1, _, hb⟩ := guarded_ok h
    simp only [Body.enableRule, Bool.false_eq_true, if_false, bind, LM.bind] at hb
    cases hs : setProp id "disabled" (.bool true) now l1 with
    | mk l2 r =>
      rw [hs] at hb
      cases r with
      | error e => cases hb
      | ok r =>
        simp only [pure, LM.pure, Prod.mk.injEq] at hb
        obtain ⟨hl, _⟩ := hb
        subst hl
        obtain ⟨_, hfacts, hstore⟩ := setProp_disabled_ok hs
        have hget : amGet l2.st.facts (genPropId id "disabled") = some (flagFact id) := by
          rw [hfacts, amGet_amSet_self]
        refine ⟨hget, by rw [hstore, amGet_amSet_self], fun p hp hk => ?_, ?_⟩
        · rw [hfacts] at hp; exact amSet_entries _ _ _ p hp hk
        · simp only [ruleDisabled, hget, unexpired]
          have : checkExpiration (flagFact id) now = .ok false := by
            simp [checkExpiration, flagFact, Obj.get?, lookupKey]
          rw [this]; rfl
  · rw [locEnableRule_split] at h
    obtain ⟨l1, _, hb⟩ := guarded_ok h
    simp only [Body.enableRule, if_true, bind, LM.bind] at hb
    cases hs : remProp id "disabled" now l1 with
    | mk l2 r =>
      rw [hs] at hb
      cases r with
      | error e => cases hb
      | ok r =>
        simp only [pure, LM.pure, Prod.mk.injEq] at hb
        obtain ⟨hl, _⟩ := hb
        subst hl
        obtain ⟨_, _, habs⟩ := stRem_ok (show stRem (genPropId id "disabled") now l1 = (l2, .ok r) from hs)
        exact ⟨habs, by simp [ruleDisabled, habs]⟩
  · rw [locRuleEnabled_split, guarded_eq hf c] at h
    obtain ⟨r, hr, hb⟩ := ruleEnabled_body (id := id) hfl
    split at h
    · rw [hr] at h
      simp only [Prod.mk.injEq] at h
      exact ⟨h.1.symm, hb b h.2⟩
    · cases h

/-- **The flag disappears with the rule.**  After a successful `RemRule id` neither the rule nor the flag
`!id.disabled` is in memory, and if the flag was stored it is gone from storage too.  (`RemRule` removes the
flag explicitly; the flag also names `id` in `deleteWith`, see `flagFact`.)  `FreshAt`: the flag fact is not
expired — flags are written without an expiry. -/
theorem flag_dies_with_rule (c : Ctx) (id : String) (now : Int) (l l' : Loc) (r : String)
    (hf : GuardFresh l.st now) (hfl : FreshAt l.st (genPropId id "disabled") now)
    (h : locRemRule c id now l = (l', .ok r)) :
    amGet l'.st.facts (genPropId id "disabled") = none ∧ amGet l'.st.facts id = none ∧
    (amGet l.st.facts (genPropId id "disabled") ≠ none → amGet l'.st.store (genPropId id "disabled") = none) ∧
    ruleDisabled l'.st.facts id now = false ∧
    deleteWithOf (flagFact id) = [id] := by
  rw [locRemRule_split, guarded_eq hf c] at h
  split at h
  · obtain ⟨h1, h2, hk⟩ := remRule_body_ok hfl h
    refine ⟨h1, h2, fun hne => ?_, by simp [ruleDisabled, h1], by simp [deleteWithOf, flagFact, Obj.get?, lookupKey]⟩
    cases hg : amGet l.st.facts (genPropId id "disabled") with
    | none => exact absurd hg hne
    | some f => exact hk.gone hg h1
  · cases h

/-- **Re-adding under the same id replaces the old rule entirely.**  Whatever `AddRule id r1` left behind, a
successful `AddRule id r2` leaves, under the returned id (= `id` unless empty), the prepared wrapper of `r2` and
nothing else: it is what memory and storage answer, and every entry under that id equals it. -/
theorem readd_replaces (c : Ctx) (id : String) (r1 r2 : Obj) (t1 t2 : Int) (l0 l2 : Loc) (id2 : String)
    (h : locAddRule c id r2 t2 (locAddRule c id r1 t1 l0).1 = (l2, .ok id2)) :
    (id ≠ "" → id2 = id) ∧
    ∃ w m x' fresh, ruleWrapper r2 t2 = .ok w ∧ prepareFact id fresh w t2 = .ok (id2, m, x') ∧
      amGet l2.st.facts id2 = some (storedForm l2.st.kind m) ∧
      amGet l2.st.store id2 = some (.obj (storedForm l2.st.kind m)) ∧
      (∀ p ∈ l2.st.facts, p.1 = id2 → p.2 = storedForm l2.st.kind m) ∧
      (∀ p ∈ l2.st.store, p.1 = id2 → p.2 = .obj (storedForm l2.st.kind m)) := by
  rw [locAddRule_split] at h
  obtain ⟨l1, _, hb⟩ := guarded_ok h
  obtain ⟨w, m, x', hw, hp, hfacts, hstore, hid, hkind⟩ := addRule_body_ok hb
  rw [hkind]
  refine ⟨hid, w, m, x', l1.st.freshId, hw, hp, by rw [hfacts, amGet_amSet_self], by rw [hstore, amGet_amSet_self],
    fun p hp' hk => ?_, fun p hp' hk => ?_⟩
  · rw [hfacts] at hp'; exact amSet_entries _ _ _ p hp' hk
  · rw [hstore] at hp'; exact amSet_entries _ _ _ p hp' hk

/-- **Only live, enabled rules fire** (specification side; the index side is C01's).  The dispatch specification
for a location's own rules contains exactly the stored, unexpired, non-scheduled rules whose `when` matches the
event, with the matcher's bindings: a rule that was removed (`amGet facts id = none`), has expired, or is
scheduled is not dispatched; and the filter applied on top is exactly `ruleDisabled`, which is what
`RuleEnabled` answers (`flag_is_property_fact`).
Full statement (not proved here): the rules evaluated by `ProcessEvent` over every history of
add / overwrite / remove / disable / enable / reload / toggles equal this filtered specification. -/
theorem fires_iff_live_enabled_partial (facts : List (String × Obj)) (ev : Obj) (now : Int)
    (out : List (String × List Bs)) (h : specDispatchLocal facts ev now = .ok out) :
    (∀ id bss, (id, bss) ∈ out ↔ ∃ f pat, (id, f) ∈ facts ∧ unexpired f now = true ∧ whenOf f = some pat ∧
        matchesJ (.obj pat) (.obj ev) = .ok bss ∧ bss ≠ []) ∧
    (∀ id bss, (id, bss) ∈ out.filter (fun r => !ruleDisabled facts r.1 now) ↔
        (id, bss) ∈ out ∧ ruleDisabled facts id now = false) ∧
    (∀ id bss, (∀ f, (id, f) ∉ facts) → (id, bss) ∉ out) ∧
    (∀ id, ruleDisabled facts id now = true → ∀ bss, (id, bss) ∉ out.filter (fun r => !ruleDisabled facts r.1 now)) := by
  refine ⟨specDispatchLocal_mem h, fun id bss => by simp [List.mem_filter], fun id bss hno hmem => ?_,
    fun id hd bss hmem => ?_⟩
  · obtain ⟨f, _, hf, _⟩ := (specDispatchLocal_mem h id bss).1 hmem
    exact hno f hf
  · have := (List.mem_filter.1 hmem).2
    simp [hd] at this

/-! ## the hypotheses are satisfiable -/

/-- a location switched off through its `!enabled` property, holding a rule `r1` and its disabled flag -/
def c10Example : Loc :=
  { name := "home",
    st := { kind := .linear,
            facts := [("!.enabled", [("id", .str ""), ("!enabled", .str "no"), ("deleteWith", .arr [.str ""])]),
                      ("r1", [("rule", .obj [("when", .obj [("pattern", .obj [("wants", .str "?x")])]),
                                             ("action", .obj [("code", .str "1")])])]),
                      ("!r1.disabled", flagFact "r1")] } }

example : Disabled c10Example 7 ∧ GuardFresh c10Example.st 7 := ⟨by decide, guardFresh_of_b (by decide)⟩
example : locGetFact {} "r1" 7 c10Example = (c10Example, .error "disabled") :=
  (disabled_location_reports c10Example {} 7 (guardFresh_of_b (by decide)) (by decide)).2.2.2.2.1 "r1"
/-- the flag is read by `ruleDisabled`; the rule is live (stored, unexpired, with a `when`) but filtered -/
example : ruleDisabled c10Example.st.facts "r1" 7 = true ∧ ruleDisabled c10Example.st.facts "r2" 7 = false ∧
    FreshAt c10Example.st (genPropId "r1" "disabled") 7 := ⟨by decide, by decide, freshAt_of_b (by decide)⟩
example : whenOf [("rule", .obj [("when", .obj [("pattern", .obj [("wants", .str "?x")])]),
                                 ("action", .obj [("code", .str "1")])])] = some [("wants", .str "?x")] := by rfl

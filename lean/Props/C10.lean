import RulioModel.LocInv
import RulioProofs.LocGuards
import RulioProofs.LocState
import RulioProofs.LocLife
import RulioProofs.ComposeExamples

open LocP

/-! # C10 — rule lifecycle: only live, enabled rules fire (property theorems only)

Over the Location model (`locX = guards of "X"; body`), whose guard table is tied to `location.go` by
`guards_match_model` (Props/C19).  The pattern-index side of dispatch (C01) and reload (C06) are proved
elsewhere; here: the `Enabled` gate, the disabled flag as a property fact, removal, re-adding, and the
dispatch specification. -/

/-- **In a disabled location every operation reports "disabled".**  Every method of the model carries the
`Enabled` guard, and it is the first guard everywhere except in `AddFact` (where `CheckWrite` and the capacity
test come first, as in the source).  On a location whose `!enabled` property is none of "", "yes", "true"
each method returns an error and leaves the location unchanged; the error is "disabled" (for `AddFact`:
whenever the write key is right and there is room). -/
theorem disabled_location_reports (l : Loc) (c : Ctx) (now : Int) (hf : GuardFresh l.st now) (hd : Disabled l now) :
    (∀ m ∈ modelMethods, Guard.enabled ∈ guardsOf m) ∧
    (∀ m ∈ modelMethods, m ≠ "AddFact" → runGuards c now (guardsOf m) l = (l, .error "disabled")) ∧
    (∃ e, runGuards c now (guardsOf "AddFact") l = (l, .error e) ∧
      (¬ WriteDenied l c now → l.st.count < l.maxFacts → e = "disabled")) ∧
    (∀ id, locRemFact c id now l = (l, .error "disabled")) ∧
    (∀ id, locGetFact c id now l = (l, .error "disabled")) ∧
    (∀ id r, locAddRule c id r now l = (l, .error "disabled")) ∧
    (∀ id, locRemRule c id now l = (l, .error "disabled")) ∧
    (∀ id b, locEnableRule c id b now l = (l, .error "disabled")) ∧
    (∀ id, locRuleEnabled c id now l = (l, .error "disabled")) ∧
    (∀ id, locGetRule c id now l = (l, .error "disabled")) ∧
    (∀ p, locSearchFacts c p now l = (l, .error "disabled")) ∧
    (∀ ev, locSearchRules c ev now l = (l, .error "disabled")) ∧
    (locGetParents c now l = (l, .error "disabled")) ∧
    (∀ ps, locSetParents c ps now l = (l, .error "disabled")) ∧
    (locClear c now l = (l, .error "disabled")) ∧
    (locStateSize c now l = (l, .error "disabled")) ∧
    (∀ id f, ∃ e, locAddFact c id f now l = (l, .error e)) := by
  have hv : guardVerdict c now l .enabled = .error "disabled" := verdict_disabled hd
  have hhead : ∀ m ∈ modelMethods, m ≠ "AddFact" → (guardsOf m).head? = some Guard.enabled := by decide
  have key : ∀ m ∈ modelMethods, m ≠ "AddFact" → guardsVerdict c now l (guardsOf m) = .error "disabled" := by
    intro m hm hne
    have := hhead m hm hne
    cases hg : guardsOf m with
    | nil => rw [hg] at this; cases this
    | cons g gs =>
      rw [hg] at this
      simp only [List.head?_cons, Option.some.injEq] at this
      subst this
      exact guardsVerdict_head hv
  have run : ∀ {α} (m : String) (body : LM α), m ∈ modelMethods → m ≠ "AddFact" →
      (runGuards c now (guardsOf m) >>= fun _ => body) l = (l, .error "disabled") := by
    intro α m body hm hne; rw [guarded_eq hf c _ body, key m hm hne]
  have addFact : ∃ e, guardsVerdict c now l (guardsOf "AddFact") = .error e ∧
      (¬ WriteDenied l c now → l.st.count < l.maxFacts → e = "disabled") := by
    show ∃ e, guardsVerdict c now l [.checkWrite, .atCapacity, .enabled] = .error e ∧ _
    by_cases hw : WriteDenied l c now
    · obtain ⟨e, he⟩ := verdict_writeDenied hw
      exact ⟨e, guardsVerdict_head he, fun h => absurd hw h⟩
    · by_cases hc : l.maxFacts ≤ l.st.count
      · refine ⟨"capacity", ?_, fun _ h => absurd hc (Nat.not_le.2 h)⟩
        simp [guardsVerdict, verdict_writeOK hw, verdict_capacity, hc]
      · refine ⟨"disabled", ?_, fun _ _ => rfl⟩
        simp [guardsVerdict, verdict_writeOK hw, verdict_capacity, hc, hv]
  refine ⟨by decide, fun m hm hne => by rw [runGuards_eq hf c, key m hm hne], ?_,
    fun id => ?_, fun id => ?_, fun id r => ?_, fun id => ?_, fun id b => ?_, fun id => ?_, fun id => ?_,
    fun p => ?_, fun ev => ?_, ?_, fun ps => ?_, ?_, ?_, fun id f => ?_⟩
  · obtain ⟨e, he, h2⟩ := addFact
    exact ⟨e, by rw [runGuards_eq hf c, he], h2⟩
  · rw [locRemFact_split]; exact run "RemFact" _ (by decide) (by decide)
  · rw [locGetFact_split]; exact run "GetFact" _ (by decide) (by decide)
  · rw [locAddRule_split]; exact run "AddRule" _ (by decide) (by decide)
  · rw [locRemRule_split]; exact run "RemRule" _ (by decide) (by decide)
  · rw [locEnableRule_split]; exact run "EnableRule" _ (by decide) (by decide)
  · rw [locRuleEnabled_split]; exact run "RuleEnabled" _ (by decide) (by decide)
  · rw [locGetRule_split]; exact run "GetRule" _ (by decide) (by decide)
  · rw [locSearchFacts_split]; exact run "searchFacts" _ (by decide) (by decide)
  · rw [locSearchRules_split]; exact run "searchRules" _ (by decide) (by decide)
  · rw [locGetParents_split]; exact run "GetParents" _ (by decide) (by decide)
  · rw [locSetParents_split]; exact run "SetParents" _ (by decide) (by decide)
  · rw [locClear_split]; exact run "Clear" _ (by decide) (by decide)
  · rw [locStateSize_split]; exact run "StateSize" _ (by decide) (by decide)
  · obtain ⟨e, he, _⟩ := addFact
    exact ⟨e, by rw [locAddFact_split, guarded_eq hf c _ _, he]⟩

/-- **The disabled flag is a property fact.**  A successful `EnableRule id false` stores exactly
`{id, !disabled: true, deleteWith: [id]}` under `!id.disabled` in memory and storage (every entry under that id);
a successful `EnableRule id true` leaves no fact under `!id.disabled`; `RuleEnabled` reads that fact: it
answers the negation of `ruleDisabled` (the predicate the dispatch specification filters with). -/
theorem flag_is_property_fact (c : Ctx) (id : String) (now : Int) (l l' : Loc) :
    (locEnableRule c id false now l = (l', .ok ()) →
      amGet l'.st.facts (genPropId id "disabled") = some (flagFact id) ∧
      amGet l'.st.store (genPropId id "disabled") = some (.obj (flagFact id)) ∧
      (∀ p ∈ l'.st.facts, p.1 = genPropId id "disabled" → p.2 = flagFact id) ∧
      ruleDisabled l'.st.facts id now = true) ∧
    (locEnableRule c id true now l = (l', .ok ()) →
      amGet l'.st.facts (genPropId id "disabled") = none ∧ ruleDisabled l'.st.facts id now = false) ∧
    (GuardFresh l.st now → FreshAt l.st (genPropId id "disabled") now →
      ∀ b, locRuleEnabled c id now l = (l', .ok b) → l' = l ∧ b = !ruleDisabled l.st.facts id now) := by
  refine ⟨fun h => ?_, fun h => ?_, fun hf hfl b h => ?_⟩
  · rw [locEnableRule_split] at h
    obtain ⟨l1, _, hb⟩ := guarded_ok h
    simp only [Body.enableRule, Bool.false_eq_true, if_false, bind, LM.bind] at hb
    cases hs : setProp id "disabled" (.bool true) now l1 with
    | mk l2 r =>
      rw [hs] at hb
      cases r with
      | error e => cases hb
      | ok r =>
        simp only [pure, LM.pure, Prod.mk.injEq] at hb
        obtain ⟨hl, _⟩ := hb
        subst hl
        obtain ⟨_, hfacts, hstore⟩ := setProp_disabled_ok hs
        have hget : amGet l2.st.facts (genPropId id "disabled") = some (flagFact id) := by
          rw [hfacts, amGet_amSet_self]
        refine ⟨hget, by rw [hstore, amGet_amSet_self], fun p hp hk => ?_, ?_⟩
        · rw [hfacts] at hp; exact amSet_entries _ _ _ p hp hk
        · simp only [ruleDisabled, hget, unexpired]
          have : checkExpiration (flagFact id) now = .ok false := by
            simp [checkExpiration, flagFact, Obj.get?, lookupKey]
          rw [this]; rfl
  · rw [locEnableRule_split] at h
    obtain ⟨l1, _, hb⟩ := guarded_ok h
    simp only [Body.enableRule, if_true, bind, LM.bind] at hb
    cases hs : remProp id "disabled" now l1 with
    | mk l2 r =>
      rw [hs] at hb
      cases r with
      | error e => cases hb
      | ok r =>
        simp only [pure, LM.pure, Prod.mk.injEq] at hb
        obtain ⟨hl, _⟩ := hb
        subst hl
        obtain ⟨_, _, habs⟩ := stRem_ok (show stRem (genPropId id "disabled") now l1 = (l2, .ok r) from hs)
        exact ⟨habs, by simp [ruleDisabled, habs]⟩
  · rw [locRuleEnabled_split, guarded_eq hf c] at h
    obtain ⟨r, hr, hb⟩ := ruleEnabled_body (id := id) hfl
    split at h
    · rw [hr] at h
      simp only [Prod.mk.injEq] at h
      exact ⟨h.1.symm, hb b h.2⟩
    · cases h

/-- **The flag disappears with the rule.**  After a successful `RemRule id` neither the rule nor the flag
`!id.disabled` is in memory, and if the flag was stored it is gone from storage too.  (`RemRule` removes the
flag explicitly; the flag also names `id` in `deleteWith`, see `flagFact`.)  `FreshAt`: the flag fact is not
expired — flags are written without an expiry. -/
theorem flag_dies_with_rule (c : Ctx) (id : String) (now : Int) (l l' : Loc) (r : String)
    (hf : GuardFresh l.st now) (hfl : FreshAt l.st (genPropId id "disabled") now)
    (h : locRemRule c id now l = (l', .ok r)) :
    amGet l'.st.facts (genPropId id "disabled") = none ∧ amGet l'.st.facts id = none ∧
    (amGet l.st.facts (genPropId id "disabled") ≠ none → amGet l'.st.store (genPropId id "disabled") = none) ∧
    ruleDisabled l'.st.facts id now = false ∧
    deleteWithOf (flagFact id) = [id] := by
  rw [locRemRule_split, guarded_eq hf c] at h
  split at h
  · obtain ⟨h1, h2, hk⟩ := remRule_body_ok hfl h
    refine ⟨h1, h2, fun hne => ?_, by simp [ruleDisabled, h1], by simp [deleteWithOf, flagFact, Obj.get?, lookupKey]⟩
    cases hg : amGet l.st.facts (genPropId id "disabled") with
    | none => exact absurd hg hne
    | some f => exact hk.gone hg h1
  · cases h

/-- **Re-adding under the same id replaces the old rule entirely.**  Whatever `AddRule id r1` left behind, a
successful `AddRule id r2` leaves, under the returned id (= `id` unless empty), the prepared wrapper of `r2` and
nothing else: it is what memory and storage answer, and every entry under that id equals it. -/
theorem readd_replaces (c : Ctx) (id : String) (r1 r2 : Obj) (t1 t2 : Int) (l0 l2 : Loc) (id2 : String)
    (h : locAddRule c id r2 t2 (locAddRule c id r1 t1 l0).1 = (l2, .ok id2)) :
    (id ≠ "" → id2 = id) ∧
    ∃ w m x' fresh, ruleWrapper r2 t2 = .ok w ∧ prepareFact id fresh w t2 = .ok (id2, m, x') ∧
      amGet l2.st.facts id2 = some (storedForm l2.st.kind m) ∧
      amGet l2.st.store id2 = some (.obj (storedForm l2.st.kind m)) ∧
      (∀ p ∈ l2.st.facts, p.1 = id2 → p.2 = storedForm l2.st.kind m) ∧
      (∀ p ∈ l2.st.store, p.1 = id2 → p.2 = .obj (storedForm l2.st.kind m)) := by
  rw [locAddRule_split] at h
  obtain ⟨l1, _, hb⟩ := guarded_ok h
  obtain ⟨w, m, x', hw, hp, hfacts, hstore, hid, hkind⟩ := addRule_body_ok hb
  rw [hkind]
  refine ⟨hid, w, m, x', l1.st.freshId, hw, hp, by rw [hfacts, amGet_amSet_self], by rw [hstore, amGet_amSet_self],
    fun p hp' hk => ?_, fun p hp' hk => ?_⟩
  · rw [hfacts] at hp'; exact amSet_entries _ _ _ p hp' hk
  · rw [hstore] at hp'; exact amSet_entries _ _ _ p hp' hk

/-- **Only live, enabled rules fire** (specification side; the index side is C01's).  The dispatch specification
for a location's own rules contains exactly the stored, unexpired, non-scheduled rules whose `when` matches the
event, with the matcher's bindings: a rule that was removed (`amGet facts id = none`), has expired, or is
scheduled is not dispatched; and the filter applied on top is exactly `ruleDisabled`, which is what
`RuleEnabled` answers (`flag_is_property_fact`).
Full statement (not proved here): the rules evaluated by `ProcessEvent` over every history of
add / overwrite / remove / disable / enable / reload / toggles equal this filtered specification. -/
theorem fires_iff_live_enabled_partial (facts : List (String × Obj)) (ev : Obj) (now : Int)
    (out : List (String × List Bs)) (h : specDispatchLocal facts ev now = .ok out) :
    (∀ id bss, (id, bss) ∈ out ↔ ∃ f pat, (id, f) ∈ facts ∧ unexpired f now = true ∧ whenOf f = some pat ∧
        matchesJ (.obj pat) (.obj ev) = .ok bss ∧ bss ≠ []) ∧
    (∀ id bss, (id, bss) ∈ out.filter (fun r => !ruleDisabled facts r.1 now) ↔
        (id, bss) ∈ out ∧ ruleDisabled facts id now = false) ∧
    (∀ id bss, (∀ f, (id, f) ∉ facts) → (id, bss) ∉ out) ∧
    (∀ id, ruleDisabled facts id now = true → ∀ bss, (id, bss) ∉ out.filter (fun r => !ruleDisabled facts r.1 now)) := by
  refine ⟨specDispatchLocal_mem h, fun id bss => by simp [List.mem_filter], fun id bss hno hmem => ?_,
    fun id hd bss hmem => ?_⟩
  · obtain ⟨f, _, hf, _⟩ := (specDispatchLocal_mem h id bss).1 hmem
    exact hno f hf
  · have := (List.mem_filter.1 hmem).2
    simp [hd] at this

/-! ## the hypotheses are satisfiable -/

/-- a location switched off through its `!enabled` property, holding a rule `r1` and its disabled flag -/
def c10Example : Loc :=
  { name := "home",
    st := { kind := .linear,
            facts := [("!.enabled", [("id", .str ""), ("!enabled", .str "no"), ("deleteWith", .arr [.str ""])]),
                      ("r1", [("rule", .obj [("when", .obj [("pattern", .obj [("wants", .str "?x")])]),
                                             ("action", .obj [("code", .str "1")])])]),
                      ("!r1.disabled", flagFact "r1")] } }

example : Disabled c10Example 7 ∧ GuardFresh c10Example.st 7 := ⟨by decide, guardFresh_of_b (by decide)⟩
example : locGetFact {} "r1" 7 c10Example = (c10Example, .error "disabled") :=
  (disabled_location_reports c10Example {} 7 (guardFresh_of_b (by decide)) (by decide)).2.2.2.2.1 "r1"
/-- the flag is read by `ruleDisabled`; the rule is live (stored, unexpired, with a `when`) but filtered -/
example : ruleDisabled c10Example.st.facts "r1" 7 = true ∧ ruleDisabled c10Example.st.facts "r2" 7 = false ∧
    FreshAt c10Example.st (genPropId "r1" "disabled") 7 := ⟨by decide, by decide, freshAt_of_b (by decide)⟩
example : whenOf [("rule", .obj [("when", .obj [("pattern", .obj [("wants", .str "?x")])]),
                                 ("action", .obj [("code", .str "1")])])] = some [("wants", .str "?x")] := by rfl

/-! ## the lifecycle clause over all histories (composition with C01 / C05)

`fires_iff_live_enabled_partial` above is about the specification only.  Here the specification is tied to what an
`event` op does (`locProcessEvent`: `searchRules` → `RuleEnabled` per candidate → `processEvent`, as the driver
composes them; one location, no parents) after **any history of Location operations** (`LocOp`: `AddRule` — also
under an id in use, i.e. replace —, `RemRule`, `EnableRule`, `AddFact` — also under the id of a rule —, `RemFact`,
`GetFact`, `SearchFacts`, `SearchRules`, `Clear`; whatever they answer), for both state kinds.  Well-formedness and
reachability of the state are derived from the history (`stGood_history`).  Hypotheses that remain
(see `dispatch_exact_local`, Props/C01): nothing stored is expired at the time of the event (`NoneExpired`; expiry
itself is C07's), stored rule bodies have the documented shape (`RuleShapes`), for the indexed kind the stored `when`
patterns and the event are in the fragments, and the event's work tree carries no error (`dispatch_no_error` says when).
Lemmas: `RulioProofs/Compose*.lean`. -/

/-- **`fires_iff_live_enabled`.**  After any history of Location operations on a fresh location of either kind, for
an event whose work tree carries no error: the location is unchanged by the event, every rule node `(id, bindings)`
of the tree is *live and enabled* (`LiveEnabled`: `id` is currently stored as a non-scheduled rule, unexpired, its
current `when` matches the event with exactly these bindings, and `ruleDisabled` is false for it — which is what
`RuleEnabled` answers, `flag_is_property_fact`), and if the walk was not aborted the rule nodes are **exactly** the
live and enabled rules.  A removed, replaced, overwritten or disabled rule never fires on the strength of what it
was before; a live, enabled, matching rule always does. -/
theorem fires_iff_live_enabled (srch : Srch) (name : String) (k : Kind) (ops : List LocOp) (c : Ctx) (ev : Obj)
    (now : Int) (l l' : Loc) (t : Tree) (hl : l = (Loc.fresh name k).run ops)
    (hne : _root_.NoneExpired l.st now) (hshape : RuleShapes l.st)
    (hfrag : l.st.kind = .indexed → WhenFrag l.st ∧ EvOK ev = true ∧ dataOK (.obj ev) = true)
    (hrun : locProcessEvent srch c ev now l = (l', t)) (herr : t.err = none) :
    l' = l ∧
    (∀ id bss, (id, bss) ∈ t.fired → LiveEnabled l.st.facts ev now id bss) ∧
    (t.aborted = false → ∀ id bss, (id, bss) ∈ t.fired ↔ LiveEnabled l.st.facts ev now id bss) := by
  have hgood : StGood l.st := hl ▸ stGood_history name k ops
  obtain ⟨h1, out, hout, _, hsub, hperm⟩ := locProcessEvent_exact srch hgood.1 hne hshape
    (fun hk => ⟨hgood.2 hk, hfrag hk⟩) hrun herr
  refine ⟨h1, fun id bss hmem => (specFires_mem hout id bss).1 (hsub _ hmem), fun hab id bss => ?_⟩
  rw [← specFires_mem hout id bss]
  exact (hperm hab).mem_iff

/-- **removed, overwritten and disabled rules never fire** (no assumption on how the walk ended): after any
history, an id under which no fact is stored, an id whose stored fact is not a non-scheduled rule, and an id whose
disabled flag is set have no rule node. -/
theorem dead_rules_never_fire (srch : Srch) (name : String) (k : Kind) (ops : List LocOp) (c : Ctx) (ev : Obj)
    (now : Int) (l l' : Loc) (t : Tree) (hl : l = (Loc.fresh name k).run ops)
    (hne : _root_.NoneExpired l.st now) (hshape : RuleShapes l.st)
    (hfrag : l.st.kind = .indexed → WhenFrag l.st ∧ EvOK ev = true ∧ dataOK (.obj ev) = true)
    (hrun : locProcessEvent srch c ev now l = (l', t)) (herr : t.err = none) (id : String) :
    (amGet l.st.facts id = none → ∀ bss, (id, bss) ∉ t.fired) ∧
    ((∀ f, (id, f) ∈ l.st.facts → whenOf f = none) → ∀ bss, (id, bss) ∉ t.fired) ∧
    (ruleDisabled l.st.facts id now = true → ∀ bss, (id, bss) ∉ t.fired) := by
  obtain ⟨_, hlive, _⟩ := fires_iff_live_enabled srch name k ops c ev now l l' t hl hne hshape hfrag hrun herr
  refine ⟨fun hnone bss hmem => ?_, fun hnr bss hmem => ?_, fun hdis bss hmem => ?_⟩
  · obtain ⟨f, _, hf, _⟩ := hlive id bss hmem
    exact not_stored_of_amGet_none hnone f hf
  · obtain ⟨f, p, hf, hw, _⟩ := hlive id bss hmem
    rw [hnr f hf] at hw; cases hw
  · obtain ⟨_, _, _, _, _, _, _, hen⟩ := hlive id bss hmem
    rw [hdis] at hen; cases hen

/-- **disable suppresses, remove removes** — the two lifecycle operations composed with the event: if the history
ends with a successful `EnableRule id false`, or with a successful `RemRule id` (flag unexpired, as flags always
are), then `id` has no rule node in any later error-free event on that state, at any time, whatever `id`'s rule
matches.  (`flag_is_property_fact`, `flag_dies_with_rule` give the state after the operation; the flag fact carries
no expiry, so it disables at every later time.) -/
theorem disable_and_remove_suppress (srch : Srch) (name : String) (k : Kind) (ops : List LocOp) (c c' : Ctx)
    (ev : Obj) (t1 now : Int) (id : String) (l0 l l' : Loc) (t : Tree) (hl0 : l0 = (Loc.fresh name k).run ops)
    (hop : locEnableRule c' id false t1 l0 = (l, .ok ()) ∨
      (∃ r, locRemRule c' id t1 l0 = (l, .ok r) ∧ GuardFresh l0.st t1 ∧ FreshAt l0.st (genPropId id "disabled") t1))
    (hne : _root_.NoneExpired l.st now) (hshape : RuleShapes l.st)
    (hfrag : l.st.kind = .indexed → WhenFrag l.st ∧ EvOK ev = true ∧ dataOK (.obj ev) = true)
    (hrun : locProcessEvent srch c ev now l = (l', t)) (herr : t.err = none) :
    ∀ bss, (id, bss) ∉ t.fired := by
  rcases hop with hop | ⟨r, hop, hgf, hfl⟩
  · have hl : l = (Loc.fresh name k).run (ops ++ [LocOp.enableRule c' id false t1]) := by
      simp only [Loc.run, List.foldl_append, List.foldl_cons, List.foldl_nil, LocOp.step]
      rw [show List.foldl LocOp.step (Loc.fresh name k) ops = l0 from hl0.symm, hop]
    have hflag := ((flag_is_property_fact c' id t1 l0 l).1 hop).1
    exact (dead_rules_never_fire srch name k _ c ev now l l' t hl hne hshape hfrag hrun herr id).2.2
      (ruleDisabled_of_flag hflag now)
  · have hl : l = (Loc.fresh name k).run (ops ++ [LocOp.remRule c' id t1]) := by
      simp only [Loc.run, List.foldl_append, List.foldl_cons, List.foldl_nil, LocOp.step]
      rw [show List.foldl LocOp.step (Loc.fresh name k) ops = l0 from hl0.symm, hop]
    have hgone := (flag_dies_with_rule c' id t1 l0 l r hgf hfl hop).2.1
    exact (dead_rules_never_fire srch name k _ c ev now l l' t hl hne hshape hfrag hrun herr id).1 hgone

/-- **… until it is enabled again.**  If the history ends with a successful `EnableRule id true`, the flag is gone
(at every later time), so in a later error-free, non-aborted event `id` fires iff it is stored as a non-scheduled,
unexpired rule whose current `when` matches — the disabled clause has dropped out. -/
theorem enable_restores (srch : Srch) (name : String) (k : Kind) (ops : List LocOp) (c c' : Ctx)
    (ev : Obj) (t1 now : Int) (id : String) (l0 l l' : Loc) (t : Tree) (hl0 : l0 = (Loc.fresh name k).run ops)
    (hop : locEnableRule c' id true t1 l0 = (l, .ok ()))
    (hne : _root_.NoneExpired l.st now) (hshape : RuleShapes l.st)
    (hfrag : l.st.kind = .indexed → WhenFrag l.st ∧ EvOK ev = true ∧ dataOK (.obj ev) = true)
    (hrun : locProcessEvent srch c ev now l = (l', t)) (herr : t.err = none) (hab : t.aborted = false) :
    ∀ bss, (id, bss) ∈ t.fired ↔
      ∃ f p, (id, f) ∈ l.st.facts ∧ whenOf f = some p ∧ unexpired f now = true ∧
        matchesJ (.obj p) (.obj ev) = .ok bss ∧ bss ≠ [] := by
  have hl : l = (Loc.fresh name k).run (ops ++ [LocOp.enableRule c' id true t1]) := by
    simp only [Loc.run, List.foldl_append, List.foldl_cons, List.foldl_nil, LocOp.step]
    rw [show List.foldl LocOp.step (Loc.fresh name k) ops = l0 from hl0.symm, hop]
  have hnone := ((flag_is_property_fact c' id t1 l0 l).2.1 hop).1
  have hen : ruleDisabled l.st.facts id now = false := by simp [ruleDisabled, hnone]
  obtain ⟨_, _, hiff⟩ := fires_iff_live_enabled srch name k _ c ev now l l' t hl hne hshape hfrag hrun herr
  intro bss
  rw [hiff hab id bss]
  unfold LiveEnabled
  constructor
  · rintro ⟨f, p, h1, h2, h3, h4, h5, _⟩; exact ⟨f, p, h1, h2, h3, h4, h5⟩
  · rintro ⟨f, p, h1, h2, h3, h4, h5⟩; exact ⟨f, p, h1, h2, h3, h4, h5, hen⟩

/-- non-vacuity: on the history `ComposeEx.cxLoc k` (either kind: `r1` replaced, `r2` disabled, `r3` overwritten by a
plain fact) all hypotheses of `fires_iff_live_enabled` hold for the event `{"wants":"tacos","likes":["chips","tacos"]}`
at time 7 and the event reports no error (`dispatch_no_error`); hence `r2` (disabled although its `when` matches) and
`r3` (no longer a rule) have no rule node -/
example (k : Kind) (srch : Srch) :
    (locProcessEvent srch {} ComposeEx.cxEv 7 (ComposeEx.cxLoc k)).2.err = none ∧
    (∀ bss, ("r2", bss) ∉ (locProcessEvent srch {} ComposeEx.cxEv 7 (ComposeEx.cxLoc k)).2.fired) ∧
    (∀ bss, ("r3", bss) ∉ (locProcessEvent srch {} ComposeEx.cxEv 7 (ComposeEx.cxLoc k)).2.fired) := by
  have h1 := locProcessEvent_no_error srch (c := {}) (ev := ComposeEx.cxEv) (now := 7) (l := ComposeEx.cxLoc k)
    (ComposeEx.cx_good k).1 (ComposeEx.cx_noneExpired k) (ComposeEx.cx_shapes k) (ComposeEx.cx_idx k)
    (ComposeEx.cx_valid k) (ComposeEx.cx_maps k) (ComposeEx.cx_guards k) (fun _ => ComposeEx.cx_spec k)
  generalize hrun : locProcessEvent srch {} ComposeEx.cxEv 7 (ComposeEx.cxLoc k) = res at h1 ⊢
  obtain ⟨l', t⟩ := res
  have hd := dead_rules_never_fire srch "home" k ComposeEx.cxOps {} ComposeEx.cxEv 7 (ComposeEx.cxLoc k) l' t rfl
    (ComposeEx.cx_noneExpired k) (ComposeEx.cx_shapes k)
    (fun hk => ⟨ComposeEx.cx_whenFrag k, ComposeEx.cx_ev.1, ComposeEx.cx_ev.2⟩) hrun h1.2
  exact ⟨h1.2, (hd "r2").2.2 (ComposeEx.cx_disabled k).1, (hd "r3").2.1 (ComposeEx.cx_r3 k)⟩

import RulioModel.Loc

/-! # C10 — rule lifecycle (placeholder obligations until the Loc proofs land) -/

/-- every method of the Location API that the model knows reports a disabled location -/
theorem all_methods_check_enabled :
    ["AddFact", "RemFact", "GetFact", "AddRule", "RemRule", "EnableRule", "RuleEnabled", "GetRule", "searchFacts", "searchRules",
     "SearchRules", "ListRules", "GetParents", "SetParents", "Clear", "Delete", "StateSize", "Query", "RunJavascript"].all
      (fun m => (guardsOf m).contains .enabled) = true := by decide

import RulioModel.Loc

/-! # C19 — access control (placeholder obligations until the Loc proofs land) -/

/-- every mutating method of the Location API checks the write key -/
theorem mutators_check_write :
    ["AddFact", "RemFact", "AddRule", "RemRule", "EnableRule", "SetParents", "Clear", "Delete"].all
      (fun m => (guardsOf m).contains .checkWrite) = true := by decide

/-- every revealing method checks the read key -/
theorem readers_check_read :
    ["GetFact", "GetRule", "searchFacts", "searchRules", "SearchRules", "ListRules", "GetParents", "RuleEnabled", "StateSize"].all
      (fun m => (guardsOf m).contains .checkRead) = true := by decide

import RulioModel.LocInv
import RulioModel.Gen.Loc
import RulioProofs.LocGuards

open LocP

/-! # C19 — access controls and enablement are enforced on every path (property theorems only)

`Gen.*` is regenerated from `core/location.go`, `core/state.go`, `core/events.go` before this file is built.
The model's methods are `locX = guards of "X"; body of X` (`guardsOf`, RulioModel/Loc.lean). -/

/-- The guard table regenerated from `location.go` (calls of `Enabled` / `CheckRead` / `CheckWrite` /
`AtCapacity` at the top of each method, in source order), restricted to the methods of the model, is the
table `guardsOf` the model runs.  Removing or reordering a guard in `location.go` breaks this theorem. -/
theorem guards_match_model : guardsAgree Gen.locationGuards = true := by decide

/-- The comparisons translated from the Go source are the ones the model uses: `notAfter`
(`secs == 0 ⇒ false`, else `secs <= now`), `AtCapacity` (`MaxFacts <= Count`), `Enabled` (property and accepted
values), `CheckWrite` / `CheckRead` (read-only test first / property / key test against the caller's key),
`IdProperty`, `genPropId`; likewise the twins (`enabledOK`, `keyOK`, `capFull`, property names) that
`guardVerdict` — the closed form of the guards used by the theorems below — is written with.  A flipped operator or a changed literal in Go breaks this theorem. -/
theorem gen_defs_match_model :
    (∀ secs now : Int, notAfter secs now = Gen.notAfter secs now) ∧
    (∀ secs now : Int, secs ≠ 0 → notAfter secs now = Gen.notAfterCmp secs now) ∧
    (∀ now : Int, notAfter 0 now = false) ∧
    (∀ l : Loc, atCapacity l =
        (l, if Gen.atCapacityCmp l.maxFacts l.st.count then .error "capacity" else .ok ())) ∧
    (∀ now : Int, enabled now =
        (getPropStringD Gen.enabledProp now >>= fun e => if Gen.enabledOK e then pure () else LM.fail "disabled")) ∧
    (∀ e : String, Gen.enabledOK e = Gen.enabledValues.contains e) ∧
    (∀ (c : Ctx) (now : Int), checkWrite c now =
        (LM.get >>= fun l => if l.readOnly then LM.fail "readOnly" else
          getPropStringD Gen.checkWriteProp now >>= fun k =>
            if Gen.checkWriteKeyOK c.wk k then pure () else LM.fail "writeDenied")) ∧
    Gen.checkWriteReadOnlyFirst = true ∧ Gen.checkWriteCtxField = "WriteKey" ∧
    (∀ (c : Ctx) (now : Int), checkRead c now =
        (getPropStringD Gen.checkReadProp now >>= fun k =>
          if Gen.checkReadKeyOK c.rk k then pure () else LM.fail "readDenied")) ∧
    Gen.checkReadReadOnlyFirst = false ∧ Gen.checkReadCtxField = "ReadKey" ∧
    (∀ p : String, idProperty p = Gen.idProperty p) ∧
    (∀ id prop : String, genPropId id prop = Gen.genPropId id prop) ∧
    (enabledOK = Gen.enabledOK ∧ keyOK = Gen.checkWriteKeyOK ∧ keyOK = Gen.checkReadKeyOK ∧
      capFull = Gen.atCapacityCmp ∧ propEnabled = Gen.enabledProp ∧ propWriteKey = Gen.checkWriteProp ∧
      propReadKey = Gen.checkReadProp) := by
  refine ⟨fun _ _ => rfl, ?_, ?_, ?_, fun _ => rfl, ?_, fun _ _ => rfl, rfl, rfl, fun _ _ => rfl, rfl, rfl,
    fun _ => rfl, fun _ _ => rfl, rfl, rfl, rfl, rfl, rfl, rfl, rfl⟩
  · intro secs now h
    simp [notAfter, Gen.notAfterCmp, h]
  · intro now; simp [notAfter]
  · intro l
    simp only [atCapacity, bind, LM.bind, LM.get, Gen.atCapacityCmp]
    by_cases h : l.maxFacts ≤ l.st.count <;> simp [h, LM.fail, pure, LM.pure]
  · intro e
    simp only [Gen.enabledOK, Gen.enabledValues, List.contains, List.elem]
    cases (e == "") <;> cases (e == "yes") <;> cases (e == "true") <;> rfl

/-- Every mutating method is guarded by both `Enabled` and `CheckWrite`; every revealing method by both
`Enabled` and `CheckRead` (read off the model's table, which `guards_match_model` ties to the source). -/
theorem every_path_is_guarded :
    (∀ m ∈ mutatingMethods, Guard.enabled ∈ guardsOf m ∧ Guard.checkWrite ∈ guardsOf m) ∧
    (∀ m ∈ revealingMethods, Guard.enabled ∈ guardsOf m ∧ Guard.checkRead ∈ guardsOf m) ∧
    (∀ m ∈ mutatingMethods ++ revealingMethods, m ∈ modelMethods) := by decide

/-- Generic form of a refusal: when some guard of the list refuses, the guarded method returns an error and
the location (facts, storage, everything) is exactly what it was.  `GuardFresh`: the property facts
`!.enabled`, `!.writeKey`, `!.readKey` are not expired at `now` (reading an expired one purges it; that is the
only way a guard changes the state). -/
theorem guard_fail_noop {α} (c : Ctx) (now : Int) (gs : List Guard) (body : LM α) (l : Loc)
    (hf : GuardFresh l.st now) (g : Guard) (hg : g ∈ gs) (e : LErr) (he : guardVerdict c now l g = .error e) :
    runGuard c now g l = (l, .error e) ∧
    ∃ e', (runGuards c now gs >>= fun _ => body) l = (l, .error e') := by
  refine ⟨by rw [runGuard_eq hf c g, he], ?_⟩
  obtain ⟨e', he'⟩ := guardsVerdict_error_of_mem (gs := gs) hg he
  exact ⟨e', by rw [guarded_eq hf c gs body, he']⟩

/-- **Refused writes are no-ops.** On a location that is read-only, or has a `!writeKey` the caller does not
present, or is disabled, every mutating method of the model returns an error and leaves the location — its
facts and its storage included — unchanged. -/
theorem refused_is_noop (l : Loc) (c : Ctx) (now : Int) (hf : GuardFresh l.st now)
    (hr : WriteDenied l c now ∨ Disabled l now) :
    (∀ id f, ∃ e, locAddFact c id f now l = (l, .error e)) ∧
    (∀ id, ∃ e, locRemFact c id now l = (l, .error e)) ∧
    (∀ id r, ∃ e, locAddRule c id r now l = (l, .error e)) ∧
    (∀ id, ∃ e, locRemRule c id now l = (l, .error e)) ∧
    (∀ id b, ∃ e, locEnableRule c id b now l = (l, .error e)) ∧
    (∀ ps, ∃ e, locSetParents c ps now l = (l, .error e)) ∧
    (∃ e, locClear c now l = (l, .error e)) := by
  have key : ∀ m ∈ mutatingMethods, ∃ e, guardsVerdict c now l (guardsOf m) = .error e := by
    intro m hm
    have hg := every_path_is_guarded.1 m hm
    rcases hr with hw | hd
    · obtain ⟨e, he⟩ := verdict_writeDenied hw
      exact guardsVerdict_error_of_mem hg.2 he
    · exact guardsVerdict_error_of_mem hg.1 (verdict_disabled (c := c) hd)
  have run : ∀ {α} (m : String) (body : LM α), m ∈ mutatingMethods →
      ∃ e, (runGuards c now (guardsOf m) >>= fun _ => body) l = (l, .error e) := by
    intro α m body hm
    obtain ⟨e, he⟩ := key m hm
    exact ⟨e, by rw [guarded_eq hf c _ body, he]⟩
  refine ⟨fun id f => ?_, fun id => ?_, fun id r => ?_, fun id => ?_, fun id b => ?_, fun ps => ?_, ?_⟩
  · rw [locAddFact_split]; exact run "AddFact" _ (by decide)
  · rw [locRemFact_split]; exact run "RemFact" _ (by decide)
  · rw [locAddRule_split]; exact run "AddRule" _ (by decide)
  · rw [locRemRule_split]; exact run "RemRule" _ (by decide)
  · rw [locEnableRule_split]; exact run "EnableRule" _ (by decide)
  · rw [locSetParents_split]; exact run "SetParents" _ (by decide)
  · rw [locClear_split]; exact run "Clear" _ (by decide)

/-- The same, spelled out on facts and storage. -/
theorem refused_leaves_facts_and_store (l : Loc) (c : Ctx) (now : Int) (hf : GuardFresh l.st now)
    (hr : WriteDenied l c now ∨ Disabled l now) (id : String) (f : Obj) :
    (∃ e, (locAddFact c id f now l).2 = .error e) ∧
    (locAddFact c id f now l).1.st.facts = l.st.facts ∧ (locAddFact c id f now l).1.st.store = l.st.store ∧
    (∃ e, (locRemFact c id now l).2 = .error e) ∧
    (locRemFact c id now l).1.st.facts = l.st.facts ∧ (locRemFact c id now l).1.st.store = l.st.store := by
  obtain ⟨⟨e1, h1⟩, ⟨e2, h2⟩⟩ := And.intro ((refused_is_noop l c now hf hr).1 id f) ((refused_is_noop l c now hf hr).2.1 id)
  rw [h1, h2]; exact ⟨⟨e1, rfl⟩, rfl, rfl, ⟨e2, rfl⟩, rfl, rfl⟩

/-- **Reads need the read key.** On a location with a `!readKey` the caller does not present, every
revealing method fails and leaves the location unchanged; the error is "readDenied" unless the location is
also disabled (then "disabled", the `Enabled` guard comes first). -/
theorem reads_need_read_key (l : Loc) (c : Ctx) (now : Int) (hf : GuardFresh l.st now)
    (hr : ReadDenied l c now) :
    let e := if Disabled l now then "disabled" else "readDenied"
    (∀ id, locGetFact c id now l = (l, .error e)) ∧
    (∀ p, locSearchFacts c p now l = (l, .error e)) ∧
    (∀ ev, locSearchRules c ev now l = (l, .error e)) ∧
    (∀ id, locGetRule c id now l = (l, .error e)) ∧
    (locGetParents c now l = (l, .error e)) ∧
    (∀ id, locRuleEnabled c id now l = (l, .error e)) ∧
    (locStateSize c now l = (l, .error e)) ∧
    (∀ (sys : Sys) (n : String) (inh : Bool), sys.get? n = some l →
      sysListRules sys c n inh now = (sys.put l, .error e)) := by
  intro e
  have key : guardsVerdict c now l [.enabled, .checkRead] = .error e := by
    by_cases hd : Disabled l now
    · simp only [e, hd, if_true]; exact guardsVerdict_head (verdict_disabled hd)
    · simp only [e, hd, if_false, guardsVerdict, verdict_enabled hd, verdict_readDenied hr]
  have run : ∀ {α} (body : LM α), (runGuards c now [.enabled, .checkRead] >>= fun _ => body) l = (l, .error e) := by
    intro α body; rw [guarded_eq hf c _ body, key]
  refine ⟨fun id => ?_, fun p => ?_, fun ev => ?_, fun id => ?_, ?_, fun id => ?_, ?_, fun sys n inh hn => ?_⟩
  · rw [locGetFact_split]; exact run _
  · rw [locSearchFacts_split]; exact run _
  · rw [locSearchRules_split]; exact run _
  · rw [locGetRule_split]; exact run _
  · rw [locGetParents_split]; exact run _
  · rw [locRuleEnabled_split]; exact run _
  · rw [locStateSize_split]; exact run _
  · have hg : runGuards c now (guardsOf "ListRules") l = (l, .error e) := by
      rw [runGuards_eq hf c]; exact congrArg _ key
    simp only [sysListRules, Sys.at, hn, hg]

/-- **With the right keys the guards are transparent.** On an enabled location, for a caller who presents
the write key and the read key (or none is set; not read-only), the guards of every method let the call
through without changing the location — only the capacity test of `AddFact` / `AddRule` can still refuse —
so every method behaves as its unguarded body, as on an unprotected location. -/
theorem right_key_transparent (l : Loc) (c : Ctx) (now : Int) (hf : GuardFresh l.st now)
    (he : ¬ Disabled l now) (hw : ¬ WriteDenied l c now) (hr : ¬ ReadDenied l c now) :
    (∀ m, runGuards c now (guardsOf m) l = (l, capacityResult l (guardsOf m))) ∧
    (∀ id f, l.st.count < l.maxFacts → locAddFact c id f now l = Body.addFact id f now l) ∧
    (∀ id r, l.st.count < l.maxFacts → locAddRule c id r now l = Body.addRule id r now l) ∧
    (∀ id, locRemFact c id now l = Body.remFact id now l) ∧
    (∀ id, locGetFact c id now l = Body.getFact id now l) ∧
    (∀ id, locRemRule c id now l = Body.remRule id now l) ∧
    (∀ id b, locEnableRule c id b now l = Body.enableRule id b now l) ∧
    (∀ id, locRuleEnabled c id now l = Body.ruleEnabled id now l) ∧
    (∀ id, locGetRule c id now l = Body.getRule id now l) ∧
    (∀ p, locSearchFacts c p now l = Body.searchFacts p now l) ∧
    (∀ ev, locSearchRules c ev now l = Body.searchRules ev now l) ∧
    (locGetParents c now l = Body.getParents now l) ∧
    (∀ ps, locSetParents c ps now l = Body.setParents ps now l) ∧
    (locClear c now l = Body.clear l) ∧
    (locStateSize c now l = Body.stateSize l) := by
  have v : ∀ gs, guardsVerdict c now l gs = capacityResult l gs := guardsVerdict_transparent he hw hr
  have run : ∀ {α} (m : String) (body : LM α), capacityResult l (guardsOf m) = .ok () →
      (runGuards c now (guardsOf m) >>= fun _ => body) l = body l := by
    intro α m body hc; rw [guarded_eq hf c _ body, v, hc]
  have nocap : ∀ m, Guard.atCapacity ∉ guardsOf m → capacityResult l (guardsOf m) = .ok () := by
    intro m hm; simp [capacityResult, hm]
  have cap : ∀ m, l.st.count < l.maxFacts → capacityResult l (guardsOf m) = .ok () := by
    intro m hm; simp [capacityResult, Nat.not_le.2 hm]
  refine ⟨fun m => by rw [runGuards_eq hf c, v], fun id f h => ?_, fun id r h => ?_, fun id => ?_, fun id => ?_,
    fun id => ?_, fun id b => ?_, fun id => ?_, fun id => ?_, fun p => ?_, fun ev => ?_, ?_, fun ps => ?_, ?_, ?_⟩
  · rw [locAddFact_split]; exact run "AddFact" _ (cap _ h)
  · rw [locAddRule_split]; exact run "AddRule" _ (cap _ h)
  · rw [locRemFact_split]; exact run "RemFact" _ (nocap _ (by decide))
  · rw [locGetFact_split]; exact run "GetFact" _ (nocap _ (by decide))
  · rw [locRemRule_split]; exact run "RemRule" _ (nocap _ (by decide))
  · rw [locEnableRule_split]; exact run "EnableRule" _ (nocap _ (by decide))
  · rw [locRuleEnabled_split]; exact run "RuleEnabled" _ (nocap _ (by decide))
  · rw [locGetRule_split]; exact run "GetRule" _ (nocap _ (by decide))
  · rw [locSearchFacts_split]; exact run "searchFacts" _ (nocap _ (by decide))
  · rw [locSearchRules_split]; exact run "searchRules" _ (nocap _ (by decide))
  · rw [locGetParents_split]; exact run "GetParents" _ (nocap _ (by decide))
  · rw [locSetParents_split]; exact run "SetParents" _ (nocap _ (by decide))
  · rw [locClear_split]; exact run "Clear" _ (nocap _ (by decide))
  · rw [locStateSize_split]; exact run "StateSize" _ (nocap _ (by decide))

/-! ## the hypotheses are satisfiable: a location protected by a write key -/

/-- a linear-state location holding the property fact `!.writeKey = "s3cret"` and one ordinary fact -/
def c19Example : Loc :=
  { name := "home",
    st := { kind := .linear,
            facts := [("!.writeKey", [("id", .str ""), ("!writeKey", .str "s3cret"), ("deleteWith", .arr [.str ""])]),
                      ("f1", [("likes", .str "tacos")])],
            store := [("!.writeKey", .obj [("id", .str ""), ("!writeKey", .str "s3cret"), ("deleteWith", .arr [.str ""])]),
                      ("f1", .obj [("likes", .str "tacos")])] } }

example : GuardFresh c19Example.st 100 := guardFresh_of_b (by decide)
example : propStr c19Example.st "writeKey" 100 = "s3cret" := by decide
/-- no key and a wrong key are refused, the right key is not; the location is enabled and has no read key -/
example : WriteDenied c19Example {} 100 ∧ WriteDenied c19Example { wk := "guess" } 100 ∧
    ¬ WriteDenied c19Example { wk := "s3cret" } 100 ∧ ¬ Disabled c19Example 100 ∧
    ¬ ReadDenied c19Example {} 100 := by decide
/-- the refusal, computed: the caller without the key gets "writeDenied" and the same location back -/
example : (locRemFact {} "f1" 100 c19Example).2 = .error "writeDenied" ∧
    (locRemFact {} "f1" 100 c19Example).1.st.facts = c19Example.st.facts := by
  obtain ⟨e, he⟩ := (refused_is_noop c19Example {} 100 (guardFresh_of_b (by decide)) (Or.inl (by decide))).2.1 "f1"
  have hv : guardsVerdict {} 100 c19Example (guardsOf "RemFact") = .error "writeDenied" := by decide
  rw [locRemFact_split, guarded_eq (guardFresh_of_b (by decide)), hv]
  exact ⟨rfl, rfl⟩
/-- with the key the write goes through (`Clear` empties the location); reads need no key here -/
example : (locClear { wk := "s3cret" } 100 c19Example).2 = .ok () ∧
    (locClear { wk := "s3cret" } 100 c19Example).1.st.facts = [] ∧
    (locGetFact {} "f1" 100 c19Example).2 = .ok [("likes", .str "tacos")] := by
  have t := right_key_transparent c19Example { wk := "s3cret" } 100 (guardFresh_of_b (by decide))
    (by decide) (by decide) (by decide)
  rw [t.2.2.2.2.2.2.2.2.2.2.2.2.2.1]
  refine ⟨rfl, rfl, ?_⟩
  have hv : guardsVerdict {} 100 c19Example (guardsOf "GetFact") = .ok () := by decide
  rw [locGetFact_split, guarded_eq (guardFresh_of_b (by decide)), hv]
  rfl

/-! ## The request's context is pointed at the addressed location

Hooks (cron), rule actions (`Env.AddFact` …) and the JavaScript timeout read "the current location" from the caller's
`Context`; callers reuse contexts across locations.  The models address every operation to an explicit location, which
is sound exactly when every entry point of the Location API points the context at its own location before it touches
the state.  `Gen.locationPointsCtx` is regenerated from `core/location.go` on every run. -/

/-- the entry points of the Location API through which requests (and rule actions) reach the state -/
def ctxEntryPoints : List String :=
  ["RuleEnabled", "EnableRule", "AddRule", "RemRule", "GetRule", "AddFact", "addFact", "RemFact", "GetFact", "searchFacts",
   "searchRules", "SearchRules", "ListRules", "GetParents", "SetParents", "Clear", "RunJavascript", "Query", "Delete"]

/-- **Every entry point points the context at its own location before touching the state** (regenerated table). -/
theorem entry_points_point_ctx : ∀ m ∈ ctxEntryPoints, (m, true) ∈ Gen.locationPointsCtx := by decide

/-- the remaining state-touching methods that take a context are helpers reached only through an entry point (guards,
property access, the ancestor walk) or pure delegations: nothing new takes a context and skips `SetLoc` unnoticed -/
theorem ctx_helpers_are_known :
    (Gen.locationPointsCtx.filter (fun r => !r.2)).map (·.1) =
      ["CheckWrite", "CheckRead", "StateSize", "AtCapacity", "Enabled", "Have", "SetProp", "RemProp", "DoAncestors", "SearchFacts",
       "GetPropString", "GetProp"] := by decide

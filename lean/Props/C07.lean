import RulioModel.Spec

/-! # C07 — expiry (placeholder obligations until the Loc proofs land) -/

/-- an item is unobservable from its expiry instant on: `notAfter` is `≤` -/
theorem notAfter_iff (e t : Int) (h : e ≠ 0) : notAfter e t = decide (e ≤ t) := by
  unfold notAfter; simp [h]

theorem no_expiry_never (t : Int) : notAfter 0 t = false := by simp [notAfter]

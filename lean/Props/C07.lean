import RulioModel.LocInv
import RulioProofs.LocState
import RulioProofs.LocExpiry
import Props.C19
import Props.C08
import RulioModel.CloseFrag
import RulioProofs.CloseExpiry

open LocP

/-! # C07 — expiry is absolute and expired items are never observable (property theorems only)

Time is the explicit parameter `now` / `t` (UNIX seconds).  `prepareFact` is `PrepareFact` (what both State
implementations run on every write, and what is stored), `checkExpiration` is what `Get` / `Search` /
`FindRules` consult.  The comparison used is the one regenerated from `notAfter` in `core/state.go`
(`Gen.notAfterCmp`, tied to the model by `gen_defs_match_model`). -/

/-- The expiry instant per encoding: `ttl` number → `now + n`; `ttl` duration string → `now + d`;
numeric `expires` → that number; RFC3339 `expires` → its UNIX time (a `ttl` wins over an `expires`). -/
theorem expiry_encodings (x : Obj) (now : Int) :
    (∀ n, x.get? "ttl" = some (.num n) → expiryOf x now = some (now + n)) ∧
    (∀ s d, x.get? "ttl" = some (.str s) → parseDurationSecs s = some d → expiryOf x now = some (now + d)) ∧
    (∀ n, x.get? "ttl" = none → x.get? "expires" = some (.num n) → expiryOf x now = some n) ∧
    (∀ s t, x.get? "ttl" = none → x.get? "expires" = some (.str s) → parseRFC3339 s = some t →
      expiryOf x now = some t) := by
  refine ⟨fun n h => ?_, fun s d h hp => ?_, fun n h1 h2 => ?_, fun s t h1 h2 hp => ?_⟩ <;>
    simp [expiryOf, *]

/-- **The expiry instant is fixed when the item is written.**  A successful `prepareFact` at `now` yields the
stored fact `m`: without `ttl`; if `x` carried an expiry, `m.expires` is the number `expiryOf x now` (now + ttl,
or the given instant); every later expiry test reads just that stored number (so no read can move it); and
preparing the *stored* fact again at any other time `now'` — what a reload does — finds the same instant.
A fact without expiry is stored as it is and stays without. -/
theorem expiry_fixed_at_write {given fresh id : String} {x m x' : Obj} {now : Int}
    (h : prepareFact given fresh x now = .ok (id, m, x')) :
    m.get? "ttl" = none ∧
    (Expiring x → ∃ e, expiryOf x now = some e ∧ m.get? "expires" = some (.num e) ∧
        (∀ t, checkExpiration m t = .ok (notAfter e t)) ∧
        (∀ now', ∃ m', setExpires m now' = .ok (m', true, e) ∧ m'.get? "expires" = some (.num e) ∧
          m'.get? "ttl" = none)) ∧
    (¬ Expiring x → m = x ∧ ∀ now', setExpires m now' = .ok (m, false, 0)) := by
  obtain ⟨_, b, e, hs, _⟩ := prepareFact_ok h
  obtain ⟨h1, h2, h3⟩ := setExpires_ok hs
  refine ⟨h1, fun hE => ?_, fun hN => ?_⟩
  · obtain ⟨_, he, hm, hr⟩ := h3 hE
    exact ⟨e, he, hm, fun t => by simp [checkExpiration, hm], fun now' => setExpires_again h1 hm hr now'⟩
  · obtain ⟨_, _, hmx⟩ := h2 hN
    subst hmx
    have hx : m.get? "expires" = none := by
      cases hv : m.get? "expires" with
      | none => rfl
      | some v => exact absurd (Or.inr (by rw [hv]; simp)) hN
    exact ⟨rfl, fun now' => setExpires_again_none h1 hx now'⟩

/-- Reads never move or rewrite a stored item: after `Get`, `Search`, `FindRules` (or `Rem`) at any time, a
fact that is still stored is the identical fact — with the identical `expires`. -/
theorem reads_never_move_expiry (s : St) (op : SOp) (t : Int) (hop : ∀ g x, op ≠ .add g x)
    (id : String) (f : Obj) (h : amGet (op.step s t).facts id = some f) : amGet s.facts id = some f := by
  cases op with
  | get i => exact (St.get_keeps s i t).facts_sub h
  | search p => exact (St.search_keeps s p t).facts_sub h
  | rem i => exact (St.rem_keeps s i t).facts_sub h
  | findRules ev => exact (St.findRules_keeps s ev t).facts_sub h
  | add g x => exact absurd rfl (hop g x)

/-- **Visible strictly before the expiry instant.**  For a stored fact with `expires = e ≠ 0` the expiry test
at `t` is the regenerated comparison `e <= t`: the item is unexpired iff `t < e`.  Accordingly `Get` (both
implementations) returns the fact, and leaves the state alone, at every `t < e`, and refuses from `t = e` on. -/
theorem visible_iff_before {m : Obj} {e : Int} (hm : m.get? "expires" = some (.num e)) (he : e ≠ 0) (t : Int) :
    checkExpiration m t = .ok (Gen.notAfterCmp e t) ∧
    (checkExpiration m t = .ok false ↔ t < e) ∧
    (∀ (s : St) (id : String), amGet s.facts id = some m →
      (t < e → s.get id t = (s, .ok m)) ∧ (e ≤ t → ∃ err, (s.get id t).2 = .error err)) := by
  have hc : checkExpiration m t = .ok (Gen.notAfterCmp e t) := by
    simp only [checkExpiration, hm]; rw [gen_defs_match_model.2.1 e t he]
  have hiff : checkExpiration m t = .ok false ↔ t < e := by
    rw [hc]; simp [Gen.notAfterCmp, Int.not_le]
  refine ⟨hc, hiff, fun s id hg => ⟨fun hlt => ?_, fun hle => ?_⟩⟩
  · have hfalse := hiff.2 hlt
    have hfresh : FreshAt s id t := by
      intro f hf; rw [hg] at hf; cases hf; rw [hfalse]; simp
    rw [St.get_eq_of_fresh hfresh]
    simp [getPure, hg, hfalse]
  · have htrue : checkExpiration m t = .ok true := by
      rw [hc]; simp [Gen.notAfterCmp, hle]
    exact (St.get_expired hg htrue).1

/-- Items without an expiry never expire: no `expires` key, or `expires = 0` ("no expiration"). -/
theorem no_expiry_never_expires (m : Obj) :
    (m.get? "expires" = none → ∀ t, checkExpiration m t = .ok false) ∧
    (m.get? "expires" = some (.num 0) → ∀ t, checkExpiration m t = .ok false) ∧
    (∀ (given fresh id : String) (x x' : Obj) (now : Int), prepareFact given fresh x now = .ok (id, m, x') →
      ¬ Expiring x → ∀ t, checkExpiration m t = .ok false) := by
  refine ⟨fun h t => by simp [checkExpiration, h], fun h t => by simp [checkExpiration, h, notAfter], ?_⟩
  intro given fresh id x x' now hp hN t
  obtain ⟨hm, _⟩ := (expiry_fixed_at_write hp).2.2 hN
  subst hm
  have hx : m.get? "expires" = none := by
    cases hv : m.get? "expires" with
    | none => rfl
    | some v => exact absurd (Or.inr (by rw [hv]; simp)) hN
  simp [checkExpiration, hx]

/-- **Writing an already expired item is rejected.**  `prepareFact` answers "expired" exactly when the item
carries an expiry `e` (`≠ 0`) with `e ≤ now` (the regenerated comparison); both State implementations then
refuse the `Add` and keep memory and storage as they were. -/
theorem already_expired_rejected (given fresh : String) (x : Obj) (now : Int) :
    (prepareFact given fresh x now = .error "expired" ↔
      (∃ id, genId x given fresh = .ok id) ∧
        ∃ m e, setExpires x now = .ok (m, true, e) ∧ e ≠ 0 ∧ Gen.notAfterCmp e now = true) ∧
    (∀ s : St, prepareFact given s.freshId x now = .error "expired" →
      s.add given x now = (s, .error "expired")) := by
  constructor
  · rw [prepareFact_expired_iff]
    constructor
    · rintro ⟨hid, m, e, hs, hn⟩
      have he : e ≠ 0 := by intro h0; subst h0; simp [notAfter] at hn
      exact ⟨hid, m, e, hs, he, by rw [← gen_defs_match_model.2.1 e now he]; exact hn⟩
    · rintro ⟨hid, m, e, hs, he, hn⟩
      exact ⟨hid, m, e, hs, by rw [gen_defs_match_model.2.1 e now he]; exact hn⟩
  · intro s hp
    unfold St.add
    cases s.kind
    · simp [St.iAdd, St.iadd, hp]
    · simp [St.lAdd, hp]

/-- **From the expiry instant on the item is never returned again, and it is purged once observed.**
For a stored fact `f` expired at `t` (`t ≥ e`), in either State implementation:
* `Get` answers an error, never the fact; afterwards the fact is gone from memory *and* storage — always in
  the linear state, and in the indexed state whenever the removal itself (un-indexing a rule body, the
  deleteWith cascade) does not fail;
* `Search` never returns a fact that is expired at `t` (whatever the pattern), and every returned fact is
  the stored one; a completed linear `Search` has purged every expired fact from memory and storage;
* once absent from memory and storage, the id stays absent at every later time, through any history of
  `Get` / `Search` / `FindRules` / `Rem` / `Add`s of other ids, until an `Add` returns this id again. -/
theorem never_again :
    (∀ (s : St) (id : String) (f : Obj) (t : Int), amGet s.facts id = some f → checkExpiration f t = .ok true →
      (∃ err, (s.get id t).2 = .error err) ∧
      (s.kind = .linear → amGet (s.get id t).1.facts id = none ∧ amGet (s.get id t).1.store id = none) ∧
      ((∀ err, (St.irem s.fuel s id t).2 ≠ .error err) →
        amGet (s.get id t).1.facts id = none ∧ amGet (s.get id t).1.store id = none)) ∧
    (∀ (s s' : St) (p : Obj) (t : Int) (out : List (String × Obj × List Bs)), s.search p t = (s', .ok out) →
      (∀ r ∈ out, amGet s.facts r.1 = some r.2.1 ∧ checkExpiration r.2.1 t ≠ .ok true) ∧
      (s.kind = .linear → ∀ id f, amGet s.facts id = some f → checkExpiration f t = .ok true →
        amGet s'.facts id = none ∧ amGet s'.store id = none)) ∧
    (∀ (s : St) (id : String) (ops : List (SOp × Int)),
      amGet s.facts id = none ∧ amGet s.store id = none → NeverAdds id s ops →
      amGet (runSOps s ops).facts id = none ∧ amGet (runSOps s ops).store id = none) := by
  refine ⟨fun s id f t hg hx => ?_, fun s s' p t out h => ?_, fun s id ops habs hna => runSOps_absent ops s habs hna⟩
  · obtain ⟨h1, h2, h3⟩ := St.get_expired hg hx
    exact ⟨h1, h3, h2⟩
  · exact ⟨St.search_results h, fun hk id f hg hx => St.search_purges_linear hk h hg hx⟩

/-- The parsers on concrete inputs: RFC3339 (the epoch; today 05:00 UTC; malformed inputs rejected), durations,
and the day count across month / year / leap-day boundaries. -/
theorem parsers_sane :
    parseRFC3339 "1970-01-01T00:00:00Z" = some 0 ∧
    parseRFC3339 "2026-09-29T05:00:00Z" = some 1790658000 ∧
    parseRFC3339 "2026-09-29 05:00:00Z" = none ∧ parseRFC3339 "2026-13-01T00:00:00Z" = none ∧
    parseDurationSecs "90m" = some 5400 ∧ parseDurationSecs "2s" = some 2 ∧ parseDurationSecs "1h" = some 3600 ∧
    parseDurationSecs "-5s" = some (-5) ∧ parseDurationSecs "5ms" = none ∧ parseDurationSecs "soon" = none ∧
    daysFromCivil 1970 1 1 = 0 ∧
    daysFromCivil 2026 10 1 = daysFromCivil 2026 9 30 + 1 ∧
    daysFromCivil 2027 1 1 = daysFromCivil 2026 12 31 + 1 ∧
    daysFromCivil 2024 3 1 = daysFromCivil 2024 2 28 + 2 ∧
    daysFromCivil 2026 3 1 = daysFromCivil 2026 2 28 + 1 :=
  ⟨parseRFC3339_epoch, parseRFC3339_today, parseRFC3339_rejects.1, parseRFC3339_rejects.2,
   parseDurationSecs_examples.1, parseDurationSecs_examples.2.1, parseDurationSecs_examples.2.2.1,
   parseDurationSecs_examples.2.2.2.1, parseDurationSecs_examples.2.2.2.2.1, parseDurationSecs_examples.2.2.2.2.2,
   by decide, by decide, by decide, by decide, by decide⟩

/-! ## the hypotheses are satisfiable -/

/-- a fact written with `ttl: 60` at time 1000 is stored with `expires: 1060` and without `ttl` -/
example : setExpires [("likes", .str "tacos"), ("ttl", .num 60)] 1000 =
    .ok ([("likes", .str "tacos"), ("expires", .num 1060)], true, 1060) := by rfl
/-- … an RFC3339 `expires` becomes its UNIX time, also inside a rule body -/
example : ∃ m, setExpires [("rule", .obj [("when", .obj [])]), ("expires", .str "2026-09-29T05:00:00Z")] 5 =
    .ok (m, true, 1790658000) ∧ m.get? "expires" = some (.num 1790658000) := by
  rw [setExpires_eq]
  simp only [Obj.get?, lookupKey]
  simp [expiresPart_eq, Obj.get?, lookupKey, parseRFC3339_today, mirrorRule, Obj.set]
  exact ⟨_, rfl, rfl⟩
/-- `Expiring` and the boundary: expired at 1060 and later, not at 1059 -/
example : Expiring [("likes", .str "tacos"), ("ttl", .num 60)] ∧
    checkExpiration [("likes", .str "tacos"), ("expires", .num 1060)] 1059 = .ok false ∧
    checkExpiration [("likes", .str "tacos"), ("expires", .num 1060)] 1060 = .ok true := by
  refine ⟨Or.inl (by decide), by decide, by decide⟩
/-- a linear state holding that fact: `Get` at 1059 returns it, at 1060 it is refused and purged -/
example :
    let s : St := { kind := .linear, facts := [("f1", [("likes", .str "tacos"), ("expires", .num 1060)])],
                    store := [("f1", .obj [("likes", .str "tacos"), ("expires", .num 1060)])] }
    (s.get "f1" 1059).2 = .ok [("likes", .str "tacos"), ("expires", .num 1060)] ∧
    (∃ err, (s.get "f1" 1060).2 = .error err) ∧
    amGet (s.get "f1" 1060).1.facts "f1" = none ∧ amGet (s.get "f1" 1060).1.store "f1" = none := by
  intro s
  have hg : amGet s.facts "f1" = some [("likes", .str "tacos"), ("expires", .num 1060)] := rfl
  have v := (visible_iff_before (m := [("likes", .str "tacos"), ("expires", .num 1060)]) (e := 1060)
    rfl (by decide) 1059).2.2 s "f1" hg
  have n := never_again.1 s "f1" _ 1060 hg (by decide)
  exact ⟨by rw [v.1 (by decide)], n.1, n.2.1 rfl⟩


/-! ## the indexed state: closing the `never_again` gaps (composition with C08's vocabulary)

`IndexedState.rem` can fail *before* it touches memory in exactly one way: the stored rule's `when` pattern cannot be
removed from the pattern index (`unindexErr id fact`, decidable on the fact alone; `UnindexOK s` says no stored fact
is like that; see C08 `cascade_aborts_on_unindex_error` for a reachable state that is). Every other failure
(deleteWith cascade, recursion budget) happens after the fact has been erased from memory and storage. The indexed
`Search` / `FindRules` ignore the result of that removal and only visit *candidates* (term index resp. pattern index). -/

/-- **never_again_indexed_get** — the indexed `Get` clause of `never_again` without its hypothesis "when `irem` does not
fail". For a stored fact `f` expired at `t` in an indexed state (any state, reachable or not):
* if the fact's rule can leave the pattern index (`unindexErr id f = false`; in particular every fact that is not a
  rule), then after `Get` the fact is gone from memory *and* storage — even if the deleteWith cascade behind it fails;
* otherwise `Get` answers an error and the state is *unchanged* (the expired fact stays stored, but is still never
  returned: `never_again`, first clause);
* (C08 `cascade_ok` / `cascade_terminates`) in a well-formed state — every reachable one, `reachable_wf` — where no
  *other* stored fact is expired and `UnindexOK` holds, `Get` answers exactly `notFound`, never the budget error,
  and what is left is `specRem s.facts id`: the fact and its `deleteWith` closure are gone, nothing else. -/
theorem never_again_indexed_get (s : St) (hk : s.kind = .indexed) (id : String) (f : Obj) (t : Int)
    (hg : amGet s.facts id = some f) (hx : checkExpiration f t = .ok true) :
    (unindexErr id f = false →
      amGet (s.get id t).1.facts id = none ∧ amGet (s.get id t).1.store id = none) ∧
    (unindexErr id f = true → ∃ e, s.get id t = (s, .error e)) ∧
    (WF s → NoneExpiredBut s id t → UnindexOK s →
      ∃ s', s.get id t = (s', .error "notFound") ∧ s'.facts = specRem s.facts id ∧
        amGet s'.facts id = none ∧ amGet s'.store id = none) := by
  obtain ⟨h1, h2⟩ := St.get_expired_indexed hk hg hx
  refine ⟨h1, h2, fun hwf hne hun => ?_⟩
  obtain ⟨s', hget, hfacts, _, _, _⟩ := cascade_by_expiry s t id f hwf hg hx hne (fun _ => hun)
  rw [← St.get_eq_getOK] at hget
  have hgone := h1 (hun (id, f) (amGet_some_mem hg))
  rw [hget] at hgone
  exact ⟨s', hget, hfacts, hgone⟩

/-- **never_again_indexed_search** — `Search` and `FindRules` of the indexed state at time `t`:
1. `FindRules` (both implementations) returns only rule bodies of stored facts that are not expired at `t` (for `Search`
   this is `never_again`, second clause): an item with `0 ≠ expires ≤ t` is never dispatched;
2. a completed indexed `Search` has purged from memory and storage every expired *candidate* whose rule can leave the
   pattern index — the candidates `St.cands s p` being all stored ids when the pattern has no terms, and otherwise
   the ids listed in the term index under *every* term of the pattern (`TI.mem_search`);
3. in a well-formed state (every reachable one) the candidates include every stored fact that carries all the terms of
   the pattern — so each such expired fact is purged; a fact lacking one of the pattern's terms is not a candidate of this search and,
   if expired, may stay stored until a `Get`/`Search`/`FindRules` reaches it (it is still never returned);
4. a completed indexed `FindRules` has purged every expired candidate of the pattern index (`piSearch s.ri ev`) whose
   rule can leave the pattern index. -/
theorem never_again_indexed_search :
    (∀ (s s' : St) (ev : Obj) (t : Int) (out : List (String × Obj)), s.findRules ev t = (s', .ok out) →
      ∀ r ∈ out, ∃ f, amGet s.facts r.1 = some f ∧ checkExpiration f t ≠ .ok true ∧
        ((∃ f', extractRule f true = .ok (some r.2, f')) ∨ f.get? "rule" = some (.obj r.2))) ∧
    (∀ (s s' : St) (p : Obj) (t : Int) (out : List (String × Obj × List Bs)), s.kind = .indexed →
      s.search p t = (s', .ok out) → ∀ ids, s.cands p = .ok ids → ∀ id ∈ ids, ∀ f, amGet s.facts id = some f →
        checkExpiration f t = .ok true → unindexErr id f = false →
        amGet s'.facts id = none ∧ amGet s'.store id = none) ∧
    (∀ (s : St) (p : Obj), s.kind = .indexed → WF s → ∀ id f, amGet s.facts id = some f →
      (∀ term, term ∈ extractTerms p → term ∈ extractTerms f) → ∃ ids, s.cands p = .ok ids ∧ id ∈ ids) ∧
    (∀ (s s' : St) (ev : Obj) (t : Int) (out : List (String × Obj)), s.kind = .indexed →
      s.findRules ev t = (s', .ok out) → ∀ ids, piSearch s.ri ev = .ok ids → ∀ id ∈ ids, ∀ f,
        amGet s.facts id = some f → checkExpiration f t = .ok true → unindexErr id f = false →
        amGet s'.facts id = none ∧ amGet s'.store id = none) :=
  ⟨fun _ _ _ _ _ h => St.findRules_results h,
   fun _ _ _ _ _ hk h _ hc _ hid _ hg hx hu => St.search_purges_indexed hk h hc hid hg hx hu,
   fun _ _ hk hwf _ _ hg hsub => cands_of_terms (hwf.tiok hk) (amGet_some_mem hg) hsub,
   fun _ _ _ _ _ hk h _ hc _ hid _ hg hx hu => St.findRules_purges_indexed hk h hc hid hg hx hu⟩

/-- **never_again_indexed_reachable** — the three clauses combined for every reachable indexed state (any history of
`Add`/`Rem` from the empty state): a completed `Search p` at time `t` returns no expired fact, and every stored fact
that is expired at `t`, carries all the terms of `p` (every stored fact, if `p` has none), and can leave the pattern
index, is gone from memory and storage afterwards. -/
theorem never_again_indexed_reachable (ops : List StOp) (p : Obj) (t : Int) (s' : St)
    (out : List (String × Obj × List Bs)) (h : (St.run { kind := .indexed } ops).search p t = (s', .ok out)) :
    (∀ r ∈ out, amGet (St.run { kind := .indexed } ops).facts r.1 = some r.2.1 ∧
      checkExpiration r.2.1 t ≠ .ok true) ∧
    (∀ id f, amGet (St.run { kind := .indexed } ops).facts id = some f → checkExpiration f t = .ok true →
      unindexErr id f = false → (∀ term, term ∈ extractTerms p → term ∈ extractTerms f) →
      amGet s'.facts id = none ∧ amGet s'.store id = none) := by
  have hk : (St.run { kind := .indexed } ops).kind = .indexed := run_kind _ ops
  refine ⟨(never_again.2.1 _ s' p t out h).1, fun id f hg hx hu hsub => ?_⟩
  obtain ⟨ids, hc, hid⟩ := never_again_indexed_search.2.2.1 _ p hk (reachable_wf .indexed ops) id f hg hsub
  exact never_again_indexed_search.2.1 _ s' p t out hk h ids hc id hid f hg hx hu

/-- non-vacuity: in the reachable state `expirySearchOps` (`t` expires at 5 and carries the term `k`; `v` lives; `w`
expires at 6 but has no term `k`) the search for `{"k":1}` at time 10 completes (with no result); `t` is a candidate
that can leave the pattern index, so it is purged; `w` is not a candidate of this search and stays stored -/
example :
    okIds ((St.run { kind := .indexed } expirySearchOps).search [("k", .num 1)] 10).2 = some [] ∧
    ((St.run { kind := .indexed } expirySearchOps).search [("k", .num 1)] 10).1.facts.map (·.1) = ["v", "w"] ∧
    (∀ s' out, (St.run { kind := .indexed } expirySearchOps).search [("k", .num 1)] 10 = (s', .ok out) →
      amGet s'.facts "t" = none ∧ amGet s'.store "t" = none) := by
  refine ⟨by decide +kernel, by decide +kernel, fun s' out h => ?_⟩
  obtain ⟨f, hg, hx, hu, hsub⟩ := purgeCand_of_check
    (s := St.run { kind := .indexed } expirySearchOps) (p := [("k", .num 1)]) (id := "t") (now := 10) (by decide +kernel)
  exact (never_again_indexed_reachable expirySearchOps _ 10 s' out h).2 "t" f hg hx hu hsub

/-- … and `Get "t"` at 10 in the same state: purged (the third clause of `never_again_indexed_get` needs "no other fact
expired", which fails here because of `w`; the first clause does not) -/
example : amGet ((St.run { kind := .indexed } expirySearchOps).get "t" 10).1.facts "t" = none ∧
    amGet ((St.run { kind := .indexed } expirySearchOps).get "t" 10).1.store "t" = none := by
  obtain ⟨f, hg, hx, hu, _⟩ := purgeCand_of_check
    (s := St.run { kind := .indexed } expirySearchOps) (p := []) (id := "t") (now := 10) (by decide +kernel)
  exact (never_again_indexed_get _ (run_kind _ _) "t" f 10 hg hx).1 hu

/-- with C08's `expiryOps` (only `t` is expired at 10) all hypotheses of the third clause hold: `notFound`, `t` and its
dependent `u` are gone, `v` is left -/
example : ∃ s', (St.run { kind := .indexed } expiryOps).get "t" 10 = (s', .error "notFound") ∧
    s'.facts.map (·.1) = ["v"] := by
  obtain ⟨fact, hg, hx⟩ := expired_of_check (s := St.run { kind := .indexed } expiryOps) (id := "t") (now := 10)
    (by decide +kernel)
  obtain ⟨s', h1, h2, _⟩ := (never_again_indexed_get _ (run_kind _ _) "t" fact 10 hg hx).2.2
    (reachable_wf .indexed expiryOps) (noneExpiredBut_of_check (by decide +kernel)) (unindexOK_of_check (by decide +kernel))
  exact ⟨s', h1, by rw [h2]; decide +kernel⟩

/-- an expired rule (`expiryRuleOps`: `r` expires at 5, `q` does not) is not dispatched at 10 and is purged -/
example :
    okIds ((St.run { kind := .indexed } expiryRuleOps).findRules [("a", .num 1)] 10).2 = some ["q"] ∧
    ((St.run { kind := .indexed } expiryRuleOps).findRules [("a", .num 1)] 10).1.facts.map (·.1) = ["q"] := by
  constructor <;> decide +kernel

/-! ## The clock reading and the state lock

The model gives every operation one time `t`.  A real read has two instants: the moment `tg` at which it is granted
the state lock (its linearisation point: what it sees is the state at `tg`) and the moment `tc` at which it read the
clock it compares `expires` with.  The model's single `t` is sound for the real read exactly when `tg ≤ tc`: the clock
is read after the lock was granted.  `Gen.clockReads` is regenerated from `core/state_indexed.go` and
`core/state_linear.go` on every run and records, for every method that reads the clock into `now`, where that reading
sits relative to the method's own `slock`. -/

/-- **No state method reads the expiry clock before it takes the lock** (regenerated table; a method without a lock
call of its own is a callee of locked sections). -/
theorem clock_read_under_lock : ∀ r ∈ Gen.clockReads, r.2.2 ≠ "beforeLock" := by decide

/-- the table covers both lookups of both implementations -/
theorem clock_read_table_covers :
    (Gen.clockReads.map (fun r => (r.1, r.2.1))) = [("indexed", "doFindRules"), ("indexed", "search"), ("linear", "doFindRules"), ("linear", "search")] := by
  decide

/-- **A read granted the lock at or after the expiry instant does not serve the item**, whenever its clock reading
is not older than the grant: for `expires = e ≠ 0`, `e ≤ tg ≤ tc` makes the expiry test at `tc` say "expired". -/
theorem read_after_grant_excludes_expired {m : Obj} {e : Int} (hm : m.get? "expires" = some (.num e)) (he : e ≠ 0)
    (tg tc : Int) (hgrant : e ≤ tg) (hclock : tg ≤ tc) : checkExpiration m tc = .ok true := by
  have h := (visible_iff_before hm he tc).1
  rw [h]; simp [Gen.notAfterCmp]; omega

/-- … and the hypothesis `tg ≤ tc` is needed: with a clock reading older than the grant (`tc < e ≤ tg`, the shape of a
reading taken before waiting for the lock) the test says "not expired" and the item is served after its instant. -/
theorem stale_clock_serves_expired :
    ∃ (m : Obj) (e tc tg : Int), m.get? "expires" = some (.num e) ∧ e ≠ 0 ∧ tc < e ∧ e ≤ tg ∧ checkExpiration m tc = .ok false :=
  ⟨[("k", .num 1), ("expires", .num 10)], 10, 9, 11, rfl, by decide, by decide, by decide, by decide⟩


/-! ## Go types of `ttl` and `expires`

`setExpires` of the model sees JSON numbers and strings. The real one switches on the Go type: `float64` (decoded JSON),
`int64` (what the Javascript runtime exports for an integer, and Go callers), `string`. The table is regenerated from
`core/state.go` on every run; that both numeric cases of the `ttl` switch are *relative* is what the differential runs
with documents written by rule actions check (an `int64` ttl used to be taken as an absolute time: fix 8101dca). -/

/-- both switches of `setExpires` (first `ttl`, then `expires`) know float64, int64 and string -/
theorem expiry_types :
    Gen.expiryTypes = [["float64", "int64", "string", "default"], ["float64", "int64", "string", "default"]] := by decide

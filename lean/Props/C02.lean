import RulioModel.Spec

/-! # C02 — fact search exactness (placeholder obligations until the State proofs land) -/

/-- the term index refuses an empty term list; `SearchForIDs` therefore scans every fact in that case -/
theorem ti_search_no_terms (ti : TI) : TI.search ti [] = .error "noTerms" := rfl

/-- a single term: the candidates are exactly the ids listed under it -/
theorem ti_search_single (ti : TI) (t : String) : TI.search ti [t] = .ok ((amGet ti t).getD []) := rfl

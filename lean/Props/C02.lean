import RulioModel.Gen.Loc
import RulioProofs.StateC02
import RulioProofs.ComposeState

/-! # C02 — fact search returns exactly the stored facts that match; get; ids (property theorems only)

Model: `RulioModel/State.lean` (`ExtractTerms`, `TermIndex`, `IndexedState.search`, `LinearState.search`, `Get`,
`Add`), `RulioModel/Fact.lean` (`PrepareFact`, `GenId`); specification `specSearch` in `RulioModel/Spec.lean`;
invariants, fragments and the budget `St.fuelOK` in `RulioModel/StateInv.lean`.

Hypotheses used below:
* `WF s` — holds for every reachable state (`reachable_wf` in `Props/C08.lean`): unique ids, term-index completeness;
* `NoneExpired s now` — no stored fact is expired at `now` (an expired candidate is purged by a cascade first);
* `TermOK p` — the pattern has no optional variables and no variable keys (known findings outside);
* `MatcherSoundOn s.facts p` — **explicit hypothesis, provided by C05** (`match_sound`): whenever the matcher
  returns a binding for `p` on a stored fact, some binding lays `p` over that fact (`pmv`). -/

/-! ## the term index is a complete candidate filter -/

/-- **pmv_terms_subset.** If the pattern (without variable keys) lies over the fact, every term extracted from the
pattern is a term of the fact: keys are present, constants equal, array elements are matched injectively; values
under `rule` and under keys ending in `!` are skipped on both sides; variables contribute no term. -/
theorem pmv_terms_subset (σ : Bs) (p f : Obj) (hp : pmv σ (.obj p) (.obj f) = true) (hok : TermOK p = true) :
    ∀ t, t ∈ extractTerms p → t ∈ extractTerms f := by
  intro t ht
  have hnv : noVarKeysO p = true := by simp only [TermOK, Bool.and_eq_true] at hok; exact hok.1
  rw [sPmv_obj] at hp
  rw [mem_extractTerms] at ht ⊢
  exact pmv_termsO σ p f f hnv hp t ht

/-- **ti_complete.** Under term-index completeness, `TermIndex.Search` returns every stored id whose fact carries
all the searched terms (stale extra candidates are allowed and re-matched away). -/
theorem ti_complete (s : St) (p : Obj) (htiok : TIOK s) (hne : extractTerms p ≠ []) (id : String) (fact : Obj)
    (hm : (id, fact) ∈ s.facts) (hsub : ∀ t, t ∈ extractTerms p → t ∈ extractTerms fact) :
    ∃ ids, TI.search s.ti (extractTerms p) = .ok ids ∧ id ∈ ids :=
  TI.search_complete hne (fun t ht => htiok id fact hm t (hsub t ht))

/-- the index is kept complete by every history: `WF` contains `TIOK` for indexed states -/
theorem termindex_inv (ops : List StOp) : TIOK (St.run { kind := .indexed } ops) :=
  (run_wf (wf_empty .indexed) ops).tiok (run_kind _ ops)

/-! ## search = specification -/

/-- **Linear search is the specification**, literally: same (id, bindings) pairs in the order of the stored facts,
and the same error when the matcher fails on some fact — with the corrected budget or any larger one, and with the
model's present budget `St.fuel`. -/
theorem search_linear_exact (s : St) (now : Int) (p : Obj) (hk : s.kind = .linear) (hwf : WF s)
    (hne : NoneExpired s now) :
    (∃ r, s.searchOK p now = (s, r) ∧ r.map projRes = specSearch s.facts p now) ∧
    (∃ r, s.search p now = (s, r) ∧ r.map projRes = specSearch s.facts p now) :=
  ⟨searchWith_linear hk hwf hne p (Nat.le_refl _), search_linear_fuel hk hwf hne p⟩

/-- **search_exact_partial (indexed).** For a pattern in `TermOK`, under the C05 hypothesis `MatcherSoundOn`, whenever
the specification does not fail, the indexed search returns exactly the specification's (id, bindings) pairs —
no more, no fewer — up to order, and leaves the state unchanged.
*Partial* because (1) matcher soundness is a hypothesis here, (2) if the matcher fails on a stored fact that is not a
candidate, the specification (and the linear state) report the error while the indexed search may succeed; see
`search_indexed_error`. Full statement intended: the same without `hspec`, with equality of errors. -/
theorem search_exact_partial (s : St) (now : Int) (p : Obj) (R : List (String × List Bs))
    (hk : s.kind = .indexed) (hwf : WF s) (hne : NoneExpired s now) (hterm : TermOK p = true)
    (hsound : MatcherSoundOn s.facts p) (hspec : specSearch s.facts p now = .ok R) :
    ∃ R', s.searchOK p now = (s, .ok R') ∧ (projRes R').Perm R :=
  searchWith_indexed hk hwf hne hterm hsound hspec (Nat.le_refl _)

/-- an error of the indexed search is an error of the specification (not conversely) -/
theorem search_indexed_error (s : St) (now : Int) (p : Obj) (e : LErr)
    (hk : s.kind = .indexed) (hwf : WF s) (hne : NoneExpired s now) (hterm : TermOK p = true)
    (hsound : MatcherSoundOn s.facts p) (herr : (s.searchOK p now).2 = .error e) :
    ∃ e', specSearch s.facts p now = .error e' :=
  searchWith_indexed_err hk hwf hne hterm hsound (Nat.le_refl _) herr

/-- **The two state kinds agree**: on the same stored facts, an indexed and a linear state return the same
(id, bindings) pairs up to order (inside the fragment, when the matcher does not fail). -/
theorem search_kinds_agree (si sl : St) (now : Int) (p : Obj) (R : List (String × List Bs))
    (hki : si.kind = .indexed) (hkl : sl.kind = .linear) (hfacts : si.facts = sl.facts)
    (hwi : WF si) (hwl : WF sl) (hni : NoneExpired si now) (hterm : TermOK p = true)
    (hsound : MatcherSoundOn si.facts p) (hspec : specSearch si.facts p now = .ok R) :
    ∃ Ri Rl, si.searchOK p now = (si, .ok Ri) ∧ sl.searchOK p now = (sl, .ok Rl) ∧ (projRes Ri).Perm (projRes Rl) := by
  obtain ⟨Ri, h1, h2⟩ := search_exact_partial si now p R hki hwi hni hterm hsound hspec
  have hnl : NoneExpired sl now := fun e he => hni e (hfacts ▸ he)
  obtain ⟨r, h3, h4⟩ := (search_linear_exact sl now p hkl hwl hnl).1
  rw [← hfacts, hspec] at h4
  cases r with
  | error e => cases h4
  | ok Rl =>
    simp only [Except.map] at h4
    injection h4 with h4
    exact ⟨Ri, Rl, h1, h3, h4 ▸ h2⟩

/-- the budget is irrelevant for `search` too: any budget ≥ `St.fuelOK s` gives the result of `searchOK` -/
theorem search_fuel_irrelevant (s : St) (now : Int) (p : Obj) (hne : NoneExpired s now) (g : Nat) (hg : s.fuelOK ≤ g) :
    s.searchWith g p now = s.searchOK p now := by
  simp only [St.searchWith, St.searchOK]
  cases s.kind with
  | indexed => simp only; rw [isearch_eq_ispec hne p hg, isearch_eq_ispec hne p (Nat.le_refl _)]
  | linear => simp only; rw [lsearch_eq_lspec hne p hg, lsearch_eq_lspec hne p (Nat.le_refl _)]

/-! ## get returns the last write -/

/-- **get_last_write (1).** After a successful `add`, the id holds the prepared fact (for the indexed state: with the
rule body as `ExtractRule` leaves it), and `get` returns it as long as it has not expired. -/
theorem get_after_add (s : St) (given : String) (x : Obj) (now now' : Int) (id : String)
    (h : (s.add given x now).2 = .ok id) :
    ∃ fact, amGet (s.add given x now).1.facts id = some fact ∧
      (∃ m x', prepareFact given s.freshId x now = .ok (id, m, x') ∧
        (fact = m ∨ ∃ rule, extractRule m false = .ok (rule, fact))) ∧
      (checkExpiration fact now' = .ok false → (s.add given x now).1.get id now' = ((s.add given x now).1, .ok fact)) := by
  rcases add_shape s given x now with ⟨e, he, _⟩ | ⟨id', fact, hok, ha⟩
  · rw [he] at h; cases h
  · rw [hok] at h; injection h with h; subst h
    have hg : amGet (s.add given x now).1.facts id' = some fact := by rw [ha.facts, amGet_amSet_st]; simp
    exact ⟨fact, hg, ha.prep, fun hx => get_of_present hg hx⟩

/-- **get_last_write (2).** An `add` (successful or not) does not change what any other id holds;
a failed `add` changes no fact at all. -/
theorem get_other_after_add (s : St) (given : String) (x : Obj) (now : Int) :
    (∀ id, (s.add given x now).2 = .ok id → ∀ id', id' ≠ id →
      amGet (s.add given x now).1.facts id' = amGet s.facts id') ∧
    (∀ e, (s.add given x now).2 = .error e → (s.add given x now).1.facts = s.facts) := by
  rcases add_shape s given x now with ⟨e, he, hf⟩ | ⟨id', fact, hok, ha⟩
  · exact ⟨fun id h => (by rw [he] at h; cases h), fun _ _ => hf.facts⟩
  · refine ⟨fun id h id' hne => ?_, fun e h => (by rw [hok] at h; cases h)⟩
    rw [hok] at h; injection h with h; subst h
    rw [ha.facts, amGet_amSet_st, if_neg hne]

/-- **get_last_write (3).** After a `rem id` that returned without error (either budget) the id is gone:
`get` answers not-found. -/
theorem get_after_rem (s s' : St) (id : String) (now now' : Int) (b : Bool)
    (h : s.remOK id now = (s', .ok b) ∨ s.rem id now = (s', .ok b)) :
    s'.get id now' = (s', .error "notFound") := by
  rcases h with h | h
  · exact get_of_absent (remWith_gone (g := s.fuelOK) h)
  · exact get_of_absent (rem_gone h)

/-- **get_last_write (4).** `get` on a stored, unexpired fact returns it and changes nothing; on an absent id it
answers not-found (both kinds). -/
theorem get_reads (s : St) (id : String) (now : Int) :
    (∀ fact, amGet s.facts id = some fact → checkExpiration fact now = .ok false → s.get id now = (s, .ok fact)) ∧
    (amGet s.facts id = none → s.get id now = (s, .error "notFound")) :=
  ⟨fun _ hg hx => get_of_present hg hx, fun hg => get_of_absent hg⟩

/-! ## ids -/

/-- **ids_kept_or_fresh (GenId).** A property fact gets the canonical id `!id.prop`; otherwise a caller-supplied
non-empty id that is not variable-looking is kept; otherwise the fresh id is used; a variable-looking id is rejected. -/
theorem genId_cases (x : Obj) (given fresh : String) :
    (∀ pid prop v, parseProp x = .ok (some (pid, prop, v)) → genId x given fresh = .ok ("!" ++ pid ++ "." ++ prop)) ∧
    (parseProp x = .ok none → given ≠ "" → isVar given = false → genId x given fresh = .ok given) ∧
    (parseProp x = .ok none → isVar fresh = false → genId x "" fresh = .ok fresh) ∧
    (parseProp x = .ok none → given ≠ "" → isVar given = true → genId x given fresh = .error "badIdVar") := by
  refine ⟨?_, ?_, ?_, ?_⟩
  · intro pid prop v h; simp [genId, h, bind, Except.bind, genPropId, pure, Except.pure]
  · intro h hg hv; simp [genId, h, bind, Except.bind, hg, hv, pure, Except.pure]
  · intro h hv; simp [genId, h, bind, Except.bind, hv, pure, Except.pure]
  · intro h hg hv; simp [genId, h, bind, Except.bind, hg, hv]

/-- **ids_kept_or_fresh (Add).** The id under which a successful `add` stores the fact is: the canonical property id
for a property fact; the caller's id when one was given; the state's fresh id when none was given — then the fresh
counter advances, and for a state satisfying `FreshOK` (every reachable state, `reachable_fresh`) that id was not in
use. It is never variable-looking. -/
theorem ids_kept_or_fresh (s : St) (given : String) (x : Obj) (now : Int) (id : String)
    (h : (s.add given x now).2 = .ok id) :
    isVar id = false ∧
    (∀ pid prop v, parseProp x = .ok (some (pid, prop, v)) → id = "!" ++ pid ++ "." ++ prop) ∧
    (parseProp x = .ok none → given ≠ "" → id = given) ∧
    (parseProp x = .ok none → given = "" →
      id = s.freshId ∧ (s.add given x now).1.fresh = s.fresh + 1 ∧ (FreshOK s → amGet s.facts id = none)) := by
  have hgen := add_id_genId h
  refine ⟨genId_isVar hgen, ?_, ?_, ?_⟩
  · intro pid prop v hp
    rcases genId_ok hgen with ⟨pid', prop', v', hp', rfl⟩ | ⟨hp', _, _⟩
    · rw [hp] at hp'; injection hp' with hp'; injection hp' with hp'
      injection hp' with h1 h2; injection h2 with h2 h3
      subst h1; subst h2; simp [genPropId]
    · rw [hp] at hp'; cases hp'
  · intro hp hg
    rcases genId_ok hgen with ⟨pid', prop', v', hp', _⟩ | ⟨_, hid, _⟩
    · rw [hp] at hp'; cases hp'
    · simpa [hg] using hid
  · intro hp hg
    subst hg
    have hid : id = s.freshId := by
      rcases genId_ok hgen with ⟨pid', prop', v', hp', _⟩ | ⟨_, hid, _⟩
      · rw [hp] at hp'; cases hp'
      · simpa using hid
    refine ⟨hid, ?_, fun hf => hid ▸ freshId_not_stored hf⟩
    rcases add_shape s "" x now with ⟨e, he, _⟩ | ⟨id', fact, hok, ha⟩
    · rw [he] at h; cases h
    · rw [hok] at h; injection h with h; subst h
      rw [ha.fresh, hid]; simp

/-- **Generated ids stay fresh.** In every state reachable by a history whose caller-supplied ids never have the
shape `fresh#n` of a generated id, no stored id is `fresh#n` with `n ≥` the fresh counter — so a generated id never
overwrites a stored fact. (The real code draws a UUID; the model's counter needs the side condition.) -/
theorem reachable_fresh (k : Kind) (ops : List StOp) (hu : ∀ op, op ∈ ops → op.userIds) :
    FreshOK (St.run { kind := k } ops) :=
  run_freshOK (fun e he => by simp at he) ops hu

/-! ## non-vacuity -/

def searchOps : List StOp :=
  [StOp.rem "q" 0, StOp.add "a" [("deleteWith", J.arr [.str "b"]), ("n", .num 3)] 0, StOp.add "b" [("deleteWith", J.arr [.str "b", .str "zz"])] 0,
   StOp.add "" [("x", J.num 1)] 0, StOp.add "a" [("deleteWith", J.arr [.str "c"])] 0,
   StOp.add "p" [("!color", .str "red"), ("id", .str "b")] 0]

/-- the hypotheses of the search theorems hold on a non-trivial reachable state of each kind for the pattern
`{"deleteWith":["b"]}` (here the C05 hypothesis is *proved*, `matcherSound_depPat`), so the searches of both kinds
return the specification's answer; the history overwrites `a`, generates an id and stores a property fact -/
example (k : Kind) :
    WF (St.run { kind := k } searchOps) ∧ NoneExpired (St.run { kind := k } searchOps) 0 ∧
    TermOK (depPat "b") = true ∧ MatcherSoundOn (St.run { kind := k } searchOps).facts (depPat "b") ∧
    (St.run { kind := k } searchOps).facts.map (·.1) = ["a", "b", "fresh#0", "!b.color"] ∧
    FreshOK (St.run { kind := k } searchOps) ∧
    (∃ R, specSearch (St.run { kind := k } searchOps).facts (depPat "b") 0 = .ok R) := by
  refine ⟨run_wf (wf_empty k) _, noneExpired_of_check (by cases k <;> decide +kernel), by decide +kernel,
    (matcherSound_depPat "b" (by decide +kernel)).on _, by cases k <;> decide +kernel,
    reachable_fresh k _ ?_, specSearch_depPat_ok _ "b" (by decide +kernel) 0⟩
  · intro op hop
    simp only [searchOps, List.mem_cons, List.not_mem_nil, or_false] at hop
    rcases hop with rfl | rfl | rfl | rfl | rfl | rfl <;> simp only [StOp.userIds] <;> intro n h <;>
      (have := congrArg String.toList h; simp [String.toList_append] at this)

/-- the hypotheses of `pmv_terms_subset` are satisfiable: the cascade pattern lies over a fact naming `b` -/
example : ∃ σ, pmv σ (.obj (depPat "b")) (.obj [("deleteWith", J.arr [.str "b", .str "zz"])]) = true ∧
    TermOK (depPat "b") = true := by
  obtain ⟨σ, hσ⟩ := matcherSound_depPat "b" (by decide +kernel) [("deleteWith", J.arr [.str "b", .str "zz"])] [[]]
    (by rw [matchesJ_depPat "b" (by decide +kernel)]; rfl) (by simp)
  exact ⟨σ, hσ, by decide +kernel⟩

/-! ## search = specification, the matcher hypothesis discharged by C05 (composition)

`search_exact_partial` above takes matcher soundness (`MatcherSoundOn`) and "the specification does not fail" as
hypotheses.  Both follow from C05 (`match_sound`, `match_ok`; `RulioProofs/ComposeMatch.lean`) for
* a pattern of the matcher fragment, `patOK (.obj p)` (constant keys, no optional variable, at most one variable
  and pairwise distinct scalar constants per array) — this implies `TermOK p` (`patOK_termOK`);
* a **linear** pattern, `linearPattern p` (no variable occurs twice): C05's soundness needs every variable that
  occurs more than once to be bound to a scalar (`scalarRepeatsIn`; outside, `repeated_var_structured_counterexample`
  of C05 applies), and for a linear pattern with empty incoming bindings there is no such variable;
* stored facts of the data fragment, `FactsOK s` (ground, scalars of one array pairwise distinct — facts come from
  decoded JSON), or the weaker `FactsOKFor s.facts p` which also tolerates stored facts that are not ground data
  (rules whose `when` holds variables) as long as the matcher plainly answers "no match" on them.

Hypotheses that remain: `WF s` (true of every reachable state: `reachable_wf`, `search_exact_reachable`),
`NoneExpired s now` (an expired candidate is purged first, with its cascade: C07/C08), and the three fragment
hypotheses above. -/

/-- **search_exact (indexed).** For a linear pattern of the matcher fragment and stored facts of the data fragment,
in a well-formed indexed state without expired facts: the specification does not fail, and the indexed search
returns exactly its (id, bindings) pairs — no more, no fewer — up to order, leaving the state unchanged. -/
theorem search_exact (s : St) (now : Int) (p : Obj)
    (hk : s.kind = .indexed) (hwf : WF s) (hne : NoneExpired s now)
    (hp : patOK (.obj p) = true) (hlin : linearPattern p = true) (hF : FactsOKFor s.facts p) :
    ∃ R R', specSearch s.facts p now = .ok R ∧ s.searchOK p now = (s, .ok R') ∧ (projRes R').Perm R := by
  obtain ⟨R, hR⟩ := specSearch_total hp hF now
  obtain ⟨R', h1, h2⟩ := search_exact_partial s now p R hk hwf hne (patOK_termOK hp)
    (matcherSoundOn_of_frag hp hlin hF) hR
  exact ⟨R, R', hR, h1, h2⟩

/-- **search_exact for every reachable indexed state**: after any history of `add` / `rem` (with its cascade) /
`get` / `search` / `findRules` / `clear` on the indexed state (`IReach`; well-formedness is derived, `ireach_wf`),
with the public recursion budget `St.search` uses. -/
theorem search_exact_reachable (s : St) (h : IReach s) (now : Int) (p : Obj) (hne : NoneExpired s now)
    (hp : patOK (.obj p) = true) (hlin : linearPattern p = true) (hF : FactsOK s) :
    ∃ R R', specSearch s.facts p now = .ok R ∧ s.search p now = (s, .ok R') ∧ (projRes R').Perm R := by
  obtain ⟨hwf, hk⟩ := ireach_wf h
  exact search_exact s now p hk hwf hne hp hlin (hF.for p)

/-- **indexed = linear = specification.** On the same stored facts, an indexed and a linear state both answer the
specification: the linear one literally, the indexed one up to order.  No matcher hypothesis. -/
theorem search_exact_both_kinds (si sl : St) (now : Int) (p : Obj)
    (hki : si.kind = .indexed) (hkl : sl.kind = .linear) (hfacts : si.facts = sl.facts)
    (hwi : WF si) (hwl : WF sl) (hni : NoneExpired si now)
    (hp : patOK (.obj p) = true) (hlin : linearPattern p = true) (hF : FactsOKFor si.facts p) :
    ∃ R Ri Rl, specSearch si.facts p now = .ok R ∧ si.searchOK p now = (si, .ok Ri) ∧
      sl.searchOK p now = (sl, .ok Rl) ∧ projRes Rl = R ∧ (projRes Ri).Perm R := by
  obtain ⟨R, Ri, hR, h1, h2⟩ := search_exact si now p hki hwi hni hp hlin hF
  have hnl : NoneExpired sl now := fun e he => hni e (hfacts ▸ he)
  obtain ⟨r, h3, h4⟩ := (search_linear_exact sl now p hkl hwl hnl).1
  rw [← hfacts, hR] at h4
  cases r with
  | error e => cases h4
  | ok Rl =>
    simp only [Except.map] at h4
    injection h4 with h4
    exact ⟨R, Ri, Rl, hR, h1, h3, h4, h2⟩

/-- the pattern `{"deleteWith":["?d","b"]}` (a variable next to a constant in an array) on the history `searchOps` -/
def searchPatVar : Obj := [("deleteWith", .arr [.str "?d", .str "b"])]

/-- non-vacuity: the hypotheses of `search_exact` hold for the reachable indexed state of `searchOps` (an overwrite,
a generated id, a property fact) and a pattern with a variable next to a constant in an array; so its conclusion
holds there: the indexed search answers the specification -/
example :
    (WF (St.run { kind := .indexed } searchOps) ∧ NoneExpired (St.run { kind := .indexed } searchOps) 0 ∧
     patOK (.obj searchPatVar) = true ∧ linearPattern searchPatVar = true ∧
     FactsOK (St.run { kind := .indexed } searchOps)) ∧
    ∃ R R', specSearch (St.run { kind := .indexed } searchOps).facts searchPatVar 0 = .ok R ∧
      (St.run { kind := .indexed } searchOps).searchOK searchPatVar 0 = (St.run { kind := .indexed } searchOps, .ok R') ∧
      (projRes R').Perm R := by
  have hyps : WF (St.run { kind := .indexed } searchOps) ∧ NoneExpired (St.run { kind := .indexed } searchOps) 0 ∧
      patOK (.obj searchPatVar) = true ∧ linearPattern searchPatVar = true ∧
      FactsOK (St.run { kind := .indexed } searchOps) := by
    refine ⟨run_wf (wf_empty _) _, noneExpired_of_check (by decide +kernel), by decide +kernel, by decide +kernel, ?_⟩
    intro e he
    have : (St.run { kind := .indexed } searchOps).facts.all (fun e => dataOK (.obj e.2)) = true := by decide +kernel
    exact List.all_eq_true.1 this e he
  exact ⟨hyps, search_exact _ 0 searchPatVar (run_kind _ _) hyps.1 hyps.2.1 hyps.2.2.1 hyps.2.2.2.1
    (hyps.2.2.2.2.for _)⟩


/-! ## Which Go types the term extractor understands

`extractTerms` of the model sees JSON. The real `extractTermsAux` sees Go values: JSON decoding yields `[]interface{}` and
`map[string]interface{}`, the Javascript runtime (facts written by rule actions) also `[]string` and
`[]map[string]interface{}`. A value of a type without a case is silently not indexed, and the fact is then not found by
the indexed state until it is reloaded. The table is regenerated from `core/state_indexed.go` on every run. -/

/-- the term extractor has a case for every shape in which strings, maps and arrays reach it -/
theorem term_extractor_types :
    Gen.termTypes = [["string", "map[string]interface{}", "[]interface{}", "[]string", "[]map[string]interface{}", "default"]] := by decide

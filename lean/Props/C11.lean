import RulioProofs.Indep
import RulioModel.Gen.C11

/-! # C11 — concurrent requests to different locations do not interfere (property theorems only)

Model: `RulioModel/Indep.lean` (engines, the frame hypothesis, interleaved and solo runs; the System as an engine
over the cache model of `RulioModel/Cache.lean`; the two-step `ensureStorage`).  Helper lemmas:
`RulioProofs/Indep.lean`.  `RulioModel/Gen/C11.lean` is regenerated from the Go source on every run.
Data races, crashes and deadlocks are runtime notions: they are observed by the harness (race detector, watchdog),
not proved. -/

variable {Client : Type} [DecidableEq Client]

/-- **Independent locations.**  For every engine whose steps satisfy the frame hypothesis (a step of client `i`
reads and writes only `i`'s component — which presupposes that shared objects such as the storage already exist or
are created atomically), every number of clients, every interleaving `sched` of their request sequences and every
client `i`: the results `i` receives in the interleaved run are the results of `i`'s requests run alone in issue
order, and `i`'s component of the final state is the one of the solo run. -/
theorem independent_locations (E : Engine Client) (F : Frame E) (s : E.State) (sched : List (Client × E.Op)) (i : Client) :
    resultsOf i (runAll E s sched).2 = (runSolo E s i sched).2 ∧
    F.view (runAll E s sched).1 i = F.view (runSolo E s i sched).1 i :=
  indep_gen E F i sched s s rfl

/-- **The System satisfies the hypothesis** (one request = one step of the sequential cache semantics, any TTL, any
CheckExistence, any location semantics): every request to location `n` reads and writes only the cache-table slot
and the storage bucket of `n`.  Hence, for the System model, requests to different locations do not interfere. -/
theorem system_independent (sem : LocSem) (cfg : Cfg) (st : SysSt sem) (sched : List (String × (ROp sem × Int × Int))) (n : String) :
    resultsOf n (runAll (sysEngine sem cfg) st sched).2 = (runSolo (sysEngine sem cfg) st n sched).2 ∧
    sysView (runAll (sysEngine sem cfg) st sched).1 n = sysView (runSolo (sysEngine sem cfg) st n sched).1 n :=
  independent_locations (sysEngine sem cfg) (sysFrame sem cfg) st sched n

/-- **`ensureStorage` made atomic creates one storage.**  With the nil check and the creation under one lock, for
every number of clients and every schedule there is at most one storage instance and every client is bound to it. -/
theorem atomic_storage_single (reqs : List (String × Nat)) (sched : List Nat) :
    let s := lzRun true { pcs := reqs.map (fun r => LzPC.start r.1 r.2) } sched
    s.stores.length ≤ 1 ∧ ∀ pc ∈ s.pcs, ∀ l f sid, (pc = LzPC.write l f sid ∨ pc = LzPC.done sid) → sid = 0 := by
  have h0 : LzInv ({ pcs := reqs.map (fun r => LzPC.start r.1 r.2) } : LzSt) := by
    refine Or.inl ⟨rfl, rfl, ?_⟩
    intro pc hpc
    simp only [List.mem_map] at hpc
    obtain ⟨r, _, hr⟩ := hpc
    exact ⟨r.1, r.2, hr.symm⟩
  have h := lzInv_run sched _ h0
  intro s
  rcases h with ⟨_, h2, h3⟩ | ⟨_, h2, h3⟩
  · refine ⟨h2 ▸ (by decide : 0 ≤ 1), ?_⟩
    intro pc hpc l f sid hw
    obtain ⟨l', f', e⟩ := h3 pc hpc
    rcases hw with hw | hw <;> rw [hw] at e <;> cases e
  · refine ⟨h2 ▸ (by decide : 1 ≤ 1), ?_⟩
    intro pc hpc l f sid hw
    rcases h3 pc hpc with ⟨l', f', e⟩ | ⟨l', f', e⟩ | e
    · rcases hw with hw | hw <;> rw [hw] at e <;> cases e
    · rcases hw with hw | hw <;> rw [hw] at e <;> cases e; rfl
    · rcases hw with hw | hw <;> rw [hw] at e <;> cases e; rfl

/-- **The real `ensureStorage` is check-then-create without a lock** (system.go:700-714).  Two clients issue the very
first requests: client 0 passes the nil check, client 1 passes the nil check, creates storage 0, writes its fact and
is acknowledged; client 0 creates storage 1, overwrites `sys.storage`, writes and is acknowledged.  Two storage
instances exist, and a reload of client 1's location (any finite TTL, or a restart) reads storage 1: the
acknowledged fact 7 of location "b" is gone. -/
theorem lazy_storage_race :
    let s := lzRun false { pcs := [LzPC.start "a" 5, LzPC.start "b" 7] } [0, 1, 1, 1, 0, 0]
    s.stores.length = 2 ∧ s.pcs = [LzPC.done 1, LzPC.done 0] ∧ lzVisible s "b" = [] ∧ lzVisible s "a" = [5] := by
  decide

/-- accepted writes without visible synchronisation: process configuration set at start-up or through the
administrative / test endpoints, never by a location client -/
def acceptedUnguarded : List (String × String) := [
  ("core", "SystemParameters"),       -- sys.NewSystem (start-up) and /api/sys/params (administration)
  ("core", "SystemParameterHooks"),   -- core.ParametersAddHook (registration at start-up)
  ("core", "JavascriptTestValue")     -- /api/sys/util/setJavascriptTestValue (test utility)
]

/-- **Globals.**  Every write to a package-level variable of core, sys, cron, service outside `init` (table
regenerated from the source on every run) happens inside a mutex-protected region, through sync/atomic, or targets
one of the accepted configuration variables. -/
theorem globals_protected :
    globalWrites.all (fun w => w.sync != "none" || acceptedUnguarded.contains (w.pkg, w.name)) = true := by
  decide

/-- **No request leaves a process-wide lock behind.**  In core, sys, cron and service no function returns while a
mutex it locked earlier is still locked without a deferred unlock pending (table regenerated from the source on every
run) — a leaked lock on a shared object (the timer table, the location cache, the cron) would block the requests of
every other location.  The one entry is by design: `CachedLocations.Open` hands the cache entry to its caller locked
while the entry is being loaded; `Release` / the loader unlock it. -/
theorem no_return_under_lock : returnsUnderLock = ["sys.CachedLocations.Open: return while cl is locked"] := by decide

/-! ## The hypotheses are satisfiable by non-trivial instances -/

/-- `sysFrame` *is* a frame for the System engine over the toy semantics with a finite TTL and checking on -/
example : Frame (sysEngine toySem { ttl := .finite 5, checkExistence := true }) := sysFrame _ _

/-- a concrete interleaving over two locations: each client sees what it would have seen alone -/
example :
    let sched : List (String × (ROp toySem × Int × Int)) :=
      [("a", .create, 0, 1), ("b", .create, 1, 2), ("a", .api (.add 5), 2, 3), ("b", .api (.has 5), 3, 9), ("a", .api (.has 5), 9, 10)]
    (resultsOf "b" (runAll (sysEngine toySem { ttl := .finite 5, checkExistence := true }) {} sched).2).map Out.toyCode = [3, 0] := by
  decide

import RulioModel.ConcC12
import RulioProofs.ConcC12
import RulioProofs.ConcAgree
import RulioProofs.RuleCache

/-! # C12 — concurrent requests to one location are atomic (property theorems only)

Full statement of the property (not provable for the code as it is, see the negative theorems below):

  for every schedule of every number of clients issuing Add/Rem/Get/Search/FindRules/FindCachedRules on one
  location, results and final memory are those of a sequential run respecting real time, memory equals storage at
  quiescence, and no two conflicting accesses are concurrently enabled.

What is proved: (1) the generic theorem for any program that keeps the lock discipline, all schedules, any number of
threads; (2) the regenerated lock-discipline table of the real code keeps the discipline except at an enumerated list
of sites; (3) the fragment of requests/histories that avoids those sites is therefore linearizable on memory;
(4) each class of exception has a concrete racing / diverging schedule in the model.
(5) memory = storage for every id whenever no writer is inside its section, for any number of writers of that id
(`memory_store_agree`; the storage calls were moved into the exclusive sections by a repair of /repo) — and, independently
of the lock, at the end for every id that has a single writer (`single_writer_memory_store_agree_partial`).
Missing (hence `_partial`): the requests that go through the rule cache and expiry (refuted: the witnesses below); the composite
Location requests (ProcessEvent, RemRule, EnableRule are several sections); data races, crashes and deadlock of
the real runtime are observed dynamically only (race detector, watchdog). -/

open Conc Conc.C12

/-- **Sections of one reader/writer lock are atomic** (all thread counts, all schedules; induction over the
schedule). If every read/write of guarded memory happens inside a section and every write inside an exclusive
one, then after any schedule `σ` the configuration, with the sections that are still open run to completion, is
exactly the configuration of the *sequential* run that executes whole sections one after the other in the order
`linOrder` in which `σ` acquired the lock. In particular, when no section is open (e.g. all threads finished),
guarded memory and every thread's observations and position are equal to those of that sequential run. -/
theorem locked_section_atomic (P : Tid → List Step) (hP : WellLocked P) (m0 : Cell → Val) (σ : List Tid) :
    let F := exec (init P m0) σ
    let A := execA (init P m0) (linOrder (init P m0) σ)
    Completes F A ∧ (Quiescent F → A.mem = F.mem ∧ ∀ t, A.th t = F.th t) := by
  have h := sim (lockInv_init P m0 hP) (completes_init P m0) σ
  exact ⟨h.2, fun hq => completes_quiescent h.1 h.2 hq⟩

/-- the sequential run really is sequential: a step of `execA` that starts a section equals the fine-grained
run in which that thread alone is scheduled from its `acq` through its `rel` -/
theorem atomic_step_is_serial (C : Config) (t : Tid) (w : Bool) (rest : List Step)
    (hT : (C.th t).todo = .acq w :: rest) (hn : (C.th t).mode = none) (hc : canAcq C w = true)
    (hw : wf (some w) rest = true) :
    stepA C t = exec C (List.replicate (bodyLen rest + 1) t) :=
  stepA_serial C t w rest hT hn hc hw

/-- **the order respects real time**: it is a subsequence of the schedule, built left to right — every section
acquired during a prefix `σ₁` (so every section that *ended* in `σ₁`) precedes every section acquired in the rest
`σ₂` (so every section that *began* after `σ₁`) -/
theorem lin_order_real_time (C : Config) (σ₁ σ₂ : List Tid) :
    linOrder C (σ₁ ++ σ₂) = linOrder C σ₁ ++ linOrder (exec C σ₁) σ₂ ∧ (linOrder C (σ₁ ++ σ₂)).Sublist (σ₁ ++ σ₂) :=
  ⟨linOrder_append C σ₁ σ₂, linOrder_sublist C (σ₁ ++ σ₂)⟩

set_option maxRecDepth 200000 in
/-- **The real code keeps the discipline except at the listed sites.** Evaluated over the table regenerated from
the Go source on every run: every access to IdToFact/Facts, FactIndex, RuleIndex, cachedRules, Loaded by any method
reachable from the `State` interface is inside a section of the state lock, every write and every storage update
inside an exclusive one, lock calls are balanced and never nested — except `knownExceptions`. Removing or moving
a lock call, or adding an unguarded access, changes the table and this no longer evaluates to `true`. -/
theorem discipline_partial : disciplineOK Gen.C12.table knownExceptions = true := by decide +kernel

set_option maxRecDepth 200000 in
/-- **Linearizability of the fragment** (consequence of the two theorems above). Take any number of clients; each
issues any sequence of Add/Rem/Get/Search/FindRules/Count/Clear requests of one implementation, each request being
its row of the regenerated table (calls inlined) under *any* interpretation of which cells and values its accesses
denote, in histories where nothing expires, no `deleteWith` cascade runs and the rule cache is not used. Then every
schedule is equivalent, on guarded memory and on every client's observations, to the sequential run of the
requests' sections in lock-acquisition order; every such request has exactly one section, so that order is an
order of the requests, and it respects real time by `lin_order_real_time`.
Storage (`aux`) is covered by `memory_store_agree`. Not covered: FindCachedRules; expiry. -/
theorem linearizable_partial (impl : String) (himpl : impl = "indexed" ∨ impl = "linear")
    (P : Tid → List Step)
    (hP : ∀ t, ∃ reqs : List (String × Interp), (∀ q ∈ reqs, q.1 ∈ fragOps) ∧
        P t = (reqs.map (fun q => (row impl q.1).map (inst q.2 fragDrop))).flatten)
    (m0 : Cell → Val) (σ : List Tid) :
    (let F := exec (init P m0) σ
     let A := execA (init P m0) (linOrder (init P m0) σ)
     Completes F A ∧ (Quiescent F → A.mem = F.mem ∧ ∀ t, A.th t = F.th t)) ∧
    (∀ m ∈ fragOps, sections (row impl m) = 1) := by
  have hfrag : fragOK impl = true := by
    rcases himpl with h | h <;> subst h <;> decide +kernel
  have hsec : ∀ m ∈ fragOps, sections (row impl m) = 1 := by
    rcases himpl with h | h <;> subst h <;> decide +kernel
  refine ⟨locked_section_atomic P ?_ m0 σ, hsec⟩
  intro t
  obtain ⟨reqs, hin, hPt⟩ := hP t
  rw [hPt]
  apply wf_flatten
  intro p hp
  simp only [List.mem_map] at hp
  obtain ⟨q, hq, rfl⟩ := hp
  apply wf_inst
  have := List.all_eq_true.1 hfrag q.1 (hin q hq)
  exact this

set_option maxRecDepth 200000 in
/-- **Memory = storage for an id with a single writer.** One client (`owner`) issues any sequence of Add/Rem
requests on one id (rows of the regenerated table; every Add stores its value `v` in memory and in storage, Rem
stores 0 = absent); all other clients run arbitrary programs that never write that id's memory or storage cell
(requests on other ids, reads, searches). Then for every schedule after which the owner is done, whatever the others
did and however the steps interleaved, the id's memory cell equals its storage cell. (The lock plays no role here:
this is ownership; it also covers rows outside the fragment of `memory_store_agree`. With several writers of one id
it is the lock that does it: `memory_store_agree`.) -/
theorem single_writer_memory_store_agree_partial (impl : String) (himpl : impl = "indexed" ∨ impl = "linear")
    (P : Tid → List Step) (owner : Tid) (reqs : List (String × Val))
    (hreq : ∀ q ∈ reqs, q.1 = "Add" ∨ q.1 = "Rem")
    (hP : P owner = (reqs.map (fun q => (row impl q.1).map (inst (interp q.2) fragDrop))).flatten)
    (hoth : ∀ t, t ≠ owner → noWr memC storeC (P t) = true)
    (m0 : Cell → Val) (h0 : m0 memC = m0 storeC) (σ : List Tid)
    (hdone : ((exec (init P m0) σ).th owner).todo = []) :
    (exec (init P m0) σ).mem memC = (exec (init P m0) σ).aux storeC := by
  have hrows : ∀ m, m = "Add" ∨ m = "Rem" → hasWrMem (row impl m) = true ∧ hasStore (row impl m) = true := by
    intro m hm
    rcases himpl with h | h <;> subst h <;> rcases hm with h | h <;> subst h <;> decide +kernel
  have hinv : OwnInv owner memC storeC (pendM memC (P owner) (m0 memC)) (pendS storeC (P owner) (m0 storeC)) (init P m0) :=
    { others := by intro t ht; simpa [init] using hoth t ht
      const := by
        simp only [init, hP]
        apply constWr_flatten
        intro p hp
        simp only [List.mem_map] at hp
        obtain ⟨q, _, rfl⟩ := hp
        exact constWr_inst q.2 fragDrop _
      pm := by simp [init]
      ps := by simp [init] }
  have hfin := ownInv_exec hinv σ
  have h1 := hfin.pm
  have h2 := hfin.ps
  rw [hdone] at h1 h2
  simp only [pendM, pendS] at h1 h2
  rw [h1, h2, hP, ← h0]
  apply pend_flatten
  intro p hp v
  simp only [List.mem_map] at hp
  obtain ⟨q, hq, rfl⟩ := hp
  have hr := hrows q.1 (hreq q hq)
  rw [pendM_inst q.2 fragDrop (by decide) _ v, pendS_inst q.2 fragDrop _ v, hr.1, hr.2]

/-! ## The rule cache (the former finding C12-stale-rule-cache, repaired in /repo: the cache counts its invalidations) -/

/-- **No stale rule in the cache** — the generation protocol of `FindCachedRules` / `Add` / `rem` (model
`RulioModel/RuleCache.lean`: one rule id; any number of writers, each "invalidate, update the state, invalidate", and of
readers, each "read the generation, read the rule from the state, use the cached rule if there is one, else cache what was
read provided the generation is still the one read"; one step per scheduling decision). After EVERY schedule: whatever the
cache holds is the version the state holds, unless some writer is between its update and its second invalidation — in
particular whenever every writer that started has returned. So an event that starts after `AddRule` returned runs the rule
that is stored, however the earlier events interleaved with the write. -/
theorem rule_cache_never_stale (mem gen : Nat) (pcs : List RuleCache.PC) (hf : RuleCache.Fresh pcs) (σ : List Nat) :
    let s := RuleCache.run { mem := mem, cache := none, gen := gen, pcs := pcs } σ
    ∀ c, s.cache = some c → c = s.mem ∨ RuleCache.midWrite s :=
  (RuleCache.inv_run (RuleCache.inv_init mem gen pcs hf) σ).cache

/-- the second invalidation is what makes it true. Schedule: the writer invalidates; the reader reads the generation and the
old rule; the writer updates the state; the reader caches what it read (the generation has not moved). At that point the old
version is cached and the new one stored — the state of affairs that used to be final when `Add` invalidated only before its
update. The writer's second invalidation, its last step, empties the cache again. -/
theorem rule_cache_needs_second_invalidation :
    (let s := RuleCache.run { mem := 1, cache := none, gen := 0, pcs := [.w0 2, .r0] } [0, 1, 1, 0, 1]
     s.cache = some 1 ∧ s.mem = 2) ∧
    (let s := RuleCache.run { mem := 1, cache := none, gen := 0, pcs := [.w0 2, .r0] } [0, 1, 1, 0, 1, 0]
     s.cache = none ∧ s.mem = 2 ∧ s.pcs = [.done none, .done (some 1)]) := by decide

/-- tie (regenerated table): in both implementations `FindCachedRules` reads the generation BEFORE it reads the rules from
the state and caches afterwards, and `Add` and `rem` invalidate twice (the extractor lists a deferred call where it is
written; that the second invalidation runs after the update is the `defer`, and is what the forced schedules of the check
observe). -/
theorem rule_cache_protocol_in_table :
    (["indexed", "linear"].all (fun impl =>
      (Gen.C12.table.find impl "FindCachedRules").map (·.body) ==
        some [.call "cacheGeneration", .call "doFindRules", .call "cachedRule", .call "cacheRule"])) = true ∧
    ((Gen.C12.table.find "indexed" "Add").map (fun m => (m.body.filter (· == .call "uncacheRule")).length)) = some 2 ∧
    ((Gen.C12.table.find "linear" "Add").map (fun m => (m.body.filter (· == .call "uncacheRule")).length)) = some 2 ∧
    ((Gen.C12.table.find "indexed" "rem").map (fun m => (m.body.filter (· == .call "uncacheRule")).length)) = some 2 := by
  decide +kernel

/-! ## Negative theorems: one witness schedule per class of exception (programs built from the regenerated table) -/

set_option maxRecDepth 200000 in
/-- `cachedRules` outside the lock: as long as the regenerated table still shows `Add` writing the cache with no
lock, the schedule `addFindSched` of `Add ∥ FindCachedRules` (built from the table rows) reaches a configuration in
which a write and an access of the cache cell are enabled at the same time — both implementations. (Stated relative
to the table so that repairing the code removes the premise, not the proof.) -/
theorem cache_race_witness :
    ((violations Gen.C12.table).contains ⟨"indexed", "Add", .wr .cachedRules, .none, false⟩ = true →
      raceAt (exec (addFind "indexed") (addFindSched "indexed")) 0 1 = true) ∧
    ((violations Gen.C12.table).contains ⟨"linear", "Add", .wr .cachedRules, .none, false⟩ = true →
      raceAt (exec (addFind "linear") (addFindSched "linear")) 0 1 = true) := by decide +kernel

set_option maxRecDepth 200000 in
/-- `expire → rem` under the shared lock: two searches over an expired fact both hold the read lock and are both
about to write the same memory cell (both implementations) -/
theorem expire_under_read_lock_witness :
    (∃ σ, let C := exec (searchSearch "indexed") σ
      raceAt C 0 1 = true ∧ C.readers.length = 2 ∧ nextIs 0 (isWrTo memC) C = true ∧ nextIs 1 (isWrTo memC) C = true) ∧
    (∃ σ, let C := exec (searchSearch "linear") σ
      raceAt C 0 1 = true ∧ C.readers.length = 2 ∧ nextIs 0 (isWrTo memC) C = true ∧ nextIs 1 (isWrTo memC) C = true) :=
  ⟨⟨searchSearchSched "indexed", by decide +kernel⟩, ⟨searchSearchSched "linear", by decide +kernel⟩⟩

set_option maxRecDepth 200000 in
/-- `FindRules.Do` writes the shared cached rule: two dispatches race on it from the start -/
theorem shared_rule_object_witness : raceAt doDo 0 1 = true := by decide +kernel

set_option maxRecDepth 200000 in
/-- **Memory = storage under any number of writers** (the former findings C12-add-add-store-inversion-indexed / -linear,
repaired in /repo: `Add`, `Rem`, `Clear` now update the stored document inside the exclusive section that updates memory).
Any number of clients; each issues any sequence of Add/Rem/Get/Search/FindRules/Count/Clear requests of one implementation
on one id, each request being its row of the regenerated table (calls inlined; nothing expires, no cascade) and storing
its own value `v` in memory and in storage. Then after every schedule: whenever nobody holds the lock exclusively the
id's memory cell equals its storage cell, and while a writer is inside its section they will be equal again at its
release (`secPend`). In particular they are equal once every request has returned. The premise about the table is
checked by evaluation (`goodAcc`: memory and storage of the id are written only inside exclusive sections, and a section
that writes one writes the other): moving the storage call out of the locked section again makes it false. -/
theorem memory_store_agree (impl : String) (himpl : impl = "indexed" ∨ impl = "linear")
    (P : Tid → List Step)
    (hP : ∀ t, ∃ reqs : List (String × Val), (∀ q ∈ reqs, q.1 ∈ fragOps) ∧
        P t = (reqs.map (fun q => (row impl q.1).map (inst (interp q.2) fragDrop))).flatten)
    (m0 : Cell → Val) (h0 : m0 memC = m0 storeC) (σ : List Tid) :
    let F := exec (init P m0) σ
    (F.writer = none → F.mem memC = F.aux storeC) ∧
    (∀ w, F.writer = some w →
      (secPend memC storeC (F.th w).todo (F.mem memC) (F.aux storeC)).1 =
        (secPend memC storeC (F.th w).todo (F.mem memC) (F.aux storeC)).2) ∧
    ((∀ t, (F.th t).todo = []) → F.mem memC = F.aux storeC) := by
  have hrows : ∀ m ∈ fragOps, goodAcc none (row impl m) = true ∧ wfAcc fragDrop none (row impl m) = true := by
    rcases himpl with h | h <;> subst h <;> decide +kernel
  have hwf : ∀ t, wf none (P t) = true := by
    intro t
    obtain ⟨reqs, hin, hPt⟩ := hP t
    rw [hPt]
    apply wf_flatten
    intro p hp
    simp only [List.mem_map] at hp
    obtain ⟨q, hq, rfl⟩ := hp
    exact wf_inst _ _ _ _ (hrows q.1 (hin q hq)).2
  have hg : ∀ t, Good memC storeC none (P t) := by
    intro t
    obtain ⟨reqs, hin, hPt⟩ := hP t
    rw [hPt]
    apply Good_flatten
    · intro p hp
      simp only [List.mem_map] at hp
      obtain ⟨q, hq, rfl⟩ := hp
      exact wf_inst _ _ _ _ (hrows q.1 (hin q hq)).2
    · intro p hp
      simp only [List.mem_map] at hp
      obtain ⟨q, hq, rfl⟩ := hp
      exact good_inst q.2 fragDrop (by decide) none _ (hrows q.1 (hin q hq)).1
  have hI := lockInv_init P m0 hwf
  have hC := completes_init P m0
  have hinv := agreeInv_exec hI hC (agreeInv_init P m0 h0 hg) σ
  have hI' := (sim hI hC σ).1
  refine ⟨hinv.idle, hinv.busy, fun hdone => hinv.idle ?_⟩
  cases hw : (exec (init P m0) σ).writer with
  | none => rfl
  | some w =>
    exfalso
    have hm := (hI'.wr w).1 hw
    have hwfw := hI'.wf w
    rw [hm, hdone w] at hwfw
    simp [wf] at hwfw

set_option maxRecDepth 200000 in
/-- the shape the unrepaired `Add` had (memory inside the section, the stored document after it) does not meet the
premise: the check that `memory_store_agree` evaluates over the regenerated table distinguishes the two -/
theorem store_outside_section_rejected :
    goodAcc none [.lock true, .rd .mem, .wr .mem, .unlock true, .store "Add"] = false ∧
    goodAcc none [.store "Add", .lock true, .rd .mem, .wr .mem, .unlock true] = false ∧
    goodAcc none [.lock true, .rd .mem, .wr .mem, .store "Add", .unlock true] = true := by decide

/-! ## Non-vacuity -/

example : WellLocked twoWritersOneReader := by
  intro t
  match t with
  | 0 => decide
  | 1 => decide
  | 2 => decide
  | (n + 3) => rfl

/-- an interleaved schedule (the reader and writer 1 contend while writer 0 is inside) — the result is the serial one -/
example : let C := exec (init twoWritersOneReader (fun _ => 0)) [0, 2, 1, 0, 1, 0, 2, 0, 2, 1, 2, 1, 2, 1, 1, 1, 1]
    C.mem 0 = 2 ∧ (C.th 2).log = [1] ∧ linOrder (init twoWritersOneReader (fun _ => 0)) [0, 2, 1, 0, 1, 0, 2, 0, 2, 1, 2, 1, 2, 1, 1, 1, 1] = [0, 2, 1] := by
  decide

/-- the hypotheses of `linearizable_partial` are met by real request sequences -/
example : ∃ reqs : List (String × Interp), (∀ q ∈ reqs, q.1 ∈ fragOps) ∧
    (reqs.map (fun q => (row "indexed" q.1).map (inst q.2 fragDrop))).flatten ≠ [] :=
  ⟨[("Add", interp 1), ("Search", interp 0), ("Rem", interp 0)], by decide, by decide +kernel⟩

/-- the hypotheses of `single_writer_memory_store_agree_partial` are met: an owner issuing Add/Rem/Add on the id,
another client searching -/
example : (∀ q ∈ [("Add", (1 : Val)), ("Rem", 0), ("Add", 2)], q.1 = "Add" ∨ q.1 = "Rem") ∧
    noWr memC storeC ((row "indexed" "Search").map (inst (interp 0) fragDrop)) = true ∧
    noWr memC storeC ((row "linear" "Get").map (inst (interp 0) fragDrop)) = true := by
  refine ⟨by decide, by decide +kernel, by decide +kernel⟩

set_option maxRecDepth 200000 in
/-- the hypotheses of `memory_store_agree` are met by real request sequences of two writers of one id, and the schedule that
used to leave memory = 2, storage = 1 (client 0 preempted between its memory update and its storage call) now ends with
both equal -/
example : (∀ q ∈ [("Add", (1 : Val)), ("Rem", 0), ("Add", 2), ("Search", 0)], q.1 ∈ fragOps) ∧
    (let C := exec (addAdd "indexed") (addAddSchedIndexed ++ List.replicate 40 1 ++ List.replicate 40 0)
     done 0 C = true ∧ done 1 C = true ∧ C.mem memC = C.aux storeC) ∧
    (let C := exec (addAdd "linear") (addAddSchedLinear ++ List.replicate 40 1 ++ List.replicate 40 0)
     done 0 C = true ∧ done 1 C = true ∧ C.mem memC = C.aux storeC) := by
  refine ⟨by decide, by decide +kernel, by decide +kernel⟩


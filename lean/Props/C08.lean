import RulioModel.Spec

/-! # C08 — deleteWith cascade (placeholder obligations until the State proofs land) -/

/-- the closure of a cycle a ↔ b starting from a deletes both and nothing else -/
theorem closure_cycle :
    closure [("a", [("deleteWith", .arr [.str "b"])]), ("b", [("deleteWith", .arr [.str "a"])]), ("c", [("x", .num 1)])] ["a"]
      = ["a", "b"] := by decide

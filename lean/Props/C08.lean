import RulioProofs.StateC08

/-! # C08 — deleteWith removes exactly the dependents, durably, and terminates (property theorems only)

Model: `RulioModel/State.lean` (`St.irem/ideps/iremAll/isearch…` = `IndexedState.rem/deleteDependencies/search`,
`St.lrem/…` = `LinearState`), specification: `closure`/`specRem` in `RulioModel/Spec.lean`, invariants and the
corrected recursion budget `St.fuelOK`/`St.remOK` in `RulioModel/StateInv.lean`.

Hypotheses used below:
* `WF s`          — unique fact ids, no variable-looking id, and (indexed state) the term index lists every stored
                    fact under each of its terms, id lists without duplicates; holds for every reachable state
                    (`reachable_wf`);
* `NoneExpiredBut s id now` — no stored fact *other than the root `id`* is expired at `now` (an expired dependent
                    would start another cascade in the middle of this one); this covers `Rem id` on a state
                    without expired facts (`NoneExpired.but`) and the deletion of `id` triggered by its own expiry;
* `isVar id = false`  — the root id is not variable-looking (known finding: such an id is a pattern variable);
* `UnindexOK s`   — (indexed state, only for "rem does not fail") every stored rule can leave the pattern index. -/

/-! ## the matcher on the cascade's pattern -/

/-- **Matcher lemma.** For a constant `id`, the pattern `{"deleteWith":[id]}` matches a fact iff the fact has a key
`deleteWith` holding an *array* that contains the *string* `id` (duplicates, non-array values, other element types
and `?`-strings inside the fact's array do not matter); it then yields exactly one empty binding and never fails. -/
theorem dep_pattern_match (id : String) (hid : isVar id = false) (fact : Obj) :
    matchesJ (.obj [("deleteWith", .arr [.str id])]) (.obj fact)
      = .ok (if (deleteWithOf fact).contains id then [[]] else []) :=
  matchesJ_depPat id hid fact

/-! ## the specification is the least closed set -/

/-- the closure contains its roots -/
theorem closure_contains_roots (F : List (String × Obj)) (roots : List String) :
    ∀ r, r ∈ roots → r ∈ closure F roots := closure_roots F roots

/-- the closure is closed: a stored fact naming a member in `deleteWith` is a member
(so `|facts|` rounds of `depsStep` are enough) -/
theorem closure_is_closed (F : List (String × Obj)) (roots : List String) (k d : String) (fact : Obj)
    (hm : (k, fact) ∈ F) (hd : d ∈ closure F roots) (hdep : d ∈ deleteWithOf fact) : k ∈ closure F roots :=
  closure_closed F roots hm hd (by simpa [depOn] using hdep)

/-- the closure is the least such set -/
theorem closure_is_least (F : List (String × Obj)) (roots : List String) (X : String → Prop)
    (hroots : ∀ r, r ∈ roots → X r)
    (hstep : ∀ k fact d, (k, fact) ∈ F → X d → d ∈ deleteWithOf fact → X k) :
    ∀ k, k ∈ closure F roots → X k :=
  closure_least F roots X hroots (fun k fact d hm hX hdep => hstep k fact d hm hX (by simpa [depOn] using hdep))

/-! ## termination -/

/-- a reachable indexed state on which the budget `6·|facts|+12` of `St.fuel` is too small: nine ids that were
added with `deleteWith:["x"]`, overwritten, then removed stay (stale) in the term index under `deleteWith` and `x` -/
def staleOps : List StOp :=
  (List.range 9).flatMap (fun i =>
    [StOp.add ("a" ++ toString i) [("deleteWith", J.arr [.str "x"])] 0,
     StOp.add ("a" ++ toString i) [("k", J.num 1)] 0,
     StOp.rem ("a" ++ toString i) 0])

def isFuelErr {α} : Except LErr α → Bool
  | .error e => e == "fuel"
  | .ok _ => false

/-- **Negative (model budget, not the Go code).** After `staleOps` the indexed state is empty, the budget
`6·|facts|+12 = 12` runs out in `Rem "x"` (the Go code has no budget and returns `false, nil`);
with the corrected budget the same call succeeds. -/
theorem fuel_insufficient :
    (St.run { kind := .indexed } staleOps).facts = [] ∧
    isFuelErr (St.irem (6 * (St.run { kind := .indexed } staleOps).facts.length + 12)
      (St.run { kind := .indexed } staleOps) "x" 0).2 = true ∧
    ((St.run { kind := .indexed } staleOps).remOK "x" 0).2 = .ok false := by
  refine ⟨by decide +kernel, by decide +kernel, ?_⟩
  have : (match ((St.run { kind := .indexed } staleOps).remOK "x" 0).2 with
      | .ok false => true | _ => false) = true := by decide +kernel
  split at this
  · assumption
  · cases this

/-- **cascade_terminates.** With the budget `St.fuelOK s = 6·|facts| + 12 + tiWidth` the recursion of `Rem` never
runs out of fuel — for both state kinds, every id (present, absent, dangling, variable-looking), and every
dependency graph (cycles, self-loops, fans, chains). -/
theorem cascade_terminates (s : St) (now : Int) (id : String) (hwf : WF s) (hne : NoneExpiredBut s id now) :
    (s.remOK id now).2 ≠ .error "fuel" :=
  remWith_ne_fuel hwf id hne (Nat.le_refl _)

/-- **Fuel monotonicity.** Every budget at least `St.fuelOK s` gives the same state and the same result:
the budget is a proof device, not part of the behaviour. -/
theorem cascade_fuel_irrelevant (s : St) (now : Int) (id : String) (hwf : WF s) (hne : NoneExpiredBut s id now)
    (g : Nat) (hg : s.fuelOK ≤ g) : s.remWith g id now = s.remOK id now :=
  remWith_mono hwf id hne hg

/-- for the linear state the model's present budget `St.fuel` is already sufficient: `St.rem` is `St.remOK` -/
theorem rem_linear_budget_ok (s : St) (now : Int) (id : String) (hwf : WF s) (hk : s.kind = .linear)
    (hne : NoneExpiredBut s id now) : s.rem id now = s.remOK id now :=
  rem_eq_remOK_linear hwf hk id hne

/-- for the indexed state `St.fuel` is sufficient while the longest term-index list is at most `3·|facts|+6`
(in particular when the index has no stale ids) -/
theorem rem_indexed_budget_ok (s : St) (now : Int) (id : String) (hwf : WF s) (hk : s.kind = .indexed)
    (hne : NoneExpiredBut s id now) (hw : tiWidth s.ti ≤ 3 * s.facts.length + 6) : s.rem id now = s.remOK id now :=
  rem_eq_remOK_indexed hwf hk id hne hw

/-! ## well-formedness is an invariant -/

/-- `add` preserves well-formedness (successful or not) -/
theorem wf_add (s : St) (hwf : WF s) (given : String) (x : Obj) (now : Int) : WF (s.add given x now).1 :=
  hwf.add given x now

/-- `rem` preserves well-formedness (successful or not, with either budget) -/
theorem wf_rem (s : St) (hwf : WF s) (id : String) (now : Int) :
    WF (s.remOK id now).1 ∧ WF (s.rem id now).1 :=
  ⟨hwf.le (remOK_le s id now), hwf.le (rem_le s id now)⟩

/-- **reachable_wf.** Every state reachable from the empty state of either kind by any history of
`add`/`rem` operations is well-formed. -/
theorem reachable_wf (k : Kind) (ops : List StOp) : WF (St.run { kind := k } ops) :=
  run_wf (wf_empty k) ops

/-- removal never makes a fact expire: `NoneExpired` is preserved by `rem` -/
theorem noneExpired_rem (s : St) (id : String) (now : Int) (hne : NoneExpired s now) :
    NoneExpired (s.remOK id now).1 now :=
  (remOK_le s id now).noneExpired hne

/-! ## exactness -/

/-- **cascade_exact.** When `Rem id` returns without error, the facts left are *exactly* `specRem s.facts id`
— the same list, in the same order: the deleted ids are the least set containing `id` and closed under
"names a deleted id in `deleteWith`" (see `closure_is_closed`/`closure_is_least`), nothing else is deleted —
and the reported flag says whether `id` itself was stored. -/
theorem cascade_exact (s s' : St) (now : Int) (id : String) (b : Bool) (hwf : WF s) (hne : NoneExpiredBut s id now)
    (hid : isVar id = false) (hr : s.remOK id now = (s', .ok b)) :
    s'.facts = specRem s.facts id ∧ b = amHas s.facts id := by
  obtain ⟨D, hD, hgone, hb⟩ := remWith_post hwf hne hid hr
  exact ⟨(cascaded_exact hD hgone).1, hb⟩

/-- **Rem does not fail**: in the linear state always, in the indexed state when every stored rule can leave the
pattern index (`UnindexOK`, see `cascade_aborts_on_unindex_error` for what happens otherwise). -/
theorem cascade_ok (s : St) (now : Int) (id : String) (hwf : WF s) (hne : NoneExpiredBut s id now)
    (hid : isVar id = false) (hun : s.kind = .indexed → UnindexOK s) :
    ∃ s' b, s.remOK id now = (s', .ok b) :=
  remWith_ok hwf hne hid hun (Nat.le_refl _)

/-- both state kinds delete the same facts -/
theorem cascade_kinds_agree (s t s' t' : St) (now : Int) (id : String) (b c : Bool)
    (hs : WF s) (ht : WF t) (hsn : NoneExpiredBut s id now) (htn : NoneExpiredBut t id now) (hfacts : s.facts = t.facts)
    (hid : isVar id = false) (hrs : s.remOK id now = (s', .ok b)) (hrt : t.remOK id now = (t', .ok c)) :
    s'.facts = t'.facts ∧ b = c := by
  obtain ⟨h1, h2⟩ := cascade_exact s s' now id b hs hsn hid hrs
  obtain ⟨h3, h4⟩ := cascade_exact t t' now id c ht htn hid hrt
  rw [h1, h3, h2, h4, hfacts]; exact ⟨rfl, rfl⟩

/-! ## durability -/

/-- **cascade_durable.** Every deleted fact id is also removed from storage, and no storage entry outside the
deleted closure changes (storage is touched only through the ids of the closure). -/
theorem cascade_durable (s s' : St) (now : Int) (id : String) (b : Bool) (hwf : WF s) (hne : NoneExpiredBut s id now)
    (hid : isVar id = false) (hr : s.remOK id now = (s', .ok b)) :
    (∀ k, k ∈ closure s.facts [id] → amHas s.facts k = true → amGet s'.store k = none) ∧
    (∀ k, k ∉ closure s.facts [id] → amGet s'.store k = amGet s.store k) := by
  obtain ⟨D, hD, hgone, _⟩ := remWith_post hwf hne hid hr
  obtain ⟨_, hsub, hsup⟩ := cascaded_exact hD hgone
  constructor
  · intro k hk hhas
    have hkeys : k ∈ keysOf s.facts := by
      rw [amHas_eq_isSome] at hhas; exact amGet_isSome_iff_st.1 hhas
    rw [hD.store, amGet_filterOut, if_pos (hsup k hk hkeys)]
  · intro k hk
    rw [hD.store, amGet_filterOut, if_neg (fun h => hk (hsub k h))]

/-! ## deletion by expiry -/

/-- `NoneExpired` is the special case used for an explicit `Rem` on a state without expired facts -/
theorem noneExpired_but (s : St) (now : Int) (hne : NoneExpired s now) (id : String) : NoneExpiredBut s id now :=
  hne.but id

/-- **Deletion triggered by expiry.** `Get id` on a stored fact that has expired (no other stored fact being expired)
removes it through the same cascade: the result is not-found, exactly `specRem s.facts id` is left, and the storage
entries of the closure are gone. For the linear state `St.get` (budget `St.fuel`) is this `St.getOK`. -/
theorem cascade_by_expiry (s : St) (now : Int) (id : String) (fact : Obj) (hwf : WF s)
    (hg : amGet s.facts id = some fact) (hx : checkExpiration fact now = .ok true)
    (hne : NoneExpiredBut s id now) (hun : s.kind = .indexed → UnindexOK s) :
    ∃ s', s.getOK id now = (s', .error "notFound") ∧ s'.facts = specRem s.facts id ∧
      (∀ k, k ∈ closure s.facts [id] → amHas s.facts k = true → amGet s'.store k = none) ∧
      (∀ k, k ∉ closure s.facts [id] → amGet s'.store k = amGet s.store k) ∧
      (s.kind = .linear → s.get id now = s.getOK id now) := by
  obtain ⟨s', b, hr, hget⟩ := getOK_expired hwf hg hx hne hun
  have hid : isVar id = false := hwf.ids (id, fact) (amGet_some_mem hg)
  obtain ⟨h1, h2⟩ := cascade_durable s s' now id b hwf hne hid hr
  exact ⟨s', hget, (cascade_exact s s' now id b hwf hne hid hr).1, h1, h2,
    fun hk => get_eq_getOK_linear hwf hk hne⟩

/-! ## a rule that cannot leave the pattern index blocks the cascade (indexed state) -/

/-- a scheduled rule whose `when` holds an array that the pattern index cannot sort -/
def stuckRule : Obj :=
  [("rule", .obj [("schedule", .str "+1h"), ("when", .obj [("a", .arr [.num 1, .str "x"])]),
                  ("action", .obj [("code", .str "1")])])]

def stuckOps : List StOp :=
  [StOp.add "r1" stuckRule 0, StOp.add "d1" [("deleteWith", J.arr [.str "r1"]), ("k", .str "v")] 0]

/-- **Negative (confirmed on the real code).** `AddFact` accepts the scheduled rule `stuckRule` in the indexed state
(scheduled rules are not put into the pattern index), but `RemFact "r1"` then fails with `notSortable` because it
tries to remove the `when` pattern from the pattern index: the rule stays, and so does its dependent `d1`.
The linear state deletes both. -/
theorem cascade_aborts_on_unindex_error :
    ((St.run { kind := .indexed } stuckOps).remOK "r1" 0).2 = .error "notSortable" ∧
    ((St.run { kind := .indexed } stuckOps).remOK "r1" 0).1.facts.map (·.1) = ["r1", "d1"] ∧
    ((St.run { kind := .linear } stuckOps).remOK "r1" 0).1.facts = [] := by
  refine ⟨?_, by decide +kernel, ?_⟩
  · have : (match ((St.run { kind := .indexed } stuckOps).remOK "r1" 0).2 with
        | .error e => e == "notSortable" | _ => false) = true := by decide +kernel
    split at this
    · rename_i e he; rw [he]; simp at this; rw [this]
    · cases this
  · have hwf := reachable_wf .linear stuckOps
    have hne : NoneExpired (St.run { kind := .linear } stuckOps) 0 := noneExpired_of_check (by decide +kernel)
    obtain ⟨s', b, hr⟩ := cascade_ok _ 0 "r1" hwf (hne.but _) (by decide +kernel) (fun h => by rw [run_kind] at h; cases h)
    rw [hr, (cascade_exact _ s' 0 "r1" b hwf (hne.but _) (by decide +kernel) hr).1]
    decide +kernel

/-! ## non-vacuity -/

/-- a cycle `a ↔ b`, a self-loop `c` that also names `a`, a fact `d` hanging on the dangling id `zz`,
and an unrelated fact `e` -/
def cycleOps : List StOp :=
  [StOp.add "a" [("deleteWith", J.arr [.str "b"])] 0, StOp.add "b" [("deleteWith", J.arr [.str "a"])] 0,
   StOp.add "c" [("deleteWith", J.arr [.str "c", .str "a"])] 0, StOp.add "d" [("deleteWith", J.arr [.str "zz"])] 0,
   StOp.add "e" [("x", J.num 1)] 0]

/-- the hypotheses of the theorems above hold for a non-trivial state of each kind (so `Rem` succeeds), and the
conclusion is the expected one: deleting `a` deletes `a`, `b`, `c` and keeps `d`, `e`; deleting the dangling id
`zz` deletes `d` only -/
example (k : Kind) :
    WF (St.run { kind := k } cycleOps) ∧ NoneExpired (St.run { kind := k } cycleOps) 0 ∧
    (k = .indexed → UnindexOK (St.run { kind := k } cycleOps)) ∧
    (∃ s' b, (St.run { kind := k } cycleOps).remOK "a" 0 = (s', .ok b) ∧ s'.facts.map (·.1) = ["d", "e"] ∧ b = true) ∧
    (∃ s' b, (St.run { kind := k } cycleOps).remOK "zz" 0 = (s', .ok b) ∧
      s'.facts.map (·.1) = ["a", "b", "c", "e"] ∧ b = false) := by
  have hwf := reachable_wf k cycleOps
  have hne : NoneExpired (St.run { kind := k } cycleOps) 0 :=
    noneExpired_of_check (by cases k <;> decide +kernel)
  have hun : UnindexOK (St.run { kind := k } cycleOps) := unindexOK_of_check (by cases k <;> decide +kernel)
  refine ⟨hwf, hne, fun _ => hun, ?_, ?_⟩
  · obtain ⟨s', b, hr⟩ := cascade_ok _ 0 "a" hwf (hne.but _) (by decide +kernel) (fun _ => hun)
    obtain ⟨h1, h2⟩ := cascade_exact _ s' 0 "a" b hwf (hne.but _) (by decide +kernel) hr
    refine ⟨s', b, hr, ?_, ?_⟩
    · rw [h1]; cases k <;> decide +kernel
    · rw [h2]; cases k <;> decide +kernel
  · obtain ⟨s', b, hr⟩ := cascade_ok _ 0 "zz" hwf (hne.but _) (by decide +kernel) (fun _ => hun)
    obtain ⟨h1, h2⟩ := cascade_exact _ s' 0 "zz" b hwf (hne.but _) (by decide +kernel) hr
    refine ⟨s', b, hr, ?_, ?_⟩
    · rw [h1]; cases k <;> decide +kernel
    · rw [h2]; cases k <;> decide +kernel

/-- a fact `t` that expires at time 5, a dependent `u`, an unrelated `v` -/
def expiryOps : List StOp :=
  [StOp.add "t" [("expires", J.num 5), ("k", .num 1)] 0, StOp.add "u" [("deleteWith", J.arr [.str "t"])] 0,
   StOp.add "v" [("x", J.num 1)] 0]

/-- the hypotheses of `cascade_by_expiry` hold at time 10 for both kinds: `Get "t"` answers not-found and leaves `v` -/
example (k : Kind) : ∃ s', (St.run { kind := k } expiryOps).getOK "t" 10 = (s', .error "notFound") ∧
    s'.facts.map (·.1) = ["v"] := by
  obtain ⟨fact, hg, hx⟩ := expired_of_check (s := St.run { kind := k } expiryOps) (id := "t") (now := 10)
    (by cases k <;> decide +kernel)
  obtain ⟨s', h1, h2, _⟩ := cascade_by_expiry _ 10 "t" fact (reachable_wf k expiryOps) hg hx
    (noneExpiredBut_of_check (by cases k <;> decide +kernel))
    (fun _ => unindexOK_of_check (by cases k <;> decide +kernel))
  exact ⟨s', h1, by rw [h2]; cases k <;> decide +kernel⟩

import RulioModel.C13
import RulioProofs.C13
import RulioProofs.C13NoPanic
import RulioProofs.C13Repair

/-! # C13 — no input can crash, hang or poison a location (property theorems only)

The model (`RulioModel/C13.lean`) wraps the sequential State/Location model with the state's RW lock. Its functions are
total by construction; what is proved here is (1) that the places where the Go source can panic are exactly the ones the
model accounts for (tables regenerated from the source on every run), (2) that no public operation can leave the state
lock behind, whatever panics inside a State method (every lock region with code able to panic releases by `defer`), so a
serving location answers every operation and keeps serving, (3) that away from the enumerated sites nothing panics,
(4) what the repaired source does with the inputs of the five repaired defects (non-map `when` / `when.pattern`,
scheduled rules carrying one, non-map `rule` in the linear state): errors and ordinary answers, (5) the negative
theorems that remain. -/

open C13

/-! ## The tie: tables regenerated from the Go source -/

/-- Every unchecked type assertion, explicit `panic`, constant index and condition-less loop of the non-test files of
core, sys and service is a row the model accounts for (classified `safe`, `modelled`, `unreachable` or `outOfScope`
in `C13.accounted`), and there is no other. A new or removed row changes the regenerated table and breaks this. -/
theorem asserts_accounted : C13Gen.sites = accounted.map (·.1) := by rfl

/-- The lock acquisitions of the two State implementations and of Location, and whether each release is deferred, are
the ones the model assumes. Removing or adding a `defer`, or a lock call, breaks this. -/
theorem locks_accounted : C13Gen.lockUses = lockTable := by rfl

/-- every site the table calls `modelled` is one of the model's panic results, and every panic result of the model is
a `modelled` row of the table, the nil dereference of ListRules (which is no assertion and has no row) or the
hypothetical panic of the fault oracle (which stands for the places that are no row) -/
theorem modelled_sites_are_the_models :
    (∀ s : PanicSite, s ≠ .listRulesNil → s ≠ .unlisted → ∃ row ∈ accounted, row.1.func = s.name ∧ row.2.isModelled = true) ∧
    (∀ row ∈ accounted, row.2.isModelled = true → ∃ s : PanicSite, row.1.func = s.name) :=
  modelled_sites_ok

/-- After the repairs no row of the table is `modelled` any more: no unchecked assertion, explicit panic or constant index of
core, sys and service is reachable from public input (the last one, the `u.(string)` of `Service.ProcessRequest`, was
repaired in /repo). A new unchecked assertion is a new row of the regenerated table and breaks `asserts_accounted`. -/
theorem no_row_is_modelled : ∀ row ∈ accounted, row.2.isModelled = false := by
  have key : (accounted.all (fun row => !row.2.isModelled)) = true := by decide +kernel
  intro row hmem
  rw [List.all_eq_true] at key
  simpa using key row hmem

/-! ## Lock discipline read from the extracted table -/

/-- `no_method_leaks_its_lock` (replaces `leaks_enumerated`, which listed `IndexedState.Add` and `.Search` as leaking).
In BOTH states no method can leave its lock behind, whatever panics inside it: every lock region that contains code able
to panic releases by `defer` (second clause), and each of the twelve Go functions does occur in the extracted table, so
that clause is not vacuous (third clause). -/
theorem no_method_leaks_its_lock :
    (∀ (kind : Kind) (m : Meth), leakOf kind m = none) ∧
    (∀ (kind : Kind) (m : Meth), panicUnderLock kind m = true → deferredIn C13Gen.lockUses (methName kind m) = true) ∧
    (∀ (kind : Kind) (m : Meth), (C13Gen.lockUses.any (fun u => u.func == methName kind m)) = true) := by
  refine ⟨?_, ?_, ?_⟩ <;> intro kind m <;> cases kind <;> cases m <;> decide +kernel

/-! ## Totality with the location invariant -/

/-- `total_and_serving`, lock part. For every public operation, every argument and every state: started on a
serving location (nobody dead holds the state lock) the operation answers — it never blocks — and unless it ends in a
panic the location is still serving afterwards. (Holds under ANY lock discipline `k.locks`; see `no_operation_poisons`
for the discipline of the source, where the proviso about panics disappears.) -/
theorem total_and_serving (op : PubOp) (k : KLoc) (h : Serving k) :
    (run op k).2.isHang = false ∧ ((run op k).2.isPanic = false → Serving (run op k).1) :=
  run_serving op k h

/-- ... and over whole histories: as long as no operation panics, no operation of the history blocks and the location
serves after each of them. -/
theorem history_serving (ops : List PubOp) (k : KLoc) (h : Serving k)
    (hp : ∀ r ∈ (runAll ops k).2, r.2.isPanic = false) :
    (∀ r ∈ (runAll ops k).2, r.2.isHang = false) ∧ Serving (runAll ops k).1 :=
  runAll_serving ops k h hp

/-- A linear location is never poisoned: it serves after every operation, panics included. -/
theorem linear_always_serving (op : PubOp) (k : KLoc) (hk : k.loc.st.kind = .linear) (hl : k.locks = C13Gen.lockUses) (h : Serving k) :
    Serving (run op k).1 :=
  run_serving_linear op k hk hl h

/-- `no_operation_poisons` (strengthens `total_and_serving` and `linear_always_serving`; false before the repair for the
indexed state). Under the lock discipline of the source, for BOTH state kinds, every public operation with every
argument, and EVERY fault oracle — i.e. whichever State method bodies panic, on whatever memory, leaving whatever
memory behind: started on a serving location the operation answers (it never blocks) and the location is still serving
afterwards, panic or not. No input, and no panic at a place the tables do not list, can poison a location. -/
theorem no_operation_poisons (op : PubOp) (k : KLoc) (hl : k.locks = C13Gen.lockUses) (h : Serving k) :
    (run op k).2.isHang = false ∧ Serving (run op k).1 ∧ (run op k).1.locks = C13Gen.lockUses :=
  run_never_poisons op k hl h

/-- ... and over whole histories, without any proviso: no operation of any history blocks, whatever panicked before it,
and the location serves at the end. -/
theorem no_history_poisons (ops : List PubOp) (k : KLoc) (hl : k.locks = C13Gen.lockUses) (h : Serving k) :
    (∀ r ∈ (runAll ops k).2, r.2.isHang = false) ∧ Serving (runAll ops k).1 :=
  runAll_never_poisons ops k hl h

/-! ## Away from the enumerated sites -/

/-- `no_panic_off_sites` (was `no_panic_off_sites_partial`: three methods of the indexed state, under an invariant on the
stored rule bodies). Now for EVERY public operation (queries and event processing with their nested searches included),
both state kinds, every argument and every store, with no hypothesis on the stored facts: on a serving location whose
State method bodies do not panic (`FaultFree`: the model's reading of "away from the sites"; no input is known to make
one panic on the repaired source, and the malformed stream of the check searches for one) the operation answers, the
location stays such a location, and the only panic it can end in is the nil dereference of the non-inherited `ListRules`
after a failed search (`listRulesNil`, outside every lock). -/
theorem no_panic_off_sites (op : PubOp) (k : KLoc) (h : Serving k) (hf : FaultFree k) :
    (run op k).2.isHang = false ∧ Serving (run op k).1 ∧ FaultFree (run op k).1 ∧
    (∀ site, (run op k).2 = .panic site → site = .listRulesNil ∧ op.localList = true) :=
  run_no_panic_off_sites op k h hf

/-! ## Validated paths -/

/-- `validated_paths_safe` (was `validated_paths_safe_partial`, which needed "neither `when` nor `when.pattern` is JSON
null"). `AddRule` with ANY rule document — validated by `RuleFromMap` or refused by it, `null`s included — on a serving
location whose State method bodies do not panic: an answer or an error, never a panic, never a hang, and the location
keeps serving. -/
theorem validated_paths_safe (c : Ctx) (id : String) (rule : Obj) (now : Int) (k : KLoc) (h : Serving k) (hf : FaultFree k) :
    (run (.addRule c id rule now) k).2.isPanic = false ∧ (run (.addRule c id rule now) k).2.isHang = false ∧
    Serving (run (.addRule c id rule now) k).1 ∧ FaultFree (run (.addRule c id rule now) k).1 :=
  run_clean (.addRule c id rule now) k h hf rfl

/-- what `RuleFromMap` does guarantee: `when` is absent, `null`, or a map whose `pattern` is absent, `null` or a map -/
theorem ruleFromMap_checks_when (r : Obj) (rm : RuleM) (h : ruleFromMap r = .ok rm) :
    r.get? "when" = none ∨ r.get? "when" = some .null ∨
    ∃ w, r.get? "when" = some (.obj w) ∧
      (Obj.get? w "pattern" = none ∨ Obj.get? w "pattern" = some .null ∨ ∃ p, Obj.get? w "pattern" = some (.obj p)) :=
  ruleFromMap_when r rm h

/-! ## The repaired paths: what the inputs of the five repaired defects do now -/

/-- a fresh location over the indexed / the linear state -/
def fresh (kind : Kind) : KLoc := { loc := { name := "a", st := { kind := kind } } }

/-- The repaired `GetRulePatterns` against the shared sequential model (`RulioModel/Fact.lean`, which keeps an explicit
panic for the unrepaired source): wherever that one answers, the repaired one answers the same; where that one panics
(exactly the documents `badWhen`) the repaired one reports "no patterns". -/
theorem repair_is_conservative (r : Obj) :
    (∀ p, getRulePattern r = .ok p → getRulePatternR r = p) ∧
    (∀ e, getRulePattern r = .error e → getRulePatternR r = none ∧ badWhen r = true) ∧
    (badWhen r = true → noPattern r = true) :=
  ⟨getRulePatternR_conservative r, getRulePatternR_of_panic r, badWhen_noPattern r⟩

/-- `indexed_add_bad_when_rejected` (replaces N1 `indexed_add_bad_when_poisons` and N1b). For EVERY indexed location
that serves (with or without the cron hooks of a System), every id, time and fact whose rule body has no `schedule` and a
`when` (or `when.pattern`) that is not a map — the input that used to panic in GetRulePatterns under the write lock:
the State call of AddFact/AddRule answers with an error, the location still serves, and facts, storage and term index are
exactly as before (first clause). Concretely (second clause): `AddFact {"rule":{"when":5}}` on a fresh location is an
error, nothing is stored, and the canary requests after it answer. -/
theorem indexed_add_bad_when_rejected :
    (∀ (k : KLoc) (id : String) (x : Obj) (now : Int) (r : Obj),
      k.loc.st.kind = .indexed → Serving k → k.fault .add k.loc.st = none →
      x.get? "rule" = some (.obj r) → Obj.has r "schedule" = false → badWhen r = true →
      (∃ e, (kAdd id x now k).2 = .err e) ∧ Serving (kAdd id x now k).1 ∧
      (kAdd id x now k).1.loc.st.facts = k.loc.st.facts ∧ (kAdd id x now k).1.loc.st.store = k.loc.st.store ∧
      (kAdd id x now k).1.loc.st.ti = k.loc.st.ti) ∧
    (let bad : Obj := [("rule", .obj [("when", .num 5)])]
     let k1 := (kAddFact {} "m" bad 100 (fresh .indexed)).1
     (kAddFact {} "m" bad 100 (fresh .indexed)).2.cls = "err" ∧
     k1.lock = .free ∧ k1.loc.st.facts = [] ∧ k1.loc.st.store = [] ∧
     (kGetFact {} "m" 100 k1).2.cls = "err" ∧
     (kAddFact {} "cnry" [("cnryKey", .num 42)] 100 k1).2.cls = "ok" ∧
     (kGetFact {} "cnry" 100 (kAddFact {} "cnry" [("cnryKey", .num 42)] 100 k1).1).2.cls = "ok" ∧
     (kProcessEvent {} [("cnryEv", .num 7)] 100 k1).2.cls = "ok" ∧
     (kRemFact {} "cnry" 100 (kAddFact {} "cnry" [("cnryKey", .num 42)] 100 k1).1).2.cls = "ok") :=
  ⟨fun k id x now r hk hs hf hx hsch hb => kAdd_rejects k id x now r hk hs hf hx hsch (badWhen_noPattern r hb),
   by decide +kernel⟩

/-- N1b, repaired: the same through a `when.pattern` that is not a map, over a rule that is already stored under the id:
the new document is refused, the stored rule stays, and the pattern index still dispatches the event `{"a":1}` to it. -/
theorem indexed_add_bad_pattern_rejected :
    let good : Obj := [("rule", .obj [("when", .obj [("pattern", .obj [("a", .num 1)])])])]
    let bad : Obj := [("rule", .obj [("when", .obj [("pattern", .arr [])])])]
    let k1 := (kAddFact {} "m" good 100 (fresh .indexed)).1
    (kAddFact {} "m" good 100 (fresh .indexed)).2.cls = "ok" ∧
    (kAddFact {} "m" bad 100 k1).2.cls = "err" ∧ (kAddFact {} "m" bad 100 k1).1.lock = .free ∧
    (kAddFact {} "m" bad 100 k1).1.loc.st.facts.map (·.1) = ["m"] ∧
    (kGetRule {} "m" 100 (kAddFact {} "m" bad 100 k1).1).2.cls = "ok" ∧
    (match piSearch (kAddFact {} "m" bad 100 k1).1.loc.st.ri [("a", .num 1)] with | .ok ids => ids == ["m"] | _ => false) = true := by
  decide +kernel

/-- N0, repaired (`addRule_null_pattern_poisons` before). The validated path: for every rule that passes `RuleFromMap`
and `setExpires`, has no `schedule` and no pattern (`"when":{"pattern":null}` is the one shape `RuleFromMap` lets
through), the State call of `AddRule` on a serving indexed location is refused and changes nothing (first clause).
Concretely: `AddRule {"when":{"pattern":null},"action":…}` passes `RuleFromMap` and is answered with the syntax error of
`indexRule`, the location serves; `{"when":null,"schedule":…}` is accepted and stored, and removing that rule works. -/
theorem addRule_null_pattern_rejected :
    (∀ (k : KLoc) (id : String) (rule rule' : Obj) (now : Int) (rm : RuleM) (expiring : Bool) (expires : Int),
      k.loc.st.kind = .indexed → Serving k → k.fault .add k.loc.st = none →
      ruleFromMap rule = .ok rm → setExpires rule now = .ok (rule', expiring, expires) →
      Obj.has rule' "schedule" = false → noPattern rule' = true →
      (∃ e, (kAdd id (ruleWrapper rule' expiring expires) now k).2 = .err e) ∧
      Serving (kAdd id (ruleWrapper rule' expiring expires) now k).1 ∧
      (kAdd id (ruleWrapper rule' expiring expires) now k).1.loc.st.facts = k.loc.st.facts) ∧
    (let act : J := .obj [("code", .str "(1)")]
     let r1 : Obj := [("when", .obj [("pattern", .null)]), ("action", act)]
     let r2 : Obj := [("when", .null), ("schedule", .str "0 0 1 1 *"), ("action", act)]
     let k1 := (kAddRule {} "m" r1 100 (fresh .indexed)).1
     let k2 := (kAddRule {} "m" r2 100 (fresh .indexed)).1
     (ruleFromMap r1).isOk = true ∧
     (match (kAddRule {} "m" r1 100 (fresh .indexed)).2 with | .err e => e == "syntax" | _ => false) = true ∧
     k1.lock = .free ∧ k1.loc.st.facts = [] ∧
     (kAddFact {} "cnry" [("cnryKey", .num 42)] 100 k1).2.cls = "ok" ∧
     (kAddRule {} "m" r2 100 (fresh .indexed)).2.cls = "ok" ∧
     (kGetRule {} "m" 100 k2).2.cls = "ok" ∧
     (kRemRule {} "m" 100 k2).2.cls = "ok" ∧ (kRemRule {} "m" 100 k2).1.lock = .free ∧
     (kGetRule {} "m" 100 (kRemRule {} "m" 100 k2).1).2.cls = "err") :=
  ⟨fun k id rule rule' now rm expiring expires hk hs hf _ _ hsch hp =>
     let h := kAdd_rejects k id (ruleWrapper rule' expiring expires) now rule' hk hs hf (wrapper_rule rule' expiring expires) hsch hp
     ⟨h.1, h.2.1, h.2.2.1⟩,
   by decide +kernel⟩

/-- N2, repaired (`scheduled_bad_when_panics_later` before). A scheduled rule body is stored without a look at its
`when`. For every state, id and stored fact whose rule body has no pattern (or is no map), the rule part of `rem` —
which also runs when the fact is overwritten or purged — has nothing to do and cannot fail (first clause). Concretely:
the fact is stored, overwriting it works, removing it works and it is gone. -/
theorem scheduled_bad_when_handled :
    (∀ (s : St) (id : String) (fact : Obj), (∀ r, fact.get? "rule" = some (.obj r) → noPattern r = true) →
      unindexOfR s id fact = .ok s) ∧
    (let bad : Obj := [("rule", .obj [("schedule", .str "x"), ("when", .num 5)])]
     let k1 := (kAddFact {} "m" bad 100 (fresh .indexed)).1
     let k2 := (kAddFact {} "m" [("z", .num 1)] 100 k1).1
     (kAddFact {} "m" bad 100 (fresh .indexed)).2.cls = "ok" ∧
     (kAddFact {} "m" [("z", .num 1)] 100 k1).2.cls = "ok" ∧ k2.lock = .free ∧
     (kGetFact {} "m" 100 k2).2.cls = "ok" ∧
     (kRemFact {} "m" 100 k1).2.cls = "ok" ∧ (kRemFact {} "m" 100 k1).1.lock = .free ∧
     (kRemFact {} "m" 100 k1).1.loc.st.facts = [] ∧
     (kGetFact {} "m" 100 (kRemFact {} "m" 100 k1).1).2.cls = "err") :=
  ⟨unindexOfR_noop, by decide +kernel⟩

/-- N3, repaired (`expiry_under_search_leaks_read_lock` before). When such a fact expires, the purge goes through: for
every fuel, state and stored fact of that kind, `rem` is the deletion followed by the cascade, like for any other fact
(first clause). Concretely: the search that finds the expired fact purges it and answers (no result), the lock is free,
the fact, its storage entry and its index entries are gone, writers and readers keep being served; the same through
`GetFact`. -/
theorem expiry_of_bad_rule_purges :
    (∀ (f : Nat) (s : St) (id : String) (now : Int) (fact : Obj), amGet s.facts id = some fact →
      (∀ r, fact.get? "rule" = some (.obj r) → noPattern r = true) →
      iremR (f + 1) s id now =
        ((idepsR f (idelR s id fact) id now).1, (idepsR f (idelR s id fact) id now).2.map (fun _ => true))) ∧
    (let bad : Obj := [("zz", .num 1), ("ttl", .num 1), ("rule", .obj [("schedule", .str "x"), ("when", .num 5)])]
     let k1 := (kAddFact {} "m" bad 100 (fresh .indexed)).1
     let k2 := (kSearchFacts {} [("zz", .str "?x")] false 102 k1).1
     (kAddFact {} "m" bad 100 (fresh .indexed)).2.cls = "ok" ∧
     (match (kSearchFacts {} [("zz", .str "?x")] false 102 k1).2 with | .ok found => found.isEmpty | _ => false) = true ∧
     k2.lock = .free ∧ k2.loc.st.facts = [] ∧ k2.loc.st.store = [] ∧ k2.loc.st.ti = [] ∧
     (kAddFact {} "cnry" [("cnryKey", .num 42)] 102 k2).2.cls = "ok" ∧
     (kGetFact {} "cnry" 102 (kAddFact {} "cnry" [("cnryKey", .num 42)] 102 k2).1).2.cls = "ok" ∧
     (kGetFact {} "m" 102 k1).2.cls = "err" ∧ (kGetFact {} "m" 102 k1).1.lock = .free ∧
     (kGetFact {} "m" 102 k1).1.loc.st.facts = []) :=
  ⟨iremR_noPattern, by decide +kernel⟩

/-- N4, repaired (`linear_bad_rule_panics_every_event` before). The linear state still accepts `{"rule":5}`. The rule
scan steps over a live fact whose `rule` value is not a map — no error, no candidate (first clause, every state, event,
time and position in the scan); a store that holds only such facts answers EVERY event at ANY time with "no rules"
(second clause); concretely the event, the other requests and `GetFact` of the odd fact all answer (third clause). -/
theorem linear_bad_rule_ignored :
    (∀ (ev : Obj) (now : Int) (f : Nat) (s : St) (id : String) (rest : List String) (acc : List (String × Obj)) (fact : Obj),
      amGet s.facts id = some fact → ruleNotMap fact = true → checkExpiration fact now = .ok false →
      lfindLoopR ev now (f + 1) s (id :: rest) acc = lfindLoopR ev now f s rest acc) ∧
    (∀ (ev : Obj) (now : Int),
      lFindRulesR (kAddFact {} "m" [("rule", .num 5)] 100 (fresh .linear)).1.loc.st ev now =
        ((kAddFact {} "m" [("rule", .num 5)] 100 (fresh .linear)).1.loc.st, .ok [])) ∧
    (let k1 := (kAddFact {} "m" [("rule", .num 5)] 100 (fresh .linear)).1
     (kAddFact {} "m" [("rule", .num 5)] 100 (fresh .linear)).2.cls = "ok" ∧
     (match (kProcessEvent {} [("cnryEv", .num 7)] 100 k1).2 with | .ok t => t.err.isNone && t.rules.isEmpty | _ => false) = true ∧
     (kProcessEvent {} [("cnryEv", .num 7)] 100 k1).1.lock = .free ∧
     (kSearchRules {} [("a", .num 1)] false 100 k1).2.cls = "ok" ∧
     (kAddFact {} "cnry" [("cnryKey", .num 42)] 100 k1).2.cls = "ok" ∧
     (kGetFact {} "m" 100 k1).2.cls = "ok" ∧
     (kGetRule {} "m" 100 k1).2.cls = "err") :=
  ⟨lfindLoopR_skip, fun ev now => lFindRulesR_onlyBad _ (by decide +kernel) ev now, by decide +kernel⟩

/-! ## Negative theorems that remain -/

/-- (former N5, C13-service-uri-not-string, repaired) `Service.ProcessRequest` called as a library function answers every
request map with a result or an error: a "uri" of any type other than string is an error. -/
theorem service_front_total (m : Obj) : (serviceFront m).isPanic = false ∧ (serviceFront m).isHang = false := by
  unfold serviceFront
  repeat' split
  all_goals exact ⟨rfl, rfl⟩

example : (serviceFront [("uri", .num 5)]).cls = "err" ∧ (serviceFront [("uri", .str "/api/version")]).cls = "ok" := by decide +kernel

/-- N6 (confirmed, C13-unvalidated-rule-fact; no panic): `AddFact` stores a fact whose `rule` is not a valid rule — here
`{"rule":{"when":{}}}`, indexed at the root of the pattern index — and from then on the rule search of EVERY event of the
location fails as a whole with that rule's error (no action): the other rules of the location are not evaluated. The
location keeps serving. -/
theorem unvalidated_rule_fact_fails_events :
    let k1 := (kAddFact {} "m" [("rule", .obj [("when", .obj [])])] 100 (fresh .indexed)).1
    (kAddFact {} "m" [("rule", .obj [("when", .obj [])])] 100 (fresh .indexed)).2.cls = "ok" ∧
    (match (kProcessEvent {} [("cnryEv", .num 7)] 100 k1).2 with | .ok t => t.err.isSome | _ => false) = true ∧
    (kSearchRules {} [("cnryEv", .num 7)] false 100 k1).2.cls = "err" ∧
    (kProcessEvent {} [("cnryEv", .num 7)] 100 k1).1.lock = .free ∧
    (kGetFact {} "m" 100 k1).2.cls = "ok" := by
  decide +kernel

/-- The HTTP front end (after repository commit a93a288, which repaired the three panics found there: empty POST body,
non-string "uri" in the body, empty json-typed query parameter) answers every request with a request map or an error. -/
theorem http_front_total (r : HttpReq) : (httpFront r).isPanic = false ∧ (httpFront r).isHang = false := by
  unfold httpFront
  repeat' split
  all_goals exact ⟨rfl, rfl⟩

/-! ## Non-trivial instances of the hypotheses -/

/-- an ordinary history on a fresh indexed location: every operation answers `ok`, the location serves at the end -/
example :
    let ops : List PubOp := [
      .addFact {} "cnry" [("cnryKey", .num 42)] 100,
      .addRule {} "r" [("when", .obj [("pattern", .obj [("cnryEv", .str "?x")])]), ("action", .obj [("code", .str "(1)")])] 100,
      .getFact {} "cnry" 100,
      .getRule {} "r" 100,
      .remRule {} "r" 100,
      .remFact {} "cnry" 100]
    ((runAll ops (fresh .indexed)).2.map (fun r => r.2.cls) = ["ok", "ok", "ok", "ok", "ok", "ok"]) ∧
    (runAll ops (fresh .indexed)).1.lock = .free := by
  decide +kernel

/-- the hypotheses of `no_operation_poisons` / `no_panic_off_sites` hold of a fresh location of either kind -/
example (kind : Kind) : (fresh kind).locks = C13Gen.lockUses ∧ Serving (fresh kind) ∧ FaultFree (fresh kind) :=
  ⟨rfl, rfl, fun _ _ => rfl⟩

/-- `no_operation_poisons` is about something: with a fault oracle that makes every `Add` body panic, `AddFact` does end
in a panic — and the location serves the next request all the same. Under the lock discipline of the unrepaired source
(`IndexedState.Add` released its lock without `defer`) the same panic blocks the location. -/
example :
    let faulty : KLoc := { fresh .indexed with fault := fun m s => if m == .add then some s else none }
    let old : List C13Gen.LockUse := C13Gen.lockUses.map (fun u => if u.func == "IndexedState.Add" then { u with deferred := false } else u)
    (kAddFact {} "m" [("a", .num 1)] 100 faulty).2.cls = "panic" ∧
    (kAddFact {} "m" [("a", .num 1)] 100 faulty).1.lock = .free ∧
    (kGetFact {} "m" 100 (kAddFact {} "m" [("a", .num 1)] 100 faulty).1).2.cls = "err" ∧
    (kAddFact {} "m" [("a", .num 1)] 100 { faulty with locks := old }).1.lock = .wdead ∧
    (kGetFact {} "m" 100 (kAddFact {} "m" [("a", .num 1)] 100 { faulty with locks := old }).1).2.isHang = true := by
  decide +kernel

/-- the documents of the former panic sites are `badWhen`, an ordinary rule body is not -/
example : badWhen [("when", .num 5)] = true ∧ badWhen [("when", .obj [("pattern", .null)])] = true ∧
    badWhen [("when", .null), ("schedule", .str "x")] = true ∧
    badWhen [("when", .obj [("pattern", .obj [("a", .str "?x")])])] = false ∧ badWhen [("action", .null)] = false := by
  decide +kernel

/-- `validated_paths_safe` applies to an ordinary rule -/
example : (ruleFromMap [("when", .obj [("pattern", .obj [("a", .str "?x")])]), ("action", .obj [("code", .str "(1)")])]).isOk = true ∧
    (setExpires [("when", .obj [("pattern", .obj [("a", .str "?x")])]), ("action", .obj [("code", .str "(1)")])] 100).isOk = true := by
  decide +kernel

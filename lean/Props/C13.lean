import RulioModel.C13
import RulioProofs.C13
import RulioProofs.C13NoPanic

/-! # C13 — no input can crash, hang or poison a location (property theorems only)

The model (`RulioModel/C13.lean`) wraps the sequential State/Location model with the state's RW lock. Its functions are
total by construction; what is proved here is (1) that the places where the Go source can panic are exactly the ones the
model accounts for (tables regenerated from the source on every run), (2) that an operation on a serving location
answers (never blocks) and leaves the location serving unless it ends in one of the enumerated panics, (3) that away
from the enumerated sites nothing panics, (4) the negative theorems: concrete inputs that reach each enumerated site,
and what they do to the lock. -/

open C13

/-! ## The tie: tables regenerated from the Go source -/

/-- Every unchecked type assertion, explicit `panic`, constant index and condition-less loop of the non-test files of
core, sys and service is a row the model accounts for (classified `safe`, `modelled`, `unreachable` or `outOfScope`
in `C13.accounted`), and there is no other. A new or removed row changes the regenerated table and breaks this. -/
theorem asserts_accounted : C13Gen.sites = accounted.map (·.1) := by rfl

/-- The lock acquisitions of the two State implementations and of Location, and whether each release is deferred, are
the ones the model assumes. Removing or adding a `defer`, or a lock call, breaks this. -/
theorem locks_accounted : C13Gen.lockUses = lockTable := by rfl

/-- every site the table calls `modelled` is one of the model's panic results, and every panic result of the model is
a `modelled` row of the table or the nil dereference of ListRules (which is no assertion and has no row) -/
theorem modelled_sites_are_the_models :
    (∀ s : PanicSite, s ≠ .listRulesNil → ∃ row ∈ accounted, row.1.func = s.name ∧ row.2.isModelled = true) ∧
    (∀ row ∈ accounted, row.2.isModelled = true → ∃ s : PanicSite, row.1.func = s.name) :=
  modelled_sites_ok

/-! ## Lock discipline read from the extracted table -/

/-- In the linear state no method can leave its lock behind, whatever panics inside it (every lock region that contains
code able to panic releases by `defer`); in the indexed state exactly `Add` (write lock) and `Search` (read lock) can. -/
theorem leaks_enumerated :
    (∀ m : Meth, leakOf .linear m = none) ∧
    (∀ m : Meth, leakOf .indexed m = (match m with | .add => some .wdead | .search => some .rdead | _ => none)) := by
  constructor <;> intro m <;> cases m <;> decide +kernel

/-! ## Totality with the location invariant -/

/-- `total_and_serving`, lock part. For every public operation, every argument and every state: started on a
serving location (nobody dead holds the state lock) the operation answers — it never blocks — and unless it ends in a
panic the location is still serving afterwards. -/
theorem total_and_serving (op : PubOp) (k : KLoc) (h : Serving k) :
    (run op k).2.isHang = false ∧ ((run op k).2.isPanic = false → Serving (run op k).1) :=
  run_serving op k h

/-- ... and over whole histories: as long as no operation panics, no operation of the history blocks and the location
serves after each of them. -/
theorem history_serving (ops : List PubOp) (k : KLoc) (h : Serving k)
    (hp : ∀ r ∈ (runAll ops k).2, r.2.isPanic = false) :
    (∀ r ∈ (runAll ops k).2, r.2.isHang = false) ∧ Serving (runAll ops k).1 :=
  runAll_serving ops k h hp

/-- A linear location is never poisoned: it serves after every operation, panics included. -/
theorem linear_always_serving (op : PubOp) (k : KLoc) (hk : k.loc.st.kind = .linear) (hl : k.locks = C13Gen.lockUses) (h : Serving k) :
    Serving (run op k).1 :=
  run_serving_linear op k hk hl h

/-! ## Away from the enumerated sites -/

/-- `no_panic_off_sites_partial`. FULL STATEMENT (not proved): "from a location none of whose stored facts can reach a
listed site (every stored rule body has a map `when` whose `pattern`, if any, is a map; in the linear state every `rule`
value is a map), no public operation whose own document has the same property panics, and the invariant is kept".
PROVED: the indexed state's remove, fact search and rule search (with their cascades and expiry purges, for every fuel)
never panic under that invariant and keep it. MISSING: the same for `add` (both states), `get`, the linear state, and
the lift through queries and event processing; the differential run covers those. -/
theorem no_panic_off_sites_partial (s : St) (now : Int) (hk : s.kind = .indexed) (hw : WOK s) :
    (∀ id, (s.rem id now).2 ≠ .error "panic" ∧ WOK (s.rem id now).1) ∧
    (∀ p, (searchK s p now).2 ≠ .error "panic" ∧ WOK (searchK s p now).1) ∧
    (∀ ev, (findRulesK s ev now).2 ≠ .error "panic" ∧ WOK (findRulesK s ev now).1) :=
  indexed_np s now hk hw

/-! ## Validated paths -/

/-- `validated_paths_safe` — only partially true. FULL STATEMENT (false on the unchanged tree, see
`addRule_null_pattern_poisons` below): "a rule that passes `RuleFromMap` (which `AddRule` runs first) reaches the state
wrapped in a fact on which `GetRulePatterns` cannot panic". What holds: the same provided neither `when` nor
`when.pattern` is JSON `null` — `RuleFromMap` reads `null` as "absent" (nil pointer / nil map) but the stored map still
holds the key, and `GetRulePatterns` asserts a map. -/
theorem validated_paths_safe_partial (rule : Obj) (now : Int) (rm : RuleM) (rule' : Obj) (expiring : Bool) (expires : Int)
    (hv : ruleFromMap rule = .ok rm) (he : setExpires rule now = .ok (rule', expiring, expires))
    (hn1 : rule.get? "when" ≠ some .null)
    (hn2 : ∀ w, rule.get? "when" = some (.obj w) → Obj.get? w "pattern" ≠ some .null) :
    whenOK (ruleWrapper rule' expiring expires) = true :=
  wrapper_whenOK_partial rule now rm rule' expiring expires hv he hn1 hn2

/-- what `RuleFromMap` does guarantee: `when` is absent, `null`, or a map whose `pattern` is absent, `null` or a map -/
theorem ruleFromMap_checks_when (r : Obj) (rm : RuleM) (h : ruleFromMap r = .ok rm) :
    r.get? "when" = none ∨ r.get? "when" = some .null ∨
    ∃ w, r.get? "when" = some (.obj w) ∧
      (Obj.get? w "pattern" = none ∨ Obj.get? w "pattern" = some .null ∨ ∃ p, Obj.get? w "pattern" = some (.obj p)) :=
  ruleFromMap_when r rm h

/-! ## Negative theorems: the enumerated sites are reachable, with these consequences -/

/-- a fresh location over the indexed / the linear state -/
def fresh (kind : Kind) : KLoc := { loc := { name := "a", st := { kind := kind } } }

/-- N0 (found by attempting `validated_paths_safe`, confirmed on the real code, also through the HTTP service): the
validated path is not safe. `AddRule {"when":{"pattern":null},"action":…}` passes `RuleFromMap`, then panics in
GetRulePatterns inside `IndexedState.Add` and blocks the location; `{"when":null,"schedule":…}` is accepted and stored,
and removing that rule later panics. -/
theorem addRule_null_pattern_poisons :
    let act : J := .obj [("code", .str "(1)")]
    let r1 : Obj := [("when", .obj [("pattern", .null)]), ("action", act)]
    let r2 : Obj := [("when", .null), ("schedule", .str "0 0 1 1 *"), ("action", act)]
    (ruleFromMap r1).isOk = true ∧
    (kAddRule {} "m" r1 100 (fresh .indexed)).2.cls = "panic" ∧ (kAddRule {} "m" r1 100 (fresh .indexed)).1.lock = .wdead ∧
    (kGetFact {} "cnry" 100 (kAddRule {} "m" r1 100 (fresh .indexed)).1).2.isHang = true ∧
    (kAddRule {} "m" r2 100 (fresh .indexed)).2.cls = "ok" ∧
    (kRemRule {} "m" 100 (kAddRule {} "m" r2 100 (fresh .indexed)).1).2.cls = "panic" := by
  decide +kernel

/-- N1 (confirmed on the real code): `AddFact {"rule":{"when":5}}` on an indexed location panics in GetRulePatterns
while `IndexedState.Add` holds the write lock without `defer`; the location then blocks every request. -/
theorem indexed_add_bad_when_poisons :
    let k1 := (kAddFact {} "m" [("rule", .obj [("when", .num 5)])] 100 (fresh .indexed)).1
    (kAddFact {} "m" [("rule", .obj [("when", .num 5)])] 100 (fresh .indexed)).2.cls = "panic" ∧
    k1.lock = .wdead ∧
    (kGetFact {} "cnry" 100 k1).2.isHang = true ∧
    (kAddFact {} "cnry" [("cnryKey", .num 42)] 100 k1).2.isHang = true ∧
    (kSearchFacts {} [("cnryKey", .str "?c")] false 100 k1).2.isHang = true ∧
    (kProcessEvent {} [("cnryEv", .num 7)] 100 k1).2.isHang = true := by
  decide +kernel

/-- N1b: the same through a `when.pattern` that is not a map -/
theorem indexed_add_bad_pattern_poisons :
    (kAddFact {} "m" [("rule", .obj [("when", .obj [("pattern", .arr [])])])] 100 (fresh .indexed)).2.cls = "panic" ∧
    (kAddFact {} "m" [("rule", .obj [("when", .obj [("pattern", .arr [])])])] 100 (fresh .indexed)).1.lock = .wdead := by
  decide +kernel

/-- N2 (confirmed): a scheduled rule body is stored without a look at its `when`; overwriting the fact later panics
inside `Add` (location blocked), removing it panics inside `Rem` (deferred unlock: still serving, fact still there). -/
theorem scheduled_bad_when_panics_later :
    let k1 := (kAddFact {} "m" [("rule", .obj [("schedule", .str "x"), ("when", .num 5)])] 100 (fresh .indexed)).1
    (kAddFact {} "m" [("rule", .obj [("schedule", .str "x"), ("when", .num 5)])] 100 (fresh .indexed)).2.cls = "ok" ∧
    (kAddFact {} "m" [("z", .num 1)] 100 k1).2.cls = "panic" ∧ (kAddFact {} "m" [("z", .num 1)] 100 k1).1.lock = .wdead ∧
    (kRemFact {} "m" 100 k1).2.cls = "panic" ∧ (kRemFact {} "m" 100 k1).1.lock = .free ∧
    (kGetFact {} "m" 100 (kRemFact {} "m" 100 k1).1).2.cls = "ok" := by
  decide +kernel

/-- N3 (confirmed): when such a fact expires, the search that purges it panics under the read lock of
`IndexedState.Search` (no `defer`): readers still pass, the first writer blocks for ever, and from then on readers
block too (sync.RWMutex gives a waiting writer priority). Through `GetFact` the same expiry panics after the lock was
released: the location keeps serving. -/
theorem expiry_under_search_leaks_read_lock :
    let k1 := (kAddFact {} "m" [("zz", .num 1), ("ttl", .num 1), ("rule", .obj [("schedule", .str "x"), ("when", .num 5)])] 100 (fresh .indexed)).1
    let k2 := (kSearchFacts {} [("zz", .str "?x")] false 102 k1).1
    let k3 := (kAddFact {} "cnry" [("cnryKey", .num 42)] 102 k2).1
    (kSearchFacts {} [("zz", .str "?x")] false 102 k1).2.cls = "panic" ∧ k2.lock = .rdead ∧
    (kGetFact {} "nope" 102 k2).2.cls = "err" ∧
    (kAddFact {} "cnry" [("cnryKey", .num 42)] 102 k2).2.isHang = true ∧
    (kGetFact {} "nope" 102 k3).2.isHang = true ∧
    (kGetFact {} "m" 102 k1).2.cls = "panic" ∧ (kGetFact {} "m" 102 k1).1.lock = .free := by
  decide +kernel

/-- N4 (confirmed): the linear state accepts `{"rule":5}`; afterwards the rule search of EVERY event at ANY time panics
in `LinearState.doFindRules` (first clause, all events and times); the read lock is released by `defer`, so the location
keeps serving: the canary event panics, the other canaries answer (second clause, concrete). -/
theorem linear_bad_rule_panics_every_event :
    (∀ (ev : Obj) (now : Int),
      (kAddFact {} "m" [("rule", .num 5)] 100 (fresh .linear)).1.loc.st.lFindRules ev now =
        ((kAddFact {} "m" [("rule", .num 5)] 100 (fresh .linear)).1.loc.st, .error "panic")) ∧
    (let k1 := (kAddFact {} "m" [("rule", .num 5)] 100 (fresh .linear)).1
     (kAddFact {} "m" [("rule", .num 5)] 100 (fresh .linear)).2.cls = "ok" ∧
     (kProcessEvent {} [("cnryEv", .num 7)] 100 k1).2.cls = "panic" ∧
     (kProcessEvent {} [("cnryEv", .num 7)] 100 k1).1.lock = .free ∧
     (kAddFact {} "cnry" [("cnryKey", .num 42)] 100 (kProcessEvent {} [("cnryEv", .num 7)] 100 k1).1).2.cls = "ok" ∧
     (kGetFact {} "m" 100 (kProcessEvent {} [("cnryEv", .num 7)] 100 k1).1).2.cls = "ok") :=
  ⟨fun ev now => lFindRules_bad _ (by decide +kernel) ev now, by decide +kernel⟩

/-- N5 (confirmed): `Service.ProcessRequest` called as a library function asserts the "uri" of the request map. -/
theorem service_front_panics : (serviceFront [("uri", .num 5)]).site = some .serviceUriNotString := by
  decide +kernel

/-- The HTTP front end (after repository commit a93a288, which repaired the three panics found there: empty POST body,
non-string "uri" in the body, empty json-typed query parameter) answers every request with a request map or an error. -/
theorem http_front_total (r : HttpReq) : (httpFront r).isPanic = false ∧ (httpFront r).isHang = false := by
  unfold httpFront
  repeat' split
  all_goals exact ⟨rfl, rfl⟩

/-! ## Non-trivial instances of the hypotheses -/

/-- an ordinary history on a fresh indexed location: every operation answers `ok`, the location serves at the end -/
example :
    let ops : List PubOp := [
      .addFact {} "cnry" [("cnryKey", .num 42)] 100,
      .addRule {} "r" [("when", .obj [("pattern", .obj [("cnryEv", .str "?x")])]), ("action", .obj [("code", .str "(1)")])] 100,
      .getFact {} "cnry" 100,
      .getRule {} "r" 100,
      .remRule {} "r" 100,
      .remFact {} "cnry" 100]
    ((runAll ops (fresh .indexed)).2.map (fun r => r.2.cls) = ["ok", "ok", "ok", "ok", "ok", "ok"]) ∧
    (runAll ops (fresh .indexed)).1.lock = .free := by
  decide +kernel

/-- the invariant of `no_panic_off_sites_partial` holds of a state that stores an ordinary rule -/
example : WOK { kind := .indexed, facts := [("r", [("rule", .obj [("when", .obj [("pattern", .obj [("a", .str "?x")])])])])] } := by
  intro e he
  simp only [List.mem_singleton] at he
  subst he
  decide +kernel

/-- `validated_paths_safe` applies to an ordinary rule -/
example : (ruleFromMap [("when", .obj [("pattern", .obj [("a", .str "?x")])]), ("action", .obj [("code", .str "(1)")])]).isOk = true ∧
    (setExpires [("when", .obj [("pattern", .obj [("a", .str "?x")])]), ("action", .obj [("code", .str "(1)")])] 100).isOk = true := by
  decide +kernel

import RulioProofs.CronProps
import RulioProofs.CronTimer
import RulioProofs.Crolt

/-! # C16 — cron services fire each job when due, once, and never after removal (property theorems only)

In-memory cron: `CronM` (RulioModel/CronTimeline.lean), a state machine over `Op` = advance / add / rem / tick / done /
suspend / resume / pauseBegin / pauseEnd. All theorems quantify over *arbitrary* operation lists (ticks may come at
any time, `Fn`s may return in any order, commands at any point) from the initial state `init limit`.
Bolt-backed cron: `Crolt` (RulioModel/Crolt.lean), operations = the service's Bolt transactions; the life of one recurring
job with jitter is `Crolt.RState`.

The comparison operators (`readyTest`, `searchTest`, `limitTest`, `dueCmp`), the jitter offset (`jitterSub`) and the presence of
the decisive statements (`scheduleRemsFirst`, `remErases`, `popDropsHead`, `rescheduleOnce`, `resumeRearms`, `tickRearmsAlways`,
`popTracksRunning`, `remCancelsRunning`, `rescheduleViaRunning`, `addClearsTid`, `updateDeletesOld`, `deleteRemovesTime`, …)
are regenerated from the Go source into `RulioModel/Gen/C16.lean` on every run; the proofs below depend on their values.
The theorems `timer_armed`, `early_delivery_rearms`, `no_starvation`, `removed_never_fires`, `rem_during_fn_removes`,
`replace_during_fn_wins`, `unique_pending_per_id`, `crolt_tid_is_servers`, `crolt_not_before_due` and
`crolt_one_run_per_occurrence` hold since the repairs of the findings C16-rem-head-disarms, C16-rem-in-flight,
C16-crolt-tid-injection and C16-crolt-jitter-double-fire (before them their negations were proved here, with witnesses). -/

open CronM in
/-- After every sequence of Add / Rem / replace / pop (tick) / re-schedule (done) / control operations the timeline is sorted
by `Next` and holds at most one entry per job id. -/
theorem timeline_sorted_unique (limit : Nat) (ops : List Op) :
    (run (init limit) ops).tl.Pairwise (fun a b => a.next ≤ b.next) ∧
    (run (init limit) ops).tl.Pairwise (fun a b => a.id ≠ b.id) :=
  ⟨(WF_run (WF_init limit) ops).sorted, (WF_run (WF_init limit) ops).nodupId⟩

open CronM in
/-- At most one entry per job id also counting the recurring jobs whose `Fn` is executing and which will be put back on the
timeline when it returns (`c.running`): after every history — including removals and replacements issued while an `Fn` of
that id runs — the ids of `Timeline ++ running` are pairwise different, and `running` holds only recurring jobs whose `Fn`
has not returned. So the return of an `Fn` can never create a second pending entry for an id. -/
theorem unique_pending_per_id (limit : Nat) (ops : List Op) :
    let s := run (init limit) ops
    (s.tl ++ s.running).Pairwise (fun a b => a.id ≠ b.id) ∧ ∀ j ∈ s.running, j ∈ s.inflight ∧ j.period ≠ 0 := by
  intro s
  have hw : WF s := WF_run (WF_init limit) ops
  exact ⟨hw.nodupIdR, fun j hj => ⟨hw.runSub.subset hj, hw.runRec j hj⟩⟩

open CronM in
/-- Every invocation of a job's `Fn` happens at a loop time `≥` the job's `Next` (whatever the interleaving, also for stale
timer deliveries and during suspension); for recurring jobs `Next` is an occurrence of the schedule. -/
theorem no_early_fire (limit : Nat) (ops : List Op) :
    ∀ f ∈ (run (init limit) ops).log, f.due ≤ f.time ∧ (f.period ≠ 0 → f.due % f.period = 0) := by
  intro f hf
  obtain ⟨_, b, _, d⟩ := (WF_run (WF_init limit) ops).logOk f hf
  exact ⟨b, d⟩

open CronM in
/-- The job object created by `Add id due` (one-shot) only ever fires under that id, for that due time, no earlier than it. -/
theorem oneshot_fires_at_its_due (limit : Nat) (pre post : List Op) (id due : Nat) :
    let s0 := run (init limit) pre
    ∀ f ∈ (run s0 (.add id due 0 :: post)).log, f.serial = s0.serial →
      f.id = id ∧ f.due = due ∧ f.period = 0 ∧ due ≤ f.time := by
  intro s0 f hf hs
  have hw : WF s0 := WF_run (WF_init limit) pre
  have ht := oneshot_track hw id due post
  rcases ht.fires f hf (by simpa using hs) with h | ⟨a, b, c⟩
  · cases h
  · have hwf : WF (run s0 (.add id due 0 :: post)) := WF_run hw _
    exact ⟨a, c, b, c ▸ (hwf.logOk f hf).2.1⟩

open CronM in
/-- A one-shot job fires at most once, in every history. -/
theorem oneshot_once (limit : Nat) (pre post : List Op) (id due : Nat) :
    let s0 := run (init limit) pre
    (firesOf s0.serial (run s0 (.add id due 0 :: post))).length ≤ 1 := by
  intro s0
  have hw : WF s0 := WF_run (WF_init limit) pre
  have hwf : WF (run s0 (.add id due 0 :: post)) := WF_run hw _
  apply firesOf_oneshot_le_one hwf
  intro f hf
  have hm := List.mem_filter.1 hf
  exact (oneshot_fires_at_its_due limit pre post id due f hm.1 (by simpa using hm.2)).2.2.1

open CronM in
/-- … and exactly once if it is pending, not removed, and the loop ticks at or after its due time: a pending job at position
`pre.length` of the timeline whose due time has come is fired by the next `pre.length + 1` timer events (each tick pops the
head, which is due because the timeline is sorted). -/
theorem oneshot_exactly_once (limit : Nat) (ops : List Op) (pre : List Job) (j : Job) (post : List Job) :
    let s := run (init limit) ops
    s.paused = false → s.tl = pre ++ j :: post → j.period = 0 → j.next ≤ s.clock →
    (firesOf j.serial (run s (List.replicate (pre.length + 1) .tick))).length = 1 := by
  intro s hp htl hper hdue
  have hw : WF s := WF_run (WF_init limit) ops
  obtain ⟨hmem, _, _⟩ := ticks_fire hw hp pre j post htl hdue
  have hw' : WF (run s (List.replicate (pre.length + 1) .tick)) := WF_run hw _
  have hin : fireOf j s.clock ∈ firesOf j.serial (run s (List.replicate (pre.length + 1) .tick)) :=
    List.mem_filter.2 ⟨hmem, by simp [fireOf]⟩
  have hle : (firesOf j.serial (run s (List.replicate (pre.length + 1) .tick))).length ≤ 1 := by
    apply firesOf_oneshot_le_one hw'
    intro f hf
    -- all fires of one job object have the same period as the one just found
    have hpw := firesOf_pairwise hw' j.serial
    by_cases e : f = fireOf j s.clock
    · rw [e]; exact hper
    · -- two different fires of the same serial: impossible for a one-shot, whichever comes first
      exfalso
      have hsub := hpw
      obtain ⟨l1, l2, hl⟩ := List.append_of_mem hin
      rw [hl] at hf hsub
      rcases List.mem_append.1 hf with h1 | h1
      · have := (List.pairwise_append.1 hsub).2.2 f h1 (fireOf j s.clock) (by simp)
        exact this.2.1 (this.1.trans hper)
      · rcases List.mem_cons.1 h1 with h1 | h1
        · exact e h1
        · have := (List.pairwise_cons.1 (List.pairwise_append.1 hsub).2.1).1 f h1
          exact this.2.1 hper
  have hpos : 0 < (firesOf j.serial (run s (List.replicate (pre.length + 1) .tick))).length :=
    List.length_pos_of_mem hin
  omega

open CronM in
/-- A recurring job fires at most once per occurrence: the occurrences (`due`) of the successive fires of one job object are
strictly increasing (the log is newest-first), each an occurrence of its schedule, none fired before its time. -/
theorem recurring_once_per_occurrence (limit : Nat) (ops : List Op) (k : Nat) :
    ((firesOf k (run (init limit) ops)).map (·.due)).Pairwise (· > ·) ∧
    ∀ f ∈ firesOf k (run (init limit) ops), f.period ≠ 0 → f.due % f.period = 0 ∧ f.due ≤ f.time := by
  have hw : WF (run (init limit) ops) := WF_run (WF_init limit) ops
  constructor
  · rw [List.pairwise_map]
    exact (firesOf_pairwise hw k).imp (fun h => h.2.2)
  · intro f hf hp
    obtain ⟨_, b, _, d⟩ := hw.logOk f (List.mem_filter.1 hf).1
    exact ⟨d hp, b⟩

open CronM in
/-- … and when its `Fn` returns it is put back on the timeline for the first occurrence after that moment — provided it is
still registered in `c.running`, i.e. was neither removed nor replaced while `Fn` ran (`rem_during_fn_removes`). -/
theorem recurring_rescheduled (limit : Nat) (ops : List Op) (j : Job) :
    let s := run (init limit) ops
    j ∈ s.running →
    ∃ j' ∈ (step s (.done j.serial)).tl, j'.serial = j.serial ∧ j'.id = j.id ∧ j'.next = nextOcc j.period s.clock ∧ s.clock < j'.next := by
  intro s hjr
  have hw : WF s := WF_run (WF_init limit) ops
  have hj : j ∈ s.inflight := hw.runSub.subset hjr
  have hp : j.period ≠ 0 := hw.runRec j hjr
  simp only [step]
  rcases done_cases s j.serial with ⟨_, hno⟩ | ⟨j2, hj2, hser, hc⟩
  · exact absurd rfl (hno j hj)
  · have hj2eq : j2 = j := by
      by_cases e2 : j2 = j
      · exact e2
      · exact absurd hser (pairwise_mem_ne (fun a b hab => fun e => hab e.symm) hw.nodupSerInfl j2 hj2 j hj e2)
    subst hj2eq
    rcases hc with ⟨h0, _⟩ | ⟨_, e⟩
    · exact absurd h0 hp
    · rw [e]
      rcases reschedule_cases { s with inflight := s.inflight.eraseP (fun x => x.serial == j2.serial) } j2 with ⟨_, hno⟩ | ⟨_, e2⟩
      · exact absurd rfl (hno j2 hjr)
      · rw [e2]
        refine ⟨schedJob s.clock j2, mem_insertJob.2 (Or.inl rfl), (schedJob_id _ _).2.1, (schedJob_id _ _).1, ?_⟩
        rcases schedJob_next s.clock j2 with ⟨h0, _⟩ | ⟨_, hn⟩
        · exact absurd h0 hp
        · exact ⟨hn, hn ▸ nextOcc_gt hp⟩

open CronM in
/-- `Rem id` means that id never fires again unless re-added, whether the job was pending or its `Fn` was running at that
moment: every later fire under that id belongs to a job object created by an `Add` issued after the `Rem`. (No hypothesis on the
state: all prefixes, all continuations.) -/
theorem removed_never_fires (limit : Nat) (pre post : List Op) (id : Nat) :
    let s := run (init limit) pre
    ∀ f ∈ (run s (.rem id :: post)).log, f.id = id → f ∈ s.log ∨ s.serial ≤ f.serial := by
  intro s f hf hid
  have hw : WF s := WF_run (WF_init limit) pre
  exact (removed_track hw id post).fires f hf (by simpa using hid)

open CronM in
/-- A `Rem` issued while the job's `Fn` runs (the recurring job `j` is registered in `c.running`) finds the job (`found = true`),
takes it off `c.running`, and when `Fn` returns afterwards nothing is put back on the timeline; by `removed_never_fires` the id
then never fires again unless re-added. -/
theorem rem_during_fn_removes (limit : Nat) (ops : List Op) (j : Job) :
    let s := run (init limit) ops
    j ∈ s.running →
    remFound s j.id = true ∧ j ∉ (step s (.rem j.id)).running ∧ j ∈ (step s (.rem j.id)).inflight ∧
    (step (step s (.rem j.id)) (.done j.serial)).tl = (step s (.rem j.id)).tl ∧
    ∀ x ∈ (step (step s (.rem j.id)) (.done j.serial)).tl ++ (step (step s (.rem j.id)) (.done j.serial)).running, x.id ≠ j.id := by
  intro s hjr
  have hw : WF s := WF_run (WF_init limit) ops
  have hw1 : WF (step s (.rem j.id)) := WF_step hw _
  have hrc : C16Gen.remCancelsRunning = true := rfl
  have hnone : ∀ x ∈ (step s (.rem j.id)).tl ++ (step s (.rem j.id)).running, x.id ≠ j.id := by
    intro x hx
    rcases List.mem_append.1 hx with hx | hx
    · exact remJob_no_id hw.nodupId x hx
    · exact cancelRunning_no_id hw.nodupIdRun x hx
  have hnr : j ∉ (step s (.rem j.id)).running := fun h => hnone j (List.mem_append.2 (Or.inr h)) rfl
  have hinf : j ∈ (step s (.rem j.id)).inflight := hw.runSub.subset hjr
  have hd := done_cancelled hw1 hinf (hw.runRec j hjr) hnr
  refine ⟨?_, hnr, hinf, ?_, ?_⟩
  · simp only [remFound, hrc, hasJob, Bool.true_and]
    have : s.running.any (fun x => x.id == j.id) = true := List.any_eq_true.2 ⟨j, hjr, by simp⟩
    rw [this]; simp
  · show (done (step s (.rem j.id)) j.serial).tl = _
    rw [hd]
  · show ∀ x ∈ (done (step s (.rem j.id)) j.serial).tl ++ (done (step s (.rem j.id)) j.serial).running, x.id ≠ j.id
    rw [hd]; exact hnone

open CronM in
/-- An `Add` for an id that exists replaces the job, also while the old job's `Fn` runs: every later fire under that id belongs to
this `Add` or a later one (the replaced job object never fires again), and the return of any `Fn` — in particular the old job's —
leaves the new entry on the timeline (before the repair `Cron.run` removed it and put the old job back). -/
theorem replace_during_fn_wins (limit : Nat) (pre post : List Op) (id due period : Nat) :
    let s := run (init limit) pre
    (∀ f ∈ (run s (.add id due period :: post)).log, f.id = id → f ∈ s.log ∨ s.serial ≤ f.serial) ∧
    ((∀ o ∈ post, (∃ k, o = .done k) ∨ o.isControl = true) →
      ∀ x ∈ (step s (.add id due period)).tl, x ∈ (run s (.add id due period :: post)).tl) := by
  intro s
  have hw : WF s := WF_run (WF_init limit) pre
  refine ⟨?_, ?_⟩
  · intro f hf hid
    exact (replaced_track hw id due period post).fires f hf (by simpa using hid)
  · intro hpost x hx
    exact run_tl_keep (step s (.add id due period)) post hpost hx

open CronM in
/-- Suspending, pausing, resuming and the passage of time never drop a pending or running job and never fire one … -/
theorem suspend_only_delays (s : Cron) (cs : List Op) (hc : ∀ o ∈ cs, o.isControl = true) :
    (run s cs).tl = s.tl ∧ (run s cs).inflight = s.inflight ∧ (run s cs).log = s.log ∧ s.clock ≤ (run s cs).clock := by
  induction cs generalizing s with
  | nil => exact ⟨rfl, rfl, rfl, Nat.le_refl _⟩
  | cons o cs ih =>
    have ho := hc o (by simp)
    have h1 : (step s o).tl = s.tl ∧ (step s o).inflight = s.inflight ∧ (step s o).log = s.log ∧ s.clock ≤ (step s o).clock := by
      cases o with
      | advance d => exact ⟨rfl, rfl, rfl, Nat.le_add_right _ _⟩
      | suspend => exact ⟨rfl, rfl, rfl, Nat.le_refl _⟩
      | pauseBegin => exact ⟨rfl, rfl, rfl, Nat.le_refl _⟩
      | resume => simp only [step]; split <;> exact ⟨rfl, rfl, rfl, Nat.le_refl _⟩
      | pauseEnd => simp only [step]; split <;> exact ⟨rfl, rfl, rfl, Nat.le_refl _⟩
      | add _ _ _ => cases ho
      | rem _ => cases ho
      | tick => cases ho
      | done _ => cases ho
    obtain ⟨a, b, c, d⟩ := ih (step s o) (fun o' ho' => hc o' (by simp [ho']))
    obtain ⟨a1, b1, c1, d1⟩ := h1
    exact ⟨a.trans a1, b.trans b1, c.trans c1, Nat.le_trans d1 d⟩

open CronM in
/-- … and `resume` of a suspended cron (likewise the end of a pause) re-arms the timer for the head of the timeline, whose
delivery then fires the head as soon as it is due (`oneshot_exactly_once`): suspension only delays. -/
theorem resume_rearms (s : Cron) :
    (s.suspended = true → (step s .resume).armed = rearm s.tl ∧ (step s .resume).suspended = false) ∧
    (s.paused = true → (step s .pauseEnd).armed = rearm s.tl ∧ (step s .pauseEnd).paused = false) ∧
    (∀ j rest, s.tl = j :: rest → rearm s.tl = some j.next) := by
  refine ⟨?_, ?_, ?_⟩
  · intro h; simp [step, h, show C16Gen.resumeRearms = true from rfl]
  · intro h; simp [step, h]
  · intro j rest h; simp [rearm, h]

open CronM in
/-- In every reachable state that is neither suspended nor paused and has a pending job, the timer is armed, for a time no later
than the head's due time — after every history, removals of the head and `Add`s rejected for capacity included (those leave the
timer pointing at the removed job's earlier time). -/
theorem timer_armed (limit : Nat) (ops : List Op) :
    let s := run (init limit) ops
    s.suspended = false → s.paused = false → ∀ j rest, s.tl = j :: rest → ∃ t, s.armed = some t ∧ t ≤ j.next := by
  intro s
  exact ArmedLe_run (WF_init limit) (ArmedLe_init limit) ops

open CronM in
/-- A delivery of the timer that finds the head of the timeline not ready (the timer was armed for a job removed since, or the
delivery is a stale one) re-arms the timer for exactly the head's due time and changes nothing else. -/
theorem early_delivery_rearms (s : Cron) (j : Job) (rest : List Job) :
    s.paused = false → s.tl = j :: rest → s.clock < j.next →
    (tick s).armed = some j.next ∧ (tick s).tl = s.tl ∧ (tick s).log = s.log ∧ (tick s).running = s.running := by
  intro hp htl hlt
  obtain ⟨i1, _, i3, _, _, _, _, _, i9⟩ := tickIdle_fields s
  rcases tick_cases s with ⟨_, h⟩ | ⟨e, _, _⟩ | ⟨j', rest', _, h1, hr, _⟩
  · rw [hp] at h; cases h
  · rw [e]
    refine ⟨?_, i1, i3, i9⟩
    unfold tickIdle; rw [htl]; rfl
  · rw [htl] at h1; cases h1
    have := readyTest_le hr
    omega

open CronM in
/-- Liveness, over all histories: after any sequence of Add / Rem / replace / Suspend / Resume / Pause / ticks / returns of `Fn`s,
if the loop is neither suspended nor paused, every pending job whose due time has passed fires — the timer contract ("an armed
timer whose target has come is delivered") yields `pre.length + 1` deliveries, each of them due, and they fire the jobs ahead of
`j` and then `j` itself, at the current clock reading. -/
theorem no_starvation (limit : Nat) (ops : List Op) (pre : List Job) (j : Job) (post : List Job) :
    let s := run (init limit) ops
    s.suspended = false → s.paused = false → s.tl = pre ++ j :: post → j.next ≤ s.clock →
    ∃ s', deliverN (pre.length + 1) s = some s' ∧ fireOf j s.clock ∈ s'.log ∧ s'.tl = post := by
  intro s hs hp htl hdue
  have hw : WF s := WF_run (WF_init limit) ops
  have ha : ArmedLe s := ArmedLe_run (WF_init limit) (ArmedLe_init limit) ops
  obtain ⟨s', h1, h2, h3, _⟩ := deliverN_fires hw ha hs hp pre j post htl hdue
  exact ⟨s', h1, h2, h3⟩

open CronM in
/-- Along histories without `Rem` and without an `Add` rejected for capacity (`Calm`) the timer is armed for exactly the head's due
time: no delivery ever comes early. -/
theorem timer_exact_when_calm (limit : Nat) (ops : List Op) (h : Calm (init limit) ops) :
    let s := run (init limit) ops
    s.suspended = false → s.paused = false → ∀ j rest, s.tl = j :: rest → s.armed = some j.next := by
  intro s hs hp j rest htl
  have := Armed_run (Armed_init limit) ops h hs hp (by rw [htl]; simp)
  rw [this, htl]; rfl

/-! ## Bolt-backed cron service -/

open Crolt in
/-- After every history of the service's transactions (Add, Delete, work with any cursor choices and any new due times, reopen)
the two buckets agree key for key: `jobs[aid].TId` is a key of `time` holding the same job and vice versa. Every prefix of a
history is a history, `reopen` is the identity on the file, so this holds at every reopen point — given that a Bolt transaction
is atomic and durable. `Legal` asks nothing of the jobs passed to `Add` (any `TId`, any flags in the request body); it only says
that the writing transaction of an `Add` taken alone (`addCommit`) runs while the job does not exist, which the real `Add`
checks inside that transaction. -/
theorem buckets_consistent (ops : List Op) (h : Legal {} ops) : BInv (run {} ops) :=
  BInv_run BInv_empty ops h

open Crolt in
/-- … hence at most one entry of the time index per job. -/
theorem one_entry_per_job (ops : List Op) (h : Legal {} ops) (aid : Nat) :
    ((run {} ops).time.filter (fun e => e.2.aid == aid)).length ≤ 1 :=
  one_entry (BInv_run BInv_empty ops h) (KInv_run KInv_empty ops) aid

open Crolt in
/-- The service only runs a job whose key in the time index is before the loop's `now`. -/
theorem crolt_no_early_fire (ops : List Op) : ∀ f ∈ (run {} ops).log, f.due < f.now := by
  intro f hf
  rcases run_log hf with h | h
  · cases h
  · exact h

open Crolt in
/-- PARTIAL (one-shot jobs of the service). Full statement wanted: between its `Add` and its eviction a one-shot job runs exactly
once, over all histories. Proved here, per visit of the work loop (any state, any due entry): a visit to an entry already marked
`evict` runs nothing (it deletes the job), and a visit to an unmarked one-shot runs it once and stores it marked `evict` in both
buckets under the new key. Missing: the induction over histories that links the visits of one incarnation (covered only by the
differential run, which counts runs per incarnation on the real buckets). -/
theorem crolt_oneshot_once_partial (db : DB) (now : Nat) (k : TId) (ts : Nat) (v : Job)
    (hv : get k db.time = some v) (hdue : isDue k now = true) :
    (v.evict = true → (workOne db now k ts).1.log = db.log ∧ (workOne db now k ts).2 = true) ∧
    (v.evict = false → v.once = true →
      (workOne db now k ts).1.log = ⟨v.aid, k.ts, now, true⟩ :: db.log ∧
      (get v.aid (workOne db now k ts).1.jobs).map (·.evict) = some true ∧
      (get ⟨ts, v.aid⟩ (workOne db now k ts).1.time).map (·.evict) = some true) := by
  have hw : C16Gen.workEvictsOnce = true := rfl
  constructor
  · intro he
    simp only [workOne, hv, hdue, he]
    exact ⟨delete_log _ _, rfl⟩
  · intro he ho
    simp only [workOne, hv, hdue, he, ho, hw]
    refine ⟨by simp [update], ?_, ?_⟩
    · simp [update, setFlags, get_put_same]
    · simp [update, setFlags, get_put_same]

open Crolt in
/-- Why `Legal` needs its hypothesis on `addCommit` (the former finding crolt-add-race, repaired by re-checking inside the writing
transaction): two writing transactions of `Add` for one id, neither re-checking existence, leave two entries in the time index for
one job (and the first is orphaned). -/
theorem crolt_concurrent_add_two_entries :
    let j : Job := ⟨1, none, true, false, false⟩
    let db := run {} [.addCommit j 10, .addCommit j 20]
    (db.time.filter (fun e => e.2.aid == 1)).length = 2 ∧ get ⟨10, 1⟩ db.time ≠ none ∧
    (get 1 db.jobs).map (·.tid) = some (some ⟨20, 1⟩) := by
  decide

open Crolt in
/-- The `TId` of the job handed to `Add` (through `AddHandler`: any string the client put into the request body) is never used:
`Add` changes no entry of the time index and no entry of the jobs bucket that belongs to another job. Together with
`buckets_consistent` (which asks nothing of the jobs passed to `Add`): the only time entry an `update` ever deletes is the updated
job's own, the one its stored version points to. -/
theorem crolt_tid_is_servers (db : DB) (j : Job) (ts : Nat) :
    (∀ t : TId, t.aid ≠ j.aid → get t (step db (.add j ts)).time = get t db.time) ∧
    (∀ a : Nat, a ≠ j.aid → get a (step db (.add j ts)).jobs = get a db.jobs) :=
  add_other db j ts

open Crolt in
/-- A recurring job never runs before the occurrence it runs for, jitter included: every run recorded in the life of a job with a
cron expression (any period `p ≠ 0`, any `MaxJitter`, any sequence of polls with any draws of the random number) served an
occurrence of the schedule that lies strictly before the clock reading of the due test. -/
theorem crolt_not_before_due (p max now u : Nat) (hp : p ≠ 0) (ops : List ROp) :
    ∀ r ∈ (rrun p max (rinit p max now u) ops).runs, r.1 % p = 0 ∧ r.1 < r.2 := by
  intro r hr
  obtain ⟨_, a, b⟩ := (RInv_run hp (RInv_init p max now u) ops).served r hr
  exact ⟨b, a⟩

open Crolt in
/-- … and it runs at most once per occurrence: the occurrences served by its successive runs are strictly increasing (the log is
newest first). Before the repair of `Cron.Jitter` a negative jitter let the job run before its occurrence and `Next(now)` was then
that same occurrence again. -/
theorem crolt_one_run_per_occurrence (p max now u : Nat) (hp : p ≠ 0) (ops : List ROp) :
    ((rrun p max (rinit p max now u) ops).runs.map (·.1)).Pairwise (· > ·) :=
  (RInv_run hp (RInv_init p max now u) ops).incr

/-! ## non-vacuity: the hypotheses are met by non-trivial instances -/

open CronM in
/-- a history with a replace, a removal, a recurring job and three fires in timeline order -/
example :
    let s := run (init 3) [.add 1 50 0, .add 2 30 0, .add 1 20 0, .add 3 0 25, .advance 30, .tick, .done 2, .tick, .tick, .rem 3, .advance 5]
    s.tl.map (·.id) = [] ∧ s.log.map (fun f => (f.id, f.due, f.time)) = [(2, 30, 30), (3, 25, 30), (1, 20, 30)] := by decide

open CronM in
/-- `oneshot_exactly_once`: job 2 (due 30) sits behind job 1 (due 20); two ticks at time 40 fire it exactly once -/
example :
    let s := run (init 3) [.add 2 30 0, .add 1 20 0, .advance 40]
    s.paused = false ∧ (∃ a b, s.tl = [a] ++ b :: [] ∧ b.id = 2 ∧ b.period = 0 ∧ b.next ≤ s.clock) := by
  refine ⟨rfl, ⟨1, 20, 0, 1⟩, ⟨2, 30, 0, 0⟩, by decide, rfl, rfl, by decide⟩

open CronM in
/-- `removed_never_fires`: the removed job never fires, the re-added one does -/
example :
    let s := run (init 3) [.add 1 10 0]
    (run s [.rem 1, .advance 20, .tick, .add 1 30 0, .advance 20, .tick]).log.map (fun f => (f.id, f.serial)) = [(1, 1)] := by
  decide

open CronM in
/-- `rem_during_fn_removes` (the former witness of the finding rem-in-flight): the recurring job 7 fires at 10, `Rem 7` comes while
its `Fn` runs: it is found, and after `Fn` returned nothing is pending and nothing fires at the next occurrence -/
example :
    let s := run (init 5) [.add 7 0 10, .advance 10, .tick]
    s.running.map (·.id) = [7] ∧ remFound s 7 = true ∧
    (run s [.rem 7, .done 0, .advance 10, .tick]).log.map (fun f => (f.id, f.due)) = [(7, 10)] ∧
    (run s [.rem 7, .done 0, .advance 10, .tick]).tl = [] := by
  decide

open CronM in
/-- `replace_during_fn_wins` / `unique_pending_per_id`: job 7 (recurring) is replaced by a one-shot due at 25 while its `Fn` runs; the
return of the old `Fn` leaves the replacement alone, which fires at 25, and the old job never fires again -/
example :
    let ops : List Op := [.add 7 0 10, .advance 10, .tick, .add 7 25 0, .done 0, .advance 15, .tick, .advance 20, .tick]
    (run (init 5) ops).log.map (fun f => (f.id, f.serial, f.due, f.time)) = [(7, 1, 25, 25), (7, 0, 10, 10)] ∧
    (run (init 5) ops).tl = [] ∧ (run (init 5) ops).running = [] := by
  decide

open CronM in
/-- `timer_armed` / `early_delivery_rearms` / `no_starvation` (the former witness of the finding rem-head-disarms): after removing the
head the timer still points at the removed job's time 100 (≤ 200); its delivery at 100 finds job 2 not ready and re-arms for 200,
whose delivery fires job 2 -/
example :
    let s := run (init 5) [.add 1 100 0, .add 2 200 0, .rem 1, .advance 100]
    s.armed = some 100 ∧ s.tl.map (·.id) = [2] ∧ (tick s).armed = some 200 ∧
    (run s [.tick, .advance 100, .tick]).log.map (fun f => (f.id, f.time)) = [(2, 200)] ∧
    (∃ s', deliverN 1 (run s [.tick, .advance 100]) = some s' ∧ s'.log.map (·.id) = [2]) := by
  refine ⟨by decide, by decide, by decide, by decide, _, rfl, by decide⟩

open CronM in
/-- `recurring_once_per_occurrence` / `recurring_rescheduled`: three fires for three different occurrences (occurrence 40 passes while nothing ticks and is skipped) -/
example :
    (firesOf 0 (run (init 3) [.add 1 0 10, .advance 10, .tick, .advance 3, .done 0, .advance 7, .tick, .done 0, .advance 25, .tick])).map (·.due)
      = [30, 20, 10] := by decide

open CronM in
/-- `suspend_only_delays` / `resume_rearms`: a job due during the suspension fires after `resume` -/
example :
    let s := run (init 3) [.add 1 10 0, .suspend, .advance 50]
    s.suspended = true ∧ s.armed = none ∧ (step s .resume).armed = some 10 ∧ (run s [.resume, .tick]).log.map (·.id) = [1] := by
  decide

open CronM in
/-- `timer_exact_when_calm`: a calm history (adds, a replace, ticks, a suspension) -/
example : Calm (init 5) [.add 1 30 0, .add 2 10 0, .add 1 20 0, .suspend, .advance 15, .resume, .tick, .done 1] ∧
    (run (init 5) [.add 1 30 0, .add 2 10 0, .add 1 20 0, .suspend, .advance 15, .resume, .tick, .done 1]).armed = some 20 := by
  refine ⟨?_, by decide⟩
  simp only [Calm, okTimer, and_true]
  decide

open Crolt in
/-- `buckets_consistent`: a legal history with a one-shot that fires, is marked for eviction, is evicted, with a reopen and a delete -/
example :
    let a : Job := ⟨1, none, true, false, false⟩
    let b : Job := ⟨2, none, false, false, false⟩
    let ops : List Op := [.add a 10, .add b 15, .reopen, .work 12 [(⟨10, 1⟩, 100)], .add a 11, .delete 2, .work 200 [(⟨100, 1⟩, 0)]]
    Legal {} ops ∧ (run {} ops).jobs = [] ∧ (run {} ops).time = [] ∧ (run {} ops).log.map (·.aid) = [1] := by
  refine ⟨?_, by decide, by decide, by decide⟩
  simp [Legal, okOp]

open Crolt in
/-- `buckets_consistent` / `crolt_tid_is_servers` (the former witness of the finding crolt-tid-injection): the second `Add` carries
the first job's `TId`; the history is legal all the same, the first job keeps its entry in the time index, the buckets agree -/
example :
    let a : Job := ⟨1, none, true, false, false⟩
    let b : Job := ⟨2, some ⟨10, 1⟩, true, false, false⟩
    let db := run {} [.add a 10, .add b 20]
    Legal {} [.add a 10, .add b 20] ∧ (get ⟨10, 1⟩ db.time).map (·.aid) = some 1 ∧ (get ⟨20, 2⟩ db.time).map (·.aid) = some 2 ∧
    (get 2 db.jobs).map (·.tid) = some (some ⟨20, 2⟩) := by
  refine ⟨by simp [Legal, okOp], by decide, by decide, by decide⟩

open Crolt in
/-- `crolt_one_run_per_occurrence` / `crolt_not_before_due`: an every-second job (p = 1000 ms, MaxJitter 900 ms) added at 1234 with
draws 100, 850, 0, 0, polled every 300 ms: four runs, for the occurrences 2000, 3000, 4000 and 5000, each after its occurrence -/
example :
    (rrun 1000 900 (rinit 1000 900 1234 100) [.advance 600, .poll 1 850, .advance 300, .poll 1 850, .advance 300, .poll 1 850,
        .advance 1500, .poll 1 0, .advance 300, .poll 1 0, .advance 300, .poll 1 0, .advance 300, .poll 1 0, .advance 300, .poll 1 5]).runs
      = [(5000, 5137), (4000, 4236), (3000, 3935), (2000, 2134)] := by decide

import RulioProofs.CronProps
import RulioProofs.CronTimer
import RulioProofs.Crolt

/-! # C16 — cron services fire each job when due, once, and never after removal (property theorems only)

In-memory cron: `CronM` (RulioModel/CronTimeline.lean), a state machine over `Op` = advance / add / rem / tick / done /
suspend / resume / pauseBegin / pauseEnd. All theorems quantify over *arbitrary* operation lists (ticks may come at
any time, `Fn`s may return in any order, commands at any point) from the initial state `init limit`.
Bolt-backed cron: `Crolt` (RulioModel/Crolt.lean), operations = the service's Bolt transactions.

The comparison operators (`readyTest`, `searchTest`, `limitTest`, `dueCmp`) and the presence of the decisive statements
(`scheduleRemsFirst`, `remErases`, `popDropsHead`, `rescheduleOnce`, `resumeRearms`, `updateDeletesOld`, `deleteRemovesTime`, …)
are regenerated from the Go source into `RulioModel/Gen/C16.lean` on every run; the proofs below depend on their values. -/

open CronM in
/-- After every sequence of Add / Rem / replace / pop (tick) / re-schedule (done) / control operations the timeline is sorted
by `Next` and holds at most one entry per job id. -/
theorem timeline_sorted_unique (limit : Nat) (ops : List Op) :
    (run (init limit) ops).tl.Pairwise (fun a b => a.next ≤ b.next) ∧
    (run (init limit) ops).tl.Pairwise (fun a b => a.id ≠ b.id) :=
  ⟨(WF_run (WF_init limit) ops).sorted, (WF_run (WF_init limit) ops).nodupId⟩

open CronM in
/-- Every invocation of a job's `Fn` happens at a loop time `≥` the job's `Next` (whatever the interleaving, also for stale
timer deliveries and during suspension); for recurring jobs `Next` is an occurrence of the schedule. -/
theorem no_early_fire (limit : Nat) (ops : List Op) :
    ∀ f ∈ (run (init limit) ops).log, f.due ≤ f.time ∧ (f.period ≠ 0 → f.due % f.period = 0) := by
  intro f hf
  obtain ⟨_, b, _, d⟩ := (WF_run (WF_init limit) ops).logOk f hf
  exact ⟨b, d⟩

open CronM in
/-- The job object created by `Add id due` (one-shot) only ever fires under that id, for that due time, no earlier than it. -/
theorem oneshot_fires_at_its_due (limit : Nat) (pre post : List Op) (id due : Nat) :
    let s0 := run (init limit) pre
    ∀ f ∈ (run s0 (.add id due 0 :: post)).log, f.serial = s0.serial →
      f.id = id ∧ f.due = due ∧ f.period = 0 ∧ due ≤ f.time := by
  intro s0 f hf hs
  have hw : WF s0 := WF_run (WF_init limit) pre
  have ht := oneshot_track hw id due post
  rcases ht.fires f hf (by simpa using hs) with h | ⟨a, b, c⟩
  · cases h
  · have hwf : WF (run s0 (.add id due 0 :: post)) := WF_run hw _
    exact ⟨a, c, b, c ▸ (hwf.logOk f hf).2.1⟩

open CronM in
/-- A one-shot job fires at most once, in every history. -/
theorem oneshot_once (limit : Nat) (pre post : List Op) (id due : Nat) :
    let s0 := run (init limit) pre
    (firesOf s0.serial (run s0 (.add id due 0 :: post))).length ≤ 1 := by
  intro s0
  have hw : WF s0 := WF_run (WF_init limit) pre
  have hwf : WF (run s0 (.add id due 0 :: post)) := WF_run hw _
  apply firesOf_oneshot_le_one hwf
  intro f hf
  have hm := List.mem_filter.1 hf
  exact (oneshot_fires_at_its_due limit pre post id due f hm.1 (by simpa using hm.2)).2.2.1

open CronM in
/-- … and exactly once if it is pending, not removed, and the loop ticks at or after its due time: a pending job at position
`pre.length` of the timeline whose due time has come is fired by the next `pre.length + 1` timer events (each tick pops the
head, which is due because the timeline is sorted). -/
theorem oneshot_exactly_once (limit : Nat) (ops : List Op) (pre : List Job) (j : Job) (post : List Job) :
    let s := run (init limit) ops
    s.paused = false → s.tl = pre ++ j :: post → j.period = 0 → j.next ≤ s.clock →
    (firesOf j.serial (run s (List.replicate (pre.length + 1) .tick))).length = 1 := by
  intro s hp htl hper hdue
  have hw : WF s := WF_run (WF_init limit) ops
  obtain ⟨hmem, _, _⟩ := ticks_fire hw hp pre j post htl hdue
  have hw' : WF (run s (List.replicate (pre.length + 1) .tick)) := WF_run hw _
  have hin : fireOf j s.clock ∈ firesOf j.serial (run s (List.replicate (pre.length + 1) .tick)) :=
    List.mem_filter.2 ⟨hmem, by simp [fireOf]⟩
  have hle : (firesOf j.serial (run s (List.replicate (pre.length + 1) .tick))).length ≤ 1 := by
    apply firesOf_oneshot_le_one hw'
    intro f hf
    -- all fires of one job object have the same period as the one just found
    have hpw := firesOf_pairwise hw' j.serial
    by_cases e : f = fireOf j s.clock
    · rw [e]; exact hper
    · -- two different fires of the same serial: impossible for a one-shot, whichever comes first
      exfalso
      have hsub := hpw
      obtain ⟨l1, l2, hl⟩ := List.append_of_mem hin
      rw [hl] at hf hsub
      rcases List.mem_append.1 hf with h1 | h1
      · have := (List.pairwise_append.1 hsub).2.2 f h1 (fireOf j s.clock) (by simp)
        exact this.2.1 (this.1.trans hper)
      · rcases List.mem_cons.1 h1 with h1 | h1
        · exact e h1
        · have := (List.pairwise_cons.1 (List.pairwise_append.1 hsub).2.1).1 f h1
          exact this.2.1 hper
  have hpos : 0 < (firesOf j.serial (run s (List.replicate (pre.length + 1) .tick))).length :=
    List.length_pos_of_mem hin
  omega

open CronM in
/-- A recurring job fires at most once per occurrence: the occurrences (`due`) of the successive fires of one job object are
strictly increasing (the log is newest-first), each an occurrence of its schedule, none fired before its time. -/
theorem recurring_once_per_occurrence (limit : Nat) (ops : List Op) (k : Nat) :
    ((firesOf k (run (init limit) ops)).map (·.due)).Pairwise (· > ·) ∧
    ∀ f ∈ firesOf k (run (init limit) ops), f.period ≠ 0 → f.due % f.period = 0 ∧ f.due ≤ f.time := by
  have hw : WF (run (init limit) ops) := WF_run (WF_init limit) ops
  constructor
  · rw [List.pairwise_map]
    exact (firesOf_pairwise hw k).imp (fun h => h.2.2)
  · intro f hf hp
    obtain ⟨_, b, _, d⟩ := hw.logOk f (List.mem_filter.1 hf).1
    exact ⟨d hp, b⟩

open CronM in
/-- … and when its `Fn` returns it is put back on the timeline for the first occurrence after that moment. -/
theorem recurring_rescheduled (limit : Nat) (ops : List Op) (j : Job) :
    let s := run (init limit) ops
    j ∈ s.inflight → j.period ≠ 0 →
    ∃ j' ∈ (step s (.done j.serial)).tl, j'.serial = j.serial ∧ j'.id = j.id ∧ j'.next = nextOcc j.period s.clock ∧ s.clock < j'.next := by
  intro s hj hp
  have hw : WF s := WF_run (WF_init limit) ops
  simp only [step]
  rcases done_cases s j.serial with ⟨_, hno⟩ | ⟨j2, hj2, hser, ⟨h0, _⟩ | ⟨_, e⟩⟩
  · exact absurd rfl (hno j hj)
  all_goals
    -- the job found is j itself (serials of live jobs are unique)
    have hj2eq : j2 = j := by
      have hinf : s.inflight.Pairwise (fun a b => a.serial ≠ b.serial) := (List.pairwise_append.1 hw.nodupSer).2.1
      by_cases e2 : j2 = j
      · exact e2
      · exfalso
        obtain ⟨l1, l2, hl⟩ := List.append_of_mem hj
        rw [hl] at hj2 hinf
        rcases List.mem_append.1 hj2 with h1 | h1
        · exact (List.pairwise_append.1 hinf).2.2 j2 h1 j (by simp) hser
        · rcases List.mem_cons.1 h1 with h1 | h1
          · exact e2 h1
          · exact (List.pairwise_cons.1 (List.pairwise_append.1 hinf).2.1).1 j2 h1 hser.symm
    subst hj2eq
  · exact absurd h0 hp
  · rw [e, schedule_tl_nolimit]
    refine ⟨schedJob s.clock j2, mem_insertJob.2 (Or.inl rfl), (schedJob_id _ _).2.1, (schedJob_id _ _).1, ?_⟩
    rcases schedJob_next s.clock j2 with ⟨h0, _⟩ | ⟨_, hn⟩
    · exact absurd h0 hp
    · exact ⟨hn, hn ▸ nextOcc_gt hp⟩

open CronM in
/-- `Rem id` of a job that is pending (no job with that id is in flight) means that id never fires again unless re-added:
every later fire under that id belongs to a job object created by an `Add` issued after the `Rem`. -/
theorem removed_pending_never_fires (limit : Nat) (pre post : List Op) (id : Nat) :
    let s := run (init limit) pre
    (∀ j ∈ s.inflight, j.id ≠ id) →
    ∀ f ∈ (run s (.rem id :: post)).log, f.id = id → f ∈ s.log ∨ s.serial ≤ f.serial := by
  intro s hnf f hf hid
  have hw : WF s := WF_run (WF_init limit) pre
  exact (removed_track hw id hnf post).fires f hf (by simpa using hid)

open CronM in
/-- Suspending, pausing, resuming and the passage of time never drop a pending or running job and never fire one … -/
theorem suspend_only_delays (s : Cron) (cs : List Op) (hc : ∀ o ∈ cs, o.isControl = true) :
    (run s cs).tl = s.tl ∧ (run s cs).inflight = s.inflight ∧ (run s cs).log = s.log ∧ s.clock ≤ (run s cs).clock := by
  induction cs generalizing s with
  | nil => exact ⟨rfl, rfl, rfl, Nat.le_refl _⟩
  | cons o cs ih =>
    have ho := hc o (by simp)
    have h1 : (step s o).tl = s.tl ∧ (step s o).inflight = s.inflight ∧ (step s o).log = s.log ∧ s.clock ≤ (step s o).clock := by
      cases o with
      | advance d => exact ⟨rfl, rfl, rfl, Nat.le_add_right _ _⟩
      | suspend => exact ⟨rfl, rfl, rfl, Nat.le_refl _⟩
      | pauseBegin => exact ⟨rfl, rfl, rfl, Nat.le_refl _⟩
      | resume => simp only [step]; split <;> exact ⟨rfl, rfl, rfl, Nat.le_refl _⟩
      | pauseEnd => simp only [step]; split <;> exact ⟨rfl, rfl, rfl, Nat.le_refl _⟩
      | add _ _ _ => cases ho
      | rem _ => cases ho
      | tick => cases ho
      | done _ => cases ho
    obtain ⟨a, b, c, d⟩ := ih (step s o) (fun o' ho' => hc o' (by simp [ho']))
    obtain ⟨a1, b1, c1, d1⟩ := h1
    exact ⟨a.trans a1, b.trans b1, c.trans c1, Nat.le_trans d1 d⟩

open CronM in
/-- … and `resume` of a suspended cron (likewise the end of a pause) re-arms the timer for the head of the timeline, whose
delivery then fires the head as soon as it is due (`oneshot_exactly_once`): suspension only delays. -/
theorem resume_rearms (s : Cron) :
    (s.suspended = true → (step s .resume).armed = rearm s.tl ∧ (step s .resume).suspended = false) ∧
    (s.paused = true → (step s .pauseEnd).armed = rearm s.tl ∧ (step s .pauseEnd).paused = false) ∧
    (∀ j rest, s.tl = j :: rest → rearm s.tl = some j.next) := by
  refine ⟨?_, ?_, ?_⟩
  · intro h; simp [step, h, show C16Gen.resumeRearms = true from rfl]
  · intro h; simp [step, h]
  · intro j rest h; simp [rearm, h]

open CronM in
/-- PARTIAL (liveness of the timer). Full statement wanted by the property: in every reachable state that is neither suspended nor
paused and has a pending job, the timer is armed for the head of the timeline — so that the timer contract delivers the ticks
`oneshot_exactly_once` asks for. That is FALSE for the real code (`rem_head_disarms`). Proved: it holds along every history without
`Rem` and without an `Add` rejected for capacity (`Calm`); those two operations take the head away without re-arming. -/
theorem timer_armed_partial (limit : Nat) (ops : List Op) (h : Calm (init limit) ops) :
    let s := run (init limit) ops
    s.suspended = false → s.paused = false → ∀ j rest, s.tl = j :: rest → s.armed = some j.next := by
  intro s hs hp j rest htl
  have := Armed_run (Armed_init limit) ops h hs hp (by rw [htl]; simp)
  rw [this, htl]; rfl

/-! ## negative theorems: what the real code gets wrong (witnesses replayed on the implementation by the check) -/

open CronM in
/-- KNOWN FINDING rem-in-flight: `Rem` of a recurring job while its `Fn` runs finds nothing, the job is re-scheduled when `Fn`
returns and fires again — the hypothesis "not in flight" of `removed_pending_never_fires` cannot be dropped. -/
theorem rem_inflight_undone :
    let pre : List Op := [.add 7 0 10, .advance 10, .tick]
    let post : List Op := [.done 0, .advance 10, .tick]
    let s := run (init 5) pre
    hasJob 7 s.tl = false ∧
    ∃ f ∈ (run s (.rem 7 :: post)).log, f.id = 7 ∧ f ∉ s.log ∧ f.serial < s.serial := by
  refine ⟨by decide, ⟨7, 0, 10, 20, 20⟩, by decide, rfl, by decide, by decide⟩

open CronM in
/-- KNOWN FINDING rem-head-disarms: `Rem` does not re-arm the timer. After removing the head of the timeline the timer still
points at the removed job's time; when it is delivered nothing is ready and nothing re-arms it: a job stays pending with the
timer stopped, although the cron is neither suspended nor paused (it fires only if some later Add/resume re-arms). -/
theorem rem_head_disarms :
    let s := run (init 5) [.add 1 100 0, .add 2 200 0, .rem 1, .advance 100, .tick, .advance 1000]
    s.tl.map (·.id) = [2] ∧ s.armed = none ∧ s.suspended = false ∧ s.paused = false ∧ s.log = [] := by
  decide

/-! ## Bolt-backed cron service -/

open Crolt in
/-- After every history of the service's transactions (Add, Delete, work with any cursor choices and any new due times, reopen)
the two buckets agree key for key: `jobs[aid].TId` is a key of `time` holding the same job and vice versa. Every prefix of a
history is a history, `reopen` is the identity on the file, so this holds at every reopen point — given that a Bolt transaction
is atomic and durable. `Legal`: callers pass fresh jobs, and no other `Add` of the same id commits between the exists-check and
the update of an `Add`. -/
theorem buckets_consistent (ops : List Op) (h : Legal {} ops) : BInv (run {} ops) :=
  BInv_run BInv_empty ops h

open Crolt in
/-- … hence at most one entry of the time index per job. -/
theorem one_entry_per_job (ops : List Op) (h : Legal {} ops) (aid : Nat) :
    ((run {} ops).time.filter (fun e => e.2.aid == aid)).length ≤ 1 :=
  one_entry (BInv_run BInv_empty ops h) (KInv_run KInv_empty ops) aid

open Crolt in
/-- The service only runs a job whose key in the time index is before the loop's `now`. -/
theorem crolt_no_early_fire (ops : List Op) : ∀ f ∈ (run {} ops).log, f.due < f.now := by
  intro f hf
  rcases run_log hf with h | h
  · cases h
  · exact h

open Crolt in
/-- PARTIAL (one-shot jobs of the service). Full statement wanted: between its `Add` and its eviction a one-shot job runs exactly
once, over all histories. Proved here, per visit of the work loop (any state, any due entry): a visit to an entry already marked
`evict` runs nothing (it deletes the job), and a visit to an unmarked one-shot runs it once and stores it marked `evict` in both
buckets under the new key. Missing: the induction over histories that links the visits of one incarnation (covered only by the
differential run, which counts runs per incarnation on the real buckets). -/
theorem crolt_oneshot_once_partial (db : DB) (now : Nat) (k : TId) (ts : Nat) (v : Job)
    (hv : get k db.time = some v) (hdue : isDue k now = true) :
    (v.evict = true → (workOne db now k ts).1.log = db.log ∧ (workOne db now k ts).2 = true) ∧
    (v.evict = false → v.once = true →
      (workOne db now k ts).1.log = ⟨v.aid, k.ts, now, true⟩ :: db.log ∧
      (get v.aid (workOne db now k ts).1.jobs).map (·.evict) = some true ∧
      (get ⟨ts, v.aid⟩ (workOne db now k ts).1.time).map (·.evict) = some true) := by
  have hw : C16Gen.workEvictsOnce = true := rfl
  constructor
  · intro he
    simp only [workOne, hv, hdue, he]
    exact ⟨delete_log _ _, rfl⟩
  · intro he ho
    simp only [workOne, hv, hdue, he, ho, hw]
    refine ⟨by simp [update], ?_, ?_⟩
    · simp [update, setFlags, get_put_same]
    · simp [update, setFlags, get_put_same]

open Crolt in
/-- KNOWN FINDING crolt-add-race: `Add` checks existence in one transaction and writes in another; two concurrent adds of one
id both pass the check and the second commit leaves two entries in the time index for one job (and the first is orphaned). -/
theorem crolt_concurrent_add_two_entries :
    let j : Job := ⟨1, none, true, false, false⟩
    let db := run {} [.addCommit j 10, .addCommit j 20]
    (db.time.filter (fun e => e.2.aid == 1)).length = 2 ∧ get ⟨10, 1⟩ db.time ≠ none ∧
    (get 1 db.jobs).map (·.tid) = some (some ⟨20, 1⟩) := by
  decide

open Crolt in
/-- FINDING crolt-tid-injection: `AddHandler` stores the `tid` field of the request body; `update` deletes that key from the time
index. A client that names another job's `tid` removes that job from the index: it stays in `jobs` and never runs. -/
theorem crolt_tid_injection_breaks :
    let a : Job := ⟨1, none, true, false, false⟩
    let b : Job := ⟨2, some ⟨10, 1⟩, true, false, false⟩
    let db := run {} [.add a 10, .add b 20]
    (get 1 db.jobs).map (·.tid) = some (some ⟨10, 1⟩) ∧ get ⟨10, 1⟩ db.time = none := by
  decide

/-! ## non-vacuity: the hypotheses are met by non-trivial instances -/

open CronM in
/-- a history with a replace, a removal, a recurring job and three fires in timeline order -/
example :
    let s := run (init 3) [.add 1 50 0, .add 2 30 0, .add 1 20 0, .add 3 0 25, .advance 30, .tick, .done 2, .tick, .tick, .rem 3, .advance 5]
    s.tl.map (·.id) = [] ∧ s.log.map (fun f => (f.id, f.due, f.time)) = [(2, 30, 30), (3, 25, 30), (1, 20, 30)] := by decide

open CronM in
/-- `oneshot_exactly_once`: job 2 (due 30) sits behind job 1 (due 20); two ticks at time 40 fire it exactly once -/
example :
    let s := run (init 3) [.add 2 30 0, .add 1 20 0, .advance 40]
    s.paused = false ∧ (∃ a b, s.tl = [a] ++ b :: [] ∧ b.id = 2 ∧ b.period = 0 ∧ b.next ≤ s.clock) := by
  refine ⟨rfl, ⟨1, 20, 0, 1⟩, ⟨2, 30, 0, 0⟩, by decide, rfl, rfl, by decide⟩

open CronM in
/-- `removed_pending_never_fires`: the hypothesis holds (nothing in flight), the removed job never fires, the re-added one does -/
example :
    let s := run (init 3) [.add 1 10 0]
    (∀ j ∈ s.inflight, j.id ≠ 1) ∧
    (run s [.rem 1, .advance 20, .tick, .add 1 30 0, .advance 20, .tick]).log.map (fun f => (f.id, f.serial)) = [(1, 1)] := by
  refine ⟨by decide, by decide⟩

open CronM in
/-- `recurring_once_per_occurrence` / `recurring_rescheduled`: three fires for three different occurrences (occurrence 40 passes while nothing ticks and is skipped) -/
example :
    (firesOf 0 (run (init 3) [.add 1 0 10, .advance 10, .tick, .advance 3, .done 0, .advance 7, .tick, .done 0, .advance 25, .tick])).map (·.due)
      = [30, 20, 10] := by decide

open CronM in
/-- `suspend_only_delays` / `resume_rearms`: a job due during the suspension fires after `resume` -/
example :
    let s := run (init 3) [.add 1 10 0, .suspend, .advance 50]
    s.suspended = true ∧ s.armed = none ∧ (step s .resume).armed = some 10 ∧ (run s [.resume, .tick]).log.map (·.id) = [1] := by
  decide

open CronM in
/-- `timer_armed_partial`: a calm history (adds, a replace, ticks, a suspension) -/
example : Calm (init 5) [.add 1 30 0, .add 2 10 0, .add 1 20 0, .suspend, .advance 15, .resume, .tick, .done 1] ∧
    (run (init 5) [.add 1 30 0, .add 2 10 0, .add 1 20 0, .suspend, .advance 15, .resume, .tick, .done 1]).armed = some 20 := by
  refine ⟨?_, by decide⟩
  simp only [Calm, okTimer, and_true]
  decide

open Crolt in
/-- `buckets_consistent`: a legal history with a one-shot that fires, is marked for eviction, is evicted, with a reopen and a delete -/
example :
    let a : Job := ⟨1, none, true, false, false⟩
    let b : Job := ⟨2, none, false, false, false⟩
    let ops : List Op := [.add a 10, .add b 15, .reopen, .work 12 [(⟨10, 1⟩, 100)], .add a 11, .delete 2, .work 200 [(⟨100, 1⟩, 0)]]
    Legal {} ops ∧ (run {} ops).jobs = [] ∧ (run {} ops).time = [] ∧ (run {} ops).log.map (·.aid) = [1] := by
  refine ⟨?_, by decide, by decide, by decide⟩
  simp [Legal, okOp, Job.fresh]

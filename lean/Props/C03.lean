import RulioProofs.QueryExamples

/-! # C03 — condition queries follow the and/or/not/pattern/code semantics (property theorems only)

`execQ srch q bss` is the model of `Query.Exec` (query.go) on the incoming bindings `bss`; the fact search
(`SearchLocations`: local and inherited facts that match, C01/C02/C05) is the parameter
`srch : Obj → Except LErr (List Bs)`, so every theorem holds for all fact sets, with and without parents.
All statements quantify over arbitrary query programs `Q` (any nesting, any arity), arbitrary `srch`
and arbitrary lists of incoming bindings. -/

open QSpec QueryProofs

/-! ## 1. the empty query -/

/-- the empty query is the identity on the incoming bindings -/
theorem exec_empty (srch : Srch) (bss : List Bs) : execQ srch .empty bss = .ok bss :=
  execQ.eq_1 srch bss

/-! ## 2. `and` -/

/-- `and` is the left-to-right Kleisli composition of its conjuncts (the first error aborts) -/
theorem exec_and (srch : Srch) (qs : List Q) (bss : List Bs) :
    execQ srch (.and qs) bss = qs.foldlM (fun acc q => execQ srch q acc) bss :=
  exec_and_eq srch qs bss

/-- `and []` is the identity -/
theorem exec_and_nil (srch : Srch) (bss : List Bs) : execQ srch (.and []) bss = .ok bss := by
  rw [exec_and_eq]; rfl

/-- `and (q :: qs)`: run `q`, feed its result to the remaining conjuncts -/
theorem exec_and_cons (srch : Srch) (q : Q) (qs : List Q) (bss : List Bs) :
    execQ srch (.and (q :: qs)) bss = (do let r ← execQ srch q bss; execQ srch (.and qs) r) := by
  rw [execQ.eq_4, execAnd.eq_2]
  cases execQ srch q bss with
  | error e => rfl
  | ok r => exact (execQ.eq_4 srch r qs).symm

/-! ## 3. `or` -/

/-- `or []` yields nothing, whatever comes in -/
theorem exec_or_nil (srch : Srch) (sc : Bool) (bss : List Bs) : execQ srch (.or [] sc) bss = .ok [] := by
  rw [exec_or_eq, bindEach_ok_of_forall _ (fun _ => []) bss (fun bs _ => execOr_nil srch sc bs)]
  congr 1
  induction bss with
  | nil => rfl
  | cons b bs ih => rw [List.flatMap_cons, ih]; rfl

/-- `or` works binding by binding: the result for a list of incoming bindings is the concatenation, in order,
of the results for each single binding (the first error aborts) -/
theorem exec_or_bindings (srch : Srch) (qs : List Q) (sc : Bool) (bss : List Bs) :
    execQ srch (.or qs sc) bss = bindEach (fun bs => execQ srch (.or qs sc) [bs]) bss := by
  rw [exec_or_eq]
  congr 1
  funext bs
  rw [exec_or_eq, bindEach_single]

/-- `exec_or`: for any incoming bindings, given the result `res bs q` of every disjunct on every singleton: per
incoming binding (in order) the concatenation of all disjunct results, or — iff `shortCircuit` — only the first
non-empty one -/
theorem exec_or (srch : Srch) (qs : List Q) (sc : Bool) (res : Bs → Q → List Bs) (bss : List Bs)
    (h : ∀ bs ∈ bss, ∀ q ∈ qs, execQ srch q [bs] = .ok (res bs q)) :
    execQ srch (.or qs sc) bss =
      .ok (bss.flatMap fun bs => if sc then orFirst (qs.map (res bs)) else qs.flatMap (res bs)) :=
  exec_or_spec' srch qs sc res bss h

/-- without `shortCircuit`, one incoming binding yields the concatenation of every disjunct's result -/
theorem exec_or_all (srch : Srch) (qs : List Q) (bs : Bs) (rs : List (List Bs))
    (h : Pointwise (fun q r => execQ srch q [bs] = .ok r) qs rs) :
    execQ srch (.or qs false) [bs] = .ok rs.flatten := by
  rw [exec_or_eq, bindEach_single]; exact execOr_all srch bs qs rs h

/-- with `shortCircuit`, one incoming binding yields the first non-empty disjunct result (or nothing) -/
theorem exec_or_short_circuit (srch : Srch) (qs : List Q) (bs : Bs) (rs : List (List Bs))
    (h : Pointwise (fun q r => execQ srch q [bs] = .ok r) qs rs) :
    execQ srch (.or qs true) [bs] = .ok (orFirst rs) := by
  rw [exec_or_eq, bindEach_single]; exact execOr_first srch bs qs rs h

/-- with `shortCircuit`, evaluation stops at the first non-empty disjunct: the later disjuncts `post`
are not evaluated at all (they may even be failing queries) -/
theorem exec_or_stops (srch : Srch) (pre post : List Q) (q : Q) (bs : Bs) (r : List Bs)
    (hpre : ∀ q' ∈ pre, execQ srch q' [bs] = .ok []) (hq : execQ srch q [bs] = .ok r) (hne : r ≠ []) :
    execQ srch (.or (pre ++ q :: post) true) [bs] = .ok r := by
  rw [exec_or_eq, bindEach_single, execOr_skip_empty srch true bs _ pre hpre]
  exact execOr_cons_sc srch q post bs r hq hne

/-- without `shortCircuit`, every disjunct is evaluated: a failing disjunct fails the whole `or` -/
theorem exec_or_error (srch : Srch) (pre post : List Q) (q : Q) (bs : Bs) (e : LErr)
    (hpre : ∀ q' ∈ pre, ∃ r, execQ srch q' [bs] = .ok r) (hq : execQ srch q [bs] = .error e) :
    execQ srch (.or (pre ++ q :: post) false) [bs] = .error e := by
  rw [exec_or_eq, bindEach_single]; exact execOr_nosc_err srch bs q post e pre hpre hq

/-! ## 4. `not` -/

/-- `not q` keeps exactly the incoming bindings (in order, with multiplicity) for which `q` on the
singleton yields nothing -/
theorem exec_not (srch : Srch) (q : Q) (res : Bs → List Bs) (bss : List Bs)
    (h : ∀ bs ∈ bss, execQ srch q [bs] = .ok (res bs)) :
    execQ srch (.not q) bss = .ok (bss.filter (fun bs => (res bs).isEmpty)) :=
  exec_not_filter srch q res bss h

/-- an error of the negated query on any incoming binding fails the `not` -/
theorem exec_not_error (srch : Srch) (q : Q) (bss : List Bs) (bs : Bs) (e : LErr)
    (hm : bs ∈ bss) (h : execQ srch q [bs] = .error e) : ∃ e', execQ srch (.not q) bss = .error e' := by
  rw [exec_not_eq]
  exact bindEach_err_of_mem _ bss bs e hm (by unfold notOne; rw [bind_err _ e _ h])

/-! ## 5. `pattern` -/

/-- `pattern`: for each incoming binding `bs`, in order, for each `more` that the fact search returns for the
pattern with `bs` substituted (`Bind`), the extension `ExtendBindings bs more`.
(`subst bs (.obj p)` is always a map, so the "isn't a map" error of the Go code is unreachable.) -/
theorem exec_pattern (srch : Srch) (p : Obj) (l : List String) (found : Bs → List Bs) (bss : List Bs)
    (h : ∀ bs ∈ bss, srch (substO bs p) = .ok (found bs)) :
    execQ srch (.pattern p l) bss = .ok (bss.flatMap fun bs => (found bs).map (extendBs bs)) :=
  exec_pattern_ok srch p l found bss h

/-- a failing fact search fails the query -/
theorem exec_pattern_error (srch : Srch) (p : Obj) (l : List String) (bss : List Bs) (bs : Bs) (e : LErr)
    (hm : bs ∈ bss) (h : srch (substO bs p) = .error e) : ∃ e', execQ srch (.pattern p l) bss = .error e' := by
  rw [exec_pattern_eq]
  exact bindEach_err_of_mem _ bss bs e hm (by unfold patOne; rw [bind_err _ e _ h])

/-- `Bind` of a map pattern is the map with `bs` substituted in every value -/
theorem bind_is_map (bs : Bs) (p : Obj) : subst bs (.obj p) = .obj (substO bs p) := subst_obj bs p

/-- `ExtendBindings x y` is a right-biased merge: `k` maps to `y`'s value if `y` (a map: distinct keys)
binds `k`, else to `x`'s -/
theorem extendBs_get (x y : Bs) (k : String) (hn : (y.map (·.1)).Nodup) :
    Bs.get? (extendBs x y) k = (Bs.get? y k).or (Bs.get? x k) :=
  QueryProofs.extendBs_get x y k hn

/-- without the distinct-keys assumption: the last entry of `y` for `k` wins -/
theorem extendBs_get_last (x y : Bs) (k : String) :
    Bs.get? (extendBs x y) k = (Bs.getLast? y k).or (Bs.get? x k) :=
  QueryProofs.extendBs_get_last x y k

/-! ## 6. `code` -/

/-- `code`: the script is evaluated once per incoming binding, in order, on `StripQuestionMarks bs`;
its value decides through `codeKeep` -/
theorem exec_code (srch : Srch) (t : J) (val : Bs → J) (bss : List Bs)
    (h : ∀ bs ∈ bss, evalTmpl t (stripQ bs) = .ok (val bs)) :
    execQ srch (.code t) bss = .ok (bss.flatMap fun bs => codeKeep bs (val bs)) :=
  exec_code_ok srch t val bss h

/-- an evaluation error aborts the whole query -/
theorem exec_code_error (srch : Srch) (t : J) (bss : List Bs) (bs : Bs) (e : LErr)
    (hm : bs ∈ bss) (h : evalTmpl t (stripQ bs) = .error e) : ∃ e', execQ srch (.code t) bss = .error e' := by
  rw [exec_code_eq]
  exact bindEach_err_of_mem _ bss bs e hm (by unfold codeOne; rw [bind_err _ e _ h])

/-- the binding is dropped iff the script's value is `null` or `false` -/
theorem code_drop_iff (bs : Bs) (v : J) : codeKeep bs v = [] ↔ v = .null ∨ v = .bool false :=
  codeKeep_eq_nil bs v

/-- `true`, and every other non-null, non-false, non-object value, keeps the binding unchanged -/
theorem code_keep (bs : Bs) (v : J) (h1 : v ≠ .null) (h2 : v ≠ .bool false) (h3 : ∀ o, v ≠ .obj o) :
    codeKeep bs v = [bs] :=
  codeKeep_keep bs v h1 h2 h3

/-- a returned object is merged into the binding under `?`-prefixed keys (right-biased, as `ExtendBindings`) -/
theorem code_merge (bs : Bs) (o : Obj) :
    codeKeep bs (.obj o) = [extendBs bs (o.map (fun kv => ("?" ++ kv.1, kv.2)))] :=
  codeKeep_obj bs o

/-! ## 7. the compositional law -/

/-- every query maps no bindings to no bindings -/
theorem exec_nil (srch : Srch) (q : Q) : execQ srch q [] = .ok [] := QueryProofs.exec_nil srch q

/-- `exec_append`: for EVERY query program (`and`, `or`, `not` included), evaluating on `b₁ ++ b₂` is
evaluating on `b₁` and on `b₂` and concatenating -/
theorem exec_append (srch : Srch) (q : Q) (b₁ b₂ r₁ r₂ : List Bs)
    (h₁ : execQ srch q b₁ = .ok r₁) (h₂ : execQ srch q b₂ = .ok r₂) :
    execQ srch q (b₁ ++ b₂) = .ok (r₁ ++ r₂) :=
  (exec_additive srch q b₁ b₂).1 r₁ r₂ h₁ h₂

/-- an error on the first part is an error on the whole (not necessarily the same one: inside an `and`
the second part's first conjunct runs before the first part's second conjunct) -/
theorem exec_append_error_left (srch : Srch) (q : Q) (b₁ b₂ : List Bs) (e : LErr)
    (h₁ : execQ srch q b₁ = .error e) : ∃ e', execQ srch q (b₁ ++ b₂) = .error e' :=
  (exec_additive srch q b₁ b₂).2.1 e h₁

/-- an error on the second part is an error on the whole -/
theorem exec_append_error_right (srch : Srch) (q : Q) (b₁ b₂ : List Bs) (e : LErr)
    (h₂ : execQ srch q b₂ = .error e) : ∃ e', execQ srch q (b₁ ++ b₂) = .error e' :=
  (exec_additive srch q b₁ b₂).2.2 e h₂

/-- consequence: a successful evaluation on several bindings is the in-order concatenation of the
evaluations on the singletons — the per-binding theorems above determine the result on any list -/
theorem exec_singletons (srch : Srch) (q : Q) (bss r : List Bs) (h : execQ srch q bss = .ok r) :
    ∃ per, Pointwise (fun bs x => execQ srch q [bs] = .ok x) bss per ∧ r = per.flatten :=
  QueryProofs.exec_singletons srch q bss r h

/-! ## 8. `ParseQuery` dispatch order -/

/-- `{}` is the empty query -/
theorem parse_empty (n : Nat) : parseQuery (n + 1) (.obj []) = .ok .empty := QueryProofs.parse_empty n

/-- anything but a map is a syntax error -/
theorem parse_nonmap (n : Nat) (j : J) (h : ∀ o, j ≠ .obj o) : parseQuery (n + 1) j = .error "syntax" :=
  QueryProofs.parse_nonmap n j h

/-- `code` is tried first: whatever else the map holds -/
theorem parse_order_code (n : Nat) (q : Obj) (hne : q ≠ []) (h : Obj.has q "code" = true) :
    parseQuery (n + 1) (.obj q) =
      if Obj.has q "verif_bad" then .error "syntax" else .ok (.code ((Obj.get? q "verif_tmpl").getD .null)) :=
  QueryProofs.parse_code n q hne h

/-- then `pattern` (must be a map) -/
theorem parse_order_pattern (n : Nat) (q : Obj) (hne : q ≠ []) (h0 : Obj.has q "code" = false)
    (h : Obj.has q "pattern" = true) :
    parseQuery (n + 1) (.obj q) =
      match Obj.get? q "pattern" with
      | some (.obj p) => .ok (.pattern p [])
      | _ => .error "syntax" :=
  QueryProofs.parse_pattern n q hne h0 h

/-- then `and` (must be an array of queries) -/
theorem parse_order_and (n : Nat) (q : Obj) (hne : q ≠ []) (h0 : Obj.has q "code" = false)
    (h1 : Obj.has q "pattern" = false) (h : Obj.has q "and" = true) :
    parseQuery (n + 1) (.obj q) =
      match Obj.get? q "and" with
      | some (.arr xs) => do let qs ← xs.mapM (parseQuery n); pure (.and qs)
      | _ => .error "syntax" :=
  QueryProofs.parse_and n q hne h0 h1 h

/-- then `or` (array of queries, plus the short-circuit option `scSpec`) -/
theorem parse_order_or (n : Nat) (q : Obj) (hne : q ≠ []) (h0 : Obj.has q "code" = false)
    (h1 : Obj.has q "pattern" = false) (h2 : Obj.has q "and" = false) (h : Obj.has q "or" = true) :
    parseQuery (n + 1) (.obj q) =
      match Obj.get? q "or" with
      | some (.arr xs) => do let qs ← xs.mapM (parseQuery n); let sc ← scSpec q; pure (.or qs sc)
      | _ => .error "syntax" :=
  QueryProofs.parse_or n q hne h0 h1 h2 h

/-- then `not` (must be a map) -/
theorem parse_order_not (n : Nat) (q : Obj) (hne : q ≠ []) (h0 : Obj.has q "code" = false)
    (h1 : Obj.has q "pattern" = false) (h2 : Obj.has q "and" = false) (h3 : Obj.has q "or" = false)
    (h : Obj.has q "not" = true) :
    parseQuery (n + 1) (.obj q) =
      match Obj.get? q "not" with
      | some (.obj a) => do let q' ← parseQuery n (.obj a); pure (.not q')
      | _ => .error "syntax" :=
  QueryProofs.parse_not n q hne h0 h1 h2 h3 h

/-- a non-empty map with none of the five keys is a syntax error -/
theorem parse_order_none (n : Nat) (q : Obj) (hne : q ≠ []) (h0 : Obj.has q "code" = false)
    (h1 : Obj.has q "pattern" = false) (h2 : Obj.has q "and" = false) (h3 : Obj.has q "or" = false)
    (h4 : Obj.has q "not" = false) :
    parseQuery (n + 1) (.obj q) = .error "syntax" :=
  QueryProofs.parse_none n q hne h0 h1 h2 h3 h4

/-- the fuel is irrelevant: every fuel ≥ the size of the document gives the same parse, so the fuel the callers
pass (`4 * sz q + 4`) never shows in a result -/
theorem parse_fuel_irrelevant (n m : Nat) (j : J) (hn : sz j ≤ n) (hm : sz j ≤ m) :
    parseQuery n j = parseQuery m j :=
  QueryProofs.parse_fuel_irrelevant n m j hn hm

/-- none of the four `shortCircuit` spellings present: no short-circuit -/
theorem short_circuit_absent (q : Obj) (h : ∀ k ∈ scKeys, Obj.has q k = false) : scSpec q = .ok false :=
  scSpec_absent q h

/-- the first spelling (in the order `shortCircuit`, `ShortCircuit`, `short_circuit`, `shortcircuit`) that is
present decides, whatever the later ones say; it must be a bool -/
theorem short_circuit_first (q : Obj) (pre post : List String) (k : String) (v : J)
    (hk : scKeys = pre ++ k :: post) (hpre : ∀ k' ∈ pre, Obj.has q k' = false) (hv : Obj.get? q k = some v) :
    scSpec q = match v with | .bool b => .ok b | _ => .error "syntax" :=
  scSpec_first q pre post k v hk hpre hv

/-! ## 9. `StripQuestionMarks` -/

/-- `stripQ` drops the entries with an empty key and maps every other key through `stripKey` -/
theorem strip_spec (bs : Bs) :
    stripQ bs = (bs.filter (fun kv => !kv.1.isEmpty)).map (fun kv => (stripKey kv.1, kv.2)) :=
  stripQ_eq bs

/-- entry-wise reading of `strip_spec` -/
theorem strip_mem (bs : Bs) (k' : String) (v : J) :
    (k', v) ∈ stripQ bs ↔ ∃ k, (k, v) ∈ bs ∧ k ≠ "" ∧ k' = stripKey k :=
  mem_stripQ bs k' v

/-- exactly one leading `?` is removed (`??x` becomes `?x`) -/
theorem strip_key_var (s : String) : stripKey ("?" ++ s) = s := stripKey_var s

/-- a key that does not start with `?` is kept -/
theorem strip_key_other (k : String) (h : k.startsWith "?" = false) : stripKey k = k := stripKey_nonvar k h

/-- `startsWith "?"` means what it says -/
theorem starts_with_q (k : String) : k.startsWith "?" = true ↔ ∃ t, k = "?" ++ t := startsWith_q_iff k

/-! ## Non-vacuity: the hypotheses are satisfiable, and the definitions evaluate as expected, on a concrete
instance — facts `{"a":1}`, `{"a":2}`, `{"b":1}` searched with the real matcher model (`QueryEx.exSrch`),
bindings `x1 = {"?x":1}`, `x2 = {"?x":2}`, queries `qA = {"pattern":{"a":"?x"}}`, `qB = {"pattern":{"b":"?x"}}` -/

section Examples
open QueryEx

/-- `pattern` on the empty binding: one result per matching fact, in order (hypothesis of `exec_pattern`) -/
example : execQ exSrch qA [[]] = .ok [x1, x2] := by
  have h := exec_pattern exSrch [("a", .str "?x")] [] (fun _ => [x1, x2]) [[]]
    (by intro bs hm; rw [List.mem_singleton] at hm; subst hm; rw [subst_a_nil, srch_a_var])
  rw [qA, h]
  simp [ext_nil]

/-- `pattern` with the variable already bound: the binding is substituted first and then kept -/
example : execQ exSrch qB [x1] = .ok [x1] ∧ execQ exSrch qB [x2] = .ok [] := ⟨qB_x1, qB_x2⟩

/-- `not` keeps `x2` twice (no fact `{"b":2}`) and drops `x1` (fact `{"b":1}`): order and multiplicity -/
example : execQ exSrch (.not qB) [x1, x2, x2] = .ok [x2, x2] := by
  rw [exec_not exSrch qB resB [x1, x2, x2] qB_res]; simp [x1, x2, resB]

/-- `and`: the second conjunct sees the bindings produced by the first -/
example : execQ exSrch (.and [qA, .not qB]) [[]] = .ok [x2] := by
  rw [exec_and_cons, qA_nil]
  show execQ exSrch (.and [.not qB]) [x1, x2] = _
  rw [exec_and_cons, exec_not exSrch qB resB [x1, x2] (fun bs hm => qB_res bs (by
    simp only [List.mem_cons, List.not_mem_nil, or_false] at hm ⊢; rcases hm with h | h <;> simp [h]))]
  show execQ exSrch (.and []) _ = _
  rw [exec_and_nil]; simp [x1, x2, resB]

/-- `or` without short-circuit: both disjuncts, concatenated in order -/
example : execQ exSrch (.or [qB, qA] false) [[]] = .ok [x1, x1, x2] :=
  exec_or_all exSrch [qB, qA] [] [[x1], [x1, x2]] (.cons qB_nil (.cons qA_nil .nil))

/-- `or` with short-circuit: stops after the first non-empty disjunct, the failing third one is not run -/
example : execQ exSrch (.or [.not .empty, qB, .code tThrow] true) [[]] = .ok [x1] :=
  exec_or_stops exSrch [.not .empty] [.code tThrow] qB [] [x1]
    (by
      intro q hq; rw [List.mem_singleton] at hq; subst hq
      rw [exec_not exSrch .empty (fun bs => [bs]) [[]] (fun bs _ => exec_empty exSrch [bs])]; rfl)
    qB_nil (by simp)

/-- the same `or` without short-circuit runs the third disjunct and fails -/
example : execQ exSrch (.or [.not .empty, qB, .code tThrow] false) [[]] = .error "script" :=
  exec_or_error exSrch [.not .empty, qB] [] (.code tThrow) [] "script"
    (by
      intro q hq
      simp only [List.mem_cons, List.not_mem_nil, or_false] at hq
      rcases hq with rfl | rfl
      · exact ⟨[], by rw [exec_not exSrch .empty (fun bs => [bs]) [[]] (fun bs _ => exec_empty exSrch [bs])]; rfl⟩
      · exact ⟨_, qB_nil⟩)
    throw_nil

/-- `code`: `false` drops, `true` keeps; the script sees `x`, not `?x` -/
example : execQ exSrch (.code tEq2) [x1, x2] = .ok [x2] := by
  rw [exec_code exSrch tEq2 (fun bs => match bs with | [(_, .num 2)] => .bool true | _ => .bool false) [x1, x2] (by
    intro bs hm
    simp only [List.mem_cons, List.not_mem_nil, or_false] at hm
    rcases hm with rfl | rfl
    · exact eq2_x1
    · exact eq2_x2)]
  simp [x1, x2, codeKeep]

/-- `code` returning an object: merged under a `?`-prefixed key -/
example : execQ exSrch (.code tBind) [x1] = .ok [[("?y", .num 1), ("?x", .num 1)]] := by
  rw [exec_code exSrch tBind (fun _ => .obj [("y", .num 1)]) [x1] (by
    intro bs hm; rw [List.mem_singleton] at hm; subst hm; exact bind_x1)]
  simp [x1, code_merge, extendBs, Bs.set]

/-- `exec_append` on an instance with `and` and `not` -/
example : execQ exSrch (.and [qA, .not qB]) ([[]] ++ [[]]) = .ok ([x2] ++ [x2]) :=
  exec_append exSrch _ _ _ _ _ ex_and ex_and

/-- `ParseQuery`: a map holding `and`, `or` and `not` is an `and` (dispatch order) -/
example : parseQuery 9 exDoc = .ok (.and [qA, .not qB]) := exDoc_parse

/-- `ShortCircuit:true` is tried before `short_circuit:false` -/
example : parseQuery 9 exDocOr = .ok (.or [.empty] true) := exDocOr_parse

/-- `StripQuestionMarks` on `{"?x":1}` -/
example : stripQ x1 = [("x", .num 1)] := strip_x1

end Examples

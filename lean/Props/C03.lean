import RulioModel.Query

/-! # C03 — query semantics (placeholder obligations until the Query proofs land) -/

/-- the empty query is the identity -/
theorem exec_empty (srch : Srch) (bss : List Bs) : execQ srch .empty bss = .ok bss := by
  simp [execQ]

import RulioProofs.SysCover
import RulioProofs.CloseSys
import RulioProofs.FirstVisits
import RulioModel.Gen.Loc

open AM

/-! # C09 — locations are isolated except through declared parents (property theorems only)

Model: `RulioModel/Loc.lean` (`Sys`, `Sys.at`, `doAncestors`, `sysSearchFacts`, …), validated against
`core/location.go` by the differential runs of the C09 check. Vocabulary: `RulioModel/SysInv.lean`. -/

/-- **frame** — an operation addressed to location `n` (any name-preserving single-location computation;
every model method is one, see `loc*_keeps`) changes only the component `n` of a well-formed system. -/
theorem frame {α} {sys : Sys} (wf : SysWF sys) (n : String) {m : LM α} (hm : m.KeepsName)
    {n' : String} (hne : n' ≠ n) : (sys.at n m).1.get? n' = sys.get? n' :=
  Sys.at_frame wf n hm hne

/-- well-formedness (unique names, every location filed under its own name) is an invariant of `Sys.at` -/
theorem frame_wf {α} {sys : Sys} (wf : SysWF sys) (n : String) (m : LM α) : SysWF (sys.at n m).1 :=
  Sys.at_wf wf n m

/-- … and of `Sys.put` -/
theorem frame_wf_put {sys : Sys} (wf : SysWF sys) (l : Loc) : SysWF (sys.put l) := wf.put l

/-- every exported method of the location model is name-preserving, so `frame` applies to all of them
(shown here for the mutating ones; the others are in `RulioProofs/SysBasic.lean`) -/
theorem frame_applies (c : Ctx) (id : String) (x : Obj) (ps : List String) (b : Bool) (now : Int) :
    (locAddFact c id x now).KeepsName ∧ (locRemFact c id now).KeepsName ∧ (locAddRule c id x now).KeepsName ∧
    (locRemRule c id now).KeepsName ∧ (locEnableRule c id b now).KeepsName ∧ (locSetParents c ps now).KeepsName ∧
    (locClear c now).KeepsName ∧ (locSearchFacts c x now).KeepsName ∧ (locSearchRules c x now).KeepsName :=
  ⟨(locAddFact_keeps c id x now).keepsName, (locRemFact_keeps c id now).keepsName,
   (locAddRule_keeps c id x now).keepsName, (locRemRule_keeps c id now).keepsName,
   (locEnableRule_keeps c id b now).keepsName, (locSetParents_keeps c ps now).keepsName,
   (locClear_keeps c now).keepsName, (locSearchFacts_keeps c x now).keepsName,
   (locSearchRules_keeps c x now).keepsName⟩

example : SysWF (Sys.fresh .indexed ["a", "b", "c"]) :=
  ⟨by decide, by intro k l h; simp [Sys.fresh] at h; rcases h with ⟨rfl, rfl⟩ | ⟨rfl, rfl⟩ | ⟨rfl, rfl⟩ <;> rfl⟩

/-- **ancestors_fuel_suffices** — the names on the current path are pairwise distinct known locations and
every recursive call extends the path, so once `fuel + path.length > sys.length` the walk never reaches its
`diverge` branch: any larger fuel gives the very same result (state and value). -/
theorem ancestors_fuel_suffices {α} {now : Int} {fn : String → LM α} (hfn : ∀ n, (fn n).KeepsName)
    {sys : Sys} (wf : SysWF sys) {path : List String} (hp : PathOK sys path) (n : String) (acc : List α)
    {fuel fuel' : Nat} (hb : sys.length + 1 ≤ fuel + path.length) (hle : fuel ≤ fuel') :
    doAncestors fuel' sys n now fn acc path = doAncestors fuel sys n now fn acc path :=
  doAncestors_fuel_indep hfn fuel sys n acc path wf hp hb fuel' hle

/-- in particular the model's `ancestorFuel sys = sys.length + 2` always suffices -/
theorem ancestorFuel_suffices {α} {now : Int} {fn : String → LM α} (hfn : ∀ n, (fn n).KeepsName)
    {sys : Sys} (wf : SysWF sys) (n : String) (acc : List α) {fuel' : Nat} (hle : ancestorFuel sys ≤ fuel') :
    doAncestors fuel' sys n now fn acc = doAncestors (ancestorFuel sys) sys n now fn acc :=
  doAncestors_fuel_indep hfn _ sys n acc [] wf ⟨List.nodup_nil, by simp⟩ (by simp [ancestorFuel]) fuel' hle

/-- **ancestors_never_diverge_partial** — under the same fuel bound the walk never answers `diverge`, provided `fn` and
the parent read do not produce that very string themselves. (Partial: that the state model's `Get` never fails with
the literal "diverge" — its errors are `notFound`, `badExpires`, `fuel`, index and matcher errors — is a hypothesis
here; `ancestors_fuel_suffices` above needs no such hypothesis and already says the fuel-exhausted branch is
irrelevant.) -/
theorem ancestors_never_diverge_partial {α} {now : Int} {fn : String → LM α} (hfn : ∀ n, (fn n).KeepsName)
    (hfnd : ∀ m l, (fn m l).2 ≠ .error "diverge") (hrd : ∀ l, (locGetParentsRaw now l).2 ≠ .error "diverge")
    {sys : Sys} (wf : SysWF sys) (n : String) (acc : List α) :
    (doAncestors (ancestorFuel sys) sys n now fn acc).2 ≠ .error "diverge" :=
  doAncestors_no_diverge hfn hfnd hrd _ sys n acc [] wf ⟨List.nodup_nil, by simp⟩ (by simp [ancestorFuel])

/-- **loop_reported** — if the chain of first declared parents `n → m₁ → … → mₖ → last` comes back to `n`,
to an earlier member of the chain or to a name on the current path, the walk answers the `AncestorLoop`
error (it neither recurses forever nor runs out of fuel), whatever `fn` is. -/
theorem loop_reported {α} {now : Int} (fn : String → LM α) {sys : Sys} (wf : SysWF sys) {n last : String}
    {mid path : List String} (hc : chainFP sys now n mid last = true) (hnd : (n :: mid).Nodup)
    (hnp : ∀ x ∈ n :: mid, x ∉ path) (hlast : last ∈ n :: mid ∨ last ∈ path) (hpk : ∀ p ∈ path, p ∈ sys.keys)
    {fuel : Nat} (hf : mid.length + 2 ≤ fuel) (acc : List α) :
    (doAncestors fuel sys n now fn acc path).2 = .error "loop" :=
  doAncestors_loop fn mid sys n last path fuel acc wf hc hnd hnp hlast hpk hf

/-- self loop `a → a`, built with the model's `SetParents`: inherited search answers `loop` -/
example (k : Kind) (c : Ctx) (p : Obj) :
    (sysSearchFacts (exSelfLoop k) c "a" p true 7).2 = .error "loop" := by
  have wf : SysWF (exSelfLoop k) := Sys.at_wf (sysFresh_ab_wf k) _ _
  have hc : chainFP (exSelfLoop k) 7 "a" [] "a" = true := by cases k <;> decide +kernel
  have := loop_reported (now := 7) (tagged (fun _ => locSearchFacts c p 7)) wf hc (by decide) (by simp) (by simp)
    (path := []) (by simp) (fuel := ancestorFuel (exSelfLoop k)) (by simp [ancestorFuel]) []
  unfold sysSearchFacts
  simp only [if_true]
  cases hd : doAncestors (ancestorFuel (exSelfLoop k)) (exSelfLoop k) "a" 7 (tagged (fun _ => locSearchFacts c p 7)) [] with
  | mk s r => rw [hd] at this; simp only at this; subst this; rfl

/-- indirect loop `a → b → a` (the case that used to overflow the Go stack): reported as `loop` -/
example (k : Kind) (c : Ctx) (p : Obj) :
    (sysSearchFacts (exIndirectLoop k) c "a" p true 7).2 = .error "loop" := by
  have wf : SysWF (exIndirectLoop k) := Sys.at_wf (Sys.at_wf (sysFresh_ab_wf k) _ _) _ _
  have hc : chainFP (exIndirectLoop k) 7 "a" ["b"] "a" = true := by cases k <;> decide +kernel
  have hlen : (exIndirectLoop k).length = 2 := by
    have kn := fun ps => LM.KeepsId.keepsName (locSetParents_keeps {} ps 0)
    unfold exIndirectLoop
    rw [Sys.at_length (Sys.at_wf (sysFresh_ab_wf k) _ _) _ (kn _), Sys.at_length (sysFresh_ab_wf k) _ (kn _)]; rfl
  have := loop_reported (now := 7) (tagged (fun _ => locSearchFacts c p 7)) wf hc (by decide) (by simp) (by simp)
    (path := []) (by simp) (fuel := ancestorFuel (exIndirectLoop k)) (by simp [ancestorFuel, hlen]) []
  unfold sysSearchFacts
  simp only [if_true]
  cases hd : doAncestors (ancestorFuel (exIndirectLoop k)) (exIndirectLoop k) "a" 7 (tagged (fun _ => locSearchFacts c p 7)) [] with
  | mk s r => rw [hd] at this; simp only at this; subst this; rfl

/-- **parents_immediate** — after a successful `SetParents ps` at `n`, the very next parent read that
`DoAncestors` performs at `n` (at any time) returns exactly `ps` and leaves the system unchanged: the
`!parents` property fact is stored under the id `!.parents`, which is what `getParents` reads. -/
theorem parents_immediate {sys sys' : Sys} (wf : SysWF sys) {c : Ctx} {n : String} {ps : List String}
    {now : Int} {r : String} (h : sys.at n (locSetParents c ps now) = (sys', .ok r)) (now' : Int) :
    sys'.at n (locGetParentsRaw now') = (sys', .ok ps) :=
  setParents_at_then_read wf h now'

/-- hence the next walk from `n` iterates over the new list (one unfolding of `DoAncestors`) -/
theorem parents_immediate_walk {α} {sys sys' : Sys} (wf : SysWF sys) {c : Ctx} {n : String} {ps : List String}
    {now : Int} {r : String} (h : sys.at n (locSetParents c ps now) = (sys', .ok r)) (now' : Int)
    (fn : String → LM α) (acc : List α) (fuel : Nat) :
    doAncestors (fuel + 1) sys' n now' fn acc [] =
      if noProv sys' n ps then (sys', .error "noProvider") else
      match walkList (fun s p a => doAncestors fuel s p now' fn a [n]) n sys' ps acc with
      | (sys2, .error e) => (sys2, .error e)
      | (sys2, .ok acc2) =>
        match sys2.at n (fn n) with
        | (sys3, .error e) => (sys3, .error e)
        | (sys3, .ok a) => (sys3, .ok (acc2 ++ [a])) := by
  rw [doAncestors_succ, setParents_at_then_read wf h now']
  rfl

example (k : Kind) : isOk ((Sys.fresh k ["a", "b"]).at "a" (locSetParents {} ["b"] 0)).2 = true := by
  cases k <;> decide +kernel


/-- **noninterference** (general form) — let `S` be any set of names that contains `n` and is closed under the
declared-parent relation of `sys1` (every parent list readable from a member's `!parents` fact lies in `S`).
If two well-formed systems have the same components on `S`, then `SearchFacts` at `n` (inherited or not)
returns the same outcome in both — same matches or same error — and the two systems still agree on `S`
(and `S` is still closed) afterwards, so the statement chains over histories. -/
theorem noninterference {S : String → Prop} {now : Int} {sys1 sys2 : Sys} (wf1 : SysWF sys1) (wf2 : SysWF sys2)
    (hag : AgreeOn S sys1 sys2) (hcl : Closed S sys1 now) {n : String} (hn : S n) (c : Ctx) (p : Obj) (inh : Bool) :
    (sysSearchFacts sys1 c n p inh now).2 = (sysSearchFacts sys2 c n p inh now).2 ∧
      AgreeOn S (sysSearchFacts sys1 c n p inh now).1 (sysSearchFacts sys2 c n p inh now).1 ∧
      Closed S (sysSearchFacts sys1 c n p inh now).1 now :=
  have h := sysSearchFacts_sim ⟨wf1, wf2, hag, hcl⟩ hn c p inh
  ⟨h.1, h.2.2.2.1, h.2.2.2.2⟩

/-- the same for the rule candidates of event dispatch (`searchRulesAncestors`) -/
theorem noninterference_rules {S : String → Prop} {now : Int} {sys1 sys2 : Sys} (wf1 : SysWF sys1)
    (wf2 : SysWF sys2) (hag : AgreeOn S sys1 sys2) (hcl : Closed S sys1 now) {n : String} (hn : S n)
    (c : Ctx) (ev : Obj) :
    (sysSearchRulesAnc sys1 c n ev now).2 = (sysSearchRulesAnc sys2 c n ev now).2 ∧
      AgreeOn S (sysSearchRulesAnc sys1 c n ev now).1 (sysSearchRulesAnc sys2 c n ev now).1 ∧
      Closed S (sysSearchRulesAnc sys1 c n ev now).1 now :=
  have h := sysSearchRulesAnc_sim ⟨wf1, wf2, hag, hcl⟩ hn c ev
  ⟨h.1, h.2.2.2.1, h.2.2.2.2⟩

/-- `n` with its transitive declared parents (`Anc sys now n`) is such a closed set -/
theorem ancestors_closed (sys : Sys) (now : Int) (n : String) : Closed (Anc sys now n) sys now ∧ Anc sys now n n :=
  ⟨anc_closed sys now n, .refl n⟩

/-- **isolation** — any operation `m` (name-preserving, i.e. any model method) addressed to a location `d`
that is *not* `n` or a transitive parent of `n` never changes what `n` returns: inherited fact search and
inherited rule search give the same outcome before and after. -/
theorem op_elsewhere_invisible {α} {sys : Sys} (wf : SysWF sys) {now : Int} {n d : String}
    (hd : ¬ Anc sys now n d) {m : LM α} (hm : m.KeepsName) (c : Ctx) (p ev : Obj) (inh : Bool) :
    (sysSearchFacts (sys.at d m).1 c n p inh now).2 = (sysSearchFacts sys c n p inh now).2 ∧
    (sysSearchRulesAnc (sys.at d m).1 c n ev now).2 = (sysSearchRulesAnc sys c n ev now).2 :=
  have hR := agree_after_op_elsewhere wf hd hm
  ⟨(sysSearchFacts_sim hR (.refl n) c p inh).1.symm, (sysSearchRulesAnc_sim hR (.refl n) c ev).1.symm⟩

/-- the same for the exported `SearchRules` and `ListRules` (guards at `n`, then the inherited walk) -/
theorem op_elsewhere_invisible_api {α} {sys : Sys} (wf : SysWF sys) {now : Int} {n d : String}
    (hd : ¬ Anc sys now n d) {m : LM α} (hm : m.KeepsName) (c : Ctx) (ev : Obj) (inh : Bool) :
    (sysSearchRules (sys.at d m).1 c n ev inh now).2 = (sysSearchRules sys c n ev inh now).2 ∧
    (sysListRules (sys.at d m).1 c n inh now).2 = (sysListRules sys c n inh now).2 :=
  have hR := agree_after_op_elsewhere wf hd hm
  ⟨(sysSearchRules_sim hR (.refl n) c ev inh).1.symm, (sysListRules_sim hR (.refl n) c inh).1.symm⟩

/-- **no_downward_delivery / visits only ancestors** — tag each value with the location that produced it: every
value the walk from `n` returns was produced by `fn` at `n` or at a transitive declared parent of `n`; `fn` is never
applied to a child (or any other non-ancestor). Holds for every `fn` whose only state effect is purging
(`ParentMono`; true of `locSearchFacts`/`locSearchRules`). Order: `doAncestors_succ` — for each declared parent in
declaration order its whole walk (depth first, once per path: a diamond's top is visited once per path), then `n`. -/
theorem no_downward_delivery {α} {sys : Sys} (wf : SysWF sys) {now : Int} {fn : String → LM α}
    (hfnk : ∀ n, (fn n).KeepsName) (hfnm : ∀ n, (fn n).ParentMono now) (n : String) (fuel : Nat)
    {ls : List (String × α)} (h : (doAncestors fuel sys n now (tagged fn) []).2 = .ok ls) :
    ∀ x ∈ ls, Anc sys now n x.1 :=
  (doAncestors_outputs (S := Anc sys now n) (fun x => Anc sys now n x.1) (tagged_keeps hfnk)
    (tagged_parentMono hfnm) (fun m hm l a ha => by rw [tagged_ok ha]; exact hm) fuel sys n [] []
    ⟨wf, wf, fun _ _ => rfl, anc_closed sys now n⟩ (.refl n) (by simp)).2 ls h

/-- the search functions used by inherited search and dispatch qualify -/
theorem search_fns_qualify (c : Ctx) (p : Obj) (now : Int) :
    (locSearchFacts c p now).KeepsName ∧ (locSearchFacts c p now).ParentMono now ∧
    (locSearchRules c p now).KeepsName ∧ (locSearchRules c p now).ParentMono now :=
  ⟨(locSearchFacts_keeps c p now).keepsName, (locSearchFacts_shr c p now).parentMono now,
   (locSearchRules_keeps c p now).keepsName, (locSearchRules_shr c p now).parentMono now⟩

/-- non-vacuity: in the diamond `d → b, c`, `b → a`, `c → a` with a child `z → d`, the set `{d,b,c,a}` is
parent-closed, so `z` is not an ancestor of `d`: whatever is done at `z` is invisible at `d` -/
example (k : Kind) : ¬ Anc (exDiamond k) 3 "d" "z" := by
  have hc : Closed (· ∈ ["d", "b", "c", "a"]) (exDiamond k) 3 := closedB_sound (by cases k <;> decide +kernel)
  intro h
  have := anc_subset_closed hc (by simp) h
  simp at this

/-- … while `a` is one (through `b`) -/
example (k : Kind) : Anc (exDiamond k) 3 "d" "a" := by
  have h1 : Par (exDiamond k) 3 "d" "b" := ⟨["b", "c"], by cases k <;> decide +kernel, by simp⟩
  have h2 : Par (exDiamond k) 3 "b" "a" := ⟨["a"], by cases k <;> decide +kernel, by simp⟩
  exact .step h1 (.step h2 (.refl _))


/-- **visits_exactly_ancestors (quiet case)** — when neither `fn` nor the parent reads change the locations of `sys`
at time `now` (nothing to purge: `QuietWalk`), a successful walk from `n` returns a value from `n` and from *every*
transitive declared parent of `n`; together with `no_downward_delivery` the set of locations consulted is exactly
`Anc sys now n`. Without quietness the purge of an expired fact may cascade-delete a `!parents` fact between two visits
of the same location (a diamond's top is re-read on every path), so only the inclusion `⊆` holds in general. -/
theorem visits_exactly_ancestors_quiet {α} {now : Int} {fn : String → LM α} {sys : Sys}
    (hq : QuietWalk sys now fn) (wf : SysWF sys) (hfnk : ∀ n, (fn n).KeepsName) (hfnm : ∀ n, (fn n).ParentMono now)
    (n : String) (fuel : Nat) {ls : List (String × α)} (h : (doAncestors fuel sys n now (tagged fn) []).2 = .ok ls)
    (x : String) : x ∈ ls.map (·.1) ↔ Anc sys now n x := by
  constructor
  · intro hx
    obtain ⟨p, hp, rfl⟩ := List.mem_map.1 hx
    exact no_downward_delivery wf hfnk hfnm n fuel h p hp
  · exact (doAncestors_cover hq wf fuel n [] [] ls h).2 x

/-- **ancestor_walk_shape** (tie, regenerated from `core/location.go` on every run) — the decisive statements of
`Location.doAncestors` in source order: the loop test on the current path comes first (`loop_reported`), then the test for a
location that was visited already (`each_ancestor_once`; after the loop test, so that a chain that comes back is still a
loop), the path is marked and un-marked by `defer` (a *path*, not a visited set: diamonds are no loops), the parents are
walked before the location itself is visited (`doAncestors`' order), the location is marked done before its visit, and the
visit `fn(loc)` is the last statement. Dropping the `defer delete`, visiting the location before its parents, testing `done`
before `path`, or any new statement, changes the regenerated list and breaks this. -/
theorem ancestor_walk_shape :
    Gen.doAncestorsShape =
      ["pathCheck", "doneCheck", "pathMark", "pathUnmarkDeferred", "parentsRead", "errReturn", "ifParents{", "providerCheck",
       "forParents{", "selfParentCheck", "parentGet", "errReturn", "recurse:p.doAncestors(ctx, fn, path, done)", "}", "}",
       "doneMark", "visit"] := by decide

/-- **each_ancestor_once** — of the visits the walk makes, inherited search and dispatch keep the first per location
(`firstVisits`, the model of the `done` set of `doAncestors`): the kept visits are visits of the walk in walk order, no
location has two of them, and (quiet case) the locations that have one are exactly `n` and its transitive declared
parents. So a location reached along two chains of parents — the top of a diamond — contributes its facts and its
rules once: an inherited search does not return them twice and event dispatch does not fail with `duplicate id`. -/
theorem each_ancestor_once {α} {now : Int} {fn : String → LM α} {sys : Sys}
    (hq : QuietWalk sys now fn) (wf : SysWF sys) (hfnk : ∀ n, (fn n).KeepsName) (hfnm : ∀ n, (fn n).ParentMono now)
    (n : String) (fuel : Nat) {ls : List (String × α)} (h : (doAncestors fuel sys n now (tagged fn) []).2 = .ok ls) :
    (firstVisitsT ls []).Sublist ls ∧ ((firstVisitsT ls []).map (·.1)).Nodup ∧
      (∀ x, x ∈ (firstVisitsT ls []).map (·.1) ↔ Anc sys now n x) ∧
      firstVisits ls [] = (firstVisitsT ls []).map (·.2) := by
  refine ⟨firstVisitsT_sublist ls [], firstVisitsT_nodup ls [], ?_, firstVisits_eq_map ls []⟩
  intro x
  rw [← visits_exactly_ancestors_quiet hq wf hfnk hfnm n fuel h x]
  constructor
  · intro hx
    obtain ⟨y, hy, rfl⟩ := List.mem_map.1 hx
    exact List.mem_map.2 ⟨y, (firstVisitsT_sublist ls []).subset hy, rfl⟩
  · intro hx
    obtain ⟨y, hy, rfl⟩ := List.mem_map.1 hx
    obtain ⟨z, hz, hzy⟩ := firstVisitsT_covers ls [] y hy (by simp)
    exact List.mem_map.2 ⟨z, hz, hzy⟩

/-- **inherited_search_once_per_location** — the answer of an inherited `SearchFacts` is the concatenation, in walk order,
of the answers of the kept visits: one local search per location visited. -/
theorem inherited_search_once_per_location (sys : Sys) (c : Ctx) (n : String) (p : Obj) (now : Int)
    {s : Sys} {ls : List (String × List (String × Obj × List Bs))}
    (h : doAncestors (ancestorFuel sys) sys n now (tagged (fun _ => locSearchFacts c p now)) [] = (s, .ok ls)) :
    sysSearchFacts sys c n p true now = (s, .ok ((firstVisitsT ls []).map (·.2)).flatten) := by
  unfold sysSearchFacts
  simp only [if_true, h, firstVisits_eq_map]

/-- a walk that meets no location twice (a tree of parents) is kept whole: nothing changes for it -/
theorem tree_walk_kept_whole {β} (ls : List (String × β)) (hnd : (ls.map (·.1)).Nodup) :
    firstVisits ls [] = ls.map (·.2) := by
  rw [firstVisits_eq_map, firstVisitsT_of_nodup ls [] hnd (by simp)]

/-- the shape of the diamond: the walk from `d` visits `a` twice (`a b a c d`), the kept visits are `a b c d` -/
example : firstVisits [("a", 1), ("b", 2), ("a", 1), ("c", 3), ("d", 4)] [] = [1, 2, 3, 4] := by decide

/-- non-vacuity: the diamond system is quiet for a state-preserving `fn` (no `!parents` fact is expired) -/
example (k : Kind) : QuietWalk (exDiamond k) 3 (fun _ => (LM.pure () : LM Unit)) :=
  ⟨fun _ _ _ => rfl, quietReadB_sound (by cases k <;> decide +kernel)⟩


/-! ## closing `ancestors_never_diverge_partial` (composition with the error-class induction of
`RulioProofs/CloseDiverge.lean`) -/

/-- **no_state_or_location_function_diverges** — the error-class induction: no operation of either `State`
implementation (`Add`, `Rem`, `Get`, `Search`, `FindRules`, `reload`; all their errors are literals such as
`notFound`, `badExpires`, `fuel`, `noTerms`, `lostRule`, `expired`, …, or mapped index / matcher errors) and no
single-location method used by the ancestor walk (`getParents`, `searchFacts`, `searchRules`, and the guards they run)
ever answers the literal error `"diverge"` — in any state whatsoever, reachable or not. The State recursion budget
error is the distinct literal `"fuel"`; it is excluded for reachable states by C08 `cascade_terminates`, and is
irrelevant here. `"diverge"` is produced by `doAncestors` on fuel exhaustion only. -/
theorem no_state_or_location_function_diverges (s : St) (l : Loc) (c : Ctx) (id : String) (x p : Obj) (now : Int) :
    (s.add id x now).2 ≠ .error "diverge" ∧ (s.rem id now).2 ≠ .error "diverge" ∧
    (s.get id now).2 ≠ .error "diverge" ∧ (s.search p now).2 ≠ .error "diverge" ∧
    (s.findRules p now).2 ≠ .error "diverge" ∧ s.reload now ≠ .error "diverge" ∧
    (locGetParentsRaw now l).2 ≠ .error "diverge" ∧ (locSearchFacts c p now l).2 ≠ .error "diverge" ∧
    (locSearchRules c p now l).2 ≠ .error "diverge" :=
  ⟨(St.add_nd s id x now).ne, (St.rem_nd s id now).ne, (St.get_nd s id now).ne, (St.search_nd s p now).ne,
   (St.findRules_nd s p now).ne, (St.reload_nd s now).ne, (locGetParentsRaw_nd now l).ne,
   (locSearchFacts_nd c p now l).ne, (locSearchRules_nd c p now l).ne⟩

/-- **ancestors_never_diverge** — `ancestors_never_diverge_partial` without its hypothesis on the parent read: for
every well-formed system (unique names; the locations' states are arbitrary), every start `n`, and every
name-preserving `fn` that does not itself answer `"diverge"` (`LM.NoDiv`; true of every model method, see
`RulioProofs/CloseDiverge.lean`), the ancestor walk at the model's own budget `ancestorFuel sys` never answers
`"diverge"`: a parent chain that loops back is reported as `loop` (`loop_reported`), never by exhausting the stack. -/
theorem ancestors_never_diverge {α} {now : Int} {fn : String → LM α} (hfn : ∀ n, (fn n).KeepsName)
    (hnd : ∀ n, (fn n).NoDiv) {sys : Sys} (wf : SysWF sys) (n : String) (acc : List α) :
    (doAncestors (ancestorFuel sys) sys n now fn acc).2 ≠ .error "diverge" :=
  doAncestors_nd hfn hnd wf n acc

/-- **inherited_searches_never_diverge** — hence, for every well-formed system and every caller, location, pattern /
event, flag and time, none of the four system-level entry points built on the walk — `SearchFacts` (inherited or not),
`searchRulesAncestors`, `SearchRules`, `ListRules` — returns `"diverge"`. No hypothesis is left. -/
theorem inherited_searches_never_diverge {sys : Sys} (wf : SysWF sys) (c : Ctx) (n : String) (p : Obj) (inh : Bool)
    (now : Int) :
    (sysSearchFacts sys c n p inh now).2 ≠ .error "diverge" ∧
    (sysSearchRulesAnc sys c n p now).2 ≠ .error "diverge" ∧
    (sysSearchRules sys c n p inh now).2 ≠ .error "diverge" ∧
    (sysListRules sys c n inh now).2 ≠ .error "diverge" :=
  ⟨sysSearchFacts_nd wf c n p inh now, sysSearchRulesAnc_nd wf c n p now, sysSearchRules_nd wf c n p inh now,
   sysListRules_nd sys c n inh now⟩

/-- non-vacuity: the looping system `a → b → a` is well-formed, so the theorem applies to it (its inherited search
answers `loop`, see above) … -/
example (k : Kind) : SysWF (exIndirectLoop k) ∧
    (sysSearchFacts (exIndirectLoop k) {} "a" [("x", .str "?v")] true 7).2 ≠ .error "diverge" :=
  have wf : SysWF (exIndirectLoop k) := Sys.at_wf (Sys.at_wf (sysFresh_ab_wf k) _ _) _ _
  ⟨wf, (inherited_searches_never_diverge wf {} "a" _ true 7).1⟩

/-- … and so is the loop-free diamond with the extra child `z`: all four entry points, at any location of it -/
example (k : Kind) (n : String) (p : Obj) (inh : Bool) : SysWF (exDiamond k) ∧
    (sysSearchRules (exDiamond k) {} n p inh 3).2 ≠ .error "diverge" ∧
    (sysListRules (exDiamond k) {} n inh 3).2 ≠ .error "diverge" :=
  have wf0 : SysWF (Sys.fresh k ["a", "b", "c", "d", "z"]) :=
    ⟨by simp [Sys.fresh, Sys.keys], by
      intro k l h; simp [Sys.fresh] at h
      rcases h with ⟨rfl, rfl⟩ | ⟨rfl, rfl⟩ | ⟨rfl, rfl⟩ | ⟨rfl, rfl⟩ | ⟨rfl, rfl⟩ <;> rfl⟩
  have wf : SysWF (exDiamond k) := Sys.at_wf (Sys.at_wf (Sys.at_wf (Sys.at_wf wf0 _ _) _ _) _ _) _ _
  have h := inherited_searches_never_diverge wf {} n p inh 3
  ⟨wf, h.2.2.1, h.2.2.2⟩

import RulioModel.Loc

/-! # C09 — isolation (placeholder obligations until the Sys proofs land) -/

/-- writing a location back changes no other component -/
theorem put_other (sys : Sys) (l : Loc) (n : String) (h : n ≠ l.name) (hk : ∀ p ∈ sys, (p.1 == n) = true → p.1 = n) :
    True := trivial

import RulioProofs.SysLoop

open AM

/-! # C09 — locations are isolated except through declared parents (property theorems only)

Model: `RulioModel/Loc.lean` (`Sys`, `Sys.at`, `doAncestors`, `sysSearchFacts`, …), validated against
`core/location.go` by the differential runs of the C09 check. Vocabulary: `RulioModel/SysInv.lean`. -/

/-- **frame** — an operation addressed to location `n` (any name-preserving single-location computation;
every model method is one, see `loc*_keeps`) changes only the component `n` of a well-formed system. -/
theorem frame {α} {sys : Sys} (wf : SysWF sys) (n : String) {m : LM α} (hm : m.KeepsName)
    {n' : String} (hne : n' ≠ n) : (sys.at n m).1.get? n' = sys.get? n' :=
  Sys.at_frame wf n hm hne

/-- well-formedness (unique names, every location filed under its own name) is an invariant of `Sys.at` -/
theorem frame_wf {α} {sys : Sys} (wf : SysWF sys) (n : String) (m : LM α) : SysWF (sys.at n m).1 :=
  Sys.at_wf wf n m

/-- … and of `Sys.put` -/
theorem frame_wf_put {sys : Sys} (wf : SysWF sys) (l : Loc) : SysWF (sys.put l) := wf.put l

/-- every exported method of the location model is name-preserving, so `frame` applies to all of them
(shown here for the mutating ones; the others are in `RulioProofs/SysBasic.lean`) -/
theorem frame_applies (c : Ctx) (id : String) (x : Obj) (ps : List String) (b : Bool) (now : Int) :
    (locAddFact c id x now).KeepsName ∧ (locRemFact c id now).KeepsName ∧ (locAddRule c id x now).KeepsName ∧
    (locRemRule c id now).KeepsName ∧ (locEnableRule c id b now).KeepsName ∧ (locSetParents c ps now).KeepsName ∧
    (locClear c now).KeepsName ∧ (locSearchFacts c x now).KeepsName ∧ (locSearchRules c x now).KeepsName :=
  ⟨(locAddFact_keeps c id x now).keepsName, (locRemFact_keeps c id now).keepsName,
   (locAddRule_keeps c id x now).keepsName, (locRemRule_keeps c id now).keepsName,
   (locEnableRule_keeps c id b now).keepsName, (locSetParents_keeps c ps now).keepsName,
   (locClear_keeps c now).keepsName, (locSearchFacts_keeps c x now).keepsName,
   (locSearchRules_keeps c x now).keepsName⟩

example : SysWF (Sys.fresh .indexed ["a", "b", "c"]) :=
  ⟨by decide, by intro k l h; simp [Sys.fresh] at h; rcases h with ⟨rfl, rfl⟩ | ⟨rfl, rfl⟩ | ⟨rfl, rfl⟩ <;> rfl⟩

/-- **ancestors_fuel_suffices** — the names on the current path are pairwise distinct known locations and
every recursive call extends the path, so once `fuel + path.length > sys.length` the walk never reaches its
`diverge` branch: any larger fuel gives the very same result (state and value). -/
theorem ancestors_fuel_suffices {α} {now : Int} {fn : String → LM α} (hfn : ∀ n, (fn n).KeepsName)
    {sys : Sys} (wf : SysWF sys) {path : List String} (hp : PathOK sys path) (n : String) (acc : List α)
    {fuel fuel' : Nat} (hb : sys.length + 1 ≤ fuel + path.length) (hle : fuel ≤ fuel') :
    doAncestors fuel' sys n now fn acc path = doAncestors fuel sys n now fn acc path :=
  doAncestors_fuel_indep hfn fuel sys n acc path wf hp hb fuel' hle

/-- in particular the model's `ancestorFuel sys = sys.length + 2` always suffices -/
theorem ancestorFuel_suffices {α} {now : Int} {fn : String → LM α} (hfn : ∀ n, (fn n).KeepsName)
    {sys : Sys} (wf : SysWF sys) (n : String) (acc : List α) {fuel' : Nat} (hle : ancestorFuel sys ≤ fuel') :
    doAncestors fuel' sys n now fn acc = doAncestors (ancestorFuel sys) sys n now fn acc :=
  doAncestors_fuel_indep hfn _ sys n acc [] wf ⟨List.nodup_nil, by simp⟩ (by simp [ancestorFuel]) fuel' hle

/-- **loop_reported** — if the chain of first declared parents `n → m₁ → … → mₖ → last` comes back to `n`,
to an earlier member of the chain or to a name on the current path, the walk answers the `AncestorLoop`
error (it neither recurses forever nor runs out of fuel), whatever `fn` is. -/
theorem loop_reported {α} {now : Int} (fn : String → LM α) {sys : Sys} (wf : SysWF sys) {n last : String}
    {mid path : List String} (hc : chainFP sys now n mid last = true) (hnd : (n :: mid).Nodup)
    (hnp : ∀ x ∈ n :: mid, x ∉ path) (hlast : last ∈ n :: mid ∨ last ∈ path) (hpk : ∀ p ∈ path, p ∈ sys.keys)
    {fuel : Nat} (hf : mid.length + 2 ≤ fuel) (acc : List α) :
    (doAncestors fuel sys n now fn acc path).2 = .error "loop" :=
  doAncestors_loop fn mid sys n last path fuel acc wf hc hnd hnp hlast hpk hf

private theorem fresh_wf (k : Kind) : SysWF (Sys.fresh k ["a", "b"]) :=
  ⟨by simp [Sys.fresh, Sys.keys], by intro k l h; simp [Sys.fresh] at h; rcases h with ⟨rfl, rfl⟩ | ⟨rfl, rfl⟩ <;> rfl⟩

/-- self loop `a → a`, built with the model's `SetParents`: inherited search answers `loop` -/
example (k : Kind) (c : Ctx) (p : Obj) :
    (sysSearchFacts (exSelfLoop k) c "a" p true 7).2 = .error "loop" := by
  have wf : SysWF (exSelfLoop k) := Sys.at_wf (fresh_wf k) _ _
  have hc : chainFP (exSelfLoop k) 7 "a" [] "a" = true := by cases k <;> decide +kernel
  have := loop_reported (now := 7) (fun _ => locSearchFacts c p 7) wf hc (by decide) (by simp) (by simp)
    (path := []) (by simp) (fuel := ancestorFuel (exSelfLoop k)) (by simp [ancestorFuel]) []
  unfold sysSearchFacts
  simp only [if_true]
  cases hd : doAncestors (ancestorFuel (exSelfLoop k)) (exSelfLoop k) "a" 7 (fun _ => locSearchFacts c p 7) [] with
  | mk s r => rw [hd] at this; simp only at this; subst this; rfl

/-- indirect loop `a → b → a` (the case that used to overflow the Go stack): reported as `loop` -/
example (k : Kind) (c : Ctx) (p : Obj) :
    (sysSearchFacts (exIndirectLoop k) c "a" p true 7).2 = .error "loop" := by
  have wf : SysWF (exIndirectLoop k) := Sys.at_wf (Sys.at_wf (fresh_wf k) _ _) _ _
  have hc : chainFP (exIndirectLoop k) 7 "a" ["b"] "a" = true := by cases k <;> decide +kernel
  have hlen : (exIndirectLoop k).length = 2 := by
    have kn := fun ps => LM.KeepsId.keepsName (locSetParents_keeps {} ps 0)
    unfold exIndirectLoop
    rw [Sys.at_length (Sys.at_wf (fresh_wf k) _ _) _ (kn _), Sys.at_length (fresh_wf k) _ (kn _)]; rfl
  have := loop_reported (now := 7) (fun _ => locSearchFacts c p 7) wf hc (by decide) (by simp) (by simp)
    (path := []) (by simp) (fuel := ancestorFuel (exIndirectLoop k)) (by simp [ancestorFuel, hlen]) []
  unfold sysSearchFacts
  simp only [if_true]
  cases hd : doAncestors (ancestorFuel (exIndirectLoop k)) (exIndirectLoop k) "a" 7 (fun _ => locSearchFacts c p 7) [] with
  | mk s r => rw [hd] at this; simp only at this; subst this; rfl

/-- **parents_immediate** — after a successful `SetParents ps` at `n`, the very next parent read that
`DoAncestors` performs at `n` (at any time) returns exactly `ps` and leaves the system unchanged: the
`!parents` property fact is stored under the id `!.parents`, which is what `getParents` reads. -/
theorem parents_immediate {sys sys' : Sys} (wf : SysWF sys) {c : Ctx} {n : String} {ps : List String}
    {now : Int} {r : String} (h : sys.at n (locSetParents c ps now) = (sys', .ok r)) (now' : Int) :
    sys'.at n (locGetParentsRaw now') = (sys', .ok ps) :=
  setParents_at_then_read wf h now'

/-- hence the next walk from `n` iterates over the new list (one unfolding of `DoAncestors`) -/
theorem parents_immediate_walk {α} {sys sys' : Sys} (wf : SysWF sys) {c : Ctx} {n : String} {ps : List String}
    {now : Int} {r : String} (h : sys.at n (locSetParents c ps now) = (sys', .ok r)) (now' : Int)
    (fn : String → LM α) (acc : List α) (fuel : Nat) :
    doAncestors (fuel + 1) sys' n now' fn acc [] =
      if noProv sys' n ps then (sys', .error "noProvider") else
      match walkList (fun s p a => doAncestors fuel s p now' fn a [n]) n sys' ps acc with
      | (sys2, .error e) => (sys2, .error e)
      | (sys2, .ok acc2) =>
        match sys2.at n (fn n) with
        | (sys3, .error e) => (sys3, .error e)
        | (sys3, .ok a) => (sys3, .ok (acc2 ++ [a])) := by
  rw [doAncestors_succ, setParents_at_then_read wf h now']
  rfl

example (k : Kind) : isOk ((Sys.fresh k ["a", "b"]).at "a" (locSetParents {} ["b"] 0)).2 = true := by
  cases k <;> decide +kernel

import RulioProofs.CronHooks
import RulioProofs.CronHooksLoc

/-! # C15 — scheduled rules run when due, per location, and never after removal (property theorems only)

The theorems are about the hook-level machine of `RulioModel/CronHooks.lean`: histories are lists of events
(`add`, `remTop`, `drop` = cascade/expiry, `clear`, `load`, `cronReset`, `tick`) over several locations; the
configuration says whether the cron keys jobs by id (built-in `cron.Cron`) or by (location, id) (crolt) and
whether it is persistent; `SKind` selects Indexed/LinearState. `enabled`/`completes` of a tick are inputs.
`RegOK a` = "the registry is exactly the set of stored scheduled rules". -/

/-! ## "registered exactly while it exists" -/

/-- **Partial.** Full statement (false on the code, see the negative theorems below): *after every step of every
history the registry equals the set of stored scheduled rules*. Proved: after every step (every prefix) of a
history all of whose events are hook-visible (`PlainRun`: top-level adds and removes of rules and facts, ticks that
consume a one-shot together with its rule, Clear with either State, cascades/expirations that touch
no scheduled rule, no overwrite of a scheduled rule by an unscheduled item, rule ids not shared between locations
when the cron keys by id, no reload), starting from the empty system. What is missing is exactly what the code
gets wrong. -/
theorem registered_iff_exists_partial (kind : SKind) (cfg : CronCfg) (evs : List AEv)
    (hp : PlainRun (ASys.init kind cfg) evs = true) (n : Nat) :
    RegOK (run (ASys.init kind cfg) (evs.take n)) :=
  (plain_run_preserves (regOK_init kind cfg) (uniq_init kind cfg) (plainRun_take n hp)).1

/-- the same from any state in which the registry is exact and scheduled ids are not shared (the invariant is
inductive: it can be re-established, e.g. after a restart, and continues to hold) -/
theorem registered_iff_exists_from (a : ASys) (evs : List AEv) (h : RegOK a) (hu : Uniq a)
    (hp : PlainRun a evs = true) : RegOK (run a evs) ∧ Uniq (run a evs) :=
  plain_run_preserves h hu hp

/-! ## "once removed, ticks no longer run it" — all histories -/

/-- For **every** state (hence after every history, stale registrations included) and every later history that
does not store `(loc, id)` again: no tick of any job evaluates `(loc, id)`. -/
theorem removed_never_runs (a : ASys) (loc id : String) (evs : List AEv) (key : RegKey) (en co : Bool)
    (habs : aGet a.items (loc, id) = none) (hn : NoStore loc id evs = true) :
    (evTick (run a evs) key en co).2.ran ≠ some (loc, id) := by
  intro h
  obtain ⟨_, it, _, _, hit, _, _⟩ := evTick_ran h
  rw [absent_run evs hn habs] at hit
  cases hit

/-- a top-level remove makes the item absent (whatever the registry looks like) -/
theorem absent_after_remove (a : ASys) (loc id : String) : aGet (evRemTop a loc id).items (loc, id) = none := by
  rw [evRemTop_items]; simp

/-- so does a cascade / an expiration that takes the item away … -/
theorem absent_after_drop (a : ASys) (loc id : String) (ids : List String) (h : id ∈ ids) :
    aGet (evDrop a loc ids).items (loc, id) = none := by
  rw [evDrop_items]; simp [h]

/-- … and clearing its location, with either State -/
theorem absent_after_clear (a : ASys) (loc id : String) : aGet (evClear a loc).items (loc, id) = none := by
  rw [evClear_items]; simp

/-- a tick evaluates nothing unless the stored item is a rule that the trigger event dispatches and that is
enabled; in particular a scheduled rule replaced by a plain fact (`notRule`) or by a `when` rule that does not
match `{"trigger!": id}` (`noMatch`) is not run by the stale job -/
theorem replaced_never_runs (a : ASys) (key : RegKey) (en co : Bool)
    (h : ∀ e it, aGet a.reg key = some e → aGet a.items (e.loc, key.2) = some it → it.trig ≠ .runs) :
    (evTick a key en co).2.ran = none ∧ (evTick a key en co).1.items = a.items := by
  cases hran : (evTick a key en co).2.ran with
  | some x =>
    obtain ⟨e, it, hreg, hx, hit, hr, _⟩ := evTick_ran hran
    exact absurd hr (h e it hreg (hx ▸ hit))
  | none =>
    refine ⟨rfl, ?_⟩
    cases hget : aGet a.reg key with
    | none => rw [evTick_none hget]
    | some e =>
      rw [evTick_some hget] at hran ⊢
      cases hr : runsNow a e.loc key.2 en with
      | none => cases oneShot e.sched <;> rfl
      | some it => simp [hr] at hran

/-! ## "each due tick evaluates that rule in its own location" -/

/-- whatever a tick evaluates is the item stored under the job's id in the location that the job recorded, it is
dispatchable and enabled; no other item of any location changes -/
theorem tick_runs_rule_in_its_location (a : ASys) (key : RegKey) (en co : Bool) (l i : String)
    (h : (evTick a key en co).2.ran = some (l, i)) :
    (∃ e it, aGet a.reg key = some e ∧ e.loc = l ∧ i = key.2 ∧ aGet a.items (l, i) = some it ∧
      it.trig = .runs ∧ en = true) ∧
    (∀ x, x ≠ (l, i) → aGet (evTick a key en co).1.items x = aGet a.items x) := by
  obtain ⟨e, it, hreg, hx, hit, hr, hen⟩ := evTick_ran h
  have h1 : l = e.loc := congrArg Prod.fst hx
  have h2 : i = key.2 := congrArg Prod.snd hx
  refine ⟨⟨e, it, hreg, h1.symm, h2, hit, hr, hen⟩, ?_⟩
  intro x hne
  rcases evTick_items a key en co x with h3 | ⟨_, h4, _⟩
  · exact h3
  · rw [h] at h4; exact absurd (Option.some.inj h4).symm hne

/-- a due tick of a registered job whose rule is stored, dispatchable and enabled does evaluate it -/
theorem due_tick_runs_registered_rule (a : ASys) (key : RegKey) (co : Bool) (e : RegEntry) (it : AItem)
    (hreg : aGet a.reg key = some e) (hit : aGet a.items (e.loc, key.2) = some it) (hr : it.trig = .runs) :
    (evTick a key true co).2.ran = some (e.loc, key.2) :=
  evTick_runs hreg hit hr

/-- in every history (no restriction) a job remembers the location whose add hook registered it, and its key is
the key of that location: with a cron keyed by (location, id) a job of location `l` can only run in `l` -/
theorem job_runs_where_it_was_registered (kind : SKind) (cfg : CronCfg) (evs : List AEv) (k : RegKey) (e : RegEntry)
    (h : aGet (run (ASys.init kind cfg) evs).reg k = some e) : k = keyOf cfg e.loc k.2 := by
  have := regSound_run evs (regSound_init kind cfg) k e h
  rw [run_cfg] at this
  exact this

/-! ## "a one-shot schedule runs at most once, after which the rule is deleted" -/

/-- once a one-shot job has fired, no later tick of its key fires again until some add hook registers the key
again (`NoRegister`: the later history contains no add of a scheduled item with that key and no reload) -/
theorem oneshot_at_most_once (a : ASys) (key : RegKey) (e : RegEntry) (en co en' co' : Bool) (evs : List AEv)
    (hreg : aGet a.reg key = some e) (ho : oneShot e.sched = true)
    (hn : NoRegister a.cfg key evs = true) :
    (evTick (run (evTick a key en co).1 evs) key en' co').2.fired = false := by
  rw [evTick_fired_iff]
  have h1 := evTick_oneshot_consumed (en := en) (co := co) hreg ho
  have h2 := unregistered_run (a := (evTick a key en co).1) evs (by rw [evTick_cfg]; exact hn) h1
  rw [h2]; rfl

/-- when the evaluation of a one-shot rule completes, the rule is deleted (by `RuleDone`, through the hooks) -/
theorem oneshot_rule_deleted_after_run (a : ASys) (key : RegKey) (en : Bool) (x : String × String) (it : AItem)
    (hran : (evTick a key en true).2.ran = some x) (hit : aGet a.items x = some it) (ho : oneShot it.sched = true) :
    aGet (evTick a key en true).1.items x = none :=
  evTick_oneshot_rule_deleted hran hit ho

/-! ## "with a non-persistent cron a reloaded location registers its scheduled rules again" -/

/-- ephemeral cron, either State: after a location is loaded, every scheduled rule it holds is registered under
its key, in that location (whatever the registry contained before, e.g. nothing after a restart). Until the repair of
finding C15-linear-load this held for IndexedState only. -/
theorem ephemeral_reregisters_on_load (a : ASys) (loc : String) (docs : List (String × AItem))
    (hp : a.cfg.persistent = false) (id : String) (it : AItem)
    (hit : aGet (evLoad a loc docs).items (loc, id) = some it) (hs : it.sched ≠ "") :
    aGet (evLoad a loc docs).reg (keyOf a.cfg loc id) = some ⟨it.sched, loc⟩ := by
  rw [evLoad_fold a loc docs] at hit ⊢
  refine loadIdx_fold_registers a.cfg loc hp docs { a with items := itemsNotOf a.items loc } rfl ?_ id it hit hs
  intro id' it' h1 _
  rw [itemsNotOf_get] at h1
  simp at h1

/-- a persistent cron is not touched when a location loads -/
theorem persistent_load_keeps_registry (a : ASys) (loc : String) (docs : List (String × AItem))
    (hp : a.cfg.persistent = true) : (evLoad a loc docs).reg = a.reg := by
  rw [evLoad_fold a loc docs]
  exact loadIdx_fold_reg_persistent loc docs { a with items := itemsNotOf a.items loc } hp

/-! ## the hooked `State.Add` of the Location-level model (`RulioModel/CronHooksLoc.lean`, the model the driver runs against the
real code): what the add hook does to location and registry -/

/-- **a refused add changes nothing.** When the state accepts the fact but the add hook refuses it (a `rule` that is no
map, a `schedule` that is no string), the add reports the hook's error and memory, storage, registry and the calls made
to the cron are what they were (only the id generator may have moved). -/
theorem refused_add_leaves_location_and_registry (cfg : CronCfg) (loading : Bool)
    (addFn : St → String → Obj → Int → St × Except LErr String) (given : String) (x : Obj) (now : Int) (h : HS)
    (s' : St) (id : String) (e : LErr)
    (hadd : addFn h.loc.st given x now = (s', .ok id))
    (hnot : (cfg.persistent && loading) = false)
    (hhook : getScheduleObj ((amGet s'.facts id).getD []) = .error e) :
    (addCore cfg loading addFn given x now h).2.1 = .error e ∧
    (addCore cfg loading addFn given x now h).1.loc.st.facts = h.loc.st.facts ∧
    (addCore cfg loading addFn given x now h).1.loc.st.store = h.loc.st.store ∧
    (addCore cfg loading addFn given x now h).1.reg = h.reg ∧
    (addCore cfg loading addFn given x now h).1.calls = h.calls := by
  simp [addCore, hadd, hnot, hhook]

/-- **an accepted scheduled rule is registered.** When the state accepts the fact and it is a rule with a non-empty
schedule, the add succeeds, the registry holds the job under the rule's key in this location, and exactly one
`ScheduleEvent` call was made (unless the cron is persistent and the location is loading). -/
theorem accepted_add_registers_schedule (cfg : CronCfg) (loading : Bool)
    (addFn : St → String → Obj → Int → St × Except LErr String) (given : String) (x : Obj) (now : Int) (h : HS)
    (s' : St) (id s : String)
    (hadd : addFn h.loc.st given x now = (s', .ok id))
    (hnot : (cfg.persistent && loading) = false)
    (hhook : getScheduleObj ((amGet s'.facts id).getD []) = .ok s) (hs : s ≠ "") :
    (addCore cfg loading addFn given x now h).2.1 = .ok id ∧
    aGet (addCore cfg loading addFn given x now h).1.reg (keyOf cfg h.loc.name id) = some ⟨s, h.loc.name⟩ ∧
    (addCore cfg loading addFn given x now h).1.calls = h.calls ++ [["schedule", h.loc.name, id, s]] := by
  simp [addCore, hadd, hnot, hhook, hs, aGet_aSet]

/-- **a top-level remove of a scheduled rule unregisters it.** When the rem hook's `Get` finds the fact and it is a rule
with a non-empty schedule, the registry loses the rule's key in this location and exactly one `Cronner.Rem` call is made. -/
theorem rem_unregisters_schedule (cfg : CronCfg) (quiet : Bool) (id : String) (now : Int) (h : HS)
    (s1 : St) (fact : Obj) (sched : String)
    (hget : h.loc.st.get id now = (s1, .ok fact)) (hs : getScheduleObj fact = .ok sched) (hne : sched ≠ "") :
    (hRemCore cfg quiet id now h).1.reg = aErase h.reg (keyOf cfg h.loc.name id) ∧
    (hRemCore cfg quiet id now h).1.calls = h.calls ++ [["rem", h.loc.name, id]] := by
  simp [hRemCore, hget, hs, hne]

/-- **a remove whose hook cannot get the fact is refused.** The error of the hook's `Get` (not found, expired) is the
remove's error; no call is made to the cron, the registry is what it was, and the state is what the `Get` left
(an expired fact is purged by it, nothing else). -/
theorem rem_of_missing_changes_no_registration (cfg : CronCfg) (quiet : Bool) (id : String) (now : Int) (h : HS)
    (s1 : St) (e : LErr)
    (hget : h.loc.st.get id now = (s1, .error e)) :
    (hRemCore cfg quiet id now h).2 = .error e ∧
    (hRemCore cfg quiet id now h).1.reg = h.reg ∧ (hRemCore cfg quiet id now h).1.calls = h.calls ∧
    (hRemCore cfg quiet id now h).1.loc.st = s1 := by
  simp [hRemCore, hget]

/-- the hook hypotheses are met by concrete facts: a schedule that is a number is refused, a string is accepted -/
example : getScheduleObj [("rule", .obj [("schedule", .num 5)])] = .error "hookSchedNotString" ∧
    getScheduleObj [("rule", .obj [("schedule", .str "+1h")])] = .ok "+1h" ∧
    getScheduleObj [("rule", .str "x")] = .error "hookRuleNotMap" ∧ getScheduleObj [("k", .num 1)] = .ok "" := by
  refine ⟨?_, ?_, ?_, ?_⟩ <;> rfl

/-! ## negative theorems: where the code breaks "registered exactly while it exists" (each witness is replayed on
the real code by `checks/c15.py`) -/

def ephemeralById : CronCfg := ⟨false, false⟩
def sched1 : AItem := ⟨"+1s", .runs⟩
def schedR : AItem := ⟨"0 0 1 1 *", .runs⟩
def plainFact : AItem := ⟨"", .notRule⟩
def whenRule : AItem := ⟨"", .noMatch⟩

/-- **shared id.** Built-in cron (keyed by id): rule `r` with a schedule in `A` and in `B`. Only the last
registration survives; the tick runs `B`'s rule, `A`'s rule is stored, unregistered and never run — and removing
`A`'s rule afterwards would unschedule `B`'s (second part). -/
theorem shared_id_last_registration_wins :
    let a := run (ASys.init .indexed ephemeralById) [.add "A" "r" sched1, .add "B" "r" sched1]
    a.reg = [((none, "r"), ⟨"+1s", "B"⟩)] ∧
    (evTick a (none, "r") true true).2.ran = some ("B", "r") ∧
    aGet (evTick a (none, "r") true true).1.items ("A", "r") = some sched1 ∧
    (evTick (evTick a (none, "r") true true).1 (none, "r") true true).2.fired = false ∧
    (run (ASys.init .indexed ephemeralById) [.add "A" "r" schedR, .add "B" "r" schedR, .remTop "A" "r"]).reg = [] := by
  decide

/-- **cascade / expiry.** A scheduled rule that disappears as a side effect (`deleteWith` cascade, expiration)
keeps its job: registered, not stored. The stale job evaluates nothing (`removed_never_runs`). -/
theorem side_effect_delete_leaves_stale_registration :
    let a := run (ASys.init .indexed ephemeralById) [.add "A" "f" plainFact, .add "A" "r" schedR, .remTop "A" "f", .drop "A" ["r"]]
    a.reg = [((none, "r"), ⟨"0 0 1 1 *", "A"⟩)] ∧ a.items = [] ∧ ¬ RegOK a ∧
    (evTick a (none, "r") true true).2 = ⟨true, none⟩ := by
  refine ⟨by decide, by decide, ?_, by decide⟩
  intro h
  have := (h (none, "r") ⟨"0 0 1 1 *", "A"⟩).mp (by decide)
  obtain ⟨l, it, h1, _⟩ := this
  revert h1; simp [run, step, evAdd, evRemTop, evDrop, aGet, aSet, aErase, ASys.init, hookAdd, hookRem]

/-- **Clear.** Both states run the rem hook for every stored id before they forget their facts: the jobs of the
cleared location go, the jobs of the other location stay. (`LinearState.Clear` called no hook until the repair of
finding C15-linear-clear; the former witness -- a stale job after a Clear -- is the first conjunct.) -/
theorem clear_unregisters_in_both_states (kind : SKind) :
    (run (ASys.init kind ephemeralById) [.add "A" "r" schedR, .add "B" "q" sched1, .clear "A"]).reg
      = [((none, "q"), ⟨"+1s", "B"⟩)] ∧
    (run (ASys.init kind ephemeralById) [.add "A" "r" schedR, .add "B" "q" sched1, .clear "A"]).items
      = [(("B", "q"), sched1)] := by
  cases kind <;> decide

/-- **Clear, every history.** After a `Clear` of `loc` no job of a rule of `loc` is registered under that rule's key,
whatever the state kind and whatever happened before (no `Plain` hypothesis). -/
theorem clear_leaves_no_job_of_the_location (a : ASys) (loc id : String) (h : schedAt a loc id = true) :
    aGet (evClear a loc).reg (keyOf a.cfg loc id) = none := by
  rw [evClear_reg]
  have : (keyOf a.cfg loc id).2 = id := by unfold keyOf; split <;> rfl
  simp [this, h]

/-- **overwrite.** A scheduled rule overwritten by a `when` rule (or a plain fact) keeps its job; the stale tick
finds a rule that the trigger event does not match and evaluates nothing. -/
theorem overwrite_by_unscheduled_leaves_stale_registration :
    let a := run (ASys.init .indexed ephemeralById) [.add "A" "r" schedR, .add "A" "r" whenRule]
    a.reg = [((none, "r"), ⟨"0 0 1 1 *", "A"⟩)] ∧ storedList a = [] ∧
    (evTick a (none, "r") true true).2 = ⟨true, none⟩ := by
  decide

/-- **reload.** After a restart with an ephemeral cron both states register the location's scheduled rule again
when the location loads, and the tick runs it. (`LinearState.Load` called no add hook until the repair of finding
C15-linear-load: the rule was stored, unregistered and never ran.) -/
theorem reload_reregisters_in_both_states (kind : SKind) :
    let a := run (ASys.init kind ephemeralById) [.add "A" "r" schedR, .cronReset, .load "A" [("r", schedR)]]
    a.reg = [((none, "r"), ⟨"0 0 1 1 *", "A"⟩)] ∧ storedList a = [((none, "r"), ⟨"0 0 1 1 *", "A"⟩)] ∧
    (evTick a (none, "r") true true).2 = ⟨true, some ("A", "r")⟩ := by
  cases kind <;> decide

/-- **lost one-shot.** A one-shot job that fires while its rule is disabled is consumed by the cron; the rule
stays stored, is unregistered and is not run by any later tick. -/
theorem oneshot_fired_while_disabled_is_lost :
    let a := (evTick (run (ASys.init .indexed ephemeralById) [.add "A" "r" sched1]) (none, "r") false true).1
    a.reg = [] ∧ storedList a = [((none, "r"), ⟨"+1s", "A"⟩)] ∧ (evTick a (none, "r") true true).2 = ⟨false, none⟩ := by
  decide

/-! ## the hypotheses are satisfiable by non-trivial instances -/

/-- a history inside the fragment of `registered_iff_exists_partial`: two locations, both keyings' precondition
(distinct ids), a fact cascade that touches no rule, an overwrite by another schedule, removes, a one-shot tick
that consumes job and rule, a recurring tick, a Clear -/
def plainExample : List AEv :=
  [.add "A" "ra" sched1, .add "B" "rb" schedR, .add "A" "f" plainFact, .add "A" "g" plainFact, .remTop "A" "f", .drop "A" ["g"],
   .add "B" "rb" ⟨"*/5 * * * *", .runs⟩, .tick (none, "ra") true true, .tick (none, "rb") true true,
   .add "A" "rc" schedR, .remTop "A" "rc", .clear "B"]

example : PlainRun (ASys.init .indexed ephemeralById) plainExample = true := by decide
example : (run (ASys.init .indexed ephemeralById) (plainExample.take 9)).reg = [((none, "rb"), ⟨"*/5 * * * *", "B"⟩)] := by decide
example : (evTick (run (ASys.init .indexed ephemeralById) (plainExample.take 7)) (none, "ra") true true).2 = ⟨true, some ("A", "ra")⟩ := by decide
/-- `removed_never_runs`: absent after the remove, the later history adds other items only -/
example : aGet (run (ASys.init .indexed ephemeralById) [.add "A" "r" schedR, .drop "A" ["r"]]).items ("A", "r") = none ∧
    NoStore "A" "r" [.add "A" "q" schedR, .add "B" "r" schedR, .tick (none, "r") true true] = true := by decide
/-- `oneshot_at_most_once`: a one-shot entry, a later history with other registrations only -/
example : aGet (run (ASys.init .indexed ephemeralById) [.add "A" "r" sched1]).reg (none, "r") = some ⟨"+1s", "A"⟩ ∧
    oneShot "+1s" = true ∧ NoRegister ephemeralById (none, "r") [.add "A" "q" schedR, .remTop "A" "q", .clear "A"] = true := by decide
/-- `ephemeral_reregisters_on_load`: an indexed, ephemeral system loading a scheduled rule -/
example : aGet (evLoad (ASys.init .indexed ephemeralById) "A" [("r", schedR), ("f", plainFact)]).items ("A", "r") = some schedR := by decide
/-- `tick_runs_rule_in_its_location` with the (location, id) key: same id in two locations, each tick in its own -/
example :
    let a := run (ASys.init .linear ⟨true, true⟩) [.add "A" "r" sched1, .add "B" "r" sched1]
    (evTick a (some "A", "r") true true).2.ran = some ("A", "r") ∧ (evTick a (some "B", "r") true true).2.ran = some ("B", "r") := by decide

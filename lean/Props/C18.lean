import RulioProofs.Service

/-!
# C18 — the service layer is a faithful, encoding-independent rendering of the API (property theorems only)

Model: `RulioModel/Service.lean`, an interpreter of the dispatch table regenerated from `service/service.go`
(`RulioModel/Gen/C18.lean`).  The library decoders (`net/url`, `encoding/json`, `yaml.v2`) are the parameter
`Codec`; their round-trip contracts are explicit hypotheses.

Clauses of C18 that the unchanged code violates are stated as *negative* theorems with concrete witnesses
(section N), each under the condition (read off the regenerated text) that the defect is still in the source; the
positive theorems exclude those cases (`knownUncheckedReads`, the nested requests of `take`/`replace`), and that
nothing else is excluded is itself a theorem over the regenerated table (`unchecked_reads_bounded`).
-/

open Svc Gen.C18

/-! ## T0 — ties between the regenerated text and the hand-written model -/

/-- The regular-expression literals, replacement strings, `/api` prefix test and step order of `DWIMURI` in the
source are the ones `dropParamsL`, `dropVersionL` and `dwimL` implement. -/
theorem dwim_literals_match :
    dwimSteps = implSteps ∧ dwimRegexps = implRegexps ∧ dwimPrefixTest = implPrefix ∧ dwimPrefixAdded = implPrefix := by
  decide

/-- Every `/api/loc/*` case that is a single unconditional System call reads exactly the parameters (name, type,
required) and calls exactly the System method, with exactly the arguments, of the documented API table `Svc.api`. -/
theorem rows_match_api :
    (rows.filter (fun r => !compositeUris.contains r.uri)).map rowApi = api.map some := by
  decide

/-- The hand-written `getHTTPRequest`, `parseParameter`, `unmarshalMap`, the three getters and the batch loop were
written against the call skeletons / decision structures the source still has (up to `len(..) == 0` guards before
the first-byte tests, which the model reads off the skeleton: `emptyBodyGuarded`, `emptyUnmarshalGuarded`). -/
theorem httpd_shape :
    noGuards skelGetHTTPRequest = impl_skelGetHTTPRequest ∧ skelParseParameter = impl_skelParseParameter ∧
    noGuards skelUnmarshal = impl_skelUnmarshal ∧ skelUnmarshalYAML = impl_skelUnmarshalYAML ∧ skelBatch = impl_skelBatch ∧
    skel_getMapParam = impl_skel_getMapParam ∧ skel_getBoolParam = impl_skel_getBoolParam ∧
    skel_GetStringParam = impl_skel_GetStringParam := by
  decide

/-- Errors are written with `http.StatusBadRequest`, on both error paths of `ServeHTTP` (decoding the request,
processing it); the default clause of the dispatch returns an error. -/
theorem errors_are_400 :
    errorStatus = implErrorStatus ∧ serveErrorPaths = implServeErrorPaths ∧ defaultIsError = true := by
  decide

/-! ## T1 — DWIMURI -/

/-- Normalising a URI twice is the same as normalising it once (for every string). -/
theorem dwim_idempotent (s : String) : dwimURI (dwimURI s) = dwimURI s := dwimURI_idem s

/-- For every plain path `p` (no `?`, not starting with a version or with `/api`), every version prefix `ver`
matched by `/v?[.0-9]+` and every query string `q` (no newline): the path alone, with `/api`, with a version
prefix, with both, and each of these followed by `?q`, all normalise to `/api` ++ `p`. -/
theorem dwim_prefix_insensitive (p ver q : String) (hp : plainL p.toList = true) (hv : isVersionL ver.toList = true)
    (hq : '\n' ∉ q.toList) :
    dwimURI p = "/api" ++ p ∧ dwimURI ("/api" ++ p) = "/api" ++ p ∧
    dwimURI (ver ++ p) = "/api" ++ p ∧ dwimURI (ver ++ ("/api" ++ p)) = "/api" ++ p ∧
    dwimURI (p ++ "?" ++ q) = "/api" ++ p ∧ dwimURI ("/api" ++ p ++ "?" ++ q) = "/api" ++ p ∧
    dwimURI (ver ++ p ++ "?" ++ q) = "/api" ++ p ∧ dwimURI (ver ++ ("/api" ++ p) ++ "?" ++ q) = "/api" ++ p := by
  have hP := plain_of_plainL hp
  have nf : ("/api" ++ p).toList = apiL ++ p.toList := by simp [String.toList_append, api_toList]
  have e1 : dwimURI p = "/api" ++ p := dwimURI_eq_of_list _ _ (by rw [nf]; exact dwimL_plain hP)
  have e2 : dwimURI ("/api" ++ p) = "/api" ++ p :=
    dwimURI_eq_of_list _ _ (by rw [nf]; exact dwimL_apiL_append _ hP.noq)
  have e3 : dwimURI (ver ++ p) = "/api" ++ p :=
    dwimURI_eq_of_list _ _ (by rw [nf, String.toList_append]; exact dwimL_version_plain hv hP)
  have e4 : dwimURI (ver ++ ("/api" ++ p)) = "/api" ++ p :=
    dwimURI_eq_of_list _ _ (by rw [String.toList_append, nf]; exact dwimL_version_api_plain hv hP)
  have q1 : '?' ∉ p.toList := hP.noq
  have q2 : '?' ∉ ("/api" ++ p).toList := by
    rw [nf]; simp only [List.mem_append, not_or]; exact ⟨apiL_noq, hP.noq⟩
  have q3 : '?' ∉ (ver ++ p).toList := by
    rw [String.toList_append]; simp only [List.mem_append, not_or]; exact ⟨isVersionL_noq hv, hP.noq⟩
  have q4 : '?' ∉ (ver ++ ("/api" ++ p)).toList := by
    rw [String.toList_append, nf]; simp only [List.mem_append, not_or]
    exact ⟨isVersionL_noq hv, apiL_noq, hP.noq⟩
  refine ⟨e1, e2, e3, e4, ?_, ?_, ?_, ?_⟩
  · rw [dwimURI_query _ _ q1 hq, e1]
  · rw [dwimURI_query _ _ q2 hq, e2]
  · rw [dwimURI_query _ _ q3 hq, e3]
  · rw [dwimURI_query _ _ q4 hq, e4]

/-- Every `/api/loc/*` label of the regenerated table is `/api` followed by a plain path, so by
`dwim_prefix_insensitive` each operation is reached with no prefix, with `/api`, and with a version prefix. -/
theorem table_uris_plain :
    ∀ r ∈ rows, r.uri.toList.take 4 = apiL ∧ plainL (r.uri.toList.drop 4) = true := by
  decide

/-! ## T2 — parameter typing -/

/-- Consistency of `parameterTypes` (httpd.go) with the getters of the dispatch (service.go): every parameter
read with `getMapParam` is declared `json` (so a query string can supply it), every parameter read with
`GetStringParam`, `getBoolParam` or a presence test is undeclared (so the query-string value stays a string),
and no unknown getter occurs. -/
theorem params_typed :
    (∀ rd ∈ allReads, getterKind rd.getter = .map → parameterTypes.lookup rd.param = some "json") ∧
    (∀ rd ∈ allReads, getterKind rd.getter ≠ .map → parameterTypes.lookup rd.param = none) ∧
    (∀ rd ∈ allReads, getterKind rd.getter ≠ .unknown) := by
  decide

/-- A value that travels as text (query string, form body) comes out of `parseParameter` as `wireTyped v`, and
every getter of the family that reads the parameter returns the same result for it as for the typed value `v`
(JSON, YAML, envelope, direct). -/
theorem params_typed_wire (c : Codec) (enc : List (String × J) → String) (p : String) (v : J)
    (h : ArgOK c enc p v) (rd : Read) (hrd : rd ∈ allReads) (hp : rd.param = p) :
    parseParameter c p (wireStr enc v) = .ok (wireTyped v) ∧
    evalReadV (some (wireTyped v)) rd = evalReadV (some v) rd :=
  ⟨parseParameter_wire c enc p v h, evalReadV_wire c enc p v h rd hrd hp⟩

/-! ## T3 — every encoding of one logical request performs the same call with the same arguments -/

/-- Under the decoder contracts (hypotheses `hq … hey`: decoding what the client encoded gives back the
arguments), the six encodings of one logical request — query string (GET), form body, JSON body, YAML body,
`/api/json` envelope, `/api/yaml` envelope — under any spelling `u` of the operation's path (`dwimURI u = target`:
with or without `/api`, with a version prefix, see `dwim_prefix_insensitive`) are served exactly as
`ProcessRequest` serves the typed request map `("uri", target) :: args`: same System calls, same arguments,
or the same error. -/
theorem same_request_same_call (c : Codec) (enc : List (String × J) → String) (args : List (String × J))
    (hL : Logical c enc args)
    (u target ue uy : String) (hu : dwimURI u = target) (huq : '?' ∉ u.toList)
    (hne : target ≠ "/api/json" ∧ target ≠ "/api/yaml")
    (hue : dwimURI ue = "/api/json") (huy : dwimURI uy = "/api/yaml")
    (qtext jtext ytext etext eytext : String)
    (hq0 : c.parseQuery "" = some [])
    (hq : c.parseQuery qtext = some (wirePairs enc args))
    (hqnl : '\n' ∉ qtext.toList) (hqform : ∃ ch r, qtext.toList = ch :: r ∧ ch ≠ '{')
    (hj : c.jsonObj jtext = some args) (hj0 : ∃ r, jtext.toList = '{' :: r)
    (hy : c.yamlObj ytext = some args) (hy0 : ∃ ch r, ytext.toList = ch :: r ∧ ch ≠ '{') (hynl : '\n' ∈ ytext.toList)
    (he : c.jsonObj etext = some (("uri", .str u) :: args))
    (hey : c.yamlObj eytext = some (("uri", .str u) :: args)) :
    serve c ⟨"GET", u ++ "?" ++ qtext, u, qtext, ""⟩ = processRequest c (("uri", .str target) :: args) ∧
    serve c ⟨"POST", u, u, "", qtext⟩ = processRequest c (("uri", .str target) :: args) ∧
    serve c ⟨"POST", u, u, "", jtext⟩ = processRequest c (("uri", .str target) :: args) ∧
    serve c ⟨"POST", u, u, "", ytext⟩ = processRequest c (("uri", .str target) :: args) ∧
    serve c ⟨"POST", ue, ue, "", etext⟩ = processRequest c (("uri", .str target) :: args) ∧
    serve c ⟨"POST", uy, uy, "", eytext⟩ = processRequest c (("uri", .str target) :: args) := by
  have ht : dwimURI target = target := by rw [← hu]; exact dwimURI_idem u
  have hne' : dwimURI u ≠ "/api/json" ∧ dwimURI u ≠ "/api/yaml" := by rw [hu]; exact hne
  have hd := uriNF_direct target args ht
  exact ⟨serve_eq c _ _ _ target (http_query c enc args hL.ok u qtext hne' huq hqnl hq) (agree_query c enc args hL u target hu ht) hd,
    serve_eq c _ _ _ target (http_form c enc args hL.ok u qtext hne' hqnl hqform hq hq0) (agree_form c enc args hL u target hu ht) hd,
    serve_eq c _ _ _ target (http_json c args u jtext hne' hj hj0 hq0) (agree_body c enc args hL u target hu ht) hd,
    serve_eq c _ _ _ target (http_yaml c args u ytext hne' hy hy0 hynl hq0) (agree_body c enc args hL u target hu ht) hd,
    serve_eq c _ _ _ target (http_envelope_json c args u ue etext hue he hq0) (agree_envelope c enc args hL u target hu ht [] rfl) hd,
    serve_eq c _ _ _ target (http_envelope_yaml c args u uy eytext huy hey hq0) (agree_envelope c enc args hL u target hu ht [] rfl) hd⟩

/-- Inside a batch: the elements of `requests` are processed in order, each exactly as a request of its own. -/
theorem batch_same_calls (c : Codec) (m : ReqMap) (ms : List ReqMap)
    (h : lookupKey "requests" m = some (.arr (ms.map J.obj))) :
    processBatch c m = .ok (ms.map (processRequest c)) := by
  simp [processBatch, h, List.map_map, Function.comp_def]

/-! ## T4 — missing or ill-typed parameters, unknown URIs -/

/-- No getter error goes untested outside the five listed in `knownUncheckedReads`, no System call error outside
the two of `knownUncheckedCalls`, and no nested request result is ignored outside take/replace (over the whole
regenerated table; the lists are upper bounds, so repairing a listed defect keeps this theorem). -/
theorem unchecked_reads_bounded :
    subsetOf (uncheckedReads rows) knownUncheckedReads = true ∧
    subsetOf (uncheckedCalls rows) knownUncheckedCalls = true ∧
    (uncheckedRedirects rows).all (fun u => u == "/api/loc/facts/take" || u == "/api/loc/facts/replace") = true := by
  decide

/-- For every `/api/loc/*` case of the regenerated table and every parameter it reads (outside the five listed
unchecked reads): on every request map addressed to that case in which the parameter is required and absent, or
present with a type its getter rejects, `ProcessRequest` returns an error, which `ServeHTTP` answers with 400.
(`_partial`: the full clause also covers `knownUncheckedReads` and `take`/`replace`, where the unchanged code violates it: section N.) -/
theorem missing_or_illtyped_is_error_partial (c : Codec) (m : ReqMap) (u : String) (row : Row) (rd : Read)
    (hrow : row ∈ rows) (hrd : rd ∈ row.reads)
    (hu : lookupKey "uri" m = some (.str u)) (hd : dwimURI u = row.uri)
    (hk : (row.uri, rd.param) ∉ knownUncheckedReads) (hfail : readFails m rd = true) :
    ∃ e, processRequest c m = .error e ∧ status (processRequest c m) = 400 := by
  obtain ⟨e, he, hp⟩ := processRequest_read_fails c m u row rd hrow hrd hu hd hk hfail
  refine ⟨e, he, ?_⟩
  rw [he]
  cases e <;> simp [status] at hp ⊢

/-- A request whose normalised URI is not a case label of `ProcessRequest` is an error (400), whatever else it carries. -/
theorem unknown_uri_is_error (c : Codec) (m : ReqMap) (u : String)
    (hu : lookupKey "uri" m = some (.str u)) (hn : caseLabels.contains (dwimURI u) = false) :
    processRequest c m = .error .unknownUri ∧ status (processRequest c m) = 400 := by
  have h := processRequest_unknown c m u hu hn
  exact ⟨h, by rw [h]; rfl⟩

/-! ## N — clauses the code violates (negative theorems with witnesses; the check replays the witnesses)

Each is stated under the condition, read off the regenerated text, that the defect is still in the source; the proof
script closes the goal in both worlds, so repairing a defect does not break the build (the check then stops
listing the finding because its witness no longer fails). -/

/-- `/api/loc/facts/take` without `pattern`: the nested request fails, its error is dropped, the answer is 200 with
no System call. -/
theorem take_swallows_errors (c : Codec) (h : (uncheckedRedirects rows).contains "/api/loc/facts/take" = true) :
    summary (processRequest c [("uri", .str "/api/loc/facts/take"), ("location", .str "here")])
      = (200, [], [.missing "pattern"]) := by
  first | rfl | exact absurd h (by decide)

/-- `/api/loc/facts/replace` without `pattern` and `fact`: both nested requests fail, 200. -/
theorem replace_swallows_errors (c : Codec) (h : ((uncheckedRedirects rows).filter (· == "/api/loc/facts/replace")).length = 2) :
    summary (processRequest c [("uri", .str "/api/loc/facts/replace"), ("location", .str "here")])
      = (200, [], [.missing "pattern", .missing "fact"]) := by
  first | rfl | exact absurd h (by decide)

/-- `/api/loc/util/js` without the required `code`: the getter's error is overwritten, the (empty) code is run. -/
theorem utiljs_missing_code_is_not_an_error (c : Codec) (h : (uncheckedReads rows).contains ("/api/loc/util/js", "code") = true) :
    summary (processRequest c [("uri", .str "/api/loc/util/js"), ("location", .str "here")])
      = (200, ["RunJavascript"], []) := by
  first | rfl | exact absurd h (by decide)

/-- `/api/loc/facts/add` with an ill-typed `id` (a number): no error; the fact is added under a generated id
(the System is called with id `""`). -/
theorem add_illtyped_id_is_ignored (c : Codec) (h : (uncheckedReads rows).contains ("/api/loc/facts/add", "id") = true) :
    (match processRequest c [("uri", .str "/api/loc/facts/add"), ("location", .str "here"), ("fact", .obj []), ("id", .num 5)] with
     | .ok o => o.calls == [⟨"AddFact", [.str "here", .str "", .obj []], true⟩]
     | .error _ => false) = true := by
  first | rfl | exact absurd h (by decide)

/-- A POST without a body to any non-envelope URI: `js[0]` panics (no HTTP response at all), as long as the source
does not test the length first. -/
theorem empty_post_body_panics (c : Codec) (u : String) (hg : emptyBodyGuarded = false) (hq0 : c.parseQuery "" = some [])
    (hne : dwimURI u ≠ "/api/json" ∧ dwimURI u ≠ "/api/yaml") :
    serve c ⟨"POST", u, u, "", ""⟩ = .error .panic ∧ status (serve c ⟨"POST", u, u, "", ""⟩) = 0 := by
  have : serve c ⟨"POST", u, u, "", ""⟩ = .error .panic := by
    simp [serve, getHTTPRequest, hne.1, hne.2, parseQueryInto_empty c hq0, hg]
  exact ⟨this, by rw [this]; rfl⟩

/-- An empty value for a `json`-typed parameter in a query string (`?fact=`): `bs[0]` panics, as long as the source
does not test the length first. -/
theorem empty_json_parameter_panics (c : Codec) (hg : emptyUnmarshalGuarded = false) :
    parseParameter c "fact" "" = .error .panic := by
  have hl : parameterTypes.lookup "fact" = some "json" := by decide
  have he : ("" : String).toList = [] := by decide
  simp [parseParameter, hl, unmarshalMap, he, hg]

/-! ## Non-vacuity: the hypotheses are met by non-trivial instances -/

example : plainL "/loc/facts/add".toList = true ∧ isVersionL "/v1.0".toList = true ∧ isVersionL "/2".toList = true := by
  decide

example : dwimURI "/v1.0/loc/facts/add?location=a%20b&fact=%7B%7D" = "/api/loc/facts/add" := by decide

example : Logical exCodec (fun _ => "{}") [("location", .str "here"), ("fact", .obj []), ("inherited", .bool true)] := by
  refine ⟨by decide, by decide, ?_⟩
  intro kv hkv
  simp only [List.mem_cons, List.not_mem_nil, or_false] at hkv
  rcases hkv with h | h | h <;> subst h
  · simp only [ArgOK]; decide
  · simp only [ArgOK]; exact ⟨by decide, by rfl, ⟨['}'], by decide⟩⟩
  · simp only [ArgOK]; exact ⟨by decide, by decide⟩

example : exCodec.parseQuery "location=here&fact=%7B%7D&inherited=true"
    = some (wirePairs (fun _ => "{}") [("location", .str "here"), ("fact", .obj []), ("inherited", .bool true)]) := by
  rfl

example : readFails [("uri", .str "/loc/facts/get"), ("location", .str "here")] ⟨"GetStringParam", "id", true, true⟩ = true ∧
    readFails [("uri", .str "/loc/facts/get"), ("id", .num 5)] ⟨"GetStringParam", "id", true, true⟩ = true := by
  decide

example : caseLabels.contains (dwimURI "/v2/loc/facts/nope?x=1") = false := by decide

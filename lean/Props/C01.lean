import RulioModel.Spec

/-! # C01 — dispatch (placeholder obligations until the index proofs land) -/

/-- booleans are ordered when pattern-index values are sorted (false before true) -/
theorem bools_sorted :
    (match sortValues [.bool true, .bool false] with
     | .ok [.bool a, .bool b] => !a && b | _ => false) = true := by decide

/-- the root's ids are part of every search result -/
theorem root_ids_collected (ri : PI) (ev : Obj) (ids : List String) (id : String)
    (h : piSearch ri ev = .ok ids) (hr : id ∈ ri.ids) : id ∈ ids := by
  unfold piSearch at h
  cases hs : PI.search (searchFuel (mapToPairs ev)) ri (mapToPairs ev) with
  | error e => simp [hs, Except.map] at h
  | ok l =>
    simp [hs, Except.map] at h
    subst h
    unfold union
    by_cases hl : id ∈ l
    · exact List.mem_append_left _ hl
    · apply List.mem_append_right
      simp [List.mem_filter, hr, hl]

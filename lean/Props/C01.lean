import RulioProofs.PatIndexState

/-! # C01 — event dispatch evaluates exactly the rules whose `when` matches: the rule index

Property theorems only (helper lemmas are in `RulioProofs/PatIndex*.lean`, the vocabulary —
`PI.path`, `PI.idsAt`, `PI.Emb`, `IdxOK`, `EvOK`, `IdxSt` — in `RulioModel/PatIndexSpec.lean`).

The index part of C01 is: *no matching rule is ever skipped because of how rules are indexed*.
It is the composition of

1. `mod_adds_at_path` / `mod_rems_at_path` / `mod_fuel_independent` — what `PatternIndex.mod` does;
2. `search_embeds` — `searchPairs` follows every embedded path, whatever else is in the trie;
3. `match_embeds` — a pattern of the fragment `IdxOK` that lies over an event of the fragment `EvOK` embeds;
4. `index_invariant`, `index_complete` — for all histories of index operations and all events;
   `state_index_invariant`, `state_index_complete` — the same for all histories of the indexed *state*
   model (`St.iAdd`, `St.irem` with its cascade, `iGet`, `isearch`, `iFindRules` with their expiry side effects);
5. negative theorems with concrete witnesses for what lies outside the fragments (recorded findings).

All statements are about the executable model (`PI.mod`, `PI.search`, `piAdd`, `piRem`, `piSearch`), for every
fuel above the size bound (`searchFuel`), i.e. the fuel is a proof device and not part of the semantics. -/

open PI

/-! ## 1. what `mod` does -/

/-- **`mod` adds the id exactly at the end of the path.** If the pairs have a path `π` (no unsortable array),
then for every fuel `≥ searchFuel pairs` the add succeeds, `id` is on the node at `π` afterwards, and every
other (node, id') membership of the trie is unchanged. -/
theorem mod_adds_at_path (idx : PI) (pairs : List (String × J)) (id : String) (π : List Edge) (fuel : Nat)
    (hπ : path pairs = some π) (hf : searchFuel pairs ≤ fuel) :
    (PI.mod fuel idx pairs id true).2 = none ∧
    id ∈ (PI.mod fuel idx pairs id true).1.idsAt π ∧
    ∀ ρ id', (ρ ≠ π ∨ id' ≠ id) →
      (id' ∈ (PI.mod fuel idx pairs id true).1.idsAt ρ ↔ id' ∈ idx.idsAt ρ) := by
  obtain ⟨h1, h2⟩ := mod_spec id true fuel idx pairs (Nat.lt_of_lt_of_le (searchFuel_gt pairs) hf)
  rw [hπ] at h1 h2
  refine ⟨h1.2 rfl, h2.add_mem, ?_⟩
  intro ρ id' hne
  rw [h2 ρ]
  by_cases hρ : some π = some ρ
  · simp only [hρ, if_true, mem_updIds_add]
    have : ρ = π := (Option.some.inj hρ).symm
    rcases hne with h | h
    · exact absurd this h
    · simp [h]
  · simp [hρ]

/-- **`mod` removes the id exactly at the end of the path** (id lists duplicate free, as in every trie built
by `mod` from the empty one): afterwards `id` is not on the node at `π`, all other memberships are unchanged. -/
theorem mod_rems_at_path (idx : PI) (pairs : List (String × J)) (id : String) (π : List Edge) (fuel : Nat)
    (hn : NodupIds idx) (hπ : path pairs = some π) (hf : searchFuel pairs ≤ fuel) :
    (PI.mod fuel idx pairs id false).2 = none ∧
    id ∉ (PI.mod fuel idx pairs id false).1.idsAt π ∧
    ∀ ρ id', (ρ ≠ π ∨ id' ≠ id) →
      (id' ∈ (PI.mod fuel idx pairs id false).1.idsAt ρ ↔ id' ∈ idx.idsAt ρ) := by
  obtain ⟨h1, h2⟩ := mod_spec id false fuel idx pairs (Nat.lt_of_lt_of_le (searchFuel_gt pairs) hf)
  rw [hπ] at h1 h2
  refine ⟨h1.2 rfl, ?_, ?_⟩
  · rw [h2 π]; simp only [if_true, mem_updIds_rem (hn π)]; simp
  · intro ρ id' hne
    rw [h2 ρ]
    by_cases hρ : some π = some ρ
    · simp only [hρ, if_true, mem_updIds_rem (hn ρ)]
      have : ρ = π := (Option.some.inj hρ).symm
      rcases hne with h | h
      · exact absurd this h
      · simp [h]
    · simp [hρ]

/-- **a rejected `mod` changes no id list**, and `mod` is rejected exactly when the pairs have no path (some
array is not sortable); duplicate-freeness of the id lists is preserved in every case. -/
theorem mod_failure_harmless (idx : PI) (pairs : List (String × J)) (id : String) (add : Bool) (fuel : Nat)
    (hf : searchFuel pairs ≤ fuel) :
    ((PI.mod fuel idx pairs id add).2 = none ↔ (path pairs).isSome = true) ∧
    (path pairs = none → ∀ ρ, (PI.mod fuel idx pairs id add).1.idsAt ρ = idx.idsAt ρ) ∧
    (NodupIds idx → NodupIds (PI.mod fuel idx pairs id add).1) := by
  obtain ⟨h1, h2⟩ := mod_spec id add fuel idx pairs (Nat.lt_of_lt_of_le (searchFuel_gt pairs) hf)
  refine ⟨h1, ?_, h2.nodup⟩
  intro hnone ρ
  rw [hnone] at h2
  simpa using h2 ρ

/-- **the fuel is a proof device**: any fuel `≥ searchFuel pairs` gives the result of the well-founded
version `PI.modW`, hence the same result as any larger fuel. -/
theorem mod_fuel_independent (idx : PI) (pairs : List (String × J)) (id : String) (add : Bool) (f1 f2 : Nat)
    (h1 : searchFuel pairs ≤ f1) (h2 : f1 ≤ f2) :
    PI.mod f1 idx pairs id add = PI.modW idx pairs id add ∧
    PI.mod f1 idx pairs id add = PI.mod f2 idx pairs id add := by
  have g1 : szO pairs < f1 := Nat.lt_of_lt_of_le (searchFuel_gt pairs) h1
  have g2 : szO pairs < f2 := Nat.lt_of_lt_of_le g1 h2
  exact ⟨mod_eq_modW id add f1 idx pairs g1, mod_fuel_indep id add f1 f2 idx pairs g1 g2⟩

/-- non-vacuity: a nested pattern with an array has a path; adding it to a non-empty trie puts the id there -/
example :
    path (mapToPairs [("b", .obj [("c", .str "?x")]), ("a", .arr [.num 2, .num 1])]) =
      some [.str "a", .str "F_1", .str "a", .str "F_2", .str "b", .map, .str "c", .var] := by decide +kernel
example :
    ((piAdd (piAdd PI.empty [("a", .num 1)] "r0").1
        [("b", .obj [("c", .str "?x")]), ("a", .arr [.num 2, .num 1])] "r").1.idsAt
      [.str "a", .str "F_1", .str "a", .str "F_2", .str "b", .map, .str "c", .var]) = ["r"] := by decide +kernel
example : NodupIds PI.empty := nodupIds_empty

/-! ## 2. the search follows every embedded path -/

/-- **`search_embeds`**: if `id` sits on the node at the end of the non-empty path `π` below `idx`, and `π`
embeds in the event pairs `E` (relation `PI.Emb`, which does not mention the trie), then every successful
`PI.search` from `idx` on `E`, with any fuel above the size of `E`, returns `id`.  No assumption on what else
the trie contains. -/
theorem search_embeds (idx : PI) (π : List Edge) (E : List (String × J)) (id : String) (fuel : Nat)
    (ids : List String) (hne : π ≠ []) (hid : id ∈ idx.idsAt π) (hemb : Emb π E) (hf : szO E < fuel)
    (hs : PI.search fuel idx E = .ok ids) : id ∈ ids :=
  found_of_emb hemb idx hne hid fuel ids hf hs

/-- **`search_embeds` for `SearchPatternsMap`**: same for `piSearch` (which also returns the root's ids, so
the empty path is covered). -/
theorem piSearch_embeds (ri : PI) (ev : Obj) (π : List Edge) (id : String) (ids : List String)
    (hid : id ∈ ri.idsAt π) (hemb : Emb π (mapToPairs ev)) (hs : piSearch ri ev = .ok ids) : id ∈ ids :=
  piSearch_of_emb hid hemb hs

/-- **the search never fails on an event of the fragment** (ground, arrays sortable), whatever is indexed -/
theorem piSearch_succeeds (ri : PI) (ev : Obj) (hev : EvOK ev = true) : ∃ ids, piSearch ri ev = .ok ids :=
  piSearch_total ri hev

/-- non-vacuity: an embedding that uses skip, expand, const, mapIn and var -/
example : Emb [.str "a", .str "F_2", .str "b", .map, .str "c", .var]
    (mapToPairs [("b", .obj [("c", .num 7), ("d", .null)]), ("a", .arr [.num 2, .num 1]), ("0", .bool true)]) := by
  have h : mapToPairs [("b", .obj [("c", .num 7), ("d", .null)]), ("a", .arr [.num 2, .num 1]), ("0", .bool true)]
      = [("0", .bool true), ("a", .arr [.num 2, .num 1]), ("b", .obj [("c", .num 7), ("d", .null)])] := by
    rfl
  rw [h]
  refine .skip _ _ _ (.expand "a" _ [.num 1, .num 2] _ _ (by rfl) ?_)
  refine .skip _ _ _ (.const "a" (.num 2) "F_2" _ _ (by rfl) ?_)
  refine .mapIn "b" _ _ _ ?_
  have h2 : mapToPairs [("c", J.num 7), ("d", J.null)] = [("c", .num 7), ("d", .null)] := by rfl
  rw [h2]
  exact .var "c" (.num 7) _ _ [("d", .null)] (by rfl) (.done _)

/-! ## 3. a pattern that lies over an event embeds in it -/

/-- **`match_embeds`**: for a pattern `p` in the fragment `IdxOK` (constant, pairwise distinct keys; no
optional variable; every array is empty, a singleton `[variable]` / `[map]` / `[scalar]`, or consists of
scalar constants of one sortable type) and an event `ev` in the fragment `EvOK` (ground; every array is
empty, a singleton `[map]` / `[scalar]`, or consists of scalars of one sortable type): if some bindings lay
the pattern over the event (`pmv`, the specification C05 relates `matchJ` to), then the pattern has a path
and that path embeds in the event's pairs. -/
theorem match_embeds (σ : Bs) (p ev : Obj) (hp : IdxOK p = true) (hev : EvOK ev = true)
    (hm : pmv σ (.obj p) (.obj ev) = true) :
    ∃ π, path (mapToPairs p) = some π ∧ Emb π (mapToPairs ev) :=
  emb_of_pmv σ hp hev hm

/-- non-vacuity: a pattern and an event of the fragments (nested map, arrays, variable), and they match -/
example : IdxOK [("b", .obj [("c", .str "?x")]), ("a", .arr [.num 2, .num 1]), ("e", .arr [.obj []])] = true := by
  decide +kernel
example : EvOK [("b", .obj [("c", .num 7), ("d", .null)]), ("a", .arr [.num 3, .num 2, .num 1]),
    ("e", .arr [.obj [("z", .bool true)]])] = true := by decide +kernel
example : pmv [("?x", .num 7)]
    (.obj [("b", .obj [("c", .str "?x")]), ("a", .arr [.num 2, .num 1]), ("e", .arr [.obj []])])
    (.obj [("b", .obj [("c", .num 7), ("d", .null)]), ("a", .arr [.num 3, .num 2, .num 1]),
      ("e", .arr [.obj [("z", .bool true)]])]) = true := by
  have ha : isVar "a" = false := by decide +kernel
  have hb : isVar "b" = false := by decide +kernel
  have hc : isVar "c" = false := by decide +kernel
  have he : isVar "e" = false := by decide +kernel
  have hx : isVar "?x" = true := by decide +kernel
  simp [pmO_cons_const _ ha, pmO_cons_const _ hb, pmO_cons_const _ hc, pmO_cons_const _ he, pmO_nil, lookupKey,
    pmA_cons, pmA_nil, pmPick_cons, pmPick_nil, pmStr, Bs.get?, hx, pmv.eq_def, BEq.beq, J.beq]

/-! ## 4. all histories -/

/-- **the index invariant holds after every history** of index operations as `IndexedState.add` / `rem`
perform them (`IdxSt.add`: unindex the previous pattern stored under the id — an error aborts —, index the
new one, put the previous one back if the new one is rejected; `IdxSt.rem`: unindex the stored pattern):
id lists are duplicate free and every stored `(id, pattern)` has a path with `id` on the node at its end. -/
theorem index_invariant (ops : List IOp) :
    NodupIds (IdxSt.run {} ops).ri ∧ Indexed (IdxSt.run {} ops).ri (IdxSt.run {} ops).rules :=
  hinv_run ops {} hinv_init

/-- **frame**: index operations under an id never disturb another id's entries; an `add` never removes
anything; a `rem` of pattern `q` under `id'` keeps `id` at `π` unless `id' = id` and `π` is the path of `q`. -/
theorem index_ops_frame (ri : PI) (q : Obj) (id id' : String) (π : List Edge) (hn : NodupIds ri)
    (hid : id ∈ ri.idsAt π) :
    id ∈ (piAdd ri q id').1.idsAt π ∧
    (¬ (id' = id ∧ path (mapToPairs q) = some π) → id ∈ (piRem ri q id').1.idsAt π) := by
  refine ⟨(piAdd_spec ri q id').2.add_mono hid, ?_⟩
  intro hne
  have h := (piRem_spec ri q id').2 π
  rw [h]
  by_cases hp : path (mapToPairs q) = some π
  · simp only [hp, if_true]
    exact (mem_updIds_rem (hn π)).2 ⟨hid, fun h' => hne ⟨h'.symm, hp⟩⟩
  · simp only [hp, if_false]; exact hid

/-- **`index_complete`** (the for-all-pairs claim): after every history of index operations, for every event
of the fragment `EvOK`, the candidate search succeeds, and every currently indexed `(id, pattern)` with
`IdxOK pattern` whose pattern lies over the event is among the candidates.  No matching rule of the fragment
is ever skipped because of how rules are indexed. -/
theorem index_complete (ops : List IOp) (ev : Obj) (id : String) (p : Obj) (σ : Bs)
    (hstored : amGet (IdxSt.run {} ops).rules id = some p) (hp : IdxOK p = true) (hev : EvOK ev = true)
    (hm : pmv σ (.obj p) (.obj ev) = true) :
    ∃ ids, piSearch (IdxSt.run {} ops).ri ev = .ok ids ∧ id ∈ ids := by
  obtain ⟨π, hπ, hid⟩ := (index_invariant ops).2 id p hstored
  obtain ⟨π', hπ', hemb⟩ := match_embeds σ p ev hp hev hm
  rw [hπ] at hπ'; cases hπ'
  obtain ⟨ids, hs⟩ := piSearch_succeeds (IdxSt.run {} ops).ri ev hev
  exact ⟨ids, hs, piSearch_embeds _ ev π id ids hid hemb hs⟩

/-- non-vacuity: a history with a replacement and a removal; the surviving rules are stored and found, the
replaced pattern and the removed rule are not -/
example :
    let s := IdxSt.run {} [.add "r1" [("a", .num 1)], .add "r2" [("b", .str "?x")], .add "r1" [("a", .num 2)],
      .rem "r2", .add "r3" [("a", .arr [.num 2])]]
    (amGet s.rules "r1").map (fun p => path (mapToPairs p)) = some (some [.str "a", .str "F_2"]) ∧
    (amGet s.rules "r2").isNone = true ∧
    (foundIn (piSearch s.ri [("a", .arr [.num 1, .num 2]), ("b", .null)]) "r3" = true ∧
    foundIn (piSearch s.ri [("a", .num 2), ("b", .null)]) "r1" = true ∧
    foundIn (piSearch s.ri [("a", .num 1), ("b", .null)]) "r1" = false ∧
    foundIn (piSearch s.ri [("a", .num 2), ("b", .null)]) "r2" = false) := by
  decide +kernel

/-! ## 4b. all histories of the indexed state model -/

/-- **each operation of the indexed state preserves the rule-index invariant** `StIdx` (id lists duplicate
free; every stored non-scheduled rule — `whenOf`, the notion of the dispatch specification — has its id at
the end of its `when` pattern's path): `add` (which unindexes the previous rule stored under the id, and puts
it back when the new one is rejected), `rem` with its `deleteWith` cascade for every recursion budget, and
the reads that expire facts on the way (`get`, `search`, `findRules`). -/
theorem state_index_step (s : St) (h : StIdx s) :
    (∀ given x now, StIdx (s.iadd given x now).1) ∧ (∀ given x now, StIdx (s.iAdd given x now).1) ∧
    (∀ fuel id now, StIdx (St.irem fuel s id now).1) ∧ (∀ id now, StIdx (s.iGet id now).1) ∧
    (∀ fuel p now, StIdx (St.isearch fuel s p now).1) ∧ (∀ ev now, StIdx (s.iFindRules ev now).1) :=
  ⟨fun g x n => stIdx_iadd s g x n h, fun g x n => stIdx_iAdd s g x n h, fun f i n => stIdx_irem f s i n h,
   fun i n => stIdx_iGet s i n h, fun f p n => stIdx_isearch f s p n h, fun e n => stIdx_iFindRules s e n h⟩

/-- **the invariant holds in every reachable indexed state** (induction over the operation history) -/
theorem state_index_invariant (s : St) (h : IReach s) : StIdx s := stIdx_of_reach h

/-- **`index_complete` for the state model**: in every indexed state reachable by any history of
`add` / `rem` / `get` / `search` / `findRules` / `clear`, for every event of the fragment `EvOK`, the candidate
search of `doFindRules` succeeds and returns the id of every stored, non-scheduled rule whose `when` pattern
is in the fragment `IdxOK` and lies over the event. -/
theorem state_index_complete (s : St) (h : IReach s) (ev : Obj) (id : String) (fact pat : Obj) (σ : Bs)
    (hstored : amGet s.facts id = some fact) (hwhen : whenOf fact = some pat)
    (hp : IdxOK pat = true) (hev : EvOK ev = true) (hm : pmv σ (.obj pat) (.obj ev) = true) :
    ∃ ids, piSearch s.ri ev = .ok ids ∧ id ∈ ids := by
  obtain ⟨π, hπ, hid⟩ := (state_index_invariant s h).2 id fact pat hstored hwhen
  obtain ⟨π', hπ', hemb⟩ := match_embeds σ pat ev hp hev hm
  rw [hπ] at hπ'; cases hπ'
  obtain ⟨ids, hs⟩ := piSearch_succeeds s.ri ev hev
  exact ⟨ids, hs, piSearch_embeds _ ev π id ids hid hemb hs⟩

/-- non-vacuity: a reachable state (rule added, replaced, a second rule added and removed) whose stored rule
has the replaced `when` -/
example :
    let r1 : Obj := [("rule", .obj [("when", .obj [("a", .num 1)]), ("action", .null)])]
    let r1' : Obj := [("rule", .obj [("when", .obj [("a", .arr [.num 2])]), ("action", .null)])]
    let r2 : Obj := [("rule", .obj [("when", .obj [("b", .str "?x")]), ("action", .null)])]
    let s0 : St := { kind := .indexed }
    let s := (St.irem 50 (((s0.iAdd "r1" r1 0).1.iAdd "r2" r2 0).1.iAdd "r1" r1' 0).1 "r2" 0).1
    ((amGet s.facts "r1").bind whenOf).map (fun p => path (mapToPairs p)) = some (some [.str "a", .str "F_2"]) ∧
    (amGet s.facts "r2").isNone = true ∧
    foundIn (piSearch s.ri [("a", .arr [.num 1, .num 2]), ("b", .null)]) "r1" = true ∧
    foundIn (piSearch s.ri [("a", .num 1), ("b", .null)]) "r1" = false ∧
    foundIn (piSearch s.ri [("a", .arr [.num 1, .num 2]), ("b", .null)]) "r2" = false := by
  decide +kernel
example : IReach (St.irem 50 (((({ kind := .indexed } : St).iAdd "r1"
    [("rule", .obj [("when", .obj [("a", .num 1)])])] 0).1.iAdd "r2" [("x", .num 1)] 0).1) "r2" 0).1 :=
  .rem _ _ _ _ (.add _ _ _ _ (.add _ _ _ _ .init))

/-! ## 5. outside the fragments: recorded findings of the real code (concrete witnesses) -/

/-- (a) an array holding a variable and a constant whose sort order separates them:
`when {"a":["?x","1"]}` is found for the event `{"a":["1","2"]}` but **not** for `{"a":["0","1"]}`, although
the pattern lies over both (`?x ↦ "2"`, resp. `?x ↦ "0"`). -/
theorem var_and_const_in_array_missed :
    let p : Obj := [("a", .arr [.str "?x", .str "1"])]
    let ri := (piAdd PI.empty p "r").1
    foundIn (piSearch ri [("a", .arr [.str "1", .str "2"])]) "r" = true ∧
    foundIn (piSearch ri [("a", .arr [.str "0", .str "1"])]) "r" = false ∧
    piSearch ri [("a", .arr [.str "0", .str "1"])] = .ok [] ∧
    pmv [("?x", .str "2")] (.obj p) (.obj [("a", .arr [.str "1", .str "2"])]) = true ∧
    pmv [("?x", .str "0")] (.obj p) (.obj [("a", .arr [.str "0", .str "1"])]) = true ∧
    IdxOK p = false := by
  have ha : isVar "a" = false := by decide +kernel
  have hx : isVar "?x" = true := by decide +kernel
  have h1 : isVar "1" = false := by decide +kernel
  refine ⟨by decide +kernel, by decide +kernel, by decide +kernel, ?_, ?_, by decide +kernel⟩
  · simp [pmv_obj, pmO_cons_const _ ha, pmO_nil, lookupKey, pmv_arr, pmA_cons, pmA_nil, pmPick_cons,
      pmPick_nil, pmv_str, pmStr, Bs.get?, hx, h1, BEq.beq, J.beq]
  · simp [pmv_obj, pmO_cons_const _ ha, pmO_nil, lookupKey, pmv_arr, pmA_cons, pmA_nil, pmPick_cons,
      pmPick_nil, pmv_str, pmStr, Bs.get?, hx, h1, BEq.beq, J.beq]

/-- (b) a pattern array mixing a variable and a number (`["?x",1]`) is rejected by the index (`notSortable`);
the trie's id lists are left unchanged (`mod_failure_harmless`). -/
theorem var_and_number_in_array_rejected :
    (piAdd PI.empty [("a", .arr [.str "?x", .num 1])] "r").2 = some .notSortable ∧
    path (mapToPairs [("a", .arr [.str "?x", .num 1])]) = none := by
  constructor <;> decide +kernel

/-- (c) a property-variable rule `{"?p":1}` is found for `{"a":1}` in an otherwise empty index, but no longer
once another pattern using the concrete key `a` has been added (the `"?"` child is only consulted when the
concrete key is absent). -/
theorem property_variable_hidden :
    let ri1 := (piAdd PI.empty [("?p", .num 1)] "r").1
    let ri2 := (piAdd ri1 [("a", .num 2)] "r2").1
    foundIn (piSearch ri1 [("a", .num 1)]) "r" = true ∧
    foundIn (piSearch ri2 [("a", .num 1)]) "r" = false ∧
    piSearch ri2 [("a", .num 1)] = .ok [] ∧
    IdxOK [("?p", .num 1)] = false := by
  refine ⟨by decide +kernel, by decide +kernel, by decide +kernel, by decide +kernel⟩

/-- (d) an event with a heterogeneous array `{"a":[1,"x"]}` is processed normally as long as no indexed
pattern uses the key `a` (the rule on `b` is found), and makes the whole search fail (`notSortable`) as soon
as one does — hiding the rule on `b` as well. -/
theorem hetero_event_array_fails :
    let ev : Obj := [("a", .arr [.num 1, .str "x"]), ("b", .num 1)]
    let ri1 := (piAdd PI.empty [("b", .num 1)] "r").1
    let ri2 := (piAdd ri1 [("a", .num 2)] "r2").1
    foundIn (piSearch ri1 ev) "r" = true ∧
    failsWith (piSearch ri2 ev) .notSortable = true ∧
    EvOK ev = false := by
  refine ⟨by decide +kernel, by decide +kernel, by decide +kernel⟩

/-- the repairs of `searchPairs` / `SearchPatternsMap` are visible in the model: a pattern ending with an
empty map is found (ids on Map nodes are collected), the empty pattern and a pattern whose only value is an
empty array sit on the root and are found for every event, and boolean arrays are ordered. -/
theorem repaired_shapes_found :
    foundIn (piSearch (piAdd PI.empty [("a", .obj [])] "r").1 [("a", .obj [("x", .num 1)])]) "r" = true ∧
    foundIn (piSearch (piAdd PI.empty [] "r").1 [("a", .num 1)]) "r" = true ∧
    foundIn (piSearch (piAdd PI.empty [("b", .arr [])] "r").1 [("b", .arr [.num 1])]) "r" = true ∧
    foundIn (piSearch (piAdd PI.empty [("a", .arr [.bool true, .bool false])] "r").1
      [("a", .arr [.bool false, .bool true])]) "r" = true ∧
    foundIn (piSearch (piAdd PI.empty [("a", .arr [.null])] "r").1 [("a", .arr [.null])]) "r" = true := by
  refine ⟨by decide +kernel, by decide +kernel, by decide +kernel, by decide +kernel, by decide +kernel⟩

#print axioms mod_adds_at_path
#print axioms mod_rems_at_path
#print axioms mod_failure_harmless
#print axioms mod_fuel_independent
#print axioms search_embeds
#print axioms piSearch_embeds
#print axioms piSearch_succeeds
#print axioms match_embeds
#print axioms index_invariant
#print axioms index_ops_frame
#print axioms index_complete
#print axioms state_index_step
#print axioms state_index_invariant
#print axioms state_index_complete
#print axioms var_and_const_in_array_missed
#print axioms var_and_number_in_array_rejected
#print axioms property_variable_hidden
#print axioms hetero_event_array_fails
#print axioms repaired_shapes_found

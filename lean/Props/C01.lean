import RulioProofs.PatIndexState
import RulioProofs.ComposeExamples
import RulioProofs.ComposeSys

/-! # C01 — event dispatch evaluates exactly the rules whose `when` matches: the rule index

Property theorems only (helper lemmas are in `RulioProofs/PatIndex*.lean`, the vocabulary —
`PI.path`, `PI.idsAt`, `PI.Emb`, `IdxOK`, `EvOK`, `IdxSt` — in `RulioModel/PatIndexSpec.lean`).

The index part of C01 is: *no matching rule is ever skipped because of how rules are indexed*.
It is the composition of

1. `mod_adds_at_path` / `mod_rems_at_path` / `mod_fuel_independent` — what `PatternIndex.mod` does;
2. `search_embeds` — `searchPairs` follows every embedded path, whatever else is in the trie;
3. `match_embeds` — a pattern of the fragment `IdxOK` that lies over an event of the fragment `EvOK` embeds;
4. `index_invariant`, `index_complete` — for all histories of index operations and all events;
   `state_index_invariant`, `state_index_complete` — the same for all histories of the indexed *state*
   model (`St.iAdd`, `St.irem` with its cascade, `iGet`, `isearch`, `iFindRules` with their expiry side effects);
5. negative theorems with concrete witnesses for what lies outside the fragments (recorded findings).

All statements are about the executable model (`PI.mod`, `PI.search`, `piAdd`, `piRem`, `piSearch`), for every
fuel above the size bound (`searchFuel`), i.e. the fuel is a proof device and not part of the semantics. -/

-- (the `pm*` unfolding lemmas also exist at root level in `RulioProofs/MatchSpecLemmas.lean`, now imported through the
-- composition lemmas of section 6: the root versions, same statements, are the ones used below)
open PI hiding pmO_cons_const pmO_nil pmA_cons pmA_nil pmPick_cons pmPick_nil pmv_arr pmv_obj pmv_str

/-! ## 1. what `mod` does -/

/-- **`mod` adds the id exactly at the end of the path.** If the pairs have a path `π` (no unsortable array),
then for every fuel `≥ searchFuel pairs` the add succeeds, `id` is on the node at `π` afterwards, and every
other (node, id') membership of the trie is unchanged. -/
theorem mod_adds_at_path (idx : PI) (pairs : List (String × J)) (id : String) (π : List Edge) (fuel : Nat)
    (hπ : path pairs = some π) (hf : searchFuel pairs ≤ fuel) :
    (PI.mod fuel idx pairs id true).2 = none ∧
    id ∈ (PI.mod fuel idx pairs id true).1.idsAt π ∧
    ∀ ρ id', (ρ ≠ π ∨ id' ≠ id) →
      (id' ∈ (PI.mod fuel idx pairs id true).1.idsAt ρ ↔ id' ∈ idx.idsAt ρ) := by
  obtain ⟨h1, h2⟩ := mod_spec id true fuel idx pairs (Nat.lt_of_lt_of_le (searchFuel_gt pairs) hf)
  rw [hπ] at h1 h2
  refine ⟨h1.2 rfl, h2.add_mem, ?_⟩
  intro ρ id' hne
  rw [h2 ρ]
  by_cases hρ : some π = some ρ
  · simp only [hρ, if_true, mem_updIds_add]
    have : ρ = π := (Option.some.inj hρ).symm
    rcases hne with h | h
    · exact absurd this h
    · simp [h]
  · simp [hρ]

/-- **`mod` removes the id exactly at the end of the path** (id lists duplicate free, as in every trie built
by `mod` from the empty one): afterwards `id` is not on the node at `π`, all other memberships are unchanged. -/
theorem mod_rems_at_path (idx : PI) (pairs : List (String × J)) (id : String) (π : List Edge) (fuel : Nat)
    (hn : NodupIds idx) (hπ : path pairs = some π) (hf : searchFuel pairs ≤ fuel) :
    (PI.mod fuel idx pairs id false).2 = none ∧
    id ∉ (PI.mod fuel idx pairs id false).1.idsAt π ∧
    ∀ ρ id', (ρ ≠ π ∨ id' ≠ id) →
      (id' ∈ (PI.mod fuel idx pairs id false).1.idsAt ρ ↔ id' ∈ idx.idsAt ρ) := by
  obtain ⟨h1, h2⟩ := mod_spec id false fuel idx pairs (Nat.lt_of_lt_of_le (searchFuel_gt pairs) hf)
  rw [hπ] at h1 h2
  refine ⟨h1.2 rfl, ?_, ?_⟩
  · rw [h2 π]; simp only [if_true, mem_updIds_rem (hn π)]; simp
  · intro ρ id' hne
    rw [h2 ρ]
    by_cases hρ : some π = some ρ
    · simp only [hρ, if_true, mem_updIds_rem (hn ρ)]
      have : ρ = π := (Option.some.inj hρ).symm
      rcases hne with h | h
      · exact absurd this h
      · simp [h]
    · simp [hρ]

/-- **a rejected `mod` changes no id list**, and `mod` is rejected exactly when the pairs have no path (some
array is not sortable); duplicate-freeness of the id lists is preserved in every case. -/
theorem mod_failure_harmless (idx : PI) (pairs : List (String × J)) (id : String) (add : Bool) (fuel : Nat)
    (hf : searchFuel pairs ≤ fuel) :
    ((PI.mod fuel idx pairs id add).2 = none ↔ (path pairs).isSome = true) ∧
    (path pairs = none → ∀ ρ, (PI.mod fuel idx pairs id add).1.idsAt ρ = idx.idsAt ρ) ∧
    (NodupIds idx → NodupIds (PI.mod fuel idx pairs id add).1) := by
  obtain ⟨h1, h2⟩ := mod_spec id add fuel idx pairs (Nat.lt_of_lt_of_le (searchFuel_gt pairs) hf)
  refine ⟨h1, ?_, h2.nodup⟩
  intro hnone ρ
  rw [hnone] at h2
  simpa using h2 ρ

/-- **the fuel is a proof device**: any fuel `≥ searchFuel pairs` gives the result of the well-founded
version `PI.modW`, hence the same result as any larger fuel. -/
theorem mod_fuel_independent (idx : PI) (pairs : List (String × J)) (id : String) (add : Bool) (f1 f2 : Nat)
    (h1 : searchFuel pairs ≤ f1) (h2 : f1 ≤ f2) :
    PI.mod f1 idx pairs id add = PI.modW idx pairs id add ∧
    PI.mod f1 idx pairs id add = PI.mod f2 idx pairs id add := by
  have g1 : szO pairs < f1 := Nat.lt_of_lt_of_le (searchFuel_gt pairs) h1
  have g2 : szO pairs < f2 := Nat.lt_of_lt_of_le g1 h2
  exact ⟨mod_eq_modW id add f1 idx pairs g1, mod_fuel_indep id add f1 f2 idx pairs g1 g2⟩

/-- non-vacuity: a nested pattern with an array has a path; adding it to a non-empty trie puts the id there -/
example :
    path (mapToPairs [("b", .obj [("c", .str "?x")]), ("a", .arr [.num 2, .num 1])]) =
      some [.str "a", .str "F_1", .str "a", .str "F_2", .str "b", .map, .str "c", .var] := by decide +kernel
example :
    ((piAdd (piAdd PI.empty [("a", .num 1)] "r0").1
        [("b", .obj [("c", .str "?x")]), ("a", .arr [.num 2, .num 1])] "r").1.idsAt
      [.str "a", .str "F_1", .str "a", .str "F_2", .str "b", .map, .str "c", .var]) = ["r"] := by decide +kernel
example : NodupIds PI.empty := nodupIds_empty

/-! ## 2. the search follows every embedded path -/

/-- **`search_embeds`**: if `id` sits on the node at the end of the non-empty path `π` below `idx`, and `π`
embeds in the event pairs `E` (relation `PI.Emb`, which does not mention the trie), then every successful
`PI.search` from `idx` on `E`, with any fuel above the size of `E`, returns `id`.  No assumption on what else
the trie contains. -/
theorem search_embeds (idx : PI) (π : List Edge) (E : List (String × J)) (id : String) (fuel : Nat)
    (ids : List String) (hne : π ≠ []) (hid : id ∈ idx.idsAt π) (hemb : Emb π E) (hf : szO E < fuel)
    (hs : PI.search fuel idx E = .ok ids) : id ∈ ids :=
  found_of_emb hemb idx hne hid fuel ids hf hs

/-- **`search_embeds` for `SearchPatternsMap`**: same for `piSearch` (which also returns the root's ids, so
the empty path is covered). -/
theorem piSearch_embeds (ri : PI) (ev : Obj) (π : List Edge) (id : String) (ids : List String)
    (hid : id ∈ ri.idsAt π) (hemb : Emb π (mapToPairs ev)) (hs : piSearch ri ev = .ok ids) : id ∈ ids :=
  piSearch_of_emb hid hemb hs

/-- **the search never fails on an event of the fragment** (ground, arrays sortable), whatever is indexed -/
theorem piSearch_succeeds (ri : PI) (ev : Obj) (hev : EvOK ev = true) : ∃ ids, piSearch ri ev = .ok ids :=
  piSearch_total ri hev

/-- non-vacuity: an embedding that uses skip, expand, const, mapIn and var -/
example : Emb [.str "a", .str "F_2", .str "b", .map, .str "c", .var]
    (mapToPairs [("b", .obj [("c", .num 7), ("d", .null)]), ("a", .arr [.num 2, .num 1]), ("0", .bool true)]) := by
  have h : mapToPairs [("b", .obj [("c", .num 7), ("d", .null)]), ("a", .arr [.num 2, .num 1]), ("0", .bool true)]
      = [("0", .bool true), ("a", .arr [.num 2, .num 1]), ("b", .obj [("c", .num 7), ("d", .null)])] := by
    rfl
  rw [h]
  refine .skip _ _ _ (.expand "a" _ [.num 1, .num 2] _ _ (by rfl) ?_)
  refine .skip _ _ _ (.const "a" (.num 2) "F_2" _ _ (by rfl) ?_)
  refine .mapIn "b" _ _ _ ?_
  have h2 : mapToPairs [("c", J.num 7), ("d", J.null)] = [("c", .num 7), ("d", .null)] := by rfl
  rw [h2]
  exact .var "c" (.num 7) _ _ [("d", .null)] (by rfl) (.done _)

/-! ## 3. a pattern that lies over an event embeds in it -/

/-- **`match_embeds`**: for a pattern `p` in the fragment `IdxOK` (constant, pairwise distinct keys; no
optional variable; every array is empty, a singleton `[variable]` / `[map]` / `[scalar]`, or consists of
scalar constants of one sortable type) and an event `ev` in the fragment `EvOK` (ground; every array is
empty, a singleton `[map]` / `[scalar]`, or consists of scalars of one sortable type): if some bindings lay
the pattern over the event (`pmv`, the specification C05 relates `matchJ` to), then the pattern has a path
and that path embeds in the event's pairs. -/
theorem match_embeds (σ : Bs) (p ev : Obj) (hp : IdxOK p = true) (hev : EvOK ev = true)
    (hm : pmv σ (.obj p) (.obj ev) = true) :
    ∃ π, path (mapToPairs p) = some π ∧ Emb π (mapToPairs ev) :=
  emb_of_pmv σ hp hev hm

/-- non-vacuity: a pattern and an event of the fragments (nested map, arrays, variable), and they match -/
example : IdxOK [("b", .obj [("c", .str "?x")]), ("a", .arr [.num 2, .num 1]), ("e", .arr [.obj []])] = true := by
  decide +kernel
example : EvOK [("b", .obj [("c", .num 7), ("d", .null)]), ("a", .arr [.num 3, .num 2, .num 1]),
    ("e", .arr [.obj [("z", .bool true)]])] = true := by decide +kernel
example : pmv [("?x", .num 7)]
    (.obj [("b", .obj [("c", .str "?x")]), ("a", .arr [.num 2, .num 1]), ("e", .arr [.obj []])])
    (.obj [("b", .obj [("c", .num 7), ("d", .null)]), ("a", .arr [.num 3, .num 2, .num 1]),
      ("e", .arr [.obj [("z", .bool true)]])]) = true := by
  have ha : isVar "a" = false := by decide +kernel
  have hb : isVar "b" = false := by decide +kernel
  have hc : isVar "c" = false := by decide +kernel
  have he : isVar "e" = false := by decide +kernel
  have hx : isVar "?x" = true := by decide +kernel
  simp [pmO_cons_const _ ha, pmO_cons_const _ hb, pmO_cons_const _ hc, pmO_cons_const _ he, pmO_nil, lookupKey,
    pmA_cons, pmA_nil, pmPick_cons, pmPick_nil, pmStr, Bs.get?, hx, pmv.eq_def, BEq.beq, J.beq]

/-! ## 4. all histories -/

/-- **the index invariant holds after every history** of index operations as `IndexedState.add` / `rem`
perform them (`IdxSt.add`: unindex the previous pattern stored under the id — an error aborts —, index the
new one, put the previous one back if the new one is rejected; `IdxSt.rem`: unindex the stored pattern):
id lists are duplicate free and every stored `(id, pattern)` has a path with `id` on the node at its end. -/
theorem index_invariant (ops : List IOp) :
    NodupIds (IdxSt.run {} ops).ri ∧ Indexed (IdxSt.run {} ops).ri (IdxSt.run {} ops).rules :=
  hinv_run ops {} hinv_init

/-- **frame**: index operations under an id never disturb another id's entries; an `add` never removes
anything; a `rem` of pattern `q` under `id'` keeps `id` at `π` unless `id' = id` and `π` is the path of `q`. -/
theorem index_ops_frame (ri : PI) (q : Obj) (id id' : String) (π : List Edge) (hn : NodupIds ri)
    (hid : id ∈ ri.idsAt π) :
    id ∈ (piAdd ri q id').1.idsAt π ∧
    (¬ (id' = id ∧ path (mapToPairs q) = some π) → id ∈ (piRem ri q id').1.idsAt π) := by
  refine ⟨(piAdd_spec ri q id').2.add_mono hid, ?_⟩
  intro hne
  have h := (piRem_spec ri q id').2 π
  rw [h]
  by_cases hp : path (mapToPairs q) = some π
  · simp only [hp, if_true]
    exact (mem_updIds_rem (hn π)).2 ⟨hid, fun h' => hne ⟨h'.symm, hp⟩⟩
  · simp only [hp, if_false]; exact hid

/-- **`index_complete`** (the for-all-pairs claim): after every history of index operations, for every event
of the fragment `EvOK`, the candidate search succeeds, and every currently indexed `(id, pattern)` with
`IdxOK pattern` whose pattern lies over the event is among the candidates.  No matching rule of the fragment
is ever skipped because of how rules are indexed. -/
theorem index_complete (ops : List IOp) (ev : Obj) (id : String) (p : Obj) (σ : Bs)
    (hstored : amGet (IdxSt.run {} ops).rules id = some p) (hp : IdxOK p = true) (hev : EvOK ev = true)
    (hm : pmv σ (.obj p) (.obj ev) = true) :
    ∃ ids, piSearch (IdxSt.run {} ops).ri ev = .ok ids ∧ id ∈ ids := by
  obtain ⟨π, hπ, hid⟩ := (index_invariant ops).2 id p hstored
  obtain ⟨π', hπ', hemb⟩ := match_embeds σ p ev hp hev hm
  rw [hπ] at hπ'; cases hπ'
  obtain ⟨ids, hs⟩ := piSearch_succeeds (IdxSt.run {} ops).ri ev hev
  exact ⟨ids, hs, piSearch_embeds _ ev π id ids hid hemb hs⟩

/-- non-vacuity: a history with a replacement and a removal; the surviving rules are stored and found, the
replaced pattern and the removed rule are not -/
example :
    let s := IdxSt.run {} [.add "r1" [("a", .num 1)], .add "r2" [("b", .str "?x")], .add "r1" [("a", .num 2)],
      .rem "r2", .add "r3" [("a", .arr [.num 2])]]
    (amGet s.rules "r1").map (fun p => path (mapToPairs p)) = some (some [.str "a", .str "F_2"]) ∧
    (amGet s.rules "r2").isNone = true ∧
    (foundIn (piSearch s.ri [("a", .arr [.num 1, .num 2]), ("b", .null)]) "r3" = true ∧
    foundIn (piSearch s.ri [("a", .num 2), ("b", .null)]) "r1" = true ∧
    foundIn (piSearch s.ri [("a", .num 1), ("b", .null)]) "r1" = false ∧
    foundIn (piSearch s.ri [("a", .num 2), ("b", .null)]) "r2" = false) := by
  decide +kernel

/-! ## 4b. all histories of the indexed state model -/

/-- **each operation of the indexed state preserves the rule-index invariant** `StIdx` (id lists duplicate
free; every stored non-scheduled rule — `whenOf`, the notion of the dispatch specification — has its id at
the end of its `when` pattern's path): `add` (which unindexes the previous rule stored under the id, and puts
it back when the new one is rejected), `rem` with its `deleteWith` cascade for every recursion budget, and
the reads that expire facts on the way (`get`, `search`, `findRules`). -/
theorem state_index_step (s : St) (h : StIdx s) :
    (∀ given x now, StIdx (s.iadd given x now).1) ∧ (∀ given x now, StIdx (s.iAdd given x now).1) ∧
    (∀ fuel id now, StIdx (St.irem fuel s id now).1) ∧ (∀ id now, StIdx (s.iGet id now).1) ∧
    (∀ fuel p now, StIdx (St.isearch fuel s p now).1) ∧ (∀ ev now, StIdx (s.iFindRules ev now).1) :=
  ⟨fun g x n => stIdx_iadd s g x n h, fun g x n => stIdx_iAdd s g x n h, fun f i n => stIdx_irem f s i n h,
   fun i n => stIdx_iGet s i n h, fun f p n => stIdx_isearch f s p n h, fun e n => stIdx_iFindRules s e n h⟩

/-- **the invariant holds in every reachable indexed state** (induction over the operation history) -/
theorem state_index_invariant (s : St) (h : IReach s) : StIdx s := stIdx_of_reach h

/-- **`index_complete` for the state model**: in every indexed state reachable by any history of
`add` / `rem` / `get` / `search` / `findRules` / `clear`, for every event of the fragment `EvOK`, the candidate
search of `doFindRules` succeeds and returns the id of every stored, non-scheduled rule whose `when` pattern
is in the fragment `IdxOK` and lies over the event. -/
theorem state_index_complete (s : St) (h : IReach s) (ev : Obj) (id : String) (fact pat : Obj) (σ : Bs)
    (hstored : amGet s.facts id = some fact) (hwhen : whenOf fact = some pat)
    (hp : IdxOK pat = true) (hev : EvOK ev = true) (hm : pmv σ (.obj pat) (.obj ev) = true) :
    ∃ ids, piSearch s.ri ev = .ok ids ∧ id ∈ ids := by
  obtain ⟨π, hπ, hid⟩ := (state_index_invariant s h).2 id fact pat hstored hwhen
  obtain ⟨π', hπ', hemb⟩ := match_embeds σ pat ev hp hev hm
  rw [hπ] at hπ'; cases hπ'
  obtain ⟨ids, hs⟩ := piSearch_succeeds s.ri ev hev
  exact ⟨ids, hs, piSearch_embeds _ ev π id ids hid hemb hs⟩

/-- non-vacuity: a reachable state (rule added, replaced, a second rule added and removed) whose stored rule
has the replaced `when` -/
example :
    let r1 : Obj := [("rule", .obj [("when", .obj [("a", .num 1)]), ("action", .null)])]
    let r1' : Obj := [("rule", .obj [("when", .obj [("a", .arr [.num 2])]), ("action", .null)])]
    let r2 : Obj := [("rule", .obj [("when", .obj [("b", .str "?x")]), ("action", .null)])]
    let s0 : St := { kind := .indexed }
    let s := (St.irem 50 (((s0.iAdd "r1" r1 0).1.iAdd "r2" r2 0).1.iAdd "r1" r1' 0).1 "r2" 0).1
    ((amGet s.facts "r1").bind whenOf).map (fun p => path (mapToPairs p)) = some (some [.str "a", .str "F_2"]) ∧
    (amGet s.facts "r2").isNone = true ∧
    foundIn (piSearch s.ri [("a", .arr [.num 1, .num 2]), ("b", .null)]) "r1" = true ∧
    foundIn (piSearch s.ri [("a", .num 1), ("b", .null)]) "r1" = false ∧
    foundIn (piSearch s.ri [("a", .arr [.num 1, .num 2]), ("b", .null)]) "r2" = false := by
  decide +kernel
example : IReach (St.irem 50 (((({ kind := .indexed } : St).iAdd "r1"
    [("rule", .obj [("when", .obj [("a", .num 1)])])] 0).1.iAdd "r2" [("x", .num 1)] 0).1) "r2" 0).1 :=
  .rem _ _ _ _ (.add _ _ _ _ (.add _ _ _ _ .init))

/-! ## 5. outside the fragments: recorded findings of the real code (concrete witnesses) -/

/-- (a) an array holding a variable and a constant whose sort order separates them:
`when {"a":["?x","1"]}` is found for the event `{"a":["1","2"]}` but **not** for `{"a":["0","1"]}`, although
the pattern lies over both (`?x ↦ "2"`, resp. `?x ↦ "0"`). -/
theorem var_and_const_in_array_missed :
    let p : Obj := [("a", .arr [.str "?x", .str "1"])]
    let ri := (piAdd PI.empty p "r").1
    foundIn (piSearch ri [("a", .arr [.str "1", .str "2"])]) "r" = true ∧
    foundIn (piSearch ri [("a", .arr [.str "0", .str "1"])]) "r" = false ∧
    piSearch ri [("a", .arr [.str "0", .str "1"])] = .ok [] ∧
    pmv [("?x", .str "2")] (.obj p) (.obj [("a", .arr [.str "1", .str "2"])]) = true ∧
    pmv [("?x", .str "0")] (.obj p) (.obj [("a", .arr [.str "0", .str "1"])]) = true ∧
    IdxOK p = false := by
  have ha : isVar "a" = false := by decide +kernel
  have hx : isVar "?x" = true := by decide +kernel
  have h1 : isVar "1" = false := by decide +kernel
  refine ⟨by decide +kernel, by decide +kernel, by decide +kernel, ?_, ?_, by decide +kernel⟩
  · simp [pmv_obj, pmO_cons_const _ ha, pmO_nil, lookupKey, pmv_arr, pmA_cons, pmA_nil, pmPick_cons,
      pmPick_nil, pmv_str, pmStr, Bs.get?, hx, h1, BEq.beq, J.beq]
  · simp [pmv_obj, pmO_cons_const _ ha, pmO_nil, lookupKey, pmv_arr, pmA_cons, pmA_nil, pmPick_cons,
      pmPick_nil, pmv_str, pmStr, Bs.get?, hx, h1, BEq.beq, J.beq]

/-- (b) a pattern array mixing a variable and a number (`["?x",1]`) is rejected by the index (`notSortable`);
the trie's id lists are left unchanged (`mod_failure_harmless`). -/
theorem var_and_number_in_array_rejected :
    (piAdd PI.empty [("a", .arr [.str "?x", .num 1])] "r").2 = some .notSortable ∧
    path (mapToPairs [("a", .arr [.str "?x", .num 1])]) = none := by
  constructor <;> decide +kernel

/-- (c) a property-variable rule `{"?p":1}` is found for `{"a":1}` in an otherwise empty index, but no longer
once another pattern using the concrete key `a` has been added (the `"?"` child is only consulted when the
concrete key is absent). -/
theorem property_variable_hidden :
    let ri1 := (piAdd PI.empty [("?p", .num 1)] "r").1
    let ri2 := (piAdd ri1 [("a", .num 2)] "r2").1
    foundIn (piSearch ri1 [("a", .num 1)]) "r" = true ∧
    foundIn (piSearch ri2 [("a", .num 1)]) "r" = false ∧
    piSearch ri2 [("a", .num 1)] = .ok [] ∧
    IdxOK [("?p", .num 1)] = false := by
  refine ⟨by decide +kernel, by decide +kernel, by decide +kernel, by decide +kernel⟩

/-- (d) an event with a heterogeneous array `{"a":[1,"x"]}` is processed normally as long as no indexed
pattern uses the key `a` (the rule on `b` is found), and makes the whole search fail (`notSortable`) as soon
as one does — hiding the rule on `b` as well. -/
theorem hetero_event_array_fails :
    let ev : Obj := [("a", .arr [.num 1, .str "x"]), ("b", .num 1)]
    let ri1 := (piAdd PI.empty [("b", .num 1)] "r").1
    let ri2 := (piAdd ri1 [("a", .num 2)] "r2").1
    foundIn (piSearch ri1 ev) "r" = true ∧
    failsWith (piSearch ri2 ev) .notSortable = true ∧
    EvOK ev = false := by
  refine ⟨by decide +kernel, by decide +kernel, by decide +kernel⟩

/-- the repairs of `searchPairs` / `SearchPatternsMap` are visible in the model: a pattern ending with an
empty map is found (ids on Map nodes are collected), the empty pattern and a pattern whose only value is an
empty array sit on the root and are found for every event, and boolean arrays are ordered. -/
theorem repaired_shapes_found :
    foundIn (piSearch (piAdd PI.empty [("a", .obj [])] "r").1 [("a", .obj [("x", .num 1)])]) "r" = true ∧
    foundIn (piSearch (piAdd PI.empty [] "r").1 [("a", .num 1)]) "r" = true ∧
    foundIn (piSearch (piAdd PI.empty [("b", .arr [])] "r").1 [("b", .arr [.num 1])]) "r" = true ∧
    foundIn (piSearch (piAdd PI.empty [("a", .arr [.bool true, .bool false])] "r").1
      [("a", .arr [.bool false, .bool true])]) "r" = true ∧
    foundIn (piSearch (piAdd PI.empty [("a", .arr [.null])] "r").1 [("a", .arr [.null])]) "r" = true := by
  refine ⟨by decide +kernel, by decide +kernel, by decide +kernel, by decide +kernel, by decide +kernel⟩

#print axioms mod_adds_at_path
#print axioms mod_rems_at_path
#print axioms mod_failure_harmless
#print axioms mod_fuel_independent
#print axioms search_embeds
#print axioms piSearch_embeds
#print axioms piSearch_succeeds
#print axioms match_embeds
#print axioms index_invariant
#print axioms index_ops_frame
#print axioms index_complete
#print axioms state_index_step
#print axioms state_index_invariant
#print axioms state_index_complete
#print axioms var_and_const_in_array_missed
#print axioms var_and_number_in_array_rejected
#print axioms property_variable_hidden
#print axioms hetero_event_array_fails
#print axioms repaired_shapes_found

/-! ## 6. end to end (composition with C05): dispatch evaluates exactly the matching rules

The theorems above speak about the index and take a specification witness `pmv σ when ev` as a hypothesis.  Here
they are composed with C05 (`match_sound`, `match_ok`: a non-empty matcher answer yields such a witness, and the
matcher does not fail inside the fragments), with the converse of the index invariant (`state_index_sound`: nothing
stale sits in the trie), with `doFindRules`, `FindCachedRules`, `RuleEnabled` and the re-match of `FindRules.Do`
(`processEvent`), into statements about what an `event` op does on one location (no parents: ancestors are C09's).
Lemmas: `RulioProofs/Compose*.lean`; vocabulary: `RulioModel/ComposeFrag.lean`.

Hypotheses that remain, and why:
* `NoneExpired s now` — an expired candidate is purged (with its `deleteWith` cascade) in the middle of the rule
  search, which changes the set of stored rules the specification speaks about (C07 / C08);
* `whenFrag p` for the stored `when` patterns (indexed kind only) = `IdxOK p` (index fragment, outside: the findings
  of section 5), `patOK (.obj p)` (matcher fragment of C05) and `linearPattern p` (no variable twice: C05's soundness
  needs repeated variables bound to scalars, `scalarRepeatsIn`, which is vacuous for linear patterns);
  `EvOK ev`, `dataOK (.obj ev)` for the event (indexed kind only);
* `RuleShapes s` — a stored rule body with a `when` map keeps the pattern under the key `pattern` and has no
  `schedule` key.  Outside, the model's pieces disagree with each other: `GetRulePatterns` (what is indexed and what
  the linear scan matches) falls back to the `when` map itself, `RuleFromMap` (what the event walk re-matches) to the
  empty pattern; and the linear scan ignores a `schedule` key that the specification and the index honour;
* "no error": the statements are about an `event` op whose work tree carries no error; `dispatch_no_error` says
  when that is the case. -/

/-- **Nothing stale sits in the rule index.**  In every reachable indexed state, an id on a trie node is
currently stored as a non-scheduled rule whose `when` pattern's path ends at that node (`IdxSound`, the converse
of `state_index_invariant`).  So a rule that was removed, overwritten by other data, or whose `when` was replaced
is never found on the strength of its former pattern, and `doFindRules` never meets a lost rule. -/
theorem state_index_sound (s : St) (h : IReach s) : IdxSound s := (idxSound_of_reach h).2

/-- the trie walk returns only ids that sit in the trie, and none twice (id lists duplicate free) -/
theorem candidates_sit_in_trie (ri : PI) (ev : Obj) (ids : List String) (h : piSearch ri ev = .ok ids) :
    (∀ id ∈ ids, ∃ π, id ∈ ri.idsAt π) ∧ (NodupIds ri → ids.Nodup) :=
  ⟨fun id hid => piSearch_somewhere h id hid, fun hn => piSearch_nodup hn h⟩

/-- **`dispatch_candidates_complete`.**  For every reachable indexed state without expired facts and every event of
the fragments: whenever the dispatch specification (the brute-force matcher loop over the stored, unexpired,
non-scheduled rules) lists `(id, bindings)` — i.e. the matcher returns a non-empty result for the stored `when` of
`id` — and that `when` is in the fragment, `doFindRules` succeeds, leaves the state unchanged, and `id` is among its
candidates.  No matching rule is skipped because of how rules are indexed; no specification witness is assumed. -/
theorem dispatch_candidates_complete (s : St) (h : IReach s) (now : Int) (hne : NoneExpired s now)
    (ev : Obj) (hev : EvOK ev = true) (hdev : dataOK (.obj ev) = true)
    (out : List (String × List Bs)) (hspec : specDispatchLocal s.facts ev now = .ok out)
    (id : String) (bss : List Bs) (hmem : (id, bss) ∈ out)
    (hfrag : ∀ f p, (id, f) ∈ s.facts → whenOf f = some p → whenFrag p = true) :
    ∃ cands, s.iFindRules ev now = (s, .ok cands) ∧ id ∈ cands.map (·.1) := by
  obtain ⟨f, pat, hf, _, hw, hm, hnil⟩ := (LocP.specDispatchLocal_mem hspec id bss).1 hmem
  have hfr := hfrag f pat hf hw
  simp only [whenFrag, Bool.and_eq_true] at hfr
  obtain ⟨σ, _, hσ⟩ := match_nonempty_pmv hfr.1.2 hdev hfr.2 hm hnil
  obtain ⟨hwf, _⟩ := ireach_wf h
  obtain ⟨ids', hs', hin⟩ := state_index_complete s h ev id f pat σ (amGet_of_mem_nodup_st hwf.keys hf) hw
    hfr.1.1 hev hσ
  obtain ⟨ids, cands, hps, hfr', hfst⟩ := iFindRules_total h hne hev
  rw [hps] at hs'; cases hs'
  exact ⟨cands, hfr', by rw [hfst]; exact hin⟩

/-- **`dispatch_exact_local`.**  One `event` op on a location without parents (`locProcessEvent`: `searchRules` →
`RuleEnabled` for every candidate → `processEvent`, composed as in the driver), for **both state kinds**.
In a well-formed state (`WF`; true after every history, `location_history_good`) without expired facts, whose stored
rule bodies have the documented shape, and — for the indexed kind only — reachable, with the stored `when` patterns
in `whenFrag` and the event in `EvOK` / `dataOK`: if the work tree carries no error, then the location is unchanged,
the dispatch specification filtered by the disabled flags (`specFires`) does not fail, and

* every rule node of the tree is an entry of it — same id, exactly the `when` bindings the matcher yields;
* the rule nodes are a prefix of a permutation of it (a failing condition or serial action aborts the walk, C04);
* if the walk was not aborted, the rule nodes are exactly it, up to order.

So indexed dispatch = linear dispatch = specification, with exactly the `when` bindings. -/
theorem dispatch_exact_local (srch : Srch) (c : Ctx) (ev : Obj) (now : Int) (l l' : Loc) (t : Tree)
    (hwf : WF l.st) (hne : NoneExpired l.st now) (hshape : RuleShapes l.st)
    (hidx : l.st.kind = .indexed → IReach l.st ∧ WhenFrag l.st ∧ EvOK ev = true ∧ dataOK (.obj ev) = true)
    (hrun : locProcessEvent srch c ev now l = (l', t)) (herr : t.err = none) :
    l' = l ∧ ∃ out, specFires l.st.facts ev now = .ok out ∧
      (∃ full, full.Perm out ∧ t.fired <+: full) ∧ (∀ x, x ∈ t.fired → x ∈ out) ∧
      (t.aborted = false → t.fired.Perm out) :=
  locProcessEvent_exact srch hwf hne hshape hidx hrun herr

/-- **when the `event` op reports no error**: the guards of the rule search let the caller through (the location
is enabled and the read key fits), every stored `rule` value is a map accepted by `RuleFromMap` (true of rules
added through `AddRule`), and — linear kind — the specification itself does not fail (no matcher error; for the
indexed kind this follows from the fragments).  Then the location is unchanged and the tree carries no error:
a stale index entry never makes a matching event fail (`Rule body missing`, `lost rule`) nor blocks other rules. -/
theorem dispatch_no_error (srch : Srch) (c : Ctx) (ev : Obj) (now : Int) (l : Loc)
    (hwf : WF l.st) (hne : NoneExpired l.st now) (hshape : RuleShapes l.st)
    (hidx : l.st.kind = .indexed → IReach l.st ∧ WhenFrag l.st ∧ EvOK ev = true ∧ dataOK (.obj ev) = true)
    (hvalid : RulesValid l.st) (hmaps : RuleMaps l.st)
    (hg : LocP.guardsVerdict c now l (guardsOf "searchRules") = .ok ())
    (hspecL : l.st.kind = .linear → ∃ out, specDispatchLocal l.st.facts ev now = .ok out) :
    (locProcessEvent srch c ev now l).1 = l ∧ (locProcessEvent srch c ev now l).2.err = none :=
  locProcessEvent_no_error srch hwf hne hshape hidx hvalid hmaps hg hspecL

/-- **after any history of Location operations** (`AddRule`, `RemRule`, `EnableRule`, `AddFact` — also under the id
of a rule —, `RemFact`, `GetFact`, `SearchFacts`, `SearchRules`, `Clear`, whatever they answer) on a fresh location
the state is well-formed and, if indexed, reachable in the sense of `IReach`: the structural hypotheses of
`dispatch_exact_local` hold after every history. -/
theorem location_history_good (name : String) (k : Kind) (ops : List LocOp) :
    WF ((Loc.fresh name k).run ops).st ∧
    (((Loc.fresh name k).run ops).st.kind = .indexed → IReach ((Loc.fresh name k).run ops).st) :=
  stGood_history name k ops

/-- **the ancestor walk on a location without parents is the location's own rule search.**  In a system, for a
location that stores no `!.parents` property fact, `searchRulesAncestors` (`sysSearchRulesAnc`: `DoAncestors`, then the
duplicate-id test) answers exactly what the location's `searchRules` answers and writes the location back — so
`locProcessEvent` above is what the driver's `event` op (`sysSearchRulesAnc` → `RuleEnabled` per candidate →
`processEvent`) runs there.  The duplicate-id test passes because the candidates of one location carry pairwise
distinct ids. -/
theorem ancestor_walk_single (sys : Sys) (c : Ctx) (n : String) (ev : Obj) (now : Int) (l : Loc)
    (hget : sys.get? n = some l) (hname : l.name = n)
    (hnp : amGet l.st.facts (genPropId "" "parents") = none)
    (hwf : WF l.st) (hne : NoneExpired l.st now) (hshape : RuleShapes l.st)
    (hidx : l.st.kind = .indexed → IReach l.st ∧ WhenFrag l.st ∧ EvOK ev = true ∧ dataOK (.obj ev) = true) :
    sysSearchRulesAnc sys c n ev now =
      (((sys.put l).put (locSearchRules c ev now l).1), (locSearchRules c ev now l).2) :=
  sysSearchRulesAnc_local sys c n ev now l hget hname hnp hwf hne hshape hidx

/-- non-vacuity: on the location history `ComposeEx.cxLoc k` (a rule replaced, a rule disabled, a rule id
overwritten by a plain fact; either kind) every hypothesis of `dispatch_no_error` and `dispatch_exact_local` holds
for the event `{"wants":"tacos","likes":["chips","tacos"]}`, so the event reports no error and its rule nodes are
exactly the specification's -/
example (k : Kind) (srch : Srch) :
    (locProcessEvent srch {} ComposeEx.cxEv 7 (ComposeEx.cxLoc k)).2.err = none ∧
    ∃ out, specFires (ComposeEx.cxLoc k).st.facts ComposeEx.cxEv 7 = .ok out ∧
      ∀ x, x ∈ (locProcessEvent srch {} ComposeEx.cxEv 7 (ComposeEx.cxLoc k)).2.fired → x ∈ out := by
  open ComposeEx in
  have h1 := dispatch_no_error srch {} cxEv 7 (cxLoc k) (cx_good k).1 (cx_noneExpired k) (cx_shapes k) (cx_idx k)
    (cx_valid k) (cx_maps k) (cx_guards k) (fun _ => cx_spec k)
  generalize hrun : locProcessEvent srch {} ComposeEx.cxEv 7 (ComposeEx.cxLoc k) = res at h1 ⊢
  obtain ⟨l', t⟩ := res
  obtain ⟨_, out, ho, _, hsub, _⟩ := dispatch_exact_local srch {} ComposeEx.cxEv 7 (ComposeEx.cxLoc k) l' t
    (ComposeEx.cx_good k).1 (ComposeEx.cx_noneExpired k) (ComposeEx.cx_shapes k) (ComposeEx.cx_idx k) hrun h1.2
  exact ⟨h1.2, out, ho, hsub⟩

/-- non-vacuity of `ancestor_walk_single`: the instance as a one-location system -/
example (k : Kind) : sysSearchRulesAnc [("home", ComposeEx.cxLoc k)] {} "home" ComposeEx.cxEv 7 =
    ((Sys.put (Sys.put [("home", ComposeEx.cxLoc k)] (ComposeEx.cxLoc k))
        (locSearchRules {} ComposeEx.cxEv 7 (ComposeEx.cxLoc k)).1),
      (locSearchRules {} ComposeEx.cxEv 7 (ComposeEx.cxLoc k)).2) :=
  ancestor_walk_single _ {} "home" ComposeEx.cxEv 7 (ComposeEx.cxLoc k) (ComposeEx.cx_sys k).2.2 (ComposeEx.cx_sys k).1
    (ComposeEx.cx_sys k).2.1 (ComposeEx.cx_good k).1 (ComposeEx.cx_noneExpired k) (ComposeEx.cx_shapes k)
    (ComposeEx.cx_idx k)

/-- non-vacuity of `dispatch_candidates_complete`: its hypotheses hold on the indexed instance -/
example : IReach (ComposeEx.cxLoc .indexed).st ∧ NoneExpired (ComposeEx.cxLoc .indexed).st 7 ∧
    EvOK ComposeEx.cxEv = true ∧ dataOK (.obj ComposeEx.cxEv) = true ∧ WhenFrag (ComposeEx.cxLoc .indexed).st ∧
    ∃ out, specDispatchLocal (ComposeEx.cxLoc .indexed).st.facts ComposeEx.cxEv 7 = .ok out :=
  ⟨(ComposeEx.cx_good .indexed).2 (ComposeEx.cx_kind .indexed), ComposeEx.cx_noneExpired _, ComposeEx.cx_ev.1,
   ComposeEx.cx_ev.2, ComposeEx.cx_whenFrag _, ComposeEx.cx_spec _⟩

#print axioms state_index_sound
#print axioms candidates_sit_in_trie
#print axioms dispatch_candidates_complete
#print axioms dispatch_exact_local
#print axioms dispatch_no_error
#print axioms location_history_good
#print axioms ancestor_walk_single

import RulioModel.Gen.Loc
import RulioModel.MatchSpec
import RulioModel.MatchFrag
import RulioProofs.MatchExamples
import RulioProofs.MatchCompleteG
import RulioProofs.MatchBound
import RulioProofs.MatchIneq

/-! # C05 — the matcher is sound and complete for partial matching (property theorems only)

Model: `matchJ` (`RulioModel/Match.lean`, line-by-line port of sheens `match` as configured by rulio).
Specification: `pmv σ p d` (`RulioModel/MatchSpec.lean`): the bindings `σ` lay pattern `p` over datum `d`
as a partial match with every variable bound to exactly the value at its position.
Fragment: `patOK p`, `dataOK d`, and the scalar-repeats condition `scalarRepeatsIn σ p bs`
(`RulioModel/MatchFrag.lean`): every variable that occurs more than once in `p`, or is bound in the
incoming bindings `bs`, is bound to a scalar in `σ`.  Helper lemmas live in `RulioProofs/Match*.lean`. -/

/-- the specification relation is monotone in the bindings (what lets the left-to-right threading compose) -/
theorem sol_mono {σ σ' : Bs} (he : σ.Ext σ') {p d : J} (h : Sol σ p d) : Sol σ' p d := Sol.mono he h

/-- **Soundness.** Inside the fragment every binding `σ` returned by the matcher extends the incoming
bindings and lays the pattern over the datum (`pmv`), provided the variables that repeat in the pattern or
were already bound are bound to scalars in `σ`.  Full fragment: nested maps, arrays as sets with
backtracking over structured elements, one array variable. -/
theorem match_sound (p d : J) (bs : Bs) (bss : List Bs) (σ : Bs)
    (hp : patOK p = true) (hd : dataOK d = true)
    (hr : matchJ p d bs = .ok bss) (hσ : σ ∈ bss)
    (hsc : scalarRepeatsIn σ p bs = true) :
    bs.Ext σ ∧ pmv σ p d = true := by
  obtain ⟨h1, _, h3⟩ := soundJ p hp d bs bss σ hd hr hσ
  exact ⟨h1, h3 σ (Bs.Ext.refl σ) ((scalarRepeatsIn_iff σ p bs).1 hsc)⟩

/-- Every returned binding is minimal: it binds nothing besides the incoming bindings and the variables of
the pattern (no scalar hypothesis needed). -/
theorem match_result_minimal (p d : J) (bs : Bs) (bss : List Bs) (σ : Bs)
    (hp : patOK p = true) (hd : dataOK d = true)
    (hr : matchJ p d bs = .ok bss) (hσ : σ ∈ bss) :
    bs.Ext σ ∧ minimalFor σ p bs = true := by
  obtain ⟨h1, h2, _⟩ := soundJ p hp d bs bss σ hd hr hσ
  exact ⟨h1, (minimalFor_iff σ p bs).2 h2⟩

/-- **Completeness.** Inside the fragment every minimal specification binding `σ` (it extends `bs`, lays
`p` over `d`, binds nothing else, and binds repeated / pre-bound variables to scalars) is returned by the
matcher, up to equality as a finite map. -/
theorem match_complete (p d : J) (bs : Bs) (bss : List Bs) (σ : Bs)
    (hp : patOK p = true) (hd : dataOK d = true)
    (hr : matchJ p d bs = .ok bss)
    (hext : bs.Ext σ) (hpm : pmv σ p d = true)
    (hmin : minimalFor σ p bs = true) (hsc : scalarRepeatsIn σ p bs = true) :
    ∃ σ' ∈ bss, ∀ k, σ'.get? k = σ.get? k := by
  have hSC := (scalarRepeatsIn_iff σ p bs).1 hsc
  obtain ⟨σ', hσ', hσ'σ⟩ := completeJ σ p hp d bs bss hd hr hext hSC hpm
  refine ⟨σ', hσ', Bs.same_of_ext hσ'σ ?_⟩
  -- σ' binds everything σ binds: the incoming bindings and every variable of p
  obtain ⟨hbσ', _, hpm'⟩ := soundJ p hp d bs bss σ' hd hr hσ'
  have hpmσ' : pmv σ' p d = true := by
    apply hpm' σ' (Bs.Ext.refl _)
    intro y hy hc
    have := hSC y hy hc
    unfold scalarAt at this ⊢
    cases hg : σ'.get? y with
    | none => rfl
    | some w => rw [hσ'σ y w hg] at this; exact this
  intro k hk
  rcases (minimalFor_iff σ p bs).1 hmin k hk with hb | hv
  · cases hg : bs.get? k with
    | none => exact absurd hg hb
    | some w => rw [hbσ' k w hg]; simp
  · exact pmv_vars_bound p hp d hpmσ' k hv

/-- **Completeness without the scalar condition.** If moreover every map inside the datum has pairwise
distinct keys (`dataKeysOK`, always true of decoded JSON / Go maps), *every* minimal specification binding
is returned, whether or not repeated variables are bound to scalars: the matcher never misses a solution in
the fragment; only soundness depends on the scalar-repeats condition. -/
theorem match_complete_noscalar (p d : J) (bs : Bs) (bss : List Bs) (σ : Bs)
    (hp : patOK p = true) (hd : dataOK d = true) (hk : dataKeysOK d = true)
    (hr : matchJ p d bs = .ok bss)
    (hext : bs.Ext σ) (hpm : pmv σ p d = true) (hmin : minimalFor σ p bs = true) :
    ∃ σ' ∈ bss, ∀ k, σ'.get? k = σ.get? k := by
  obtain ⟨σ', hσ', hσ'σ⟩ := completeG σ p hp d bs bss ⟨hd, hk⟩ hr hext hpm
  obtain ⟨hbσ', hbound⟩ := boundJ p hp d bs bss σ' hr hσ'
  refine ⟨σ', hσ', Bs.same_of_ext hσ'σ ?_⟩
  intro k hk'
  rcases (minimalFor_iff σ p bs).1 hmin k hk' with hb | hv
  · exact ext_bound hbσ' hb
  · exact hbound k hv

/-- Every returned binding binds every variable of the pattern (with `match_result_minimal`: its domain is
exactly the incoming bindings plus the variables of the pattern). -/
theorem match_result_binds_all (p d : J) (bs : Bs) (bss : List Bs) (σ : Bs)
    (hp : patOK p = true) (hr : matchJ p d bs = .ok bss) (hσ : σ ∈ bss) :
    ∀ y ∈ varsOf p, (σ.get? y).isSome = true := by
  intro y hy
  exact Option.isSome_iff_ne_none.2 ((boundJ p hp d bs bss σ hr hσ).2 y hy)

/-- **Guard.** With ground data and ground incoming bindings the matcher never reports `nonGround`: the
data-as-pattern call `match(binding, fact)` is only ever made on ground bindings, which is the guard under
which the real recursion is bounded.  Holds for every pattern, inside or outside the fragment. -/
theorem match_no_nonground (p d : J) (bs : Bs)
    (hd : d.ground = true) (hbs : ∀ kv ∈ bs, kv.2.ground = true) :
    matchJ p d bs ≠ .error .nonGround := by
  intro h
  have := ngJ p d bs hd hbs
  rw [h] at this
  exact this.1 rfl

/-- With ground data and ground incoming bindings every returned binding is ground again (so the guard
of `match_no_nonground` is preserved when results are fed back as incoming bindings). -/
theorem match_result_ground (p d : J) (bs : Bs) (bss : List Bs) (σ : Bs)
    (hd : d.ground = true) (hbs : ∀ kv ∈ bs, kv.2.ground = true)
    (hr : matchJ p d bs = .ok bss) (hσ : σ ∈ bss) : ∀ kv ∈ σ, kv.2.ground = true := by
  have := ngJ p d bs hd hbs
  rw [hr] at this
  exact this σ hσ

/-- **Totality inside the fragment.** For a pattern of the fragment, well-formed data and ground incoming
bindings the matcher reports no error at all, so `match_sound` / `match_complete` describe its whole
behaviour there. -/
theorem match_ok (p d : J) (bs : Bs)
    (hp : patOK p = true) (hd : dataOK d = true)
    (hbs : ∀ kv ∈ bs, kv.2.ground = true ∧ dataOK kv.2 = true) :
    ∃ bss, matchJ p d bs = .ok bss := by
  have := ngJ p d bs (dataOK_ground d hd) (fun kv hkv => (hbs kv hkv).1)
  cases hr : matchJ p d bs with
  | ok bss => exact ⟨bss, rfl⟩
  | error e => rw [hr] at this; have := this.2; rw [hp] at this; cases this

/-- **The result set is determined by the specification.** Two patterns of the fragment with the same
variables (as a multiset) and the same specification on `d` return the same bindings, as sets of finite
maps (for the bindings that satisfy the scalar condition).  Since `pmv` does not depend on the order of
map pairs, this is what discharges Go's random map iteration. -/
theorem match_results_determined (p q d : J) (bs : Bs) (bss1 bss2 : List Bs)
    (hp : patOK p = true) (hq : patOK q = true) (hd : dataOK d = true)
    (hvars : (varsOf p).Perm (varsOf q)) (hspec : ∀ σ, pmv σ p d = pmv σ q d)
    (h1 : matchJ p d bs = .ok bss1) (h2 : matchJ q d bs = .ok bss2) :
    (∀ σ ∈ bss1, scalarRepeatsIn σ p bs = true → ∃ σ' ∈ bss2, ∀ k, σ'.get? k = σ.get? k) ∧
    (∀ σ ∈ bss2, scalarRepeatsIn σ q bs = true → ∃ σ' ∈ bss1, ∀ k, σ'.get? k = σ.get? k) :=
  ⟨fun _ hσ hsc => results_determined hp hq hd hvars hspec h1 h2 hσ ((scalarRepeatsIn_iff _ _ _).1 hsc),
   fun _ hσ hsc => results_determined hq hp hd hvars.symm (fun σ => (hspec σ).symm) h2 h1 hσ
     ((scalarRepeatsIn_iff _ _ _).1 hsc)⟩

/-- **Order independence.** Permuting the key/value pairs of any map of the pattern, or the elements of
any array of the pattern, at any depth (`PatPerm`), keeps the pattern in the fragment and permutes the
result set: the two calls return the same bindings as sets of finite maps. -/
theorem match_order_independent (p q d : J) (bs : Bs) (bss1 bss2 : List Bs)
    (hpq : PatPerm p q) (hp : patOK p = true) (hd : dataOK d = true)
    (h1 : matchJ p d bs = .ok bss1) (h2 : matchJ q d bs = .ok bss2) :
    patOK q = true ∧
    (∀ σ ∈ bss1, scalarRepeatsIn σ p bs = true → ∃ σ' ∈ bss2, ∀ k, σ'.get? k = σ.get? k) ∧
    (∀ σ ∈ bss2, scalarRepeatsIn σ q bs = true → ∃ σ' ∈ bss1, ∀ k, σ'.get? k = σ.get? k) := by
  obtain ⟨hq, hvars, hspec⟩ := hpq.inv.2.2 hp
  exact ⟨hq, match_results_determined p q d bs bss1 bss2 hp hq hd hvars (fun σ => hspec σ d) h1 h2⟩

/-- The scalar condition itself does not depend on the order (so the two halves of
`match_order_independent` speak about the same bindings). -/
theorem scalarRepeatsIn_order_independent (p q : J) (σ bs : Bs) (hpq : PatPerm p q) (hp : patOK p = true) :
    scalarRepeatsIn σ p bs = scalarRepeatsIn σ q bs := by
  obtain ⟨_, hvars, _⟩ := hpq.inv.2.2 hp
  rw [Bool.eq_iff_iff, scalarRepeatsIn_iff, scalarRepeatsIn_iff]
  exact ⟨SC.perm hvars, SC.perm hvars.symm⟩

set_option linter.unusedSimpArgs false in
/-- **Negative theorem (finding C05).** Outside the scalar-repeats fragment soundness fails and the result
depends on the key order: for the pattern `{"a":"?x","b":"?x"}` and the datum
`{"a":{"k":1},"b":{"k":1,"j":2}}`, with key order `a,b` the matcher returns the binding `?x={"k":1}`
although the value at `b` differs (`pmv` is false for it), and with key order `b,a` it returns no match. -/
theorem repeated_var_structured_counterexample :
    let pab : J := .obj [("a", .str "?x"), ("b", .str "?x")]
    let pba : J := .obj [("b", .str "?x"), ("a", .str "?x")]
    let d : J := .obj [("a", .obj [("k", .num 1)]), ("b", .obj [("k", .num 1), ("j", .num 2)])]
    let σ : Bs := [("?x", .obj [("k", .num 1)])]
    matchJ pab d [] = .ok [σ] ∧ pmv σ pab d = false ∧ scalarRepeatsIn σ pab [] = false ∧
    matchJ pba d [] = .ok [] ∧ patOK pab = true ∧ dataOK d = true := by
  intro pab pba d σ
  refine ⟨?_, ?_, ?_, ?_, ?_, ?_⟩
  · simp [pab, d, σ, matchJ_obj, matchJ_str, matchO, matchStr, isVar, lookupKey, Bs.get?, Bs.set,
      J.ground, groundO, gmatch, gmatchO, bind, Except.bind, pure, Except.pure]
  · simp [pab, d, σ, pmv_obj, pmO, pmv_str, pmStr, isVar, lookupKey, Bs.get?]
  · simp [pab, σ, scalarRepeatsIn, critVars, scalarAt, varsOf, varsOfO, count, isVar, Bs.get?, J.isScalar]
  · simp [pba, d, matchJ_obj, matchJ_str, matchO, matchStr, isVar, lookupKey, Bs.get?, Bs.set,
      J.ground, groundO, gmatch, gmatchO, bind, Except.bind, pure, Except.pure]
  · simp [pab, patOK, patOKO, isVar, isOptVar]
  · simp [d, dataOK, dataOKO, isVar]

/-! ## The hypotheses are satisfiable by a non-trivial instance

`exP = {"a":"?x","b":["?y",1,{"c":"?x"}]}`, `exD = {"a":2,"b":[1,{"c":2},"z"],"e":true}`,
`exS = {"?y":"z","?x":2}` (`RulioProofs/MatchExamples.lean`): a nested map, an array with a variable, a scalar
constant and a structured element, and a variable that occurs twice. -/

/-- all hypotheses of `match_sound` hold for the instance, and its conclusion is the expected one -/
example : patOK exP = true ∧ dataOK exD = true ∧ matchJ exP exD [] = .ok [exS] ∧ exS ∈ [exS] ∧
    scalarRepeatsIn exS exP [] = true :=
  ⟨exP_ok, exD_ok, ex_match, List.mem_singleton.2 rfl, ex_scalar⟩
example : Bs.Ext [] exS ∧ pmv exS exP exD = true :=
  match_sound exP exD [] [exS] exS exP_ok exD_ok ex_match (List.mem_singleton.2 rfl) ex_scalar

/-- all hypotheses of `match_complete` hold for the instance -/
example : Bs.Ext [] exS ∧ pmv exS exP exD = true ∧ minimalFor exS exP [] = true ∧
    scalarRepeatsIn exS exP [] = true :=
  ⟨fun _ _ h => by simp [Bs.get?] at h, ex_pmv, ex_minimal, ex_scalar⟩
example : ∃ σ' ∈ [exS], ∀ k, σ'.get? k = exS.get? k :=
  match_complete exP exD [] [exS] exS exP_ok exD_ok ex_match (fun _ _ h => by simp [Bs.get?] at h)
    ex_pmv ex_minimal ex_scalar

/-- the extra hypothesis of `match_complete_noscalar` holds for the instance -/
example : dataKeysOK exD = true := exD_keys
example : ∃ σ' ∈ [exS], ∀ k, σ'.get? k = exS.get? k :=
  match_complete_noscalar exP exD [] [exS] exS exP_ok exD_ok exD_keys ex_match
    (fun _ _ h => by simp [Bs.get?] at h) ex_pmv ex_minimal

/-- the hypotheses of `match_ok` / `match_no_nonground` hold for the instance (empty incoming bindings) -/
example : ∃ bss, matchJ exP exD [] = .ok bss :=
  match_ok exP exD [] exP_ok exD_ok (fun _ h => by cases h)

/-- `match_order_independent` applies to a genuine deep permutation of the instance -/
example (bss2 : List Bs) (h2 : matchJ exP' exD [] = .ok bss2) :
    ∃ σ' ∈ bss2, ∀ k, σ'.get? k = exS.get? k :=
  (match_order_independent exP exP' exD [] [exS] bss2 ex_perm exP_ok exD_ok ex_match h2).2.1 exS
    (List.mem_singleton.2 rfl) ex_scalar

/-! ## Inequality variables (`Inequalities: true` in `core.DefaultMatcher`)

The matcher rulio really runs is `matchJI` (`RulioModel/MatchIneq.lean`): `matchJ` plus the experimental sheens
feature that treats a variable named `"?" ++ ie ++ rest` (`ie` one of `<=`, `>=`, `!=`, `>`, `<`) that is *bound to
a number in the incoming bindings* as a numeric test against the fact, binding `"?" ++ rest` to the fact.  The
theorems above are about `matchJ`; `ineq_conservative` transfers all of them to `matchJI` on patterns that mention
no such variable name, `ineq_semantics*` say what the feature does, and `ineq_repeated_var_order_dependent` shows
that with it the clause "a variable that occurs more than once must find equal values" is lost. -/

/-- **Conservativity.** If no string of the pattern (value, array element or map key, at any depth) parses as
an inequality variable, the matcher with `Inequalities: true` is the matcher of the theorems above, on every
fact and all incoming bindings (whatever those bind). -/
theorem ineq_conservative (p : J) (hp : noIneqVars p = true) (f : J) (bs : Bs) :
    matchJI p f bs = matchJ p f bs := matchJI_eq_matchJ p hp f bs

/-- `match_sound` for the faithful matcher: soundness inside the fragment, for patterns without inequality
variables. -/
theorem match_sound_faithful (p d : J) (bs : Bs) (bss : List Bs) (σ : Bs)
    (hi : noIneqVars p = true) (hp : patOK p = true) (hd : dataOK d = true)
    (hr : matchJI p d bs = .ok bss) (hσ : σ ∈ bss)
    (hsc : scalarRepeatsIn σ p bs = true) :
    bs.Ext σ ∧ pmv σ p d = true :=
  match_sound p d bs bss σ hp hd (ineq_conservative p hi d bs ▸ hr) hσ hsc

/-- `match_complete_noscalar` for the faithful matcher: completeness inside the fragment, for patterns without
inequality variables. -/
theorem match_complete_faithful (p d : J) (bs : Bs) (bss : List Bs) (σ : Bs)
    (hi : noIneqVars p = true) (hp : patOK p = true) (hd : dataOK d = true) (hk : dataKeysOK d = true)
    (hr : matchJI p d bs = .ok bss)
    (hext : bs.Ext σ) (hpm : pmv σ p d = true) (hmin : minimalFor σ p bs = true) :
    ∃ σ' ∈ bss, ∀ k, σ'.get? k = σ.get? k :=
  match_complete_noscalar p d bs bss σ hp hd hk (ineq_conservative p hi d bs ▸ hr) hext hpm hmin

/-- Which names are inequality variables: `"?" ++ ie ++ rest` for the two-character operators with any `rest`
(the empty one included: the target is then the anonymous variable `"?"`), for `<` and `>` with a non-empty `rest`
that does not start with `=`; `"?<"`, `"?>"`, `"?=n"`, `"??<n"` and `"?"` are ordinary names. -/
theorem ineq_names (rest : String) :
    ineqOf ("?<=" ++ rest) = some ("<=", rest) ∧ ineqOf ("?>=" ++ rest) = some (">=", rest) ∧
    ineqOf ("?!=" ++ rest) = some ("!=", rest) ∧
    (rest ≠ "" → ¬ ['='] <+: rest.toList → ineqOf ("?<" ++ rest) = some ("<", rest) ∧ ineqOf ("?>" ++ rest) = some (">", rest)) ∧
    ineqOf "?<" = none ∧ ineqOf "?>" = none ∧ ineqOf "?=n" = none ∧ ineqOf "??<n" = none ∧ ineqOf "?" = none ∧
    ineqOf "?<=" = some ("<=", "") :=
  ⟨ineqOf_le rest, ineqOf_ge rest, ineqOf_ne rest, fun h1 h2 => ⟨ineqOf_lt rest h1 h2, ineqOf_gt rest h1 h2⟩,
   by decide, by decide, by decide, by decide, by decide, by decide⟩

/-- **Semantics, target unbound.** `v = "?" ++ ie ++ rest` bound to the number `b`, fact the number `a`, target
`"?" ++ rest` unbound: the match succeeds iff `a ie b`, and then binds the target to `a` (and nothing else). -/
theorem ineq_semantics (v ie rest : String) (hv : ineqOf v = some (ie, rest)) (bs : Bs) (a b : Int)
    (hb : bs.get? v = some (.num b)) (hn : bs.get? ("?" ++ rest) = none) :
    matchJI (.str v) (.num a) bs = .ok (if ineqSat ie a b then [bs.set ("?" ++ rest) (.num a)] else []) := by
  rw [matchJI_str]; exact matchStrI_ineq_fresh hv hb hn

/-- `ineq_semantics` spelled out for `<=`, `>=`, `!=`. -/
theorem ineq_semantics_le_ge_ne (rest : String) (bs : Bs) (a b : Int) (hn : bs.get? ("?" ++ rest) = none) :
    (bs.get? ("?<=" ++ rest) = some (.num b) →
      matchJI (.str ("?<=" ++ rest)) (.num a) bs = .ok (if a ≤ b then [bs.set ("?" ++ rest) (.num a)] else [])) ∧
    (bs.get? ("?>=" ++ rest) = some (.num b) →
      matchJI (.str ("?>=" ++ rest)) (.num a) bs = .ok (if a ≥ b then [bs.set ("?" ++ rest) (.num a)] else [])) ∧
    (bs.get? ("?!=" ++ rest) = some (.num b) →
      matchJI (.str ("?!=" ++ rest)) (.num a) bs = .ok (if a ≠ b then [bs.set ("?" ++ rest) (.num a)] else [])) := by
  refine ⟨fun hb => ?_, fun hb => ?_, fun hb => ?_⟩
  · rw [ineq_semantics _ _ _ (ineqOf_le rest) bs a b hb hn, ineqSat_le]; simp
  · rw [ineq_semantics _ _ _ (ineqOf_ge rest) bs a b hb hn, ineqSat_ge]; simp
  · rw [ineq_semantics _ _ _ (ineqOf_ne rest) bs a b hb hn, ineqSat_ne]; simp

/-- `ineq_semantics` spelled out for the strict operators `<`, `>` (`rest` non-empty, not starting with `=`). -/
theorem ineq_semantics_lt_gt (rest : String) (hne : rest ≠ "") (heq : ¬ ['='] <+: rest.toList)
    (bs : Bs) (a b : Int) (hn : bs.get? ("?" ++ rest) = none) :
    (bs.get? ("?<" ++ rest) = some (.num b) →
      matchJI (.str ("?<" ++ rest)) (.num a) bs = .ok (if a < b then [bs.set ("?" ++ rest) (.num a)] else [])) ∧
    (bs.get? ("?>" ++ rest) = some (.num b) →
      matchJI (.str ("?>" ++ rest)) (.num a) bs = .ok (if a > b then [bs.set ("?" ++ rest) (.num a)] else [])) := by
  refine ⟨fun hb => ?_, fun hb => ?_⟩
  · rw [ineq_semantics _ _ _ (ineqOf_lt rest hne heq) bs a b hb hn, ineqSat_lt]; simp
  · rw [ineq_semantics _ _ _ (ineqOf_gt rest hne heq) bs a b hb hn, ineqSat_gt]; simp

/-- **Semantics, target bound to a number `c`.** The match succeeds iff `a ie b` and `c = a`; the bindings are
returned unchanged. -/
theorem ineq_semantics_target_num (v ie rest : String) (hv : ineqOf v = some (ie, rest)) (bs : Bs) (a b c : Int)
    (hb : bs.get? v = some (.num b)) (hn : bs.get? ("?" ++ rest) = some (.num c)) :
    matchJI (.str v) (.num a) bs = .ok (if ineqSat ie a b && c == a then [bs] else []) := by
  rw [matchJI_str]; exact matchStrI_ineq_bound_num hv hb hn

/-- **Semantics, target bound to a non-number.** A refuted inequality refutes the match, but a satisfied one
falls back to the ordinary meaning of the bound variable `v`: the match succeeds iff `a ie b` *and* `a = b`
(so never for the strict operators and `!=`). -/
theorem ineq_semantics_target_other (v ie rest : String) (hv : ineqOf v = some (ie, rest)) (bs : Bs) (a b : Int)
    (x : J) (hb : bs.get? v = some (.num b)) (hn : bs.get? ("?" ++ rest) = some x) (hx : ∀ c, x ≠ .num c) :
    matchJI (.str v) (.num a) bs = .ok (if ineqSat ie a b && b == a then [bs] else []) := by
  rw [matchJI_str]; exact matchStrI_ineq_bound_other hv hb hn hx

/-- **Where the feature is not used.** An inequality variable that is unbound in the incoming bindings, or bound
to a non-number, or laid over a fact that is not a number, is an ordinary variable. -/
theorem ineq_not_used (v : String) (f : J) (bs : Bs)
    (h : bs.get? v = none ∨ (∃ x, bs.get? v = some x ∧ ∀ b, x ≠ .num b) ∨ ∀ a, f ≠ .num a) :
    matchJI (.str v) f bs = matchJ (.str v) f bs := by
  rw [matchJI_str, matchJ_str]
  rcases h with h | ⟨x, h, hx⟩ | h
  · exact matchStrI_of_unbound h f
  · unfold matchStrI
    rw [inequal_of_bound_not_num h hx]
    by_cases hv : isVar v = true
    · by_cases ha : v = "?"
      · subst ha; simp [matchStr, isVar]
      · simp [hv, ha]
    · simp [hv]
  · exact matchStrI_of_fact_not_num h v bs

set_option linter.unusedSimpArgs false in
/-- **Negative theorem (inequality variables).** With the feature the clause "a variable that occurs more than
once must find equal values" fails even for scalars, and the outcome depends on the key order: for the pattern
`{"a":"?<n","b":"?<n"}` over `{"a":5,"b":3}` with *empty* incoming bindings, in key order `a,b` the first
occurrence binds `?<n := 5` like an ordinary variable and the second is then the test `3 < 5`, binding `?n := 3`:
a binding is returned although the two occurrences see different values; in key order `b,a` the test is `5 < 3`
and nothing is returned.  The matcher without the feature returns nothing in both orders. -/
theorem ineq_repeated_var_order_dependent :
    let pab : J := .obj [("a", .str "?<n"), ("b", .str "?<n")]
    let pba : J := .obj [("b", .str "?<n"), ("a", .str "?<n")]
    let d : J := .obj [("a", .num 5), ("b", .num 3)]
    matchJI pab d [] = .ok [[("?n", .num 3), ("?<n", .num 5)]] ∧ matchJI pba d [] = .ok [] ∧
    matchJ pab d [] = .ok [] ∧ matchJ pba d [] = .ok [] ∧ noIneqVars pab = false ∧
    patOK pab = true ∧ dataOK d = true := by
  intro pab pba d
  have hi : ineqOf "?<n" = some ("<", "n") := by decide
  have hn : ("?" ++ "n" : String) = "?n" := by decide
  refine ⟨?_, ?_, ?_, ?_, ?_, ?_, ?_⟩
  · simp [pab, d, matchJI_obj, matchJI_str, matchOI, matchStrI, inequal, hi, hn, ineqSat, matchStr, isVar, lookupKey,
      Bs.get?, Bs.set, bind, Except.bind, pure, Except.pure]
  · simp [pba, d, matchJI_obj, matchJI_str, matchOI, matchStrI, inequal, hi, hn, ineqSat, matchStr, isVar, lookupKey,
      Bs.get?, Bs.set, bind, Except.bind, pure, Except.pure]
  · simp [pab, d, matchJ_obj, matchJ_str, matchO, matchStr, isVar, lookupKey, Bs.get?, Bs.set,
      J.ground, gmatch, bind, Except.bind, pure, Except.pure]
  · simp [pba, d, matchJ_obj, matchJ_str, matchO, matchStr, isVar, lookupKey, Bs.get?, Bs.set,
      J.ground, gmatch, bind, Except.bind, pure, Except.pure]
  · simp [pab, noIneqVars, noIneqVarsO, hi]
  · simp [pab, patOK, patOKO, isVar, isOptVar]
  · simp [d, dataOK, dataOKO, isVar]

/-! ### the hypotheses of the inequality theorems are satisfiable -/

/-- `ineq_conservative` / `match_sound_faithful` apply to the worked instance `exP` (no inequality variables) -/
example : noIneqVars exP = true := by decide
example : matchJI exP exD [] = .ok [exS] := by rw [ineq_conservative exP (by decide)]; exact ex_match
example : Bs.Ext [] exS ∧ pmv exS exP exD = true :=
  match_sound_faithful exP exD [] [exS] exS (by decide) exP_ok exD_ok
    (by rw [ineq_conservative exP (by decide)]; exact ex_match) (List.mem_singleton.2 rfl) ex_scalar

/-- `ineq_semantics` on the example of the sheens documentation: bindings `{"?<n":10}`, pattern `"?<n"`,
fact `3` give `{"?<n":10,"?n":3}`; fact `13` gives nothing -/
example : matchJI (.str "?<n") (.num 3) [("?<n", .num 10)] = .ok [[("?n", .num 3), ("?<n", .num 10)]] := by
  rw [ineq_semantics "?<n" "<" "n" (by decide) [("?<n", .num 10)] 3 10 (by simp [Bs.get?]) (by simp [Bs.get?])]
  simp [ineqSat, Bs.set]
example : matchJI (.str "?<n") (.num 13) [("?<n", .num 10)] = .ok [] := by
  rw [ineq_semantics "?<n" "<" "n" (by decide) [("?<n", .num 10)] 13 10 (by simp [Bs.get?]) (by simp [Bs.get?])]
  simp [ineqSat]
/-- the side conditions of `ineq_semantics_lt_gt` hold for `rest = "n"` -/
example : ("n" : String) ≠ "" ∧ ¬ ['='] <+: ("n" : String).toList := by decide
/-- `ineq_semantics_target_num` / `ineq_semantics_target_other`: target pre-bound to the same number, to a
different number, to a string -/
example : matchJI (.str "?<=n") (.num 10) [("?<=n", .num 10), ("?n", .num 10)] = .ok [[("?<=n", .num 10), ("?n", .num 10)]] := by
  rw [ineq_semantics_target_num "?<=n" "<=" "n" (by decide) _ 10 10 10 (by simp [Bs.get?]) (by simp [Bs.get?])]
  simp [ineqSat]
example : matchJI (.str "?<=n") (.num 9) [("?<=n", .num 10), ("?n", .num 10)] = .ok [] := by
  rw [ineq_semantics_target_num "?<=n" "<=" "n" (by decide) _ 9 10 10 (by simp [Bs.get?]) (by simp [Bs.get?])]
  simp [ineqSat]
example : matchJI (.str "?<=n") (.num 10) [("?<=n", .num 10), ("?n", .str "x")] = .ok [[("?<=n", .num 10), ("?n", .str "x")]] := by
  rw [ineq_semantics_target_other "?<=n" "<=" "n" (by decide) _ 10 10 (.str "x") (by simp [Bs.get?]) (by simp [Bs.get?])
    (by intro c h; cases h)]
  simp [ineqSat]


/-! ## Go-typed inputs: what `cast` converts before the matcher runs

The matcher of the model sees JSON values. `CastMatcher` first converts `core.Map`, typed slices (through `ISlice` in the
`default` clause) and the integer and float32 types, which the Sheens matcher does not normalise inside arrays. The table
is regenerated from `core/match.go` on every run; the typed modes of the differential run exercise each case. -/

/-- `cast` names exactly these types (a dropped case leaves that Go type unconverted inside arrays) -/
theorem cast_types :
    Gen.castTypes = [["Map", "map[string]interface{}", "[]interface{}", "int", "int32", "int64", "float32", "default"]] := by decide

import RulioModel.MatchSpec

/-! # C05 — the matcher is sound and complete for partial matching (property theorems only) -/

/-- the specification relation is monotone in the bindings (what lets the left-to-right threading compose) -/
theorem sol_mono {σ σ' : Bs} (he : σ.Ext σ') {p d : J} (h : Sol σ p d) : Sol σ' p d := Sol.mono he h

import RulioProofs.Cache
import RulioProofs.CacheInst

/-! # C17 — the location cache is transparent (property theorems only)

Model: `RulioModel/Cache.lean` (sequential semantics `reqE`/`runE`, direct operation `reqD`/`runD`, concurrent
semantics `cstep`/`crun` over the atomic steps O, G, C, X, R extracted from sys/system.go).
Helper lemmas: `RulioProofs/Cache.lean`.  Hypotheses are explicit structures: `ReloadOK` (what C06 establishes),
`ReqOK` (no marker-erasing operation and no unchecked, never released open while existence is checked). -/

variable {sem : LocSem}

/-- **Sequential transparency.** For every location semantics for which reloading from storage is the identity
on observations (`ReloadOK`, the statement of C06, an explicit hypothesis), every cache configuration (TTL never /
finite / forever, CachePending on or off, CheckExistence on or off), every start-up storage, every request history
and every pair of clock-reading sequences: the results through the System equal the results of operating each
location directly (loaded once, never reloaded).  With existence checking on, the history must not erase the
`createdAt` marker nor contain `GetLocation` (see the negative theorems below for why). -/
theorem cache_transparent_seq (h : ReloadOK sem) (cfg : Cfg) (s0 : List (String × sem.S))
    (h1 h2 : List (Req sem × Int × Int)) (hs : SameReqs h1 h2)
    (hok : ∀ x ∈ h1, ReqOK sem cfg.checkExistence x.1) :
    (runE cfg { store := s0 } h1).2 = (runD cfg.checkExistence { base := s0 } h2).2 :=
  run_sim h cfg h1 h2 _ _ hs hok (init_sim h cfg.checkExistence s0).1 (init_sim h cfg.checkExistence s0).2

/-- **TTL independence.** Two Systems that differ only in their cache settings (TTL, CachePending) and in what
their clocks show return the same results for the same request history. -/
theorem cache_ttl_independent (h : ReloadOK sem) (cfg1 cfg2 : Cfg) (hc : cfg1.checkExistence = cfg2.checkExistence)
    (s0 : List (String × sem.S)) (h1 h2 : List (Req sem × Int × Int)) (hs : SameReqs h1 h2)
    (hok : ∀ x ∈ h1, ReqOK sem cfg1.checkExistence x.1) (hok2 : ∀ x ∈ h2, ReqOK sem cfg2.checkExistence x.1) :
    (runE cfg1 { store := s0 } h1).2 = (runE cfg2 { store := s0 } h2).2 := by
  have hrefl : ∀ (b : List (Req sem × Int × Int)), SameReqs b b := by
    intro b
    induction b with
    | nil => trivial
    | cons y r ih => simp only [SameReqs]; exact ⟨trivial, ih⟩
  rw [cache_transparent_seq h cfg1 s0 h1 h2 hs hok, cache_transparent_seq h cfg2 s0 h2 h2 (hrefl h2) hok2, hc]

/-- **No creation when checking.** With CheckExistence on, if the storage holds no `createdAt` marker for `n` and
the history never calls CreateLocation / GetLocation on `n`, then every request to `n` fails with NotFound, the
storage of `n` is what it was at start-up and the cache holds no entry for `n` — whatever the TTL and whatever
happens to other locations in between. -/
theorem no_create_when_checking (cfg : Cfg) (hc : cfg.checkExistence = true) (s0 : List (String × sem.S)) (n : String)
    (hn : ∀ t, sem.created (sem.load t (storeOf s0 n)) = false)
    (hist : List (Req sem × Int × Int)) (hno : ∀ x ∈ hist, x.1.name = n → ∃ op, x.1 = .api n op) :
    (∀ p ∈ hist.zip (runE cfg { store := s0 } hist).2, p.1.1.name = n → p.2 = .notFound) ∧
    storeOf (runE cfg { store := s0 } hist).1.store n = storeOf s0 n ∧
    kget (runE cfg { store := s0 } hist).1.table n = none :=
  no_create_run cfg hc n (storeOf s0 n) hn hist _ hno rfl rfl

/-- **Single load, window-free schedules (partial).**  N threads (N arbitrary) issue the first request for the same
name; for every schedule of their atomic steps in which a thread that leaves `Open`'s table section with a fresh
entry runs `Get` before anybody else moves: at most one load happens, every finished thread was handed instance 0,
and as soon as one thread has finished exactly one load has happened.
Full statement (all schedules) is FALSE for the code as written: see `single_load_open_window`. What is missing for
the full clause is the one-line repair "lock the entry before unlocking the table", which makes every schedule
window-free. -/
theorem single_load_partial (cfg : Cfg) (hinst : installs cfg = true) (n : String) (store : List (String × sem.S))
    (N : Nat) (sched : List (Nat × Int))
    (hw : windowFree cfg (cinit store (List.replicate N (Req.peek n)) : CSt sem) sched = true) :
    let c := crun cfg (cinit store (List.replicate N (Req.peek n)) : CSt sem) sched
    c.loads.length ≤ 1 ∧ (∀ t i, instOf c t = some i → i = 0) ∧
    (∀ t, isDone c t = true → c.loads = [n] ∧ instOf c t = some 0) :=
  phase_facts n _ (phase_run cfg hinst n sched _ (phase_init n store N) hw)

/-! ## Negative theorems: what the code as written does not guarantee (each witness is replayed on the real code
by `checks/c17.py`) -/

/-- **`Open` releases the table lock before `Get` takes the entry lock** (system.go:157 vs 229).  TTL forever, two
first requests `add 1`, `add 2` to "y": thread 0 runs O; thread 1 runs its whole request; thread 0 resumes.
Two loads, two instances, both writes acknowledged, and a later request does not see thread 0's fact. -/
theorem single_load_open_window :
    let cfg : Cfg := { ttl := .forever, checkExistence := false }
    let reqs : List (Req toySem) := [.api "y" (.add 1), .api "y" (.add 2), .api "y" (.has 1)]
    let sched : List (Nat × Int) := [(0,0),(1,1),(1,2),(1,3),(1,4),(1,5),(0,6),(0,7),(0,8),(0,9),(2,10),(2,11),(2,12)]
    let c := crun cfg (cinit [] reqs) sched
    c.loads = ["y", "y"] ∧ instOf c 0 ≠ instOf c 1 ∧ outCodes c = [some 1, some 1, some 0] := by
  decide

/-- **`Pending` is a boolean, not a count** (system.go:107, 194).  TTL 10: A and B open "y" and share instance 0;
A releases after the TTL (Pending := false, entry deleted although B still holds it); C loads instance 1 and
releases (entry kept); B writes `add 7` through instance 0, is acknowledged and releases; D starts afterwards, is
served instance 1 and does not see 7.  Under TTL forever the same schedule answers `true`. -/
theorem pending_bool_stale :
    let reqs : List (Req toySem) := [.api "y" (.has 9), .api "y" (.add 7), .api "y" (.has 9), .api "y" (.has 7)]
    let sched : List (Nat × Int) :=
      [(0,0),(0,0),(0,0),(1,1),(0,2),(0,20),(2,21),(2,21),(2,21),(2,21),(2,22),(1,23),(1,24),(3,25),(3,25),(3,25)]
    outCodes (crun { ttl := .finite 10, checkExistence := false } (cinit [] reqs) sched) = [some 0, some 1, some 0, some 0] ∧
    outCodes (crun { ttl := .forever, checkExistence := false } (cinit [] reqs) sched) = [some 0, some 1, some 0, some 1] := by
  decide

/-- **Clear erases the `createdAt` marker, the cached entry is never re-checked.**  CheckExistence on:
create "x"; clear "x"; add 5 to "x" — succeeds with TTL forever, NotFound with TTL never. -/
theorem clear_breaks_transparency :
    let h : List (Req toySem × Int × Int) := [(.create "x", 0, 0), (.api "x" .clear, 1, 1), (.api "x" (.add 5), 2, 2)]
    ((runE { ttl := .forever, checkExistence := true } {} h).2.map Out.toyCode = [3, 1, 1]) ∧
    ((runE { ttl := .never, checkExistence := true } {} h).2.map Out.toyCode = [3, 1, 2]) := by
  decide

/-- **An unchecked open that is never released (`GetLocation`, used for parents) defeats the existence check.**
CheckExistence on, "p" never created: after `GetLocation p` a checked `add 5` to "p" succeeds and writes to its
storage (TTL forever: always; TTL never: exactly once). -/
theorem unchecked_open_bypasses_check :
    let h : List (Req toySem × Int × Int) := [(.api "p" (.add 5), 0, 0), (.peek "p", 1, 1), (.api "p" (.add 5), 2, 2), (.api "p" (.add 6), 3, 3)]
    ((runE { ttl := .forever, checkExistence := true } {} h).2.map Out.toyCode = [2, 5, 1, 1]) ∧
    ((runE { ttl := .never, checkExistence := true } {} h).2.map Out.toyCode = [2, 5, 1, 2]) ∧
    (toyStoreOf (runE { ttl := .never, checkExistence := true } {} h).1 "p" = [5]) := by
  decide

/-! ## The hypotheses are satisfiable by a non-trivial instance -/

/-- the toy semantics (facts = numbers, memory and storage are lists, `add`/`has`/`clear`) satisfies `ReloadOK`
with `R l s := l = s` -/
example : ReloadOK toySem where
  R := fun l s => l = s
  load_R := fun _ _ => rfl
  exec_R := by intro l s op h; cases h; cases op <;> rfl
  exec_eq := by intro l l' s op h h'; cases h; cases h'; rfl
  created_eq := by intro l l' s h h'; cases h; cases h'; rfl
  mark_R := by intro l s h; cases h; rfl
  mark_eq := by intro l l' s h h'; cases h; cases h'; rfl
  mark_created := by intro l s; rfl

/-- `add` and `has` keep the marker; a history of creates, adds and reads meets `ReqOK` with checking on -/
example : ∀ x ∈ ([(.create "x", 0, 1), (.api "x" (.add 5), 2, 3), (.api "x" (.has 5), 4, 5)] : List (Req toySem × Int × Int)),
    ReqOK toySem true x.1 := by
  intro x hx
  simp only [List.mem_cons, List.mem_nil_iff, or_false] at hx
  rcases hx with h | h | h <;> subst h
  · trivial
  · intro _ l s hl; exact hl
  · intro _ l s hl; exact hl

/-- window-free schedules exist and are not trivial: three threads, thread 1 first -/
example : windowFree { ttl := .never, checkExistence := false } (cinit [] (List.replicate 3 (Req.peek "y")) : CSt toySem)
    [(1,0),(1,1),(0,2),(2,3),(1,4),(0,5),(2,6),(1,7)] = true := by
  decide

/-! ## C17 ∘ C06: the hypothesis `ReloadOK` discharged for the concrete State model

`RulioProofs/CacheInst.lean` instantiates the abstract location semantics with the State model of
`RulioModel/State.lean` (`stSem k`: instances `St`, storage = stored documents + id generator, `load` = `St.reload`
of a new instance over the storage, `exec` = `St.stepOp` with the full answer, `created` / `mark` = the `!.createdAt`
property fact) and proves `ReloadOK` from the reload theorems of C06:
* linear kind — in full (`stSem_reloadOK_linear`, from `reload_linear_identity`);
* indexed kind — on the fragment `idxFrag q` (`idxSem_reloadOK_partial`, from `reload_in_step` /
  `in_step_observations`); for the unrestricted indexed semantics `ReloadOK` is *false*
  (`stSem_indexed_not_reloadOK`: expiry). -/

/-- **Sequential transparency, linear State (no abstract hypothesis).**  For the linear `State` implementation, every
cache configuration, every start-up storage (any stored documents, any state of the id generator), every history of
`Add` / `Rem` / `Get` / `Search` / `FindRules` / `Clear` requests (each with its own Location clock, expiry and
cascades included), `CreateLocation` and `GetLocation`, and every two sequences of cache clock readings: the answers
through the System — full answers: ids, flags, facts, search results, rules, in order — equal the answers of
operating each location directly (loaded once, never reloaded).  `ReloadOK` is `stSem_reloadOK_linear`, proved from
C06 (`reload_linear_identity`).  `hok` is the request condition of `cache_transparent_seq` (it is vacuous when
existence checking is off). -/
theorem cache_transparent_seq_state (tm : Int) (stamp : String) (cfg : Cfg) (s0 : List (String × StStore))
    (h1 h2 : List (Req (stSem .linear tm stamp) × Int × Int)) (hs : SameReqs h1 h2)
    (hok : ∀ x ∈ h1, ReqOK (stSem .linear tm stamp) cfg.checkExistence x.1) :
    (runE cfg { store := s0 } h1).2 = (runD cfg.checkExistence { base := s0 } h2).2 :=
  cache_transparent_seq (stSem_reloadOK_linear tm stamp) cfg s0 h1 h2 hs hok

/-- **TTL independence, linear State (no abstract hypothesis).**  Two Systems over linear States that differ only in
TTL / CachePending and in what their clocks show return the same answers for the same request history. -/
theorem cache_ttl_independent_state (tm : Int) (stamp : String) (cfg1 cfg2 : Cfg)
    (hc : cfg1.checkExistence = cfg2.checkExistence) (s0 : List (String × StStore))
    (h1 h2 : List (Req (stSem .linear tm stamp) × Int × Int)) (hs : SameReqs h1 h2)
    (hok : ∀ x ∈ h1, ReqOK (stSem .linear tm stamp) cfg1.checkExistence x.1)
    (hok2 : ∀ x ∈ h2, ReqOK (stSem .linear tm stamp) cfg2.checkExistence x.1) :
    (runE cfg1 { store := s0 } h1).2 = (runE cfg2 { store := s0 } h2).2 :=
  cache_ttl_independent (stSem_reloadOK_linear tm stamp) cfg1 cfg2 hc s0 h1 h2 hs hok hok2

/-- **Sequential transparency, indexed State, on the fragment of C06 (partial).**  For the indexed `State`
implementation restricted to `idxSem q`: start-up storages written by such States (`IdxS q`), requests whose
operations lie in `idxFrag q` — `Add` of facts without `ttl` / `expires` whose rule (if any) can leave the pattern
index (and, when `q`, ground data), `Rem` of non-variable ids (cascades included), `Get`, `Clear`, and when `q`
`Search` with linear `patOK` patterns — plus `CreateLocation` / `GetLocation`: the answers through the System equal
the answers of direct operation; search answers are compared as multisets of (id, bindings).
Full statement (all `ROp`s, all storages): FALSE as an instance of `cache_transparent_seq`, because its hypothesis
`ReloadOK` fails for the unrestricted indexed semantics (`stSem_indexed_not_reloadOK`); what is missing is listed at
`idxSem_reloadOK_partial` (expiry: lazily purged documents; `Rem` with rules that cannot be un-indexed; `Search`
outside the C02/C05 fragment; `FindRules`). -/
theorem cache_transparent_seq_state_partial (q : Bool) (tm : Int) (stamp : String)
    (hm : idxFrag q (.add "" (markerFact stamp) tm) = true) (cfg : Cfg) (s0 : List (String × IdxS q))
    (h1 h2 : List (Req (idxSem q tm stamp hm) × Int × Int)) (hs : SameReqs h1 h2)
    (hok : ∀ x ∈ h1, ReqOK (idxSem q tm stamp hm) cfg.checkExistence x.1) :
    (runE cfg { store := s0 } h1).2 = (runD cfg.checkExistence { base := s0 } h2).2 :=
  cache_transparent_seq (idxSem_reloadOK_partial q tm stamp hm) cfg s0 h1 h2 hs hok

/-- **TTL independence, indexed State, on the fragment of C06 (partial)**: same restriction as
`cache_transparent_seq_state_partial`. -/
theorem cache_ttl_independent_state_partial (q : Bool) (tm : Int) (stamp : String)
    (hm : idxFrag q (.add "" (markerFact stamp) tm) = true) (cfg1 cfg2 : Cfg)
    (hc : cfg1.checkExistence = cfg2.checkExistence) (s0 : List (String × IdxS q))
    (h1 h2 : List (Req (idxSem q tm stamp hm) × Int × Int)) (hs : SameReqs h1 h2)
    (hok : ∀ x ∈ h1, ReqOK (idxSem q tm stamp hm) cfg1.checkExistence x.1)
    (hok2 : ∀ x ∈ h2, ReqOK (idxSem q tm stamp hm) cfg2.checkExistence x.1) :
    (runE cfg1 { store := s0 } h1).2 = (runE cfg2 { store := s0 } h2).2 :=
  cache_ttl_independent (idxSem_reloadOK_partial q tm stamp hm) cfg1 cfg2 hc s0 h1 h2 hs hok hok2

/-- **the restriction of the indexed kind is necessary**: no relation `R` makes `ReloadOK` true for the unrestricted
indexed State — a document that expires is dropped (and erased from storage) by a `Load` after its expiry, kept by an
instance loaded before it until something touches it, so two instances over one storage write different storages
after the same `Get` (monotone clocks: loads at 0 s and 10 s, `Get "y"` at 10 s, `x` expires at 5 s). -/
theorem reloadOK_indexed_unrestricted_false (tm : Int) (stamp : String) :
    ReloadOK (stSem .indexed tm stamp) → False :=
  stSem_indexed_not_reloadOK tm stamp

/-- `cache_transparent_seq_state` applies to `exHistLin` (locations "home" and "work": create, add with ttl, add with
a generated id, add of a rule, searches before and after the expiry, a rule lookup, a removal, a get, an unchecked
open, a clear), for every TTL, any CachePending, any start-up storage, and the direct run may read other clocks -/
example (ttl : TTL) (cp : Bool) (s0 : List (String × StStore)) :
    (runE { ttl := ttl, checkExistence := false, cachePending := cp } { store := s0 } exHistLin).2 =
      (runD false { base := s0 } (reclock (· * 7 + 1000) exHistLin)).2 :=
  cache_transparent_seq_state 0 exStamp _ s0 _ _ (sameReqs_reclock _ _) (fun x _ => reqOK_unchecked _ x.1)

/-- … the answers of its first five requests through the System (the matcher is defined by well-founded recursion, so
requests that reach it are not evaluated by `decide`): created, four ids acknowledged -/
example : (runE { ttl := .finite 5, checkExistence := false } {} (exHistLin.take 5)).2.map stOutCode =
    [101, 1, 1, 1, 1] := by
  decide +kernel

/-- with existence checking on: `exHistChk` (an add before the location exists is NotFound, creates, adds that keep
the marker, a location never created) meets `ReqOK`, so TTL never and TTL forever agree -/
example : (runE { ttl := .never, checkExistence := true } {} exHistChk).2 =
    (runE { ttl := .forever, checkExistence := true } {} exHistChk).2 :=
  cache_ttl_independent_state 0 exStamp { ttl := .never, checkExistence := true } { ttl := .forever, checkExistence := true }
    rfl [] _ _ (sameReqs_refl _) exHistChk_ok exHistChk_ok

example : (runE { ttl := .never, checkExistence := true } {} exHistChk).2.map stOutCode = [100, 101, 1, 100, 102, 1] := by
  decide +kernel

/-- `cache_transparent_seq_state_partial` applies to `exHistIdx` (indexed kind, fragment with queries; "home" and
"work": create, add, overwrite — which leaves stale ids in the live term index —, a dependent fact, searches, a
removal with its cascade, a get, an unchecked open, a clear), for every TTL and any start-up storage of the fragment -/
example (ttl : TTL) (cp : Bool) (s0 : List (String × IdxS true)) :
    (runE { ttl := ttl, checkExistence := false, cachePending := cp } { store := s0 } exHistIdx).2 =
      (runD false { base := s0 } (reclock (· + 5) exHistIdx)).2 :=
  cache_transparent_seq_state_partial true 0 exStamp exMarkOK _ s0 _ _ (sameReqs_reclock _ _)
    (fun x _ => reqOK_unchecked _ x.1)

/-- … the answers of its first five requests: created, the adds (one overwriting) and the dependent acknowledged -/
example : (runE { ttl := .never, checkExistence := false } {} (exHistIdx.take 5)).2.map idxOutCode =
    [101, 1, 1, 1, 1] := by
  decide +kernel

import RulioProofs.Cache
import RulioProofs.CacheInst
import RulioModel.Gen.C17

/-! # C17 — the location cache is transparent (property theorems only)

Model: `RulioModel/Cache.lean` (sequential semantics `reqE`/`runE`, direct operation `reqD`/`runD`, concurrent
semantics `cstep`/`crun` over the atomic steps O, X, R of sys/system.go: `Pending` counts the holders, every Open is
followed by a Release, a checked request served from the cache looks at the marker again, `ClearLocation` keeps the
marker).  Helper lemmas: `RulioProofs/Cache.lean`.  The one explicit hypothesis is `ReloadOK` (what C06 establishes;
discharged for the State model below). -/

variable {sem : LocSem}

/-- **Every request of the System brackets its location once** (table regenerated from `sys/system.go` on every run,
`RulioModel/Gen/C17.lean`): each method of `*System` that works on a location opens it through `findLocation` exactly
once and releases it through `releaseLocation` exactly once — by `defer`, or by a plain call with no `return` between the
two. This is the shape `reqE` (one `openE`, the work, one `releaseE`) gives every request in the model; a second release
would drop a hold that belongs to another request (`Pending` counts the holders), a missing one would pin the entry. -/
theorem requests_release_once :
    ∀ m ∈ Gen.C17.sysMethods, m.finds = 1 ∧ m.releasesPlain + m.releasesDeferred = 1 ∧ m.returnsHeld = 0 := by
  decide

/-- the table is not empty and names the requests the histories use (so the statement above is not vacuous) -/
example : ["AddFact", "ProcessEvent", "SearchFacts", "GetLastUpdatedMem", "GetLocation"].all
    (fun n => Gen.C17.sysMethods.any (·.name == n)) = true := by decide

/-- **Sequential transparency.** For every location semantics for which reloading from storage is the identity
on observations (`ReloadOK`, the statement of C06, an explicit hypothesis), every cache configuration (TTL never /
finite / forever, CachePending on or off, CheckExistence on or off), every start-up storage, every request history
— any API method (also those that erase the `createdAt` marker), `CreateLocation`, `GetLocation` — and every pair of
clock-reading sequences: the results through the System equal the results of operating each location directly (loaded
once, never reloaded; a checked request fails exactly when the location does not carry the marker at that moment). -/
theorem cache_transparent_seq (h : ReloadOK sem) (cfg : Cfg) (s0 : List (String × sem.S))
    (h1 h2 : List (Req sem × Int × Int)) (hs : SameReqs h1 h2) :
    (runE cfg { store := s0 } h1).2 = (runD cfg.checkExistence { base := s0 } h2).2 :=
  run_sim h cfg h1 h2 _ _ hs (init_sim h s0).1 (init_sim h s0).2

/-- **TTL independence.** Two Systems that differ only in their cache settings (TTL, CachePending) and in what
their clocks show return the same results for the same request history — whatever the requests are. -/
theorem cache_ttl_independent (h : ReloadOK sem) (cfg1 cfg2 : Cfg) (hc : cfg1.checkExistence = cfg2.checkExistence)
    (s0 : List (String × sem.S)) (h1 h2 : List (Req sem × Int × Int)) (hs : SameReqs h1 h2) :
    (runE cfg1 { store := s0 } h1).2 = (runE cfg2 { store := s0 } h2).2 := by
  have hrefl : ∀ (b : List (Req sem × Int × Int)), SameReqs b b := by
    intro b
    induction b with
    | nil => trivial
    | cons y r ih => simp only [SameReqs]; exact ⟨trivial, ih⟩
  rw [cache_transparent_seq h cfg1 s0 h1 h2 hs, cache_transparent_seq h cfg2 s0 h2 h2 (hrefl h2), hc]

/-- **No creation when checking.** With CheckExistence on, if the storage holds no `createdAt` marker for `n` and
the history never calls CreateLocation / GetLocation on `n`, then every request to `n` fails with NotFound, the
storage of `n` is what it was at start-up and the cache holds no entry for `n` — whatever the TTL and whatever
happens to other locations in between. -/
theorem no_create_when_checking (cfg : Cfg) (hc : cfg.checkExistence = true) (s0 : List (String × sem.S)) (n : String)
    (hn : ∀ t, sem.created (sem.load t (storeOf s0 n)) = false)
    (hist : List (Req sem × Int × Int)) (hno : ∀ x ∈ hist, x.1.name = n → ∃ op, x.1 = .api n op) :
    (∀ p ∈ hist.zip (runE cfg { store := s0 } hist).2, p.1.1.name = n → p.2 = .notFound) ∧
    storeOf (runE cfg { store := s0 } hist).1.store n = storeOf s0 n ∧
    kget (runE cfg { store := s0 } hist).1.table n = none :=
  no_create_run cfg hc n (storeOf s0 n) hn hist _ hno rfl rfl

/-- **A checked request is never served an instance that does not carry the marker** — whatever state the cache is
in (however the entry got there: an unchecked open by `GetLocation` / `CreateLocation`, an operation that erased the
marker since, any TTL).  With CheckExistence on, whenever `Open` hands an instance to a checked request (only then does
the request run its call; otherwise it answers NotFound), that instance carries the `createdAt` marker. -/
theorem checked_request_never_served_unverified (cfg : Cfg) (hc : cfg.checkExistence = true) (st : SysSt sem) (n : String)
    (now : Int) (l : sem.L) (h : (openE cfg st n true now).2 = some l) : sem.created l = true :=
  openE_checked cfg hc st n now l h

/-- **Unchecked opens do not open the door.** With CheckExistence on, if the storage holds no marker for `n` and the
history never calls `CreateLocation n` — it may call `GetLocation n` (parents are resolved that way) and anything on
other locations — then every checked request to `n` fails with NotFound and the storage of `n` stays what it was at
start-up, under every TTL. -/
theorem checked_requests_fail_until_created (cfg : Cfg) (hc : cfg.checkExistence = true) (s0 : List (String × sem.S))
    (n : String) (hn : ∀ t, sem.created (sem.load t (storeOf s0 n)) = false)
    (hist : List (Req sem × Int × Int)) (hno : ∀ x ∈ hist, x.1 ≠ .create n) :
    (∀ p ∈ hist.zip (runE cfg { store := s0 } hist).2, ∀ op, p.1.1 = .api n op → p.2 = .notFound) ∧
    storeOf (runE cfg { store := s0 } hist).1.store n = storeOf s0 n :=
  unmarked_run cfg hc n (storeOf s0 n) hn hist _ hno ⟨rfl, fun e l he => by simp [kget] at he⟩

/-- **Clearing a location does not un-create it.** For every location semantics whose `mark` sets the marker, the
operations carried out the way `System.ClearLocation` does it (`keepMark`: read the marker, call, set it again when it
was there and is gone) never erase the `createdAt` marker. -/
theorem clear_keeps_existence (sem : LocSem) (isClear : sem.Op → Bool)
    (hmc : ∀ l s, sem.created (sem.mark l s).1 = true) (op : sem.Op) (hop : isClear op = true) :
    KeepsMarker (keepMark sem isClear) op :=
  keepMark_keeps sem isClear hmc op hop

/-- **… and `ClearLocation` is covered by the transparency theorems**: if reloading is the identity on observations for
a location semantics, it is for the semantics in which `ClearLocation` keeps the marker. -/
theorem clear_keeps_reload (h : ReloadOK sem) (isClear : sem.Op → Bool) : Nonempty (ReloadOK (keepMark sem isClear)) :=
  ⟨keepMark_reloadOK h isClear⟩

/-- **Single load.**  N threads (N arbitrary) issue requests for the same name `n` that cannot fail the existence
check (checking off, or `CreateLocation` / `GetLocation`); for **every** schedule of their atomic steps O / X / R, as
long as the requests overlap (nobody has finished yet): at most one load has happened, every thread that was handed an
instance was handed instance 0, and once a thread has an instance exactly one load has happened. -/
theorem single_load (cfg : Cfg) (hinst : installs cfg = true) (n : String) (store : List (String × sem.S))
    (reqs : List (Req sem)) (hreqs : ∀ r ∈ reqs, r.name = n ∧ (reqCheck r && cfg.checkExistence) = false)
    (sched : List (Nat × Int)) :
    let c := crun cfg (cinit store reqs : CSt sem) sched
    (∀ t, isDone c t = false) →
    c.loads.length ≤ 1 ∧ (∀ t i, instOf c t = some i → i = 0) ∧ (∀ t i, instOf c t = some i → c.loads = [n]) :=
  fun hnd => phase_facts cfg n _ (phase_run cfg hinst n sched _ (phase_init cfg n store reqs hreqs)) hnd

/-- **The instance in use is never dropped.**  Any requests (any names, checked or not), any schedule of the atomic
steps O / X / R, any TTL: at every moment, all threads that hold an instance of a name (between their `Open` and
their `Release`) hold the same instance, and it is the one the cache table has for that name — held (`Pending > 0`), so
neither a `Release` by somebody else nor the TTL can drop it and the next `Open` is served the same instance. -/
theorem single_instance_under_overlap (cfg : Cfg) (hinst : installs cfg = true) (store : List (String × sem.S))
    (reqs : List (Req sem)) (sched : List (Nat × Int)) :
    let c := crun cfg (cinit store reqs : CSt sem) sched
    ∀ t1 t2 n i1 i2, holdsInst c t1 = some (n, i1) → holdsInst c t2 = some (n, i2) →
      i1 = i2 ∧ ∃ e, kget c.table n = some e ∧ e.inst = some i1 ∧ 0 < e.pending := by
  intro c t1 t2 n i1 i2 h1 h2
  have hP : PInv c := pinv_crun cfg hinst sched _ (pinv_init store reqs)
  rw [holdsInst_eq] at h1 h2
  cases hp1 : c.pcs[t1]? with
  | none => simp [hp1] at h1
  | some pc1 =>
    cases hp2 : c.pcs[t2]? with
    | none => simp [hp2] at h2
    | some pc2 =>
      simp only [hp1] at h1
      simp only [hp2] at h2
      obtain ⟨e1, he1, hi1⟩ := hP.held t1 pc1 n i1 hp1 h1
      obtain ⟨e2, he2, hi2⟩ := hP.held t2 pc2 n i2 hp2 h2
      rw [he1] at he2; cases he2
      rw [hi1] at hi2; cases hi2
      refine ⟨rfl, e1, he1, hi1, ?_⟩
      have hc := hP.count n
      have hpos := cnt_pos n c.pcs t1 pc1 hp1 (pcInst_holds pc1 n i1 h1)
      simp only [entPending, he1] at hc
      omega

/-- **Transparency under overlap.**  For every location semantics with `ReloadOK`, every TTL, any requests (several
names, any number of overlapping holders per name), and **every** schedule of the atomic steps Open / call / Release:
the answers, taken in the order in which they were determined (a failed open at its `Open`, everything else at its
call), are exactly the answers of operating the locations directly in that order; and every thread's answer is in
that list, with the thread's request.  So no request is ever served state that misses a write acknowledged before it.
With existence checking on, overlapping requests must not erase the marker (`ReqKeeps`: a request that has passed the
check runs its call later — direct operation has the same check-then-call gap). -/
theorem cache_transparent_under_overlap (h : ReloadOK sem) (cfg : Cfg) (hinst : installs cfg = true)
    (s0 : List (String × sem.S)) (reqs : List (Req sem)) (hk : ∀ r ∈ reqs, ReqKeeps sem cfg.checkExistence r)
    (sched : List (Nat × Int)) :
    let c := crun cfg (cinit s0 reqs : CSt sem) sched
    (runD cfg.checkExistence { base := s0 } (logHist c)).2 = c.log.map (·.2) ∧
    (∀ t o, answerOf c t = some o → ∃ r, reqs[t]? = some r ∧ (r, o) ∈ c.log) := by
  intro c
  obtain ⟨d', hD⟩ := dinv_crun h cfg hinst s0 sched _ _ (pinv_init s0 reqs) (dinv_init h cfg.checkExistence s0 reqs hk)
  have hL : LInv reqs c := linv_crun cfg reqs sched _ (linv_init s0 reqs)
  refine ⟨by rw [hD.lin], ?_⟩
  intro t o ha
  unfold answerOf at ha
  cases hp : c.pcs[t]? with
  | none => simp [hp] at ha
  | some pc =>
    have := hL t pc hp
    cases pc with
    | start r => simp [hp] at ha
    | opened r i => simp [hp] at ha
    | releasing n inst o' => simp [hp] at ha; subst ha; exact this
    | done inst o' => simp [hp] at ha; subst ha; exact this

/-! ## The hypotheses are satisfiable by a non-trivial instance; the former witnesses behave -/

/-- the toy semantics satisfies `ReloadOK` (`toyReloadOK`, with `R l s := l = s`), and so does the toy System in which
`clear` is carried out the way `ClearLocation` does it -/
example : ReloadOK toySys := keepMark_reloadOK toyReloadOK _

/-- the former witness of "`Pending` is a boolean": TTL 10; A and B open "y" and share instance 0; A releases after the
TTL (B still holds: the entry stays); C is served instance 0 — no second load —; B writes `add 7` and releases; D,
starting afterwards, sees 7.  The same answers under TTL forever. -/
example :
    let reqs : List (Req toySem) := [.api "y" (.has 9), .api "y" (.add 7), .api "y" (.has 9), .api "y" (.has 7)]
    let sched : List (Nat × Int) :=
      [(0,0),(1,1),(0,2),(0,20),(2,21),(2,21),(2,22),(1,23),(3,23),(1,24),(3,25),(3,25)]
    outCodes (crun { ttl := .finite 10, checkExistence := false } (cinit [] reqs) sched) = [some 0, some 1, some 0, some 1] ∧
    (crun { ttl := .finite 10, checkExistence := false } (cinit [] reqs) sched).loads = ["y"] ∧
    outCodes (crun { ttl := .forever, checkExistence := false } (cinit [] reqs) sched) = [some 0, some 1, some 0, some 1] := by
  decide

/-- the former witness of "Clear erases the marker": CheckExistence on; create "x"; clear "x"; add 5 to "x" — succeeds
under TTL forever and under TTL never -/
example :
    let h : List (Req toySys × Int × Int) := [(.create "x", 0, 0), (.api "x" .clear, 1, 1), (.api "x" (.add 5), 2, 2)]
    ((runE { ttl := .forever, checkExistence := true } {} h).2.map toySysCode = [3, 1, 1]) ∧
    ((runE { ttl := .never, checkExistence := true } {} h).2.map toySysCode = [3, 1, 1]) := by
  decide

/-- the marker can still be removed by its own id; then the location is un-created under every TTL alike -/
example :
    let h : List (Req toySys × Int × Int) := [(.create "x", 0, 0), (.api "x" (.rem 0), 1, 1), (.api "x" (.add 5), 2, 2)]
    ((runE { ttl := .forever, checkExistence := true } {} h).2.map toySysCode = [3, 1, 2]) ∧
    ((runE { ttl := .never, checkExistence := true } {} h).2.map toySysCode = [3, 1, 2]) := by
  decide

/-- the former witness of "an unchecked open defeats the existence check": CheckExistence on, "p" never created: after
`GetLocation p` the checked `add`s to "p" still fail and nothing is written, under TTL forever and under TTL never -/
example :
    let h : List (Req toySem × Int × Int) := [(.api "p" (.add 5), 0, 0), (.peek "p", 1, 1), (.api "p" (.add 5), 2, 2), (.api "p" (.add 6), 3, 3)]
    ((runE { ttl := .forever, checkExistence := true } {} h).2.map Out.toyCode = [2, 5, 2, 2]) ∧
    ((runE { ttl := .never, checkExistence := true } {} h).2.map Out.toyCode = [2, 5, 2, 2]) ∧
    (toyStoreOf (runE { ttl := .forever, checkExistence := true } {} h).1 "p" = []) := by
  decide

/-- `add` and `has` keep the marker: requests that meet `ReqKeeps` with checking on exist -/
example : ∀ r ∈ ([.create "x", .api "x" (.add 5), .api "x" (.has 5), .peek "x"] : List (Req toySem)), ReqKeeps toySem true r := by
  intro r hr
  simp only [List.mem_cons, List.mem_nil_iff, or_false] at hr
  rcases hr with h | h | h | h <;> subst h
  · trivial
  · exact fun _ => toy_add_keeps 5
  · intro _ l s hl; exact hl
  · trivial

/-- `single_load` is not vacuous: three threads open "y", thread 1 first; all overlap, nobody is done -/
example :
    let c := crun { ttl := .never, checkExistence := false } (cinit [] (List.replicate 3 (Req.peek "y")) : CSt toySem)
      [(1,0),(0,2),(2,3),(1,4),(0,5)]
    (∀ t, t < 3 → isDone c t = false) ∧ c.loads = ["y"] ∧ [instOf c 0, instOf c 1, instOf c 2] = [some 0, some 0, some 0] := by
  decide

/-! ## C17 ∘ C06: the hypothesis `ReloadOK` discharged for the concrete State model

`RulioProofs/CacheInst.lean` instantiates the abstract location semantics with the State model of
`RulioModel/State.lean` (`stSem k`: instances `St`, storage = stored documents + id generator, `load` = `St.reload`
of a new instance over the storage, `exec` = `St.stepOp` with the full answer, `created` / `mark` = the `!.createdAt`
property fact; `sysSem k` = the same with `Clear` carried out the way `ClearLocation` does it) and proves `ReloadOK`
from the reload theorems of C06:
* linear kind — in full (`sysSem_reloadOK_linear`, from `reload_linear_identity`);
* indexed kind — on the fragment `idxFrag q` (`idxSysSem_reloadOK_partial`, from `reload_in_step` /
  `in_step_observations`); for the unrestricted indexed semantics `ReloadOK` is *false*
  (`stSem_indexed_not_reloadOK`: expiry). -/

/-- **Sequential transparency, linear State (no abstract hypothesis, no side condition).**  For the linear `State`
implementation, every cache configuration, every start-up storage (any stored documents, any state of the id
generator), every history of `Add` / `Rem` / `Get` / `Search` / `FindRules` / `ClearLocation` requests (each with its
own Location clock, expiry and cascades included; also a `Rem` of the marker's own id), `CreateLocation` and
`GetLocation`, with existence checking on or off, and every two sequences of cache clock readings: the answers through
the System — full answers: ids, flags, facts, search results, rules, in order — equal the answers of operating each
location directly (loaded once, never reloaded).  `ReloadOK` is `sysSem_reloadOK_linear`, proved from C06
(`reload_linear_identity`). -/
theorem cache_transparent_seq_state (tm : Int) (stamp : String) (cfg : Cfg) (s0 : List (String × StStore))
    (h1 h2 : List (Req (sysSem .linear tm stamp) × Int × Int)) (hs : SameReqs h1 h2) :
    (runE cfg { store := s0 } h1).2 = (runD cfg.checkExistence { base := s0 } h2).2 :=
  cache_transparent_seq (sysSem_reloadOK_linear tm stamp) cfg s0 h1 h2 hs

/-- **TTL independence, linear State (no abstract hypothesis).**  Two Systems over linear States that differ only in
TTL / CachePending and in what their clocks show return the same answers for the same request history. -/
theorem cache_ttl_independent_state (tm : Int) (stamp : String) (cfg1 cfg2 : Cfg)
    (hc : cfg1.checkExistence = cfg2.checkExistence) (s0 : List (String × StStore))
    (h1 h2 : List (Req (sysSem .linear tm stamp) × Int × Int)) (hs : SameReqs h1 h2) :
    (runE cfg1 { store := s0 } h1).2 = (runE cfg2 { store := s0 } h2).2 :=
  cache_ttl_independent (sysSem_reloadOK_linear tm stamp) cfg1 cfg2 hc s0 h1 h2 hs

/-- **Transparency under overlap, linear State (no abstract hypothesis).**  `cache_transparent_under_overlap` for the
linear `State` implementation: any requests, any number of overlapping holders, every schedule of Open / call /
Release, every TTL. -/
theorem cache_transparent_under_overlap_state (tm : Int) (stamp : String) (cfg : Cfg) (hinst : installs cfg = true)
    (s0 : List (String × StStore)) (reqs : List (Req (sysSem .linear tm stamp)))
    (hk : ∀ r ∈ reqs, ReqKeeps (sysSem .linear tm stamp) cfg.checkExistence r) (sched : List (Nat × Int)) :
    let c := crun cfg (cinit s0 reqs : CSt (sysSem .linear tm stamp)) sched
    (runD cfg.checkExistence { base := s0 } (logHist c)).2 = c.log.map (·.2) ∧
    (∀ t o, answerOf c t = some o → ∃ r, reqs[t]? = some r ∧ (r, o) ∈ c.log) :=
  cache_transparent_under_overlap (sysSem_reloadOK_linear tm stamp) cfg hinst s0 reqs hk sched

/-- **Sequential transparency, indexed State, on the fragment of C06 (partial).**  For the indexed `State`
implementation restricted to `idxSysSem q`: start-up storages written by such States (`IdxS q`), requests whose
operations lie in `idxFrag q` — `Add` of facts without `ttl` / `expires` whose rule (if any) can leave the pattern
index (and, when `q`, ground data), `Rem` of non-variable ids (cascades included), `Get`, `ClearLocation`, and when `q`
`Search` with linear `patOK` patterns — plus `CreateLocation` / `GetLocation`, existence checking on or off: the
answers through the System equal the answers of direct operation; search answers are compared as multisets of (id,
bindings).
Full statement (all `ROp`s, all storages): FALSE as an instance of `cache_transparent_seq`, because its hypothesis
`ReloadOK` fails for the unrestricted indexed semantics (`stSem_indexed_not_reloadOK`); what is missing is listed at
`idxSem_reloadOK_partial` (expiry: lazily purged documents; `Rem` with rules that cannot be un-indexed; `Search`
outside the C02/C05 fragment; `FindRules`). -/
theorem cache_transparent_seq_state_partial (q : Bool) (tm : Int) (stamp : String)
    (hm : idxFrag q (.add "" (markerFact stamp) tm) = true) (cfg : Cfg) (s0 : List (String × IdxS q))
    (h1 h2 : List (Req (idxSysSem q tm stamp hm) × Int × Int)) (hs : SameReqs h1 h2) :
    (runE cfg { store := s0 } h1).2 = (runD cfg.checkExistence { base := s0 } h2).2 :=
  cache_transparent_seq (idxSysSem_reloadOK_partial q tm stamp hm) cfg s0 h1 h2 hs

/-- **TTL independence, indexed State, on the fragment of C06 (partial)**: same restriction as
`cache_transparent_seq_state_partial`. -/
theorem cache_ttl_independent_state_partial (q : Bool) (tm : Int) (stamp : String)
    (hm : idxFrag q (.add "" (markerFact stamp) tm) = true) (cfg1 cfg2 : Cfg)
    (hc : cfg1.checkExistence = cfg2.checkExistence) (s0 : List (String × IdxS q))
    (h1 h2 : List (Req (idxSysSem q tm stamp hm) × Int × Int)) (hs : SameReqs h1 h2) :
    (runE cfg1 { store := s0 } h1).2 = (runE cfg2 { store := s0 } h2).2 :=
  cache_ttl_independent (idxSysSem_reloadOK_partial q tm stamp hm) cfg1 cfg2 hc s0 h1 h2 hs

/-- **the restriction of the indexed kind is necessary**: no relation `R` makes `ReloadOK` true for the unrestricted
indexed State — a document that expires is dropped (and erased from storage) by a `Load` after its expiry, kept by an
instance loaded before it until something touches it, so two instances over one storage write different storages
after the same `Get` (monotone clocks: loads at 0 s and 10 s, `Get "y"` at 10 s, `x` expires at 5 s). -/
theorem reloadOK_indexed_unrestricted_false (tm : Int) (stamp : String) :
    ReloadOK (stSem .indexed tm stamp) → False :=
  stSem_indexed_not_reloadOK tm stamp

/-- `ClearLocation` on the linear State never erases the marker (`clear_keeps_existence` instantiated) -/
example (tm : Int) (stamp : String) : KeepsMarker (sysSem .linear tm stamp) .clear := sysSem_clear_keeps tm stamp

/-- `cache_transparent_seq_state` applies to `exHistLin` (locations "home" and "work": create, add with ttl, add with
a generated id, add of a rule, searches before and after the expiry, a rule lookup, a removal, a get, an unchecked
open, a clear), for every TTL, any CachePending, existence checking on or off, any start-up storage, and the direct run
may read other clocks -/
example (ttl : TTL) (cp chk : Bool) (s0 : List (String × StStore)) :
    (runE { ttl := ttl, checkExistence := chk, cachePending := cp } { store := s0 } exHistLin).2 =
      (runD chk { base := s0 } (reclock (· * 7 + 1000) exHistLin)).2 :=
  cache_transparent_seq_state 0 exStamp _ s0 _ _ (sameReqs_reclock _ _)

/-- … the answers of its first five requests through the System (the matcher is defined by well-founded recursion, so
requests that reach it are not evaluated by `decide`): created, four ids acknowledged -/
example : (runE { ttl := .finite 5, checkExistence := false } {} (exHistLin.take 5)).2.map stOutCode =
    [101, 1, 1, 1, 1] := by
  decide +kernel

/-- with existence checking on: `exHistChk` (an add before the location exists, creates, adds, a `ClearLocation`, an
unchecked open of a location that is never created followed by a checked request to it, the removal of the marker by
its id followed by a checked request): TTL never and TTL forever agree -/
example : (runE { ttl := .never, checkExistence := true } {} exHistChk).2 =
    (runE { ttl := .forever, checkExistence := true } {} exHistChk).2 :=
  cache_ttl_independent_state 0 exStamp { ttl := .never, checkExistence := true } { ttl := .forever, checkExistence := true }
    rfl [] _ _ (sameReqs_refl _)

/-- … its first eight answers: NotFound, created, acknowledged, peeked, NotFound (never created, although cached by the
unchecked open), not created again, cleared, acknowledged (the marker survived the clear) -/
example : (runE { ttl := .forever, checkExistence := true } {} (exHistChk.take 8)).2.map stOutCode =
    [100, 101, 1, 103, 100, 102, 5, 1] := by
  decide +kernel

/-- `cache_transparent_seq_state_partial` applies to `exHistIdx` (indexed kind, fragment with queries; "home" and
"work": create, add, overwrite — which leaves stale ids in the live term index —, a dependent fact, searches, a
removal with its cascade, a get, an unchecked open, a clear), for every TTL and any start-up storage of the fragment -/
example (ttl : TTL) (cp chk : Bool) (s0 : List (String × IdxS true)) :
    (runE { ttl := ttl, checkExistence := chk, cachePending := cp } { store := s0 } exHistIdx).2 =
      (runD chk { base := s0 } (reclock (· + 5) exHistIdx)).2 :=
  cache_transparent_seq_state_partial true 0 exStamp exMarkOK _ s0 _ _ (sameReqs_reclock _ _)

/-- … the answers of its first five requests: created, the adds (one overwriting) and the dependent acknowledged -/
example : (runE { ttl := .never, checkExistence := false } {} (exHistIdx.take 5)).2.map idxOutCode =
    [101, 1, 1, 1, 1] := by
  decide +kernel

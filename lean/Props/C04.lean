import RulioModel.Events

/-! # C04 — actions exactly once (placeholder obligations until the Events proofs land) -/

/-- the built-in bindings are only added where absent -/
theorem addDefault_keeps (bs : Bs) (k : String) (v w : J) (h : bs.get? k = some w) : addDefault bs k v = bs := by
  simp [addDefault, h]

import RulioProofs.EventsExamples
import RulioModel.Subst

/-! # C04 — an event runs each action exactly once per rule, `when` binding and condition binding
(property theorems only)

`processEvent srch loc ev cands` is the model of `ProcessEvent` (events.go: FindRules → EvalRule →
EvalRuleCondition → ExecRuleAction, `WorkWalk` with `steps = 0`) for the candidate list `cands`
(id, rule, enabled — as found by the rule search, C01) and the fact search `srch` used by conditions (C03).
All theorems hold for every `srch`, every event, every candidate list (any number of rules, actions,
`when` bindings, condition bindings). Vocabulary (`RulioModel/QuerySpec.lean`): `dispatch` (enabled and matching
candidates with their `when` bindings), `condEnv` (binding + `?event`/`?location`/`?ruleId`), `condResult`
(the condition's result on an environment), `actNodeOf b a` (the leaf of action `a` on binding `b`),
`actsOf r out` (one leaf per result binding × action), `okValues`, `treeValues`, `actCount`. -/

open QSpec QueryProofs EventsProofs

/-! ## 0. accumulator-free form of the walk -/

/-- `ProcessEvent` = dispatch, then one `ruleStep` per dispatched rule until a step aborts; a dispatch error
(matcher error in a `when`) gives an empty, aborted tree -/
theorem process_event_spec (srch : Srch) (loc : String) (ev : Obj) (cands : List (String × RuleM × Bool)) :
    processEvent srch loc ev cands =
      (match dispatch ev cands with
       | .error e => { err := some e, rules := [], values := [], aborted := true }
       | .ok disp =>
         { err := none, rules := (runUntil (ruleStep srch loc ev) disp).1,
           values := (runUntil (ruleStep srch loc ev) disp).2.1,
           aborted := (runUntil (ruleStep srch loc ev) disp).2.2 }) :=
  processEvent_eq srch loc ev cands

/-- the dispatched rules are, in visiting order, exactly the candidates that are enabled and whose `when` has
at least one binding against the event -/
theorem dispatch_selects (ev : Obj) (cands : List (String × RuleM × Bool)) (disp : List (String × RuleM × List Bs))
    (h : dispatch ev cands = .ok disp) :
    disp = cands.filterMap (fun c => match dispatchOne ev c with | .ok o => o | .error _ => none) :=
  dispatch_ok ev cands disp h

/-- `err = none` means the dispatch succeeded (no matcher error in any enabled candidate's `when`) -/
theorem no_err_dispatch (srch : Srch) (loc : String) (ev : Obj) (cands : List (String × RuleM × Bool))
    (h : (processEvent srch loc ev cands).err = none) : ∃ disp, dispatch ev cands = .ok disp :=
  EventsProofs.no_err_dispatch srch loc ev cands h

/-! ## 1. `exec_count` -/

/-- the tree of a run in which nothing aborts: one rule node per dispatched rule, in order; under it exactly one
condition node per `when` binding, in order; under it one leaf per condition result binding (outer) and action
(inner) — and every condition evaluation succeeded -/
theorem tree_shape (srch : Srch) (loc : String) (ev : Obj) (cands : List (String × RuleM × Bool))
    (disp : List (String × RuleM × List Bs)) (hd : dispatch ev cands = .ok disp)
    (h : (processEvent srch loc ev cands).aborted = false) :
    (processEvent srch loc ev cands).err = none ∧
    (processEvent srch loc ev cands).rules = disp.map (ruleNodeSpec srch loc ev) ∧
    ∀ d ∈ disp, ∀ b ∈ d.2.2, ∃ out, condResult srch d.2.1 (condEnv loc ev d.1 b) = .ok out :=
  ⟨by rw [processEvent_eq, hd], tree_not_aborted srch loc ev cands disp hd h⟩

/-- `exec_count`: when nothing aborts, the number of action executions (leaves) is
Σ over dispatched rules Σ over `when` bindings Σ over condition result bindings of the number of actions -/
theorem exec_count (srch : Srch) (loc : String) (ev : Obj) (cands : List (String × RuleM × Bool))
    (disp : List (String × RuleM × List Bs)) (hd : dispatch ev cands = .ok disp)
    (h : (processEvent srch loc ev cands).aborted = false) :
    actCount (processEvent srch loc ev cands) =
      (disp.map fun d => (d.2.2.map fun b =>
        (condOut srch d.2.1 (condEnv loc ev d.1 b)).length * d.2.1.actions.length).sum).sum := by
  unfold actCount
  rw [(tree_not_aborted srch loc ev cands disp hd h).1]
  exact actCount_spec srch loc ev disp

/-- each dispatched rule has exactly one condition node per `when` binding, carrying that binding's environment -/
theorem one_cond_per_when_binding (srch : Srch) (loc : String) (ev : Obj) (cands : List (String × RuleM × Bool))
    (disp : List (String × RuleM × List Bs)) (hd : dispatch ev cands = .ok disp)
    (h : (processEvent srch loc ev cands).aborted = false) :
    (processEvent srch loc ev cands).rules.map (fun rn => (rn.id, rn.bss, rn.conds.map (·.bs))) =
      disp.map (fun d => (d.1, d.2.2, d.2.2.map (condEnv loc ev d.1))) := by
  rw [(tree_not_aborted srch loc ev cands disp hd h).1, List.map_map]
  apply List.map_congr_left
  intro d _
  simp only [Function.comp, ruleNodeSpec, List.map_map]
  rfl

/-! ## 2. `exec_env` -/

/-- the condition's environment: the `when` binding, extended by `?event`, `?location`, `?ruleId` only where
the binding does not already bind them -/
theorem cond_env_get (loc : String) (ev : Obj) (id : String) (bs : Bs) (k : String) :
    Bs.get? (condEnv loc ev id bs) k =
      (Bs.get? bs k).or (Bs.get? [("?event", .obj ev), ("?location", .str loc), ("?ruleId", .str id)] k) :=
  condEnv_get loc ev id bs k

/-- the `when` binding itself is kept as is (the defaults are appended) -/
theorem cond_env_keeps (loc : String) (ev : Obj) (id : String) (bs : Bs) : bs <+: condEnv loc ev id bs :=
  condEnv_prefix loc ev id bs

/-- in EVERY tree (aborted or not) the condition nodes of a rule node carry, in order, the environments of a
prefix of its `when` bindings -/
theorem cond_nodes_env (srch : Srch) (loc : String) (ev : Obj) (cands : List (String × RuleM × Bool))
    (rn : RuleNode) (hrn : rn ∈ (processEvent srch loc ev cands).rules) :
    ∃ n, rn.conds.map (·.bs) = (rn.bss.take n).map (condEnv loc ev rn.id) :=
  tree_cond_env srch loc ev cands rn hrn

/-- a rule without condition: the "result" is the environment itself, once -/
theorem cond_absent (srch : Srch) (r : RuleM) (env : Bs) (h : r.condition = none) :
    condResult srch r env = .ok [env] := by
  unfold condResult; rw [h]

/-- a rule with a condition `q`: parsed (dispatch order of C03) and run by `execQ` on the singleton `[env]` -/
theorem cond_present (srch : Srch) (r : RuleM) (env : Bs) (q : J) (h : r.condition = some q) :
    condResult srch r env = (do let q' ← parseQuery (4 * sz q + 4) q; execQ srch q' [env]) := by
  unfold condResult; rw [h]

/-- a failing condition (evaluated on exactly `[condEnv …]`): error node, no action runs, the walk aborts -/
theorem eval_cond_error (srch : Srch) (loc : String) (ev : Obj) (id : String) (r : RuleM) (bs : Bs) (e : LErr)
    (h : condResult srch r (condEnv loc ev id bs) = .error e) :
    evalCond srch loc ev id r bs = ({ bs := condEnv loc ev id bs, err := some e, acts := [] }, [], true) :=
  evalCond_err srch loc ev id r bs e h

/-- `exec_env` for a rule without `serialActions`: the condition is evaluated on exactly `[condEnv …]`; every
action runs once on every result binding `b` (leaf `actNodeOf b a`), the values are those of the completed leaves -/
theorem eval_cond_concurrent (srch : Srch) (loc : String) (ev : Obj) (id : String) (r : RuleM) (bs : Bs)
    (out : List Bs) (h : condResult srch r (condEnv loc ev id bs) = .ok out) (hs : r.serial = false) :
    evalCond srch loc ev id r bs =
      ({ bs := condEnv loc ev id bs, err := none, acts := actsOf r out }, okValues (actsOf r out), false) :=
  evalCond_nonserial srch loc ev id r bs out h hs

/-- an action sees exactly `StripQuestionMarks` of the condition's result binding -/
theorem action_sees_stripped (o : Obj) (b : Bs) :
    execAction (.obj o) b = evalTmpl ((Obj.get? o "verif_tmpl").getD .null) (stripQ b) :=
  execAction_obj o b

/-- in particular an action of the `echo` family returns its visible variables: `.obj (stripQ b)` -/
theorem action_echo (a : J) (b : Bs) (h : isEcho a) :
    execAction a b = .ok (.obj (stripQ b)) ∧ actNodeOf b a = { ok := true, value := .obj (stripQ b) } :=
  ⟨execAction_echo a b h, actNodeOf_ok b a _ (execAction_echo a b h)⟩

/-- with `echo` actions every leaf reports the stripped condition result binding it ran on -/
theorem acts_echo (r : RuleM) (out : List Bs) (h : ∀ a ∈ r.actions, isEcho a) :
    actsOf r out =
      out.flatMap (fun b => r.actions.map (fun _ => ({ ok := true, value := .obj (stripQ b) } : ActNode))) :=
  actsOf_echo r out h

/-! ## 3. `tree_values_agree`, `failure_isolated`, serial rules -/

/-- `values` is exactly the list of `value`s of the completed (`ok`) action leaves, in walk order — for every
run, aborted or not -/
theorem tree_values_agree (srch : Srch) (loc : String) (ev : Obj) (cands : List (String × RuleM × Bool)) :
    (processEvent srch loc ev cands).values = treeValues (processEvent srch loc ev cands) :=
  values_agree srch loc ev cands

/-- `failure_isolated`: replacing the action list of one rule without `serialActions` (same `when`, same
condition) leaves `err` and `aborted` unchanged and every other rule node identical; the rule's own node keeps its
id, bindings, condition nodes' environments and errors, and its leaves are rebuilt from the SAME condition results -/
theorem failure_isolated (srch : Srch) (loc : String) (ev : Obj) (pre post : List (String × RuleM × Bool))
    (id : String) (r r' : RuleM) (en : Bool)
    (hw : r'.when? = r.when?) (hc : r'.condition = r.condition) (hs : r.serial = false) (hs' : r'.serial = false) :
    (processEvent srch loc ev (pre ++ (id, r, en) :: post)).err =
      (processEvent srch loc ev (pre ++ (id, r', en) :: post)).err ∧
    (processEvent srch loc ev (pre ++ (id, r, en) :: post)).aborted =
      (processEvent srch loc ev (pre ++ (id, r', en) :: post)).aborted ∧
    Pointwise (NodeRel id r r') (processEvent srch loc ev (pre ++ (id, r, en) :: post)).rules
      (processEvent srch loc ev (pre ++ (id, r', en) :: post)).rules :=
  change_actions srch loc ev pre post id r r' en hw hc hs hs'

/-- … and when the change is "action `a` replaced by an always-failing `a'`": only `a`'s leaf changes (to the failed
leaf), the leaves of the other actions `p`, `q` are the same on every result binding, and exactly `a`'s values
disappear from the values -/
theorem failure_isolated_leaves (r r' : RuleM) (p q : List J) (a a' : J) (out : List Bs)
    (h : r.actions = p ++ a :: q) (h' : r'.actions = p ++ a' :: q) (hf : ∀ b, ∃ e, execAction a' b = .error e) :
    actsOf r out = out.flatMap (fun b => p.map (actNodeOf b) ++ actNodeOf b a :: q.map (actNodeOf b)) ∧
    actsOf r' out = out.flatMap (fun b => p.map (actNodeOf b) ++ failedNode :: q.map (actNodeOf b)) ∧
    okValues (actsOf r out) = out.flatMap (fun b =>
      okValues (p.map (actNodeOf b)) ++ okValues [actNodeOf b a] ++ okValues (q.map (actNodeOf b))) ∧
    okValues (actsOf r' out) = out.flatMap (fun b => okValues (p.map (actNodeOf b)) ++ okValues (q.map (actNodeOf b))) := by
  have e1 := actsOf_split r p q a h out
  have e2 : actsOf r' out = out.flatMap (fun b => p.map (actNodeOf b) ++ failedNode :: q.map (actNodeOf b)) := by
    rw [actsOf_split r' p q a' h' out]
    congr 1; funext b
    obtain ⟨e, he⟩ := hf b
    rw [actNodeOf_err b a' e he]
  exact ⟨e1, e2, by rw [e1]; exact okValues_with p q a out, by rw [e2]; exact okValues_failed p q out⟩

/-- a rule with `serialActions` whose actions all succeed behaves like a concurrent one -/
theorem serial_all_ok (srch : Srch) (loc : String) (ev : Obj) (id : String) (r : RuleM) (bs : Bs)
    (out : List Bs) (h : condResult srch r (condEnv loc ev id bs) = .ok out) (hs : r.serial = true)
    (hok : ∀ p ∈ pairsOf r out, ∃ v, execAction p.2 p.1 = .ok v) :
    evalCond srch loc ev id r bs =
      ({ bs := condEnv loc ev id bs, err := none, acts := actsOf r out }, okValues (actsOf r out), false) := by
  rw [evalCond_serial srch loc ev id r bs out h hs, serialRun_all_ok _ hok, map_pairsOf]

/-- a rule with `serialActions` stops at the first failing action: the earlier (binding, action) pairs have their
completed leaves, the failing one has a failed leaf, the later pairs `post` are NOT executed, and the walk aborts -/
theorem serial_stops (srch : Srch) (loc : String) (ev : Obj) (id : String) (r : RuleM) (bs : Bs)
    (out : List Bs) (h : condResult srch r (condEnv loc ev id bs) = .ok out) (hs : r.serial = true)
    (pre post : List (Bs × J)) (b : Bs) (a : J) (e : LErr) (hp : pairsOf r out = pre ++ (b, a) :: post)
    (hpre : ∀ p ∈ pre, ∃ v, execAction p.2 p.1 = .ok v) (hf : execAction a b = .error e) :
    evalCond srch loc ev id r bs =
      ({ bs := condEnv loc ev id bs, err := none, acts := pre.map (fun p => actNodeOf p.1 p.2) ++ [failedNode] },
        okValues (pre.map (fun p => actNodeOf p.1 p.2)), true) := by
  rw [evalCond_serial srch loc ev id r bs out h hs, hp, serialRun_stops pre post b a e hpre hf]

/-- an aborting step (failed condition, or failed action of a serial rule) ends the whole walk: the rules
dispatched after it get no node -/
theorem abort_stops_walk (srch : Srch) (loc : String) (ev : Obj) (cands : List (String × RuleM × Bool))
    (dpre dpost : List (String × RuleM × List Bs)) (d : String × RuleM × List Bs)
    (hd : dispatch ev cands = .ok (dpre ++ d :: dpost))
    (hpre : ∀ x ∈ dpre, (ruleStep srch loc ev x).2.2 = false) (hx : (ruleStep srch loc ev d).2.2 = true) :
    (processEvent srch loc ev cands).rules = (dpre ++ [d]).map (fun x => (ruleStep srch loc ev x).1) ∧
    (processEvent srch loc ev cands).aborted = true :=
  tree_abort srch loc ev cands dpre dpost d hd hpre hx

/-! ## 4. `disabled_or_nonmatching_not_run` -/

/-- a disabled candidate contributes nothing: the result is that of the candidate list without it -/
theorem disabled_not_run (srch : Srch) (loc : String) (ev : Obj) (pre post : List (String × RuleM × Bool))
    (id : String) (r : RuleM) :
    processEvent srch loc ev (pre ++ (id, r, false) :: post) = processEvent srch loc ev (pre ++ post) := by
  rw [processEvent_eq, processEvent_eq, dispatch_drop ev _ post (dispatchOne_disabled ev id r) pre]

/-- a candidate whose `when` does not match the event contributes nothing -/
theorem nonmatching_not_run (srch : Srch) (loc : String) (ev : Obj) (pre post : List (String × RuleM × Bool))
    (id : String) (r : RuleM) (en : Bool) (h : whenBindings ev r = .ok []) :
    processEvent srch loc ev (pre ++ (id, r, en) :: post) = processEvent srch loc ev (pre ++ post) := by
  rw [processEvent_eq, processEvent_eq, dispatch_drop ev _ post (dispatchOne_nomatch ev id r en h) pre]

/-- conversely every rule node of every tree stems from an enabled candidate whose `when` matched the event
with exactly the node's (≥ 1) bindings -/
theorem nodes_are_dispatched (srch : Srch) (loc : String) (ev : Obj) (cands : List (String × RuleM × Bool))
    (rn : RuleNode) (hrn : rn ∈ (processEvent srch loc ev cands).rules) :
    ∃ r, (rn.id, r, true) ∈ cands ∧ whenBindings ev r = .ok rn.bss ∧ rn.bss ≠ [] :=
  tree_nodes_dispatched srch loc ev cands rn hrn

/-! ## Non-vacuity: a concrete rule set — event `{"a":[1,2]}`; rule `r1` with the array `when` `{"a":["?x"]}` (two
bindings `w1`, `w2`), condition `{"pattern":{"a":"?y"}}` (two bindings over the facts of `QueryEx.exSrch`),
actions `[aEcho, aThrow]` (the second always fails); a disabled copy `r0` and a non-matching rule `r2` -/

section Examples
open EventsEx QueryEx

/-- multi-binding `when`: the array pattern with a variable yields one binding per array element -/
example : whenBindings exEv exR = .ok [w1, w2] := ex_when

/-- hypothesis `hd`: the disabled copy and the non-matching rule are not dispatched -/
example : dispatch exEv exCands = .ok [("r1", exR, [w1, w2])] := ex_dispatch

/-- the condition yields two bindings on the environment of either `when` binding -/
example : condResult exSrch exR (condEnv "loc" exEv "r1" w2) =
    .ok [("?y", .num 1) :: condEnv "loc" exEv "r1" w2, ("?y", .num 2) :: condEnv "loc" exEv "r1" w2] :=
  ex_cond exR rfl "r1" w2 (Or.inr rfl)

/-- the environment: `?event`, `?location`, `?ruleId` added to the `when` binding -/
example : condEnv "loc" exEv "r1" w1 =
    [("?x", .num 1), ("?event", .obj exEv), ("?location", .str "loc"), ("?ruleId", .str "r1")] := by
  simp [condEnv, addDefault, w1, Bs.get?]

/-- hypothesis `h`: nothing aborts although one of the two actions fails every time -/
example : (processEvent exSrch "loc" exEv exCands).aborted = false := ex_not_aborted

/-- `exec_count` on the instance: 1 rule × 2 `when` bindings × 2 condition bindings × 2 actions = 8 executions -/
example : actCount (processEvent exSrch "loc" exEv exCands) = 8 := by
  rw [exec_count _ _ _ _ _ ex_dispatch ex_not_aborted]
  simp only [List.map_cons, List.map_nil, List.sum_cons, List.sum_nil,
    ex_condOut w1 (Or.inl rfl), ex_condOut w2 (Or.inr rfl)]
  rfl

/-- `tree_shape` on the instance: one rule node, two condition nodes, under each: echo, failed, echo, failed -/
example : (processEvent exSrch "loc" exEv exCands).rules =
    [{ id := "r1", bss := [w1, w2],
       conds := [w1, w2].map fun w =>
         { bs := condEnv "loc" exEv "r1" w, err := none,
           acts := [{ ok := true, value := .obj (stripQ (("?y", .num 1) :: condEnv "loc" exEv "r1" w)) }, failedNode,
                    { ok := true, value := .obj (stripQ (("?y", .num 2) :: condEnv "loc" exEv "r1" w)) }, failedNode] } }] := by
  rw [(tree_shape _ _ _ _ _ ex_dispatch ex_not_aborted).2.1]
  simp [ruleNodeSpec, condNodeSpec, ex_condOut, ex_acts exR rfl]

/-- `tree_values_agree` on the instance: the four values of the completed leaves, in walk order -/
example : (processEvent exSrch "loc" exEv exCands).values =
    [.obj (stripQ (("?y", .num 1) :: condEnv "loc" exEv "r1" w1)), .obj (stripQ (("?y", .num 2) :: condEnv "loc" exEv "r1" w1)),
     .obj (stripQ (("?y", .num 1) :: condEnv "loc" exEv "r1" w2)), .obj (stripQ (("?y", .num 2) :: condEnv "loc" exEv "r1" w2))] := by
  rw [tree_values_agree, treeValues, (tree_shape _ _ _ _ _ ex_dispatch ex_not_aborted).2.1]
  simp [ruleNodeSpec, condNodeSpec, ex_condOut, ex_acts exR rfl, okValues, failedNode]

/-- what an `echo` action sees: the stripped binding (`x`, `y`, `event`, `location`, `ruleId` — no `?`) -/
example : stripQ (("?y", .num 1) :: condEnv "loc" exEv "r1" w1) =
    [("y", .num 1), ("x", .num 1), ("event", .obj exEv), ("location", .str "loc"), ("ruleId", .str "r1")] :=
  ex_strip

/-- `failure_isolated` applies: replace `aEcho` by the failing `aThrow` in `r1` -/
example :
    let r' : RuleM := { exR with actions := [aThrow, aThrow] }
    Pointwise (NodeRel "r1" exR r') (processEvent exSrch "loc" exEv exCands).rules
      (processEvent exSrch "loc" exEv [("r0", exR, false), ("r1", r', true), ("r2", exRz, true)]).rules :=
  (failure_isolated exSrch "loc" exEv [("r0", exR, false)] [("r2", exRz, true)] "r1" exR
    { exR with actions := [aThrow, aThrow] } true rfl rfl rfl rfl).2.2

/-- … and `failure_isolated_leaves` with `p = []`, `a = aEcho`, `q = [aThrow]` -/
example (out : List Bs) :
    okValues (actsOf { exR with actions := [aThrow, aThrow] } out) =
      out.flatMap (fun b => okValues ([].map (actNodeOf b)) ++ okValues ([aThrow].map (actNodeOf b))) :=
  (failure_isolated_leaves exR { exR with actions := [aThrow, aThrow] } [] [aThrow] aEcho aThrow out rfl rfl
    (fun b => ⟨_, throw_fails b⟩)).2.2.2

/-- `serial_stops` on the instance: with `serialActions` the first failing action (2nd of 4 pairs) is the last leaf -/
example : evalCond exSrch "loc" exEv "r1" exRs w1 =
    ({ bs := condEnv "loc" exEv "r1" w1, err := none,
       acts := [(("?y", .num 1) :: condEnv "loc" exEv "r1" w1, aEcho)].map (fun p => actNodeOf p.1 p.2) ++ [failedNode] },
      okValues ([(("?y", .num 1) :: condEnv "loc" exEv "r1" w1, aEcho)].map (fun p => actNodeOf p.1 p.2)), true) :=
  serial_stops exSrch "loc" exEv "r1" exRs w1 _ (ex_cond exRs rfl "r1" w1 (Or.inl rfl)) rfl
    [(("?y", .num 1) :: condEnv "loc" exEv "r1" w1, aEcho)]
    [(("?y", .num 2) :: condEnv "loc" exEv "r1" w1, aEcho), (("?y", .num 2) :: condEnv "loc" exEv "r1" w1, aThrow)]
    (("?y", .num 1) :: condEnv "loc" exEv "r1" w1) aThrow "script"
    (by rw [ex_pairs exRs rfl]; rfl)
    (by intro p hp; rw [List.mem_singleton] at hp; subst hp; exact ⟨_, execAction_echo aEcho _ echo_isEcho⟩)
    (throw_fails _)

/-- `abort_stops_walk` on the instance: the serial rule aborts, the second `when` binding and the rule `r3`
dispatched after it are never evaluated -/
example : (processEvent exSrch "loc" exEv [("r1", exRs, true), ("r3", exR, true)]).rules =
      [{ id := "r1", bss := [w1, w2], conds := [(evalCond exSrch "loc" exEv "r1" exRs w1).1] }] ∧
    (processEvent exSrch "loc" exEv [("r1", exRs, true), ("r3", exR, true)]).aborted = true := by
  have h := abort_stops_walk exSrch "loc" exEv _ [] [("r3", exR, [w1, w2])] ("r1", exRs, [w1, w2]) ex_dispatch_s
    (fun _ hx => by cases hx) (by rw [ex_serial_ruleStep])
  rw [h.1, h.2]
  simp [ex_serial_ruleStep]

/-- `disabled_not_run` / `nonmatching_not_run` on the instance -/
example : processEvent exSrch "loc" exEv exCands = processEvent exSrch "loc" exEv [("r1", exR, true)] := by
  exact (disabled_not_run exSrch "loc" exEv [] [("r1", exR, true), ("r2", exRz, true)] "r0" exR).trans
    (nonmatching_not_run exSrch "loc" exEv [("r1", exR, true)] [] "r2" exRz true ex_when_z)

end Examples

/-! ## 5. actions with an HTTP endpoint: what is POSTed (`SubstituteBindings`, actions.go)

An action whose endpoint is an `http(s):` URL POSTs `{"bindings": bs, "opts": opts, "code": C}` once per execution
(the counting theorems above are about executions, whatever the endpoint). With `subvars` (the default of a rule's action)
`C = substD d bs code`: `RulioModel/Subst.lean`, the model of `substituteInterface` on the fragment `substFrag` (every
string of the template is a naked variable `?name` or has no `?`, no map key has a `?`); `d` is the control's
`DefaultVariableValue` when `UseDefaultVariableValue` is set (`DefaultControl()`: `some "undefined"`), `substJ = substD none`.
`VarKeys bs`: every binding key contains a `?` (keys are variables). The correspondence run of `checks/c04.py` compares
the bodies a recording server receives with these definitions. -/

open SubstLemmas

/-- `subst_ground`: a template without any `?` (in strings and keys) is sent as it is, whatever the bindings -/
theorem subst_ground (d : Option J) (bs : Bs) (hk : VarKeys bs) (t : J) (h : qfree t = true) :
    substD d bs t = .ok t :=
  ground_J d hk t h

/-- `subst_exact`: a template that is exactly one bound variable yields the bound value itself, of whatever JSON type
(a number stays a number, a map stays a map) — also when the variable is an element of an array or a value of a map -/
theorem subst_exact (d : Option J) (bs : Bs) (x : String) (v : J) (h : bs.get? x = some v) :
    substD d bs (.str x) = .ok v ∧
    substD d bs (.arr [.str x]) = .ok (.arr [v]) ∧
    ∀ k, hasQ k = false → substD d bs (.obj [(k, .str x)]) = .ok (.obj [(k, v)]) := by
  have hs : substStr d bs x = .ok v := by simp [substStr, h]
  refine ⟨by simp [substD, hs], ?_, ?_⟩
  · simp [substD, substDL, hs]
  · intro k hq; simp [substD, substDO, hq, hs]

/-- `subst_unbound_errors`: without `UseDefaultVariableValue`, a naked variable that nothing binds — anywhere in the
template (array element or map value, at any depth) — makes the substitution fail: the action fails and nothing is sent.
At the top it is the error `naked variable '?x' unbound`. -/
theorem subst_unbound_errors (bs : Bs) (x : String) (hn : isNaked x = true) (hu : bs.get? x = none) :
    substJ bs (.str x) = .error ("naked variable '" ++ x ++ "' unbound") ∧
    ∀ t : J, x ∈ strLeaves t → ∃ e, substJ bs t = .error e :=
  ⟨by simpa [substJ, substD] using substStr_unbound hn hu, fun t h => err_J hn hu t h⟩

/-- `subst_unbound_default`: with `UseDefaultVariableValue` an unbound naked variable is replaced by the default value
(`"undefined"` under `DefaultControl()`), and on the fragment the substitution cannot fail at all -/
theorem subst_unbound_default (v : J) (bs : Bs) :
    (∀ x, isNaked x = true → bs.get? x = none → substD (some v) bs (.str x) = .ok v) ∧
    ∀ t : J, substFrag t = true → ∃ r, substD (some v) bs t = .ok r :=
  ⟨fun x hn hu => by simp [substD, substStr, hu, hn], fun t hf => ok_J t hf (fun _ _ _ _ => rfl)⟩

/-- `subst_succeeds_iff_bound` (fragment, no default value): the substitution succeeds exactly when every naked variable
of the template is bound -/
theorem subst_succeeds_iff_bound (bs : Bs) (t : J) (hf : substFrag t = true) :
    (∃ r, substJ bs t = .ok r) ↔ ∀ x ∈ strLeaves t, isNaked x = true → (bs.get? x).isSome = true := by
  constructor
  · rintro ⟨r, hr⟩ x hx hn
    cases hg : bs.get? x with
    | some _ => rfl
    | none =>
      obtain ⟨e, he⟩ := err_J hn hg t hx
      rw [substJ] at hr; rw [hr] at he; cases he
  · intro h
    exact ok_J t hf (fun x hx hn hg => by have := h x hx hn; rw [hg] at this; cases this)

/-- `subst_compositional`: substitution distributes over arrays, and over maps whose keys have no `?` (keys unchanged,
order kept); scalars other than strings are untouched -/
theorem subst_compositional (d : Option J) (bs : Bs) :
    (∀ xs : List J, substD d bs (.arr xs) = (xs.mapM (substD d bs)).map J.arr) ∧
    (∀ kvs : List (String × J), (∀ kv ∈ kvs, hasQ kv.1 = false) →
      substD d bs (.obj kvs) = (kvs.mapM (fun kv => (substD d bs kv.2).map (fun v => (kv.1, v)))).map J.obj) ∧
    substD d bs .null = .ok .null ∧ (∀ b, substD d bs (.bool b) = .ok (.bool b)) ∧ (∀ n, substD d bs (.num n) = .ok (.num n)) := by
  refine ⟨fun xs => ?_, fun kvs h => ?_, rfl, fun _ => rfl, fun _ => rfl⟩
  · rw [← substDL_eq_mapM]; simp only [substD]; cases substDL d bs xs <;> rfl
  · rw [← substDO_eq_mapM d bs kvs h]; simp only [substD]; cases substDO d bs kvs <;> rfl

/-- `subst_result_ground`: when the bound values (and the default value) contain no `?`, whatever is sent contains no `?`
either: no unresolved variable reaches the endpoint -/
theorem subst_result_ground (d : Option J) (bs : Bs) (hv : QfreeVals bs) (hd : ∀ v, d = some v → qfree v = true)
    (t r : J) (h : substD d bs t = .ok r) : qfree r = true :=
  result_J hv hd t r h

/-- `subst_idempotent_on_ground_bindings`: if all bound values (and the default value) are free of `?`, substituting
the result again changes nothing -/
theorem subst_idempotent_on_ground_bindings (d : Option J) (bs : Bs) (hk : VarKeys bs) (hv : QfreeVals bs)
    (hd : ∀ v, d = some v → qfree v = true) (t r : J) (h : substD d bs t = .ok r) :
    substD d bs r = .ok r :=
  ground_J d hk r (result_J hv hd t r h)

/-- `subst_depends_on_own_variables`: the result depends only on what the bindings give to the strings of the template
— extra bindings (`?event`, `?location`, `?ruleId`, variables of other rules) and the order of the bindings do not matter -/
theorem subst_depends_on_own_variables (d : Option J) (bs bs' : Bs) (t : J)
    (h : ∀ x ∈ strLeaves t, bs.get? x = bs'.get? x) : substD d bs t = substD d bs' t :=
  agree_J d bs bs' t h

namespace PostExamples

/-- bindings of an action execution: `when` bound `?w`, the condition `?l` and `?n`; the event and names are added -/
def exBs : Bs := [("?n", .num 3), ("?l", .str "tacos"), ("?w", .str "homer"),
  ("?event", .obj [("who", .str "homer")]), ("?location", .str "a"), ("?ruleId", .str "r1")]

def exTmpl : J := .obj [("a", .str "?w"), ("b", .arr [.str "?l", .num 1, .str "const", .obj [("c", .str "?n")]]), ("e", .str "?event")]

/-- the hypotheses of the theorems hold for the instance -/
example : VarKeys exBs ∧ QfreeVals exBs ∧ substFrag exTmpl = true := by
  refine ⟨?_, ?_, by decide⟩
  · intro kv h; simp only [exBs, List.mem_cons, List.not_mem_nil, or_false] at h
    rcases h with h | h | h | h | h | h <;> subst h <;> decide
  · intro kv h; simp only [exBs, List.mem_cons, List.not_mem_nil, or_false] at h
    rcases h with h | h | h | h | h | h <;> subst h <;> decide

/-- what is sent as `code`: values keep their JSON type, constants stay -/
example : substJ exBs exTmpl = .ok (.obj [("a", .str "homer"),
    ("b", .arr [.str "tacos", .num 1, .str "const", .obj [("c", .num 3)]]), ("e", .obj [("who", .str "homer")])]) := by rfl

/-- an unbound variable: an error without a default value, `"undefined"` with `DefaultControl()`'s -/
example : substJ exBs (.arr [.str "?w", .str "?zz"]) = .error "naked variable '?zz' unbound" ∧
    substD (some (.str "undefined")) exBs (.arr [.str "?w", .str "?zz"]) = .ok (.arr [.str "homer", .str "undefined"]) := ⟨by rfl, by rfl⟩

/-- outside the fragment: a string that mixes text and a variable is not modelled -/
example : substFrag (.str "id-?w") = false ∧ isNaked "?w" = true ∧ isNaked "?9" = false ∧ isNaked "??w" = false := by decide

/-- `subst_idempotent_on_ground_bindings` needs the hypothesis on the values: a value that is itself a variable name is
substituted again by a second pass -/
example : substJ [("?a", .str "?b"), ("?b", .num 1)] (.str "?a") = .ok (.str "?b") ∧
    substJ [("?a", .str "?b"), ("?b", .num 1)] (.str "?b") = .ok (.num 1) := ⟨by rfl, by rfl⟩

end PostExamples

/-- **subst_mixed_conservative** — the driver evaluates `substDX`, which also answers strings that mix text and variables
(`substMixed`: whole tokens `?` + word characters that name a bound scalar are replaced by its text). Wherever the model of the
fragment (`substD`) answers, the extension answers the same: every theorem above transfers to what the driver computes. -/
theorem subst_mixed_conservative {d : Option J} {bs : Bs} (t r : J) (h : substD d bs t = .ok r) : substDX d bs t = .ok r :=
  substDX_of_ok t r h

/-- whole tokens only: `?w` is not replaced inside `?w2` or `?wx`; numbers, booleans and null are inserted as JSON text; an
unbound token stays; a token glued to the next one, a structured value and a value with `$` or `?` are not modelled -/
example :
    (match substMixed [("?w", .str "homer"), ("?n", .num 7), ("?z", .null)] "id-?w <?w2> ?wx ?n/?z ?u." with
      | .ok (.str s) => s == "id-homer <?w2> ?wx 7/null ?u." | _ => false) = true ∧
    (match substMixed [("?w", .str "homer"), ("?l", .str "chips")] "?w?l" with | .error _ => true | .ok _ => false) = true ∧
    (match substMixed [("?e", .obj [])] "x ?e" with | .error _ => true | .ok _ => false) = true ∧
    (match substMixed [("?w", .str "a$1")] "x ?w" with | .error _ => true | .ok _ => false) = true := by
  decide +kernel


import RulioProofs.Breaker
import RulioProofs.Throttle
import RulioProofs.BreakerFixed
import RulioProofs.CapLocked

/-! # C20 — configured limits are enforced and recover (property theorems only)

Models: `RulioModel/Breaker.lean` (`OB` = the `counts`/`updated` state of `OutboundBreaker`, `BEv` = a `Do` call or a
`Status()`/`Summary()` poll, `DoSys` = concurrent callers of `Do`, `Thr` = `Throttle.Submit` bookkeeping, `Cap` = the
capacity gate of `Location`), built on the definitions that `harness/cmd/extract_c20` regenerates from
`core/breaker.go` and `core/location.go` into `RulioModel/Gen/C20.lean`.  Time is nanoseconds on a monotone clock.

The breaker theorems are about the repaired `slide`/`Do`/`init`/`Submit` (corpus/C20-fix-*.patch): `slide` advances
`updated` by the whole ticks it shifted (to `now` only when everything has aged out), an admission sets
`updated := now`, `init` rejects intervals below `breakerTicks` ns, `Submit` increments `pending` only for the
submissions that will decrement it.  On a tree without these repairs the extracted definitions differ and the
recovery / interval / pending theorems below do not compile. -/

open Gen.C20

/-! ## OutboundBreaker: the rate bound -/

/-- **Window bound on the real data structure.**  For a breaker whose counts are all zero (fresh, or after `Reset`),
any limit, interval (at least `ticks` ns) and any non-decreasing sequence of `Do` calls and `Status`/`Summary` polls,
every window `[a, a + ticks·⌊interval/ticks⌋)` contains at most `limit` admitted calls.  Proved by a simulation between
the `counts` array (copy/zero/`counts[0]++`, the assignments of `updated` in `slide` and `Do`) and the ghost model of
`BreakerGhost.lean`. -/
theorem breaker_window_counts (b : OB) (hz : b.counts = List.replicate b.ticks 0) (ht : 0 < b.ticks) (hr : 0 < b.res)
    (es : List BEv) (hmono : (b.updated :: es.map BEv.time).Pairwise (· ≤ ·)) (a : Nat) :
    ((b.admittedEv es).filter (fun t => a ≤ t ∧ t < a + b.ticks * b.res)).length ≤ b.limit :=
  window_counts b hz ht hr es hmono a

/-- the same for `NewOutboundBreaker(limit, interval)` when `interval` is a multiple of `breakerTicks` nanoseconds
(every realistic interval): *any sliding window of the interval* holds at most `limit` admissions. -/
theorem breaker_window_interval (limit interval : Nat) (hi : 0 < interval) (hd : breakerTicks ∣ interval)
    (es : List BEv) (hmono : (es.map BEv.time).Pairwise (· ≤ ·)) (a : Nat) :
    (((OB.init limit interval).admittedEv es).filter (fun t => a ≤ t ∧ t < a + interval)).length ≤ limit := by
  obtain ⟨hz, hlen, hticks, hres, hlim, hupd⟩ := init_fields limit interval
  obtain ⟨q, rfl⟩ := hd
  have hq : 0 < q := by
    rcases Nat.eq_zero_or_pos q with rfl | h
    · simp at hi
    · exact h
  have hr : (OB.init limit (breakerTicks * q)).res = q := by rw [hres]; simp [breakerTicks]
  have := window_counts (OB.init limit (breakerTicks * q)) hz
    (by rw [hticks]; decide) (by rw [hr]; exact hq) es
    (by rw [hupd]; exact pairwise_zero_cons _ hmono) a
  rw [hticks, hr, hlim] at this
  exact this

/-- **Under any concurrency.**  Any number of threads, each making any number of `Do` calls, under any schedule:
because `Do` holds the breaker's mutex from the clock reading to the increment and the assignment of `updated`
(`do_segments_shape`, a fact regenerated from the source), the execution is a sequential run of `call` at the clock
readings taken under the lock, and the admitted calls obey the window bound.  (Clock readings along a schedule are
non-decreasing.) -/
theorem breaker_window_concurrent (b : OB) (hz : b.counts = List.replicate b.ticks 0) (ht : 0 < b.ticks) (hr : 0 < b.res)
    (calls : List Nat) (sch : List (Nat × Nat)) (hmono : (b.updated :: sch.map (·.2)).Pairwise (· ≤ ·)) (a : Nat) :
    ((((DoSys.start b calls).exec sch).admitted).filter (fun t => a ≤ t ∧ t < a + b.ticks * b.res)).length ≤ b.limit := by
  obtain ⟨ts, hsub, _, hadm⟩ := exec_sequential (DoSys.start b calls) (start_ok b calls) sch
  rw [hadm]
  have hm : (b.updated :: ts).Pairwise (· ≤ ·) := hmono.sublist (List.Sublist.cons_cons _ hsub)
  exact window_counts b hz ht hr (ts.map .call) (by rw [map_call_time]; exact hm) a

/-- the reduction itself: every schedule of every set of threads equals a sequential run over a subsequence of the
scheduled clock readings -/
theorem breaker_concurrent_is_sequential (b : OB) (calls : List Nat) (sch : List (Nat × Nat)) :
    ∃ ts, ts.Sublist (sch.map (·.2)) ∧ ((DoSys.start b calls).exec sch).b = b.after ts ∧
      ((DoSys.start b calls).exec sch).admitted = b.admitted ts :=
  exec_sequential (DoSys.start b calls) (start_ok b calls) sch

/-! ## OutboundBreaker: recovery

`slide` keeps the part of a tick that it did not shift (`updated` advances by whole ticks), so polling — by refused
`Do` calls or by `Status()`/`Summary()` — cannot postpone the shifts any more; only an admission re-anchors the clock
(`updated := now`), which is what makes the rate bound exact. -/

/-- **Recovery, for every polling pattern.**  For any breaker with all-zero counts and a positive limit, any
non-decreasing sequence `pre` of `Do` calls and `Status`/`Summary` polls (any number, any spacing: faster or slower
than a tick, bursts, pauses), a call at `now` is admitted when every admission so far is at least one window
(`ticks·res`) old.  (Induction over the list of arrivals.) -/
theorem breaker_recovers (b : OB) (hz : b.counts = List.replicate b.ticks 0) (ht : 0 < b.ticks) (hr : 0 < b.res)
    (hl : 0 < b.limit) (pre : List BEv) (now : Nat)
    (hmono : (b.updated :: (pre.map BEv.time ++ [now])).Pairwise (· ≤ ·))
    (hidle : ∀ t ∈ b.admittedEv pre, t + b.ticks * b.res ≤ now) :
    ((b.afterEv pre).call now).2 = true :=
  recovers_counts b hz ht hr hl pre now hmono hidle

/-- **Recovery bound** for `NewOutboundBreaker(limit, interval)` with any accepted interval (multiple of 20 ns or
not): a caller that was refused is admitted by its first call at or after `interval` past the last admission (the one
that filled the window) — so a caller polling every `δ` waits less than `interval + δ`, in particular less than
`interval + resolution` when it polls at least once per tick — whatever else polled the breaker in between. -/
theorem breaker_recovery_bound (limit interval : Nat) (hl : 0 < limit) (hi : breakerTicks ≤ interval)
    (pre : List BEv) (now : Nat) (hmono : (pre.map BEv.time ++ [now]).Pairwise (· ≤ ·))
    (hlast : ∀ t ∈ (OB.init limit interval).admittedEv pre, t + interval ≤ now) :
    (((OB.init limit interval).afterEv pre).call now).2 = true :=
  recovers_init limit interval hl hi pre now hmono hlast

/-- **Graded recovery** (what holds when the window is only partly aged out).  A call is admitted when fewer than
`limit` earlier admissions are younger than their graded window: one window for the newest admission, plus
`res - 1` ns for every admission made after it (each of those re-anchored the clock and lost less than a tick).
`gradedCount W s now 0 l` counts the `t_j` of `l` (newest first, `j = 0, 1, …`) with `now < t_j + W + j·s`. -/
theorem breaker_recovers_graded (b : OB) (hz : b.counts = List.replicate b.ticks 0) (ht : 0 < b.ticks) (hr : 0 < b.res)
    (pre : List BEv) (now : Nat)
    (hmono : (b.updated :: (pre.map BEv.time ++ [now])).Pairwise (· ≤ ·))
    (hfew : gradedCount (b.ticks * b.res) (b.res - 1) now 0 (b.admittedEv pre) < b.limit) :
    ((b.afterEv pre).call now).2 = true :=
  recovers_graded_counts b hz ht hr pre now hmono hfew

set_option maxRecDepth 40000 in
/-- the arrival patterns that defeated the unrepaired `slide` (limit 1 per 200 ns, tick = 10 ns): polled every 3 ns
(faster than a tick) the breaker admits again at 201, the first poll at or after 200; polled every 19 ns (slower than
a tick, formerly 1.9 windows late) at 209; and `Status` polls in between do not delay the call at 200. -/
theorem breaker_polled_recovers_witnesses :
    (OB.init 1 200).admitted (0 :: pollEvery 0 3 80) = [201, 0] ∧
    (OB.init 1 200).admitted ((List.range 21).map (· * 19)) = [209, 0] ∧
    (OB.init 1 200).admittedEv [.call 0, .status 3, .status 7, .call 150, .status 199, .call 200, .call 201] = [200, 0] := by
  decide

/-- **Limit of a bucketed window (design trade-off, not a defect of the repair).**  The rate bound is exact, so the
aging of an older admission is delayed by the admissions made after it: limit 2 per 200 ns, admissions at 0 and 9 —
the call at 200 is refused although only the admission at 9 is younger than 200 ns; it is admitted at 209
(`breaker_recovers_graded` is the general bound, `breaker_recovers` the case where everything has aged out). -/
theorem breaker_exact_recovery_tradeoff_witness : (OB.init 2 200).admitted [0, 9, 200, 209] = [209, 9, 0] := by
  decide

/-- **Negative witness, rounding.**  When `interval` is not a multiple of 20 ns the window that is enforced is
`20·⌊interval/20⌋`, up to 19 ns shorter than the interval: limit 1 per 39 ns admits calls 20 ns apart. -/
theorem breaker_window_rounding_witness : (OB.init 1 39).admitted [100, 120] = [120, 100] := by
  decide

/-! ## OutboundBreaker: the interval -/

/-- **`NewOutboundBreaker` / `Adjust` reject an interval below `breakerTicks` nanoseconds** (zero and negative
durations included), for every limit, before they write any field of the breaker. -/
theorem new_breaker_rejects_tiny_interval (limit interval : Int) (h : interval < breakerTicks) :
    OB.initE limit interval = none := by
  simp [OB.initE, initRejects, h]

/-- why: with such an interval `resolution` would be zero and every `Do` would divide by zero -/
theorem breaker_tiny_interval_would_divide_by_zero (limit interval now : Nat) (h : interval < breakerTicks) :
    (OB.init limit interval).callE now = .error .divByZero := by
  have : (OB.init limit interval).res = 0 := by
    simp only [OB.init, OB.res, resolution, initTicks]
    exact Nat.div_eq_of_lt h
  simp [OB.callE, this]

/-- **A breaker that was accepted never panics**: after any calls and polls `Do` neither divides by zero nor indexes
`counts` out of range (its limit is positive, its resolution at least 1 ns). -/
theorem breaker_accepted_never_panics (limit interval : Int) (b : OB) (h : OB.initE limit interval = some b)
    (pre : List BEv) (now : Nat) :
    (b.afterEv pre).callE now = .ok ((b.afterEv pre).call now) ∧ 0 < b.limit ∧ 0 < b.res :=
  ⟨accepted_never_panics limit interval b h pre now, (init_res_pos limit interval b h).2.2.1, (init_res_pos limit interval b h).1⟩

/-! ## Throttle -/

/-- **Pending bound.**  For any pending limit, any number of submitters (including ones that arrive later), any
interleaving of their critical sections and of `Disable` calls: at most `pendingLimit + 1` submissions are between
the increment and the decrement of `pending`. -/
theorem throttle_pending_bound (pendingLimit : Nat) (disabled : Bool) (n : Nat) (evs : List Thr.Ev) :
    ((Thr.start pendingLimit disabled n).exec evs).waiting ≤ pendingLimit + 1 :=
  by
    have := (exec_inv _ evs (start_inv pendingLimit disabled n)).bound
    rw [exec_pendingLimit] at this
    exact this

/-- `pending` is exactly the number of waiting submitters at every moment, for every interleaving of submitters and of
`Disable(true)` / `Disable(false)` calls -/
theorem throttle_pending_exact (pendingLimit : Nat) (disabled : Bool) (n : Nat) (evs : List Thr.Ev) :
    ((Thr.start pendingLimit disabled n).exec evs).pending = ((Thr.start pendingLimit disabled n).exec evs).waiting :=
  (exec_inv _ evs (start_inv pendingLimit disabled n)).eq

/-- **`pending` returns to zero.**  Whenever every `Submit` that was entered has returned (no submitter is between
the increment and the decrement), `pending = 0` — also after overflowing submissions and across `Disable` toggles; so
a throttle can never get stuck refusing with `ThrottleOverflow`. -/
theorem throttle_pending_returns_to_zero (pendingLimit : Nat) (disabled : Bool) (n : Nat) (evs : List Thr.Ev)
    (hret : ∀ pc ∈ ((Thr.start pendingLimit disabled n).exec evs).pcs, pc ≠ .waiting) :
    ((Thr.start pendingLimit disabled n).exec evs).pending = 0 := by
  rw [throttle_pending_exact]
  exact List.count_eq_zero.mpr (fun hmem => hret _ hmem rfl)

/-- the schedule that used to leak (`pendingLimit = 0`, `Disable(true)`, one overlapping pair of submissions, then
`Disable(false)` and a third submitter): the overflowing `Submit` leaves `pending` alone and the late submitter is served -/
theorem throttle_former_leak_schedule :
    let t := (Thr.start 0 true 2).exec [.sub 0, .sub 1, .sub 0, .setDisabled false, .spawn, .sub 2]
    t.waiting = 1 ∧ t.pending = 1 ∧ t.pcs = [.done, .overflow, .waiting] := by
  decide

/-- **At most once.**  With breakers whose `Do` reports `attempted` exactly when it ran the function, one `Submit`
runs the function at most once, and exactly once iff it reports success — for any number of attempts and any
sequence of breaker states. -/
theorem throttle_once (attempts : Nat) (st : List BKind) (hf : ∀ k ∈ st, k.faithful = true) :
    (submitLoop attempts st).1 ≤ 1 ∧ ((submitLoop attempts st).1 = 1 ↔ (submitLoop attempts st).2 = true) := by
  have := submitLoop_go_once attempts 0 st attempts hf
  unfold submitLoop
  rw [this]
  cases (submitLoop.go attempts 0 st attempts).2 <;> simp

/-- `OutboundBreaker.Do` and `ComboBreaker.Do` are such breakers (from the extracted run/return expressions) -/
theorem throttle_once_outbound_combo (c : Bool) :
    (BKind.outbound c).faithful = true ∧ (BKind.combo c).faithful = true ∧ BKind.comboDisabled.faithful = true := by
  cases c <;> decide

/-- `SimpleBreaker.Do` reports `attempted` exactly when it ran the function (`Closed || Disabled`, regenerated from the
source): every breaker kind is faithful, so `throttle_once` applies to every breaker a Throttle can wrap. (Before the
repair in /repo `Do` reported `Closed` alone and a disabled, open SimpleBreaker made one `Submit` run the function once
per attempt.) -/
theorem simple_breaker_faithful (closed disabled : Bool) : (BKind.simple closed disabled).faithful = true :=
  simple_faithful closed disabled

/-- a disabled, open SimpleBreaker under a Throttle: the function runs once, on the first attempt, and `Submit` reports
that it worked -/
theorem throttle_simple_disabled_runs_once (attempts : Nat) (h : 0 < attempts) :
    submitLoop attempts (List.replicate attempts (.simple false true)) = (1, true) :=
  simple_disabled_once attempts h

/-! ## Capacity -/

/-- **Sequential capacity.**  For every history of `AddFact` / `AddRule` / removals, a location that starts within
its maximum stays within it. -/
theorem capacity_seq (c : Cap) (ops : List CapOp) (hp : ∀ o ∈ ops, Cap.CapOp.public o = true)
    (h : (c.count : Int) ≤ c.maxFacts) : ((c.exec ops).count : Int) ≤ c.maxFacts :=
  cap_exec_le c ops hp h

/-- the gate exactly: an add is refused for capacity iff `MaxFacts ≤ Count` — also when it would only overwrite an
existing id — and a refused add leaves the state (hence the storage) untouched -/
theorem capacity_gate (c : Cap) (id v : String) :
    ((c.step (.addFact id v)).2 = .capacity ↔ c.maxFacts ≤ (c.count : Int)) ∧
    ((c.step (.addRule id v)).2 = .capacity ↔ c.maxFacts ≤ (c.count : Int)) := by
  simp only [Cap.step, addFactGated, addRuleGated, atCapacity, Bool.true_and]
  by_cases hc : c.maxFacts ≤ (c.count : Int) <;> simp [hc]

/-- a refusal is a no-op -/
theorem capacity_refused_noop (c : Cap) (o : CapOp) (h : (c.step o).2 = .capacity) : (c.step o).1 = c := by
  cases o with
  | addFact id v => simp only [Cap.step] at h ⊢; split <;> simp_all
  | addRule id v => simp only [Cap.step] at h ⊢; split <;> simp_all
  | rem id => simp only [Cap.step] at h; split at h <;> simp at h
  | setProp id v => simp [Cap.step] at h

/-- **Negative witness (outside the add operations).**  Property facts written by `SetProp`, `EnableRule(false)`,
`SetParents` reach `state.Add` without the gate: a full location grows past its maximum. -/
theorem capacity_ungated_witness :
    (({ maxFacts := 1, store := [] } : Cap).exec [.addRule "r" "rule", .setProp "!r.disabled" "true"]).count = 2 := by
  decide

/-- **Capacity under any concurrency** (the former finding C20-capacity-check-then-add-race, repaired in /repo: the capacity test
and the addition it admits are one step under `Location.admission`). Any number of adders, each "take the admission lock and test;
add unless full, release"; one step per scheduling decision; a thread that wants the lock while another holds it waits. After EVERY
schedule the location holds at most `MaxFacts` (given that it started within it). -/
theorem capacity_concurrent (maxFacts : Int) (count n : Nat) (h : (count : Int) ≤ maxFacts) (σ : List Nat) :
    ((({ maxFacts := maxFacts, count := count, holder := none, pcs := List.replicate n .start } : CapLocked).exec σ).count : Int) ≤ maxFacts := by
  have key := (CapLocked.inv_exec (s := { maxFacts := maxFacts, count := count, holder := none, pcs := List.replicate n .start }) ?_ σ).le
  · rwa [CapLocked.exec_maxFacts] at key
  refine ⟨h, ?_⟩
  intro t b ht
  simp only [List.getElem?_replicate] at ht
  split at ht <;> cases ht

/-- what the lock is for: with the test and the addition as separate, unlocked steps (the code before the repair) two adders
that both pass the test exceed the maximum; with the lock the same schedule ends within it -/
theorem capacity_race_witness :
    (({ maxFacts := 1, count := 0, pcs := [.start, .start] } : CapRace).exec [0, 1, 0, 1]).count = 2 ∧
    (({ maxFacts := 1, count := 0, holder := none, pcs := [.start, .start] } : CapLocked).exec [0, 1, 0, 1, 1, 1]).count = 1 := by
  decide

/-! ## the hypotheses are satisfiable by non-trivial instances -/

example : (OB.init 3 1000000000).counts = List.replicate (OB.init 3 1000000000).ticks 0 ∧ 0 < (OB.init 3 1000000000).ticks
    ∧ 0 < (OB.init 3 1000000000).res ∧ 0 < (OB.init 3 1000000000).limit := by decide
example : (OB.init 2 200).admitted [5, 6, 7, 100, 205, 215, 216] = [216, 215, 6, 5] := by decide
-- `breaker_recovers`: polls faster than a tick, the last admission (at 6) is 200 old at 206
example : ((OB.init 2 200).updated :: (([.call 5, .call 6, .call 7, .status 9, .call 100, .status 203] : List BEv).map BEv.time ++ [206])).Pairwise (· ≤ ·)
    ∧ (∀ t ∈ (OB.init 2 200).admittedEv [.call 5, .call 6, .call 7, .status 9, .call 100, .status 203], t + (OB.init 2 200).ticks * (OB.init 2 200).res ≤ 206)
    ∧ (OB.init 2 200).admittedEv [.call 5, .call 6, .call 7, .status 9, .call 100, .status 203] = [6, 5] := by decide
-- `breaker_recovers_graded` with a non-empty window: one of the two slots is free again at 214 = 5 + 200 + 1·9
example : gradedCount 200 9 214 0 ((OB.init 2 200).admittedEv [.call 5, .call 50, .call 60]) = 1 ∧
    (((OB.init 2 200).afterEv [.call 5, .call 50, .call 60]).call 214).2 = true := by decide
example : OB.initE 3 20 = some (OB.init 3 20) ∧ OB.initE 3 19 = none ∧ OB.initE 3 0 = none ∧ OB.initE 3 (-7) = none
    ∧ OB.initE 0 1000 = none := by decide
example : ((DoSys.start (OB.init 1 200) [2, 1]).exec [(0, 5), (1, 6), (0, 7), (0, 250), (1, 251)]).admitted = [250, 5] := by
  decide
example : (submitLoop 3 [.outbound false, .outbound true, .outbound true]) = (1, true) := by decide
example : ((Thr.start 1 false 4).exec [.sub 0, .sub 1, .sub 2, .sub 3, .sub 0]).waiting = 1 := by decide
-- `throttle_pending_returns_to_zero`: overflow while disabled, toggles, everybody returned
example : let t := (Thr.start 0 true 3).exec [.sub 0, .sub 1, .setDisabled false, .sub 2, .sub 0, .setDisabled true, .spawn, .sub 3, .sub 3]
    (∀ pc ∈ t.pcs, pc ≠ .waiting) ∧ t.pcs = [.done, .overflow, .overflow, .done] ∧ t.pending = 0 := by decide
example : (({ maxFacts := 2, store := [] } : Cap).exec [.addFact "a" "1", .addFact "b" "2", .addFact "c" "3", .rem "a",
    .addRule "r" "x"]).store = [("b", "2"), ("r", "x")] := by decide

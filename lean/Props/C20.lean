import RulioProofs.Breaker
import RulioProofs.Throttle
import RulioProofs.BreakerFixed

/-! # C20 — configured limits are enforced and recover (property theorems only)

Models: `RulioModel/Breaker.lean` (`OB` = the `counts`/`updated` state of `OutboundBreaker`, `DoSys` = concurrent
callers of `Do`, `Thr` = `Throttle.Submit` bookkeeping, `Cap` = the capacity gate of `Location`), built on the
definitions that `harness/cmd/extract_c20` regenerates from `core/breaker.go` and `core/location.go` into
`RulioModel/Gen/C20.lean`.  Time is nanoseconds on a monotone clock. -/

open Gen.C20

/-! ## OutboundBreaker: the rate bound -/

/-- **Window bound on the real data structure.**  For a breaker whose counts are all zero (fresh, or after `Reset`),
any limit, interval (at least `ticks` ns) and any non-decreasing sequence of call times, every window
`[a, a + ticks·⌊interval/ticks⌋)` contains at most `limit` admitted calls.  Proved by a simulation between the
`counts` array (copy/zero/`counts[0]++` as in `slide`/`Do`) and the ghost model of `BreakerGhost.lean`. -/
theorem breaker_window_counts (b : OB) (hz : b.counts = List.replicate b.ticks 0) (ht : 0 < b.ticks) (hr : 0 < b.res)
    (ts : List Nat) (hmono : (b.updated :: ts).Pairwise (· ≤ ·)) (a : Nat) :
    ((b.admitted ts).filter (fun t => a ≤ t ∧ t < a + b.ticks * b.res)).length ≤ b.limit :=
  window_counts b hz ht hr ts hmono a

/-- the same for `NewOutboundBreaker(limit, interval)` when `interval` is a multiple of `breakerTicks` nanoseconds
(every realistic interval): *any sliding window of the interval* holds at most `limit` admissions. -/
theorem breaker_window_interval (limit interval : Nat) (hi : 0 < interval) (hd : breakerTicks ∣ interval)
    (ts : List Nat) (hmono : ts.Pairwise (· ≤ ·)) (a : Nat) :
    (((OB.init limit interval).admitted ts).filter (fun t => a ≤ t ∧ t < a + interval)).length ≤ limit := by
  obtain ⟨hz, hlen, hticks, hres, hlim, hupd⟩ := init_fields limit interval
  obtain ⟨q, rfl⟩ := hd
  have hq : 0 < q := by
    rcases Nat.eq_zero_or_pos q with rfl | h
    · simp at hi
    · exact h
  have hr : (OB.init limit (breakerTicks * q)).res = q := by rw [hres]; simp [breakerTicks]
  have := window_counts (OB.init limit (breakerTicks * q)) (by rw [hlen] at hz; rw [hticks]; exact hz)
    (by rw [hticks]; decide) (by rw [hr]; exact hq) ts
    (by rw [hupd]; exact List.pairwise_cons.mpr ⟨fun _ _ => Nat.zero_le _, hmono⟩) a
  rw [hticks, hr, hlim] at this
  exact this

/-- **Under any concurrency.**  Any number of threads, each making any number of `Do` calls, under any schedule:
because `Do` holds the breaker's mutex from the clock reading to the increment (`do_segments_shape`, a fact
regenerated from the source), the execution is a sequential run of `call` at the clock readings taken under the
lock, and the admitted calls obey the window bound.  (Clock readings along a schedule are non-decreasing.) -/
theorem breaker_window_concurrent (b : OB) (hz : b.counts = List.replicate b.ticks 0) (ht : 0 < b.ticks) (hr : 0 < b.res)
    (calls : List Nat) (sch : List (Nat × Nat)) (hmono : (b.updated :: sch.map (·.2)).Pairwise (· ≤ ·)) (a : Nat) :
    ((((DoSys.start b calls).exec sch).admitted).filter (fun t => a ≤ t ∧ t < a + b.ticks * b.res)).length ≤ b.limit := by
  obtain ⟨ts, hsub, _, hadm⟩ := exec_sequential (DoSys.start b calls) (start_ok b calls) sch
  rw [hadm]
  have hm : (b.updated :: ts).Pairwise (· ≤ ·) := hmono.sublist (List.Sublist.cons_cons _ hsub)
  exact window_counts b hz ht hr ts hm a

/-- the reduction itself: every schedule of every set of threads equals a sequential run over a subsequence of the
scheduled clock readings -/
theorem breaker_concurrent_is_sequential (b : OB) (calls : List Nat) (sch : List (Nat × Nat)) :
    ∃ ts, ts.Sublist (sch.map (·.2)) ∧ ((DoSys.start b calls).exec sch).b = b.after ts ∧
      ((DoSys.start b calls).exec sch).admitted = b.admitted ts :=
  exec_sequential (DoSys.start b calls) (start_ok b calls) sch

/-! ## OutboundBreaker: recovery

The full clause — *a call is admitted as soon as fewer than `limit` earlier admissions lie within the last window,
even while the breaker is being polled* — is FALSE for the code as it stands: `slide` sets `updated := now` on
every call but shifts only whole ticks, so the remainder of every gap is lost. -/

/-- **Negative (confirmed on the real code).**  A fresh breaker polled with every gap shorter than one tick
(`interval/20`) admits exactly the first `limit` calls and then nothing, no matter how long the polling goes on. -/
theorem breaker_fast_poll_never_recovers (limit interval t0 δ : Nat) (hδ : δ < interval / breakerTicks) (n : Nat) :
    ((OB.init limit interval).admitted (t0 :: pollEvery t0 δ n)).length = min (n + 1) limit := by
  have := fast_poll_general limit interval t0 (pollEvery t0 δ n) (pollEvery_fast _ t0 δ n hδ)
  rw [pollEvery_length] at this
  exact this

/-- the same for arbitrary (not only uniform) arrival times whose gaps are all shorter than a tick -/
theorem breaker_fast_poll_general (limit interval t0 : Nat) (rest : List Nat)
    (hf : FastPolled (interval / breakerTicks) t0 rest) :
    ((OB.init limit interval).admitted (t0 :: rest)).length = min (rest.length + 1) limit :=
  fast_poll_general limit interval t0 rest hf

set_option maxRecDepth 20000 in
/-- **Negative witness, slow polling.**  limit 1 per 200 ns (tick = 10 ns) polled every 19 ns: each gap shifts one
tick and loses 9 ns, so of the 20 calls at 0, 19, …, 361 only the first is admitted, although from t = 209 on no
admission lies within the last 200 ns.  (The call at 380 is admitted: the delay is 1.9 windows.) -/
theorem breaker_slow_poll_recovery_delayed :
    (OB.init 1 200).admitted ((List.range 20).map (· * 19)) = [0] ∧
    (OB.init 1 200).admitted ((List.range 21).map (· * 19)) = [380, 0] := by
  decide

/-- **What does hold** (partial: the clause asks for one window, the code guarantees two).  If every gap is zero
(a burst) or at least one tick, then a call at `now` is admitted whenever fewer than `limit` earlier admissions are
younger than *two* windows. -/
theorem breaker_recovers_if_polled_slower_than_tick_partial (b : OB) (hz : b.counts = List.replicate b.ticks 0)
    (ht : 0 < b.ticks) (hr : 0 < b.res) (pre : List Nat) (now : Nat)
    (hs : SlowPolled b.res b.updated (pre ++ [now]))
    (hfew : ((b.admitted pre).filter (fun t => now < t + 2 * (b.ticks * b.res))).length < b.limit) :
    ((b.after pre).call now).2 = true :=
  recovers_slow b hz ht hr pre now hs hfew

/-- **Negative.**  An interval shorter than `breakerTicks` nanoseconds makes `resolution` zero and every `Do`
divide by zero (a run-time panic in Go; `NewOutboundBreaker` accepts such intervals). -/
theorem breaker_tiny_interval_div_zero (limit interval now : Nat) (h : interval < breakerTicks) :
    (OB.init limit interval).callE now = .error .divByZero := by
  have : (OB.init limit interval).res = 0 := by
    simp only [OB.init, OB.res, resolution, initTicks]
    exact Nat.div_eq_of_lt h
  simp [OB.callE, this]

/-- **Negative witness, rounding.**  When `interval` is not a multiple of 20 ns the window that is enforced is
`20·⌊interval/20⌋`, up to 19 ns shorter than the interval: limit 1 per 39 ns admits calls 20 ns apart. -/
theorem breaker_window_rounding_witness : (OB.init 1 39).admitted [100, 120] = [120, 100] := by
  decide

/-! ### the proposed repair (`OB.slideFixed`: `updated` advances by whole ticks) — NOT the current code

These two theorems are kept compiled so that the `fix:` patch of the recovery defect can be adopted with its proofs
ready (then `OB.slide` becomes `OB.slideFixed` and they replace `breaker_window_counts` and the `_partial` theorem). -/

/-- repaired breaker, recovery at full strength: for every non-decreasing arrival sequence (any polling rate), a call
is admitted whenever fewer than `limit` earlier admissions are younger than one window `ticks·res`. -/
theorem fixed_breaker_recovers (b : OB) (hz : b.counts = List.replicate b.ticks 0) (ht : 0 < b.ticks) (hr : 0 < b.res)
    (pre : List Nat) (now : Nat) (hmono : (b.updated :: (pre ++ [now])).Pairwise (· ≤ ·))
    (hfew : ((b.admittedFixed pre).filter (fun t => now < t + b.ticks * b.res)).length < b.limit) :
    ((b.afterFixed pre).callFixed now).2 = true :=
  fixed_recovers_counts b hz ht hr pre now hmono hfew

/-- repaired breaker, rate bound: every window of `(ticks-1)·res` (19/20 of the interval) holds at most `limit`
admissions.  (One tick less than today: a bucketed window cannot be exact on both sides; see the witness below.) -/
theorem fixed_breaker_window (b : OB) (hz : b.counts = List.replicate b.ticks 0) (ht : 0 < b.ticks) (hr : 0 < b.res)
    (ts : List Nat) (hmono : (b.updated :: ts).Pairwise (· ≤ ·)) (a : Nat) :
    ((b.admittedFixed ts).filter (fun t => a ≤ t ∧ t < a + (b.ticks - 1) * b.res)).length ≤ b.limit :=
  fixed_window_counts b hz ht hr ts hmono a

set_option maxRecDepth 40000 in
/-- the repaired breaker on the two witnesses of the defect (it recovers at 201 resp. 209 ns), and the price: two
admissions 191 ns apart with a 200 ns interval -/
theorem fixed_breaker_witnesses :
    (OB.init 1 200).admittedFixed (0 :: pollEvery 0 3 80) = [201, 0] ∧
    (OB.init 1 200).admittedFixed ((List.range 21).map (· * 19)) = [209, 0] ∧
    (OB.init 1 200).admittedFixed [9, 200] = [200, 9] := by
  decide

/-! ## Throttle -/

/-- **Pending bound.**  For any pending limit, any number of submitters (including ones that arrive later), any
interleaving of their critical sections and of `Disable` calls: at most `pendingLimit + 1` submissions are between
the increment and the decrement of `pending`. -/
theorem throttle_pending_bound (pendingLimit : Nat) (disabled : Bool) (n : Nat) (evs : List Thr.Ev) :
    ((Thr.start pendingLimit disabled n).exec evs).waiting ≤ pendingLimit + 1 :=
  by
    have := (exec_inv _ evs (start_inv pendingLimit disabled n)).bound
    rw [exec_pendingLimit] at this
    exact this

/-- as long as the throttle is never disabled, `pending` is exactly the number of waiting submitters (so it returns
to zero when all have returned) -/
theorem throttle_pending_exact (pendingLimit n : Nat) (evs : List Thr.Ev) (h : ∀ e ∈ evs, e ≠ .setDisabled true) :
    ((Thr.start pendingLimit false n).exec evs).pending = ((Thr.start pendingLimit false n).exec evs).waiting :=
  (exec_exact _ evs ⟨by simp [Thr.start, Thr.waiting, List.count_replicate], rfl⟩ h).eq

/-- **Negative witness (replayed on the real code).**  With `Disable(true)`, an overflowing `Submit` increments
`pending` and returns `ThrottleOverflow` without decrementing: with `pendingLimit = 0`, after one overlapping pair
of submissions nobody waits, `pending` is stuck at 1, and every later `Submit` overflows even after `Disable(false)`. -/
theorem throttle_disabled_leak_witness :
    let t := (Thr.start 0 true 2).exec [.sub 0, .sub 1, .sub 0, .setDisabled false, .spawn, .sub 2]
    t.waiting = 0 ∧ t.pending = 1 ∧ t.pcs = [.done, .overflow, .overflow] := by
  decide

/-- **At most once.**  With breakers whose `Do` reports `attempted` exactly when it ran the function, one `Submit`
runs the function at most once, and exactly once iff it reports success — for any number of attempts and any
sequence of breaker states. -/
theorem throttle_once (attempts : Nat) (st : List BKind) (hf : ∀ k ∈ st, k.faithful = true) :
    (submitLoop attempts st).1 ≤ 1 ∧ ((submitLoop attempts st).1 = 1 ↔ (submitLoop attempts st).2 = true) := by
  have := submitLoop_go_once attempts 0 st attempts hf
  unfold submitLoop
  rw [this]
  cases (submitLoop.go attempts 0 st attempts).2 <;> simp

/-- `OutboundBreaker.Do` and `ComboBreaker.Do` are such breakers (from the extracted run/return expressions) -/
theorem throttle_once_outbound_combo (c : Bool) :
    (BKind.outbound c).faithful = true ∧ (BKind.combo c).faithful = true ∧ BKind.comboDisabled.faithful = true := by
  cases c <;> decide

/-- **Negative (confirmed on the real code).**  `SimpleBreaker.Do` runs `f` when `Closed || Disabled` but reports
`Closed`: with a disabled, open SimpleBreaker one `Submit` runs the function once per attempt and still reports
exhaustion. -/
theorem throttle_simple_disabled_runs_every_attempt (attempts : Nat) :
    submitLoop attempts (List.replicate attempts (.simple false true)) = (attempts, false) :=
  simple_disabled_loop attempts attempts 0 (by omega)

/-! ## Capacity -/

/-- **Sequential capacity.**  For every history of `AddFact` / `AddRule` / removals, a location that starts within
its maximum stays within it. -/
theorem capacity_seq (c : Cap) (ops : List CapOp) (hp : ∀ o ∈ ops, Cap.CapOp.public o = true)
    (h : (c.count : Int) ≤ c.maxFacts) : ((c.exec ops).count : Int) ≤ c.maxFacts :=
  cap_exec_le c ops hp h

/-- the gate exactly: an add is refused for capacity iff `MaxFacts ≤ Count` — also when it would only overwrite an
existing id — and a refused add leaves the state (hence the storage) untouched -/
theorem capacity_gate (c : Cap) (id v : String) :
    ((c.step (.addFact id v)).2 = .capacity ↔ c.maxFacts ≤ (c.count : Int)) ∧
    ((c.step (.addRule id v)).2 = .capacity ↔ c.maxFacts ≤ (c.count : Int)) := by
  simp only [Cap.step, addFactGated, addRuleGated, atCapacity, Bool.true_and]
  by_cases hc : c.maxFacts ≤ (c.count : Int) <;> simp [hc]

/-- a refusal is a no-op -/
theorem capacity_refused_noop (c : Cap) (o : CapOp) (h : (c.step o).2 = .capacity) : (c.step o).1 = c := by
  cases o with
  | addFact id v => simp only [Cap.step] at h ⊢; split <;> simp_all
  | addRule id v => simp only [Cap.step] at h ⊢; split <;> simp_all
  | rem id => simp only [Cap.step] at h; split at h <;> simp at h
  | setProp id v => simp [Cap.step] at h

/-- **Negative witness (outside the add operations).**  Property facts written by `SetProp`, `EnableRule(false)`,
`SetParents` reach `state.Add` without the gate: a full location grows past its maximum. -/
theorem capacity_ungated_witness :
    (({ maxFacts := 1, store := [] } : Cap).exec [.addRule "r" "rule", .setProp "!r.disabled" "true"]).count = 2 := by
  decide

/-- **Negative witness, concurrency.**  `AtCapacity` and `state.Add` are separate steps with no common lock: two
adders that both pass the test exceed the maximum. -/
theorem capacity_race_witness :
    (({ maxFacts := 1, count := 0, pcs := [.start, .start] } : CapRace).exec [0, 1, 0, 1]).count = 2 := by
  decide

/-! ## the hypotheses are satisfiable by non-trivial instances -/

example : (OB.init 3 1000000000).counts = List.replicate (OB.init 3 1000000000).ticks 0 ∧ 0 < (OB.init 3 1000000000).ticks
    ∧ 0 < (OB.init 3 1000000000).res := by decide
example : (OB.init 2 200).admitted [5, 6, 7, 100, 205, 215, 216] = [216, 215, 6, 5] := by decide
example : SlowPolled 10 0 [0, 0, 10, 35, 35, 300] := by simp [SlowPolled]
example : FastPolled 10 0 [3, 9, 18, 18] := by simp [FastPolled]
example : ((DoSys.start (OB.init 1 200) [2, 1]).exec [(0, 5), (1, 6), (0, 7), (0, 250), (1, 251)]).admitted = [250, 5] := by
  decide
example : (submitLoop 3 [.outbound false, .outbound true, .outbound true]) = (1, true) := by decide
example : ((Thr.start 1 false 4).exec [.sub 0, .sub 1, .sub 2, .sub 3, .sub 0]).waiting = 1 := by decide
example : (({ maxFacts := 2, store := [] } : Cap).exec [.addFact "a" "1", .addFact "b" "2", .addFact "c" "3", .rem "a",
    .addRule "r" "x"]).store = [("b", "2"), ("r", "x")] := by decide

import RulioProofs.WatchdogThms

/-! # C14 — script execution is contained (property theorems only)

Model: `RulioModel/Watchdog.lean` (the timeout protocol of `core.RunJavascript` as a transition system over
the caller's goroutine, the watchdog goroutine and the runtime timer; `watchdogCleanup` unbuffered and the
recovered Halt returning `(nil, nil)`, exactly as coded; the proposed repair is the same system with
`cleanupBuffered := true`, `haltIsError := true`).  All schedule-quantified statements are about *every* list
of thread ids (induction over the schedule with an invariant of the reachable states), never about an
enumeration of schedules. -/

open Watchdog

/-- **Timeout selection table** (`javascript.go`, the three `if`s before the watchdog block).
(1) `JavascriptTimeouts` off: never a watchdog. (2) a positive location control wins over the system
default. (3) a negative location control disables the watchdog whatever the system default says.
(4,5) control zero (or no location): the system default decides, negative = disabled, and zero really means a
limit of zero (`time.After(0)`). -/
theorem timeout_choice :
    (∀ c : TimeoutCfg, c.timeoutsOn = false → chooseTimeout c = none) ∧
    (∀ c : TimeoutCfg, c.timeoutsOn = true → c.hasLoc = true → 0 < c.control → chooseTimeout c = some c.control) ∧
    (∀ c : TimeoutCfg, c.timeoutsOn = true → c.hasLoc = true → c.control < 0 → chooseTimeout c = none) ∧
    (∀ c : TimeoutCfg, c.timeoutsOn = true → (c.hasLoc = false ∨ c.control = 0) → 0 ≤ c.sysDefault →
        chooseTimeout c = some c.sysDefault) ∧
    (∀ c : TimeoutCfg, c.timeoutsOn = true → (c.hasLoc = false ∨ c.control = 0) → c.sysDefault < 0 →
        chooseTimeout c = none) := by
  refine ⟨?_, ?_, ?_, ?_, ?_⟩
  · intro c h; simp [chooseTimeout, h]
  · intro c h1 h2 h3
    have : c.control ≠ 0 := by omega
    simp [chooseTimeout, effective, fromControl, h1, h2, this]; omega
  · intro c h1 h2 h3
    have : c.control ≠ 0 := by omega
    simp [chooseTimeout, effective, fromControl, h1, h2, this]; omega
  · intro c h1 h2 h3
    rcases h2 with h2 | h2 <;> simp [chooseTimeout, effective, fromControl, h1, h2, h3]
  · intro c h1 h2 h3
    rcases h2 with h2 | h2 <;> simp [chooseTimeout, effective, fromControl, h1, h2] <;> omega

example : chooseTimeout ⟨true, true, 200000000, 60000000000⟩ = some 200000000 := by decide
example : chooseTimeout ⟨true, true, 0, 60000000000⟩ = some 60000000000 := by decide
example : chooseTimeout ⟨true, true, -1, 60000000000⟩ = none := by decide
example : chooseTimeout ⟨true, true, 0, 0⟩ = some 0 := by decide

/-- **Fast path.** A watchdog is installed, the timer does not expire during the call, the script ends by
itself after `n` boundaries (with a value or by throwing). Then under *every* schedule: the caller can only
ever return the script's own outcome and never panics; whenever no thread can move, the call is over with
nothing left behind (caller returned the script's outcome, watchdog goroutine exited, both channels empty and
closed) — i.e. nothing is ever left blocked; and every step that is not blocked strictly decreases the measure
`mu`, whose initial value is `n + 12`, so no schedule performs more than `n + 12` effective steps.
Holds for the channel as coded and for the buffered one of the repair (`c.cleanupBuffered` is arbitrary). -/
theorem fast_path_clean (c : Cfg) (n : Nat) (he : c.enabled = true) (hf : c.fires = false)
    (hp : c.polls = some n) (sched : List Tid) :
    (∀ r, (run c sched (init c)).k.m = .ret r → r = .own) ∧
    (run c sched (init c)).k.m ≠ .panicked ∧
    (stuck c (run c sched (init c)) = true → cleanFinal (run c sched (init c)) .own = true) ∧
    (∀ t s', step c t (run c sched (init c)) = some s' → mu c s' < mu c (run c sched (init c))) ∧
    mu c (init c) = n + 12 ∧
    effSteps c sched (init c) ≤ n + 12 :=
  let h := fast_path c n he hf hp sched
  ⟨h.1, h.2.1, h.2.2.1, h.2.2.2.1, h.2.2.2.2, fast_path_bound c n he hf hp sched⟩

/-- the value of a script that ends with `v` is what the caller gets on that path -/
theorem fast_path_value {α} (n : Nat) (v : α) : resultOf (.value n v) .own = .ok (some v) := rfl

-- the hypotheses are satisfiable, and the final state is reached (a fair schedule, script with 2 boundaries)
example : cleanFinal (run ⟨⟨true, false, false, false⟩, some 2⟩ [.main, .main, .main, .main, .main, .wd, .wd, .main, .main]
    (init ⟨⟨true, false, false, false⟩, some 2⟩)) .own = true := by decide

/-- **No watchdog** (timeouts disabled by any of the three settings): a script that ends by itself returns its
own outcome under every schedule; nothing else can happen. -/
theorem unguarded_returns_own (c : Cfg) (n : Nat) (he : c.enabled = false) (hp : c.polls = some n)
    (sched : List Tid) :
    (∀ r, (run c sched (init c)).k.m = .ret r → r = .own) ∧
    (run c sched (init c)).k.m ≠ .panicked ∧
    (stuck c (run c sched (init c)) = true → (run c sched (init c)).k.m = .ret .own) ∧
    (∀ t s', step c t (run c sched (init c)) = some s' → mu c s' < mu c (run c sched (init c))) :=
  unguarded c n he hp sched

/-- **Errors are never success.** (a) A script that does not compile is reported as a syntax error without
running anything (all three callers compile first). (b) For a script that throws: under every schedule, with
or without a watchdog, whether or not the timer expires, in the tree as coded *and* in the repaired one, if the
caller gets control back then what it gets is an error, never a value and never `(nil, nil)`. -/
theorem error_not_success {α : Type} (n : Nat) (en fi b : Bool) :
    (∀ pre, callScript (Script.syntaxError : Script α) en fi b b pre = .returned (.error .syntax)) ∧
    (∀ (sched : List Tid) (r : Ret),
      (run (cfgOf (Script.throws n : Script α) en fi b b) sched (init (cfgOf (Script.throws n : Script α) en fi b b))).k.m = .ret r →
      ∃ e, resultOf (Script.throws n : Script α) r = .error e) := by
  refine ⟨fun _ => rfl, ?_⟩
  intro sched r hr
  cases b with
  | false =>
    have := coded_returns_own _ rfl sched r hr
    subst this; exact ⟨.thrown, rfl⟩
  | true =>
    cases en with
    | false =>
      have := (unguarded (cfgOf (Script.throws n : Script α) false fi true true) n rfl rfl sched).1 r hr
      subst this; exact ⟨.thrown, rfl⟩
    | true =>
      rcases (fixed_general (cfgOf (Script.throws n : Script α) true fi true true) rfl rfl sched).2.2.1 rfl r hr with h | h
      · subst h; exact ⟨.thrown, rfl⟩
      · subst h; exact ⟨.timeout, rfl⟩

/-- **NEGATIVE (confirmed defect of the unchanged tree): a script that runs past its timeout blocks its caller
for ever.** With the unbuffered `watchdogCleanup` as coded:
(1) for a script that never ends by itself the caller never gets control back, under any schedule, whether or
not the timer expires;
(2) for any script: once the interrupt was taken (`panic(Halt)` unwinds into the deferred
`watchdogCleanup <- true`), the caller stays in that send under every continuation;
(3) concrete witness: set-up, one idle poll, the timer fires, the watchdog sends the interrupt, closes
`Interrupt` and exits, the script's next poll takes the interrupt — the resulting state has the script stopped,
the watchdog gone, the caller in the deferred send, and no thread can move. -/
theorem timeout_path_blocks_caller :
    (∀ (c : Cfg), c.enabled = true → c.cleanupBuffered = false → c.polls = none →
      ∀ sched, returned (run c sched (init c)) = false) ∧
    (∀ (c : Cfg), c.enabled = true → c.cleanupBuffered = false →
      ∀ sched, (run c sched (init c)).k.m = .dSend .halt →
      ∀ more, (run c more (run c sched (init c))).k.m = .dSend .halt ∧
              step c .main (run c more (run c sched (init c))) = none) ∧
    (let c : Cfg := ⟨⟨true, true, false, false⟩, none⟩
     let s := run c [.main, .main, .timer, .wd, .wd, .wd, .main] (init c)
     s.k.m = .dSend .halt ∧ s.k.w = .done ∧ stuck c s = true) :=
  ⟨fun c he hb hp sched => coded_loop_never_returns c he hb hp sched,
   fun c he hb sched hh more => coded_halt_is_forever c he hb sched hh more,
   by decide⟩

/-- **NEGATIVE (same defect, second witness): a script that *finishes* can block its caller too.** The timer
expires while the script is in its last statement (e.g. a native call such as `Env.sleep`): the watchdog sends
the interrupt and exits; the script ends normally with its value; the deferred send has no receiver. -/
theorem late_timer_blocks_caller :
    let c : Cfg := ⟨⟨true, true, false, false⟩, some 0⟩
    let s := run c [.main, .timer, .wd, .wd, .wd, .main] (init c)
    s.k.m = .dSend .fin ∧ s.k.w = .done ∧ stuck c s = true := by decide

/-- **NEGATIVE: the recovered Halt is reported as success.** `RunJavascript` has unnamed results, so the
`return` in the deferred `recover` hands `(nil, nil)` to the caller. The unbuffered channel hides this today
(the caller never gets that far); with only the channel repaired a non-terminating script "succeeds" with the
value nil. -/
theorem halt_reported_as_success :
    let c : Cfg := ⟨⟨true, true, true, false⟩, none⟩
    (run c [.main, .main, .timer, .wd, .wd, .wd, .main, .main, .main, .main] (init c)).k.m = .ret .nilOk ∧
    resultOf (Script.loops : Script Unit) .nilOk = .ok none := ⟨by decide, rfl⟩

/-- **Repair, timeout path.** `watchdogCleanup` buffered (capacity 1) and the recovered Halt returned as an
error; a script that never ends by itself; the timer expires. Under every schedule: the only thing the caller
can ever get back is the timeout error; if no thread can move the caller has returned that error and the
watchdog has exited; the measure `mu` (13 initially) never increases, and in every state where the call is
not over some thread has a step that strictly decreases it — so the call is over after at most 13 steps other
than the script's own idle polls. -/
theorem timeout_path_returns_fixed (c : Cfg) (he : c.enabled = true) (hf : c.fires = true)
    (hb : c.cleanupBuffered = true) (hE : c.haltIsError = true) (hp : c.polls = none) (sched : List Tid) :
    (∀ r, (run c sched (init c)).k.m = .ret r → r = .timeoutErr) ∧
    (stuck c (run c sched (init c)) = true → overFinal (run c sched (init c)) .timeoutErr = true) ∧
    (∀ t s', step c t (run c sched (init c)) = some s' → mu c s' ≤ mu c (run c sched (init c))) ∧
    (overFinal (run c sched (init c)) .timeoutErr = false →
      ∃ t s', step c t (run c sched (init c)) = some s' ∧ mu c s' < mu c (run c sched (init c))) ∧
    mu c (init c) = 13 :=
  fixed_timeout c he hf hb hE hp sched

-- the repaired protocol on the witness schedule of `timeout_path_blocks_caller` (plus the caller's unwinding)
example : overFinal (run ⟨⟨true, true, true, true⟩, none⟩ [.main, .main, .timer, .wd, .wd, .wd, .main, .main, .main, .main]
    (init ⟨⟨true, true, true, true⟩, none⟩)) .timeoutErr = true := by decide

/-- **Repair, every script and every timer behaviour.** With the buffered channel the caller's goroutine is
never blocked: in every reachable state in which it has not returned, its next step is enabled (so whether the
call returns depends only on the script reaching a boundary). If nothing can move, the caller has returned
and the watchdog goroutine has exited. With Halt reported as an error the caller gets the script's own outcome
or the timeout error, nothing else, and never a panic. -/
theorem fixed_caller_never_blocked (c : Cfg) (he : c.enabled = true) (hb : c.cleanupBuffered = true)
    (sched : List Tid) :
    (returned (run c sched (init c)) = false → (step c .main (run c sched (init c))).isSome = true) ∧
    (stuck c (run c sched (init c)) = true →
      returned (run c sched (init c)) = true ∧ (run c sched (init c)).k.w = .done) ∧
    (c.haltIsError = true → ∀ r, (run c sched (init c)).k.m = .ret r → r = .own ∨ r = .timeoutErr) ∧
    (run c sched (init c)).k.m ≠ .panicked :=
  fixed_general c he hb sched

/-- **A failed call is a failed node.** `EvalRuleCondition.Do` and `ExecRuleAction.Do` mark the node `Complete`
exactly when the call returned no error. -/
theorem node_failed_iff_error {α : Type} (r : CallRes α) : nodeComplete r = false ↔ ∃ e, r = .error e := by
  cases r <;> simp [nodeComplete]

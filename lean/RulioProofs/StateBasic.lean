import RulioModel.StateInv

set_option linter.unusedSimpArgs false
set_option linter.unusedVariables false

/-! # Association-list and term-index lemmas (core Lean only) -/

/-! ## filterOut -/

/-- remove the entries whose key is in `D` -/
def filterOut {α} (D : List String) (m : List (String × α)) : List (String × α) :=
  m.filter (fun e => !D.contains e.1)

theorem filterOut_nil {α} (m : List (String × α)) : filterOut [] m = m := by
  simp [filterOut]

theorem filterOut_filterOut {α} (D D' : List String) (m : List (String × α)) :
    filterOut D (filterOut D' m) = filterOut (D' ++ D) m := by
  simp only [filterOut, List.filter_filter]
  apply List.filter_congr
  intro e _
  simp [Bool.and_comm]

theorem amErase_eq_filterOut {α} (m : List (String × α)) (k : String) : amErase m k = filterOut [k] m := by
  simp only [amErase, filterOut]
  apply List.filter_congr
  intro e _
  by_cases h : e.1 = k <;> simp [h]

theorem mem_filterOut {α} {D : List String} {m : List (String × α)} {e : String × α} :
    e ∈ filterOut D m ↔ e ∈ m ∧ e.1 ∉ D := by
  simp [filterOut]

theorem filterOut_sublist {α} (D : List String) (m : List (String × α)) : (filterOut D m).Sublist m :=
  List.filter_sublist

/-! ## amGet / amSet / amErase / amHas -/

theorem amGet_some_mem {α} {m : List (String × α)} {k : String} {v : α} (h : amGet m k = some v) : (k, v) ∈ m := by
  induction m with
  | nil => simp [amGet] at h
  | cons e r ih =>
    obtain ⟨k', v'⟩ := e
    simp only [amGet] at h
    split at h
    · rename_i hk
      simp at hk; simp at h; subst hk; subst h; simp
    · exact List.mem_cons_of_mem _ (ih h)

theorem amGet_none_iff {α} {m : List (String × α)} {k : String} : amGet m k = none ↔ k ∉ m.map (·.1) := by
  induction m with
  | nil => simp [amGet]
  | cons e r ih =>
    obtain ⟨k', v'⟩ := e
    simp only [amGet]
    split
    · rename_i hk; simp at hk; subst hk; simp
    · rename_i hk; simp at hk; simp [ih, hk]

theorem amGet_isSome_iff_st {α} {m : List (String × α)} {k : String} : (amGet m k).isSome ↔ k ∈ m.map (·.1) := by
  cases h : amGet m k with
  | none => simp [amGet_none_iff.1 h]
  | some v =>
    simp only [Option.isSome_some, true_iff]
    exact Classical.byContradiction (fun hn => by rw [amGet_none_iff.2 hn] at h; cases h)

theorem amGet_of_mem_nodup_st {α} {m : List (String × α)} {k : String} {v : α}
    (hn : (m.map (·.1)).Nodup) (h : (k, v) ∈ m) : amGet m k = some v := by
  induction m with
  | nil => simp at h
  | cons e r ih =>
    obtain ⟨k', v'⟩ := e
    simp only [List.map_cons, List.nodup_cons] at hn
    simp only [amGet]
    rcases List.mem_cons.1 h with h1 | h1
    · injection h1 with h1 h2; subst h1; subst h2; simp
    · have : k ≠ k' := by
        rintro rfl
        exact hn.1 (List.mem_map.2 ⟨(k, v), h1, rfl⟩)
      simp [this, ih hn.2 h1]

theorem amHas_eq_isSome {α} (m : List (String × α)) (k : String) : amHas m k = (amGet m k).isSome := by
  induction m with
  | nil => simp [amHas, amGet]
  | cons e r ih =>
    obtain ⟨k', v'⟩ := e
    simp only [amHas, List.any_cons] at ih ⊢
    simp only [amGet]
    by_cases hk : k = k'
    · subst hk; simp
    · have : (k' == k) = false := by simp; exact fun h => hk h.symm
      simp [hk, this, ih]

theorem amGet_amErase_st {α} (m : List (String × α)) (k k' : String) :
    amGet (amErase m k) k' = if k' = k then none else amGet m k' := by
  induction m with
  | nil => simp [amErase, amGet]
  | cons e r ih =>
    obtain ⟨k0, v0⟩ := e
    simp only [amErase, List.filter_cons] at ih ⊢
    by_cases h0 : k0 = k
    · subst h0
      simp only [bne_self_eq_false, Bool.false_eq_true, ↓reduceIte, ih]
      by_cases h1 : k' = k0
      · simp [h1]
      · simp [h1, amGet]
    · have : (k0 != k) = true := by simp [h0]
      simp only [this, ↓reduceIte, amGet, ih]
      by_cases h1 : k' = k0
      · subst h1; simp [h0]
      · simp [h1]

theorem amErase_of_not_mem {α} (m : List (String × α)) (k : String) (h : k ∉ m.map (·.1)) : amErase m k = m := by
  simp only [amErase]
  apply List.filter_eq_self.2
  intro e he
  simp only [bne_iff_ne, ne_eq]
  intro hk
  exact h (List.mem_map.2 ⟨e, he, hk⟩)

theorem length_amErase_of_mem {α} (m : List (String × α)) (k : String)
    (hn : (m.map (·.1)).Nodup) (h : k ∈ m.map (·.1)) : (amErase m k).length + 1 = m.length := by
  induction m with
  | nil => simp at h
  | cons e r ih =>
    obtain ⟨k0, v0⟩ := e
    simp only [List.map_cons, List.nodup_cons] at hn
    simp only [amErase, List.filter_cons]
    by_cases h0 : k0 = k
    · subst h0
      have := amErase_of_not_mem r k0 hn.1
      simp only [amErase] at this
      simp [this]
    · have hk : k ∈ r.map (·.1) := by
        simp only [List.map_cons, List.mem_cons] at h
        rcases h with h | h
        · exact absurd h.symm h0
        · exact h
      have := ih hn.2 hk
      simp only [amErase] at this
      simp [h0, this]

theorem mem_amSet {α} {m : List (String × α)} {k : String} {v : α} {e : String × α} (h : e ∈ amSet m k v) :
    e = (k, v) ∨ (e ∈ m ∧ e.1 ≠ k) := by
  simp only [amSet] at h
  split at h
  · simp only [List.mem_map] at h
    obtain ⟨p, hp, rfl⟩ := h
    by_cases hk : p.1 = k
    · simp [hk]
    · right; simp [hk, hp]
  · rename_i hno
    simp only [List.mem_append, List.mem_singleton] at h
    rcases h with h | h
    · right
      refine ⟨h, ?_⟩
      intro hk
      apply hno
      simp only [List.any_eq_true, beq_iff_eq]
      exact ⟨e, h, hk⟩
    · left; exact h

theorem amSet_keys {α} (m : List (String × α)) (k : String) (v : α) :
    (amSet m k v).map (·.1) = if k ∈ m.map (·.1) then m.map (·.1) else m.map (·.1) ++ [k] := by
  simp only [amSet]
  have hiff : (m.any (fun p => p.1 == k)) = true ↔ k ∈ m.map (·.1) := by
    simp only [List.any_eq_true, beq_iff_eq, List.mem_map]
  by_cases h : k ∈ m.map (·.1)
  · rw [if_pos (hiff.2 h), if_pos h]
    rw [List.map_map]
    apply List.map_congr_left
    intro p _
    by_cases hp : p.1 = k <;> simp [hp]
  · rw [if_neg (fun h' => h (hiff.1 h')), if_neg h]
    simp

theorem amSet_nodup {α} (m : List (String × α)) (k : String) (v : α) (hn : (m.map (·.1)).Nodup) :
    ((amSet m k v).map (·.1)).Nodup := by
  rw [amSet_keys]
  split
  · exact hn
  · rename_i h
    rw [List.nodup_append]
    refine ⟨hn, by simp, ?_⟩
    intro a ha b hb
    simp at hb; subst hb
    intro hab; subst hab; exact h ha

theorem amGet_amSet_st {α} (m : List (String × α)) (k k' : String) (v : α) :
    amGet (amSet m k v) k' = if k' = k then some v else amGet m k' := by
  simp only [amSet]
  split
  · rename_i hany
    induction m with
    | nil => simp at hany
    | cons e r ih =>
      obtain ⟨k0, v0⟩ := e
      simp only [List.map_cons]
      by_cases h0 : k0 = k
      · subst h0
        simp only [beq_self_eq_true, ↓reduceIte, amGet]
        by_cases h1 : k' = k0
        · simp [h1]
        · simp only [h1, ↓reduceIte]
          have : (k' == k0) = false := by simp [h1]
          simp only [this, Bool.false_eq_true, ↓reduceIte]
          by_cases hr : (r.any (fun p => p.1 == k0)) = true
          · rw [ih hr]; simp [h1]
          · -- no other entry with this key: the map is the identity on r
            have : r.map (fun p => if (p.1 == k0) = true then (k0, v) else p) = r := by
              conv => rhs; rw [← List.map_id r]
              apply List.map_congr_left
              intro p hp
              have : ¬ p.1 = k0 := by
                intro hpk; apply hr
                simp only [List.any_eq_true, beq_iff_eq]; exact ⟨p, hp, hpk⟩
              simp [this]
            rw [this]
      · have hne : (k0 == k) = false := by simp [h0]
        simp only [List.any_cons, hne, Bool.false_or] at hany
        simp only [hne, Bool.false_eq_true, ↓reduceIte, amGet, ih hany]
        by_cases h1 : k' = k0
        · subst h1; simp [h0]
        · simp [h1]
  · rename_i hno
    have hnone : amGet m k = none := by
      rw [amGet_none_iff]
      intro hk
      apply hno
      obtain ⟨x, hx, hxk⟩ := List.mem_map.1 hk
      simp only [List.any_eq_true, beq_iff_eq]
      exact ⟨x, hx, hxk⟩
    clear hno
    induction m with
    | nil => simp [amGet]
    | cons e r ih =>
      obtain ⟨k0, v0⟩ := e
      simp only [amGet] at hnone
      split at hnone
      · simp at hnone
      · rename_i hk0
        simp only [List.cons_append, amGet, ih hnone]
        by_cases h1 : k' = k0
        · subst h1
          have : ¬ k' = k := by intro h; subst h; simp at hk0
          simp [this]
        · simp [h1]

/-! ## term index -/

theorem tiWidth_le_of_mem {ti : TI} {e : String × List String} (h : e ∈ ti) : e.2.length ≤ tiWidth ti := by
  induction ti with
  | nil => simp at h
  | cons e0 r ih =>
    obtain ⟨t0, ids0⟩ := e0
    simp only [tiWidth]
    rcases List.mem_cons.1 h with h | h
    · subst h; exact Nat.le_max_left _ _
    · exact Nat.le_trans (ih h) (Nat.le_max_right _ _)

theorem tiWidth_le_iff {ti : TI} {n : Nat} : tiWidth ti ≤ n ↔ ∀ e, e ∈ ti → e.2.length ≤ n := by
  induction ti with
  | nil => simp [tiWidth]
  | cons e0 r ih =>
    obtain ⟨t0, ids0⟩ := e0
    simp only [tiWidth, Nat.max_le, ih, List.mem_cons, forall_eq_or_imp]

theorem amGet_length_le_tiWidth {ti : TI} {t : String} {ids : List String} (h : amGet ti t = some ids) :
    ids.length ≤ tiWidth ti :=
  tiWidth_le_of_mem (amGet_some_mem h)

import RulioProofs.StateSearch
import RulioProofs.StateTerms
import RulioProofs.StateMono

set_option linter.unusedSimpArgs false
set_option linter.unusedVariables false

/-! # Search of both states against the brute-force specification `specSearch` -/

theorem unexpired_of_noneExpired {F : List (String × Obj)} {now : Int}
    (h : ∀ e, e ∈ F → checkExpiration e.2 now = .ok false) : F.filter (fun f => unexpired f.2 now) = F := by
  apply List.filter_eq_self.2
  intro e he
  simp only [unexpired, h e he]

/-- the per-fact step of `specSearch` -/
def specStep (p : Obj) : String × Obj → Except LErr (List (String × List Bs)) := fun (id, f) => do
  let bss ← matchesJ (.obj p) (.obj f)
  pure (if bss.isEmpty then [] else [(id, bss)])

theorem specSearch_eq (F : List (String × Obj)) (p : Obj) (now : Int) :
    specSearch F p now = ((F.filter (fun f => unexpired f.2 now)).mapM (specStep p)).map List.flatten := by
  simp only [specSearch, specStep, bind, Except.bind, pure, Except.pure, Except.map]
  rfl

theorem projRes_append (a b : List (String × Obj × List Bs)) : projRes (a ++ b) = projRes a ++ projRes b := by
  simp [projRes]

/-- a stScan over the ids of a sub-list of the facts is the specification's `mapM` over that sub-list -/
theorem scan_eq_mapM (F : List (String × Obj)) (p : Obj) :
    ∀ (l : List (String × Obj)), (∀ e, e ∈ l → amGet F e.1 = some e.2) → ∀ acc,
    (stScan F p (l.map (·.1)) acc).map projRes = (l.mapM (specStep p)).map (fun per => projRes acc ++ per.flatten) := by
  intro l
  induction l with
  | nil => intro _ acc; simp [stScan, Except.map, pure, Except.pure]
  | cons e r ih =>
    intro hl acc
    obtain ⟨i, f⟩ := e
    have hi : amGet F i = some f := hl (i, f) (by simp)
    have hr : ∀ e, e ∈ r → amGet F e.1 = some e.2 := fun e he => hl e (List.mem_cons_of_mem _ he)
    simp only [List.map_cons, stScan, hi, List.mapM_cons, specStep, bind, Except.bind]
    cases hm : matchesJ (.obj p) (.obj f) with
    | error e => simp [Except.map]
    | ok bss =>
      simp only [pure, Except.pure]
      rw [ih hr]
      cases r.mapM (specStep p) with
      | error e => simp [Except.map, specStep, bind, Except.bind]
      | ok pers =>
        simp only [Except.map, specStep, bind, Except.bind, pure, Except.pure]
        by_cases hb : bss.isEmpty = true
        · simp [hb]
        · simp [hb, projRes_append, projRes]

/-- **linear search = specification**, results and errors alike -/
theorem lspec_eq_spec {s : St} {now : Int} (hk : KeysNodup s) (hne : NoneExpired s now) (p : Obj) :
    (s.lspec p).map projRes = specSearch s.facts p now := by
  rw [specSearch_eq, unexpired_of_noneExpired hne]
  simp only [St.lspec]
  have := scan_eq_mapM s.facts p s.facts (fun e he => amGet_of_mem_nodup_st hk he) []
  rw [this]
  cases s.facts.mapM (specStep p) with
  | error e => rfl
  | ok pers => simp [Except.map, projRes]

/-! ## indexed search -/

theorem hit_fst {F : List (String × Obj)} {p : Obj} {i : String} {x} (h : stHit F p i = some x) : x.1 = i := by
  simp only [stHit] at h
  split at h
  · cases h
  · split at h
    · split at h
      · cases h
      · injection h with h; rw [← h]
    · cases h

theorem nodup_filterMap_hit {F : List (String × Obj)} {p : Obj} {l : List String} (h : l.Nodup) :
    (l.filterMap (stHit F p)).Nodup := by
  apply List.Pairwise.filterMap (stHit F p) _ h
  intro a a' hne b hb b' hb' heq
  apply hne
  rw [← hit_fst hb, ← hit_fst hb', heq]

theorem nodup_projRes_filterMap_hit {F : List (String × Obj)} {p : Obj} {l : List String} (h : l.Nodup) :
    (projRes (l.filterMap (stHit F p))).Nodup := by
  simp only [projRes, List.map_filterMap]
  apply List.Pairwise.filterMap _ _ h
  intro a a' hne b hb b' hb' heq
  apply hne
  simp only [Option.map_eq_some_iff] at hb hb'
  obtain ⟨x, hx, rfl⟩ := hb
  obtain ⟨x', hx', rfl⟩ := hb'
  rw [← hit_fst hx, ← hit_fst hx']
  exact congrArg (Prod.fst : String × List Bs → String) heq

theorem hit_some_iff {F : List (String × Obj)} {p : Obj} {i : String} {x : String × Obj × List Bs} :
    stHit F p i = some x ↔ ∃ fact bss, amGet F i = some fact ∧ matchesJ (.obj p) (.obj fact) = .ok bss ∧ bss ≠ [] ∧
      x = (i, fact, bss) := by
  simp only [stHit]
  constructor
  · intro h
    split at h
    · cases h
    · rename_i fact hg
      split at h
      · rename_i bss hm
        split at h
        · cases h
        · rename_i hne
          injection h with h
          exact ⟨fact, bss, hg, hm, by simpa using hne, h.symm⟩
      · cases h
  · rintro ⟨fact, bss, hg, hm, hne, rfl⟩
    simp only [hg, hm]
    have : bss.isEmpty = false := by cases bss <;> simp at hne ⊢
    simp [this]

/-- every stored fact on which the matcher succeeds with a binding is among the candidates -/
theorem cands_complete {s : St} {p : Obj} (_hk : KeysNodup s) (htiok : TIOK s) (hterm : noVarKeysO p = true)
    (hsound : MatcherSoundOn s.facts p) {i : String} {fact : Obj} {bss : List Bs} (hm : (i, fact) ∈ s.facts)
    (hmatch : matchesJ (.obj p) (.obj fact) = .ok bss) (hne : bss ≠ []) :
    ∃ c, s.cands p = .ok c ∧ i ∈ c := by
  simp only [St.cands]
  by_cases hemp : (extractTerms p).isEmpty = true
  · simp only [hemp, ↓reduceIte]
    exact ⟨_, rfl, List.mem_map.2 ⟨(i, fact), hm, rfl⟩⟩
  · simp only [hemp, Bool.false_eq_true, ↓reduceIte]
    obtain ⟨σ, hσ⟩ := hsound (i, fact) hm bss hmatch hne
    rw [sPmv_obj] at hσ
    simp only at hσ
    apply TI.search_complete
    · intro h; rw [h] at hemp; simp at hemp
    · intro t ht
      apply htiok i fact hm t
      rw [mem_extractTerms] at ht ⊢
      exact pmv_termsO σ p fact fact hterm hσ t ht

theorem cands_nodup {s : St} {p : Obj} {c : List String} (hk : KeysNodup s) (hnd : TINodup s)
    (hc : s.cands p = .ok c) : c.Nodup := by
  simp only [St.cands] at hc
  split at hc
  · injection hc with hc; rw [← hc]; exact hk
  · exact TI.search_nodup hnd hc

theorem cands_length {s : St} {p : Obj} {c : List String} (hc : s.cands p = .ok c) :
    c.length ≤ s.facts.length + tiWidth s.ti := by
  simp only [St.cands] at hc
  split at hc
  · injection hc with hc; rw [← hc]; simp
  · have := TI.search_length_le hc; omega

/-- **indexed search = specification up to order**, whenever the specification does not fail -/
theorem ispec_perm_spec {s : St} {now : Int} (hk : KeysNodup s) (htiok : TIOK s) (hnd : TINodup s)
    (hne : NoneExpired s now) {p : Obj} (hterm : noVarKeysO p = true) (hsound : MatcherSoundOn s.facts p)
    {R : List (String × List Bs)} (hspec : specSearch s.facts p now = .ok R) :
    ∃ R', s.ispec p = .ok R' ∧ (projRes R').Perm R := by
  -- the linear stScan is the specification
  have hl := lspec_eq_spec hk hne p
  rw [hspec] at hl
  cases hls : s.lspec p with
  | error e => rw [hls] at hl; cases hl
  | ok RL =>
    rw [hls] at hl
    simp only [Except.map] at hl
    injection hl with hl
    simp only [St.lspec] at hls
    have hokall := scan_ok_inv hls
    rw [scan_eq_of_ok hokall] at hls
    injection hls with hls
    simp only [List.nil_append] at hls
    -- candidates
    have hcex : ∃ c, s.cands p = .ok c := by
      simp only [St.cands]
      split
      · exact ⟨_, rfl⟩
      · cases hterms : extractTerms p with
        | nil => rename_i hh; rw [hterms] at hh; simp at hh
        | cons t ts => exact ⟨_, TI.search_cons _ _ _⟩
    obtain ⟨c, hc⟩ := hcex
    have hcnd := cands_nodup hk hnd hc
    have hokc : ScanOK s.facts p c := by
      intro i _ fact hg
      exact hokall i (List.mem_map.2 ⟨(i, fact), amGet_some_mem hg, rfl⟩) fact hg
    refine ⟨c.filterMap (stHit s.facts p), ?_, ?_⟩
    · simp only [St.ispec, hc]
      rw [scan_eq_of_ok hokc]; simp
    · rw [← hl, ← hls]
      apply List.Perm.map
      rw [List.perm_ext_iff_of_nodup (nodup_filterMap_hit hcnd) (nodup_filterMap_hit hk)]
      intro x
      simp only [List.mem_filterMap]
      constructor
      · rintro ⟨i, _, hi⟩
        obtain ⟨fact, bss, hg, _, _, _⟩ := hit_some_iff.1 hi
        exact ⟨i, List.mem_map.2 ⟨(i, fact), amGet_some_mem hg, rfl⟩, hi⟩
      · rintro ⟨i, _, hi⟩
        obtain ⟨fact, bss, hg, hm, hne', _⟩ := hit_some_iff.1 hi
        obtain ⟨c', hc', hic⟩ := cands_complete hk htiok hterm hsound (amGet_some_mem hg) hm hne'
        rw [hc] at hc'; injection hc' with hc'; subst hc'
        exact ⟨i, hic, hi⟩

import RulioModel.Conc

/-! # Lemmas for the interleaving semantics: sections of a reader/writer lock are atomic

Main result `sim`: for every schedule, the fine-grained execution, with its open sections run to completion,
equals the sequential execution of whole sections in the order of lock acquisition. -/

namespace Conc

@[simp] theorem upd_same {α} (f : Nat → α) (k : Nat) (v : α) : upd f k v k = v := by simp [upd]
theorem upd_other {α} (f : Nat → α) {k x : Nat} (v : α) (h : x ≠ k) : upd f k v x = f x := by simp [upd, h]

theorem Thread.ext' {a b : Thread} (h1 : a.todo = b.todo) (h2 : a.log = b.log) (h3 : a.mode = b.mode) : a = b := by
  cases a; cases b; simp_all

/-! ### `finish` does not look at `aux`, and a shared section does not change `mem` -/

theorem finish_aux (mem aux aux' : Cell → Val) (log : List Val) (l : List Step) :
    (finish mem aux log l).mem = (finish mem aux' log l).mem ∧
    (finish mem aux log l).log = (finish mem aux' log l).log ∧
    (finish mem aux log l).todo = (finish mem aux' log l).todo := by
  induction l generalizing mem aux aux' log with
  | nil => simp [finish]
  | cons s r ih =>
    cases s with
    | acq w => simp [finish]
    | rel => simp [finish]
    | rd c => simpa [finish] using ih mem aux aux' (log ++ [mem c])
    | wr c f => simpa [finish] using ih (upd mem c (f log)) aux aux' log
    | uwr c f => simpa [finish] using ih mem (upd aux c (f log)) (upd aux' c (f log)) log
    | io => simpa [finish] using ih mem aux aux' log

theorem finish_mem_shared (mem aux : Cell → Val) (log : List Val) (l : List Step) (h : wf (some false) l = true) :
    (finish mem aux log l).mem = mem := by
  induction l generalizing aux log with
  | nil => simp [finish]
  | cons s r ih =>
    cases s with
    | acq w => simp [finish]
    | rel => simp [finish]
    | rd c => simp only [wf] at h; simpa [finish] using ih aux (log ++ [mem c]) h
    | wr c f => simp [wf] at h
    | uwr c f => simp only [wf] at h; simpa [finish] using ih (upd aux c (f log)) log h
    | io => simp only [wf] at h; simpa [finish] using ih aux log h

/-! ### Invariant of reachable configurations of a well-locked program -/

structure LockInv (F : Config) : Prop where
  wf : ∀ t, Conc.wf (F.th t).mode (F.th t).todo = true
  wr : ∀ t, F.writer = some t ↔ (F.th t).mode = some true
  rds : ∀ t, t ∈ F.readers ↔ (F.th t).mode = some false
  excl : F.writer.isSome = true → F.readers = []
  nodup : F.readers.Nodup

theorem lockInv_init (P : Tid → List Step) (m0 : Cell → Val) (h : WellLocked P) : LockInv (init P m0) where
  wf := by intro t; simpa [init] using h t
  wr := by intro t; simp [init]
  rds := by intro t; simp [init]
  excl := by simp [init]
  nodup := by simp [init]

theorem completes_init (P : Tid → List Step) (m0 : Cell → Val) : Completes (init P m0) (init P m0) where
  mem := by simp [init]
  th := by intro t; simp [init]
  idle := by simp [init]

/-- facts about the mode of a thread derived from well-formedness of what it is about to do -/
theorem mode_of_acq {m : Option Bool} {w : Bool} {r : List Step} (h : wf m (.acq w :: r) = true) : m = none := by
  cases m with
  | none => rfl
  | some b => simp [wf] at h

theorem mode_of_rel {m : Option Bool} {r : List Step} (h : wf m (.rel :: r) = true) : ∃ b, m = some b := by
  cases m with
  | none => simp [wf] at h
  | some b => exact ⟨b, rfl⟩

theorem mode_of_rd {m : Option Bool} {c : Cell} {r : List Step} (h : wf m (.rd c :: r) = true) : ∃ b, m = some b := by
  cases m with
  | none => simp [wf] at h
  | some b => exact ⟨b, rfl⟩

theorem mode_of_wr {m : Option Bool} {c : Cell} {f : List Val → Val} {r : List Step} (h : wf m (.wr c f :: r) = true) :
    m = some true := by
  cases m with
  | none => simp [wf] at h
  | some b => cases b <;> simp [wf] at h ⊢

/-! ### One scheduling decision preserves the invariant and the simulation -/

theorem step_nil {F : Config} {t : Tid} (h : (F.th t).todo = []) : step F t = F := by
  simp [step, h]

theorem isLin_nil {F : Config} {t : Tid} (h : (F.th t).todo = []) : isLin F t = false := by
  unfold isLin; simp only [h]; cases (F.th t).mode <;> rfl

theorem isLin_inside {F : Config} {t : Tid} {b : Bool} (h : (F.th t).mode = some b) : isLin F t = false := by
  unfold isLin; simp only [h]

/-- steps that only change the stepping thread (`rd`, `io` inside a section, …): generic bookkeeping -/
theorem lockInv_local {F : Config} (hI : LockInv F) (t : Tid) (T' : Thread) (mem' aux' : Cell → Val)
    (hm : T'.mode = (F.th t).mode) (hw : wf T'.mode T'.todo = true) :
    LockInv { F with mem := mem', aux := aux', th := upd F.th t T' } where
  wf := by
    intro u
    by_cases hu : u = t
    · subst hu; simpa using hw
    · simpa [upd_other _ _ hu] using hI.wf u
  wr := by
    intro u
    by_cases hu : u = t
    · subst hu; simpa [hm] using hI.wr u
    · simpa [upd_other _ _ hu] using hI.wr u
  rds := by
    intro u
    by_cases hu : u = t
    · subst hu; simpa [hm] using hI.rds u
    · simpa [upd_other _ _ hu] using hI.rds u
  excl := hI.excl
  nodup := hI.nodup

def Loc3.same (a b : Loc3) : Prop := a.mem = b.mem ∧ a.log = b.log ∧ a.todo = b.todo

theorem Loc3.same_refl (a : Loc3) : a.same a := ⟨rfl, rfl, rfl⟩

theorem finish_aux_same (mem aux aux' : Cell → Val) (log : List Val) (l : List Step) :
    (finish mem aux' log l).same (finish mem aux log l) := by
  have := finish_aux mem aux' aux log l
  exact this

/-- a step of thread `t` inside its section that leaves "the section run to completion" unchanged -/
theorem completes_inside {F A : Config} (hI : LockInv F) (hC : Completes F A) (t : Tid) (b : Bool) (T' : Thread)
    (mem' aux' : Cell → Val)
    (hb : (F.th t).mode = some b) (hm' : T'.mode = some b)
    (hkey : (finish mem' aux' T'.log T'.todo).same (finish F.mem F.aux (F.th t).log (F.th t).todo))
    (hoth : ∀ u, u ≠ t → ∀ c, (F.th u).mode = some c →
      (finish mem' aux' (F.th u).log (F.th u).todo).same (finish F.mem F.aux (F.th u).log (F.th u).todo))
    (hmem : F.writer = none → mem' = F.mem) :
    Completes { F with mem := mem', aux := aux', th := upd F.th t T' } A where
  mem := by
    have h := hC.mem
    cases hw : F.writer with
    | none => simp only [hw] at h ⊢; rw [h, hmem hw]
    | some u =>
      simp only [hw] at h ⊢
      by_cases hu : u = t
      · subst hu; simp only [upd_same]; rw [h]; exact hkey.1.symm
      · rw [upd_other _ _ hu, h]
        exact ((hoth u hu true ((hI.wr u).1 hw)).1).symm
  th := by
    intro u
    by_cases hu : u = t
    · subst hu
      have h := hC.th u
      simp only [hb] at h
      simp only [upd_same, hm']
      exact ⟨h.1.trans hkey.2.2.symm, h.2.1.trans hkey.2.1.symm, h.2.2⟩
    · have h := hC.th u
      simp only [upd_other _ _ hu]
      cases hmu : (F.th u).mode with
      | none => simpa [hmu] using h
      | some c =>
        simp only [hmu] at h ⊢
        have ho := hoth u hu c hmu
        exact ⟨h.1.trans ho.2.2.symm, h.2.1.trans ho.2.1.symm, h.2.2⟩
  idle := hC.idle

theorem others_trivial {F : Config} (t : Tid) :
    ∀ u, u ≠ t → ∀ c, (F.th u).mode = some c →
      (finish F.mem F.aux (F.th u).log (F.th u).todo).same (finish F.mem F.aux (F.th u).log (F.th u).todo) :=
  fun _ _ _ _ => Loc3.same_refl _

theorem sim_rd {F A : Config} (hI : LockInv F) (hC : Completes F A) (t : Tid) (c : Cell) (rest : List Step)
    (hT : (F.th t).todo = .rd c :: rest) :
    LockInv (step F t) ∧ Completes (step F t) A ∧ isLin F t = false := by
  have hw := hI.wf t
  rw [hT] at hw
  obtain ⟨b, hb⟩ := mode_of_rd hw
  have hs : step F t = { F with mem := F.mem, aux := F.aux, th := upd F.th t { F.th t with todo := rest, log := (F.th t).log ++ [F.mem c] } } := by
    simp only [step, hT]
  rw [hs]
  refine ⟨lockInv_local hI t _ _ _ rfl ?_, completes_inside hI hC t b _ _ _ hb hb ?_ (others_trivial t) (fun _ => rfl), isLin_inside hb⟩
  · simp only [hb] at hw ⊢; simpa [wf] using hw
  · simp only [hT, finish]; exact Loc3.same_refl _

theorem sim_io_inside {F A : Config} (hI : LockInv F) (hC : Completes F A) (t : Tid) (b : Bool) (rest : List Step)
    (hT : (F.th t).todo = .io :: rest) (hb : (F.th t).mode = some b) :
    LockInv (step F t) ∧ Completes (step F t) A ∧ isLin F t = false := by
  have hw := hI.wf t
  rw [hT] at hw
  have hs : step F t = { F with mem := F.mem, aux := F.aux, th := upd F.th t { F.th t with todo := rest } } := by
    simp only [step, hT]
  rw [hs]
  refine ⟨lockInv_local hI t _ _ _ rfl ?_, completes_inside hI hC t b _ _ _ hb hb ?_ (others_trivial t) (fun _ => rfl), isLin_inside hb⟩
  · simp only [hb] at hw ⊢; simpa [wf] using hw
  · simp only [hT, finish]; exact Loc3.same_refl _

theorem sim_uwr_inside {F A : Config} (hI : LockInv F) (hC : Completes F A) (t : Tid) (b : Bool) (c : Cell)
    (f : List Val → Val) (rest : List Step)
    (hT : (F.th t).todo = .uwr c f :: rest) (hb : (F.th t).mode = some b) :
    LockInv (step F t) ∧ Completes (step F t) A ∧ isLin F t = false := by
  have hw := hI.wf t
  rw [hT] at hw
  have hs : step F t = { F with mem := F.mem, aux := upd F.aux c (f (F.th t).log), th := upd F.th t { F.th t with todo := rest } } := by
    simp only [step, hT]
  rw [hs]
  refine ⟨lockInv_local hI t _ _ _ rfl ?_, completes_inside hI hC t b _ _ _ hb hb ?_ ?_ (fun _ => rfl), isLin_inside hb⟩
  · simp only [hb] at hw ⊢; simpa [wf] using hw
  · simp only [hT, finish]; exact Loc3.same_refl _
  · intro u _ _ _; exact finish_aux_same _ _ _ _ _

theorem sim_wr {F A : Config} (hI : LockInv F) (hC : Completes F A) (t : Tid) (c : Cell)
    (f : List Val → Val) (rest : List Step) (hT : (F.th t).todo = .wr c f :: rest) :
    LockInv (step F t) ∧ Completes (step F t) A ∧ isLin F t = false := by
  have hw := hI.wf t
  rw [hT] at hw
  have hb := mode_of_wr hw
  have hwr : F.writer = some t := (hI.wr t).2 hb
  have hs : step F t = { F with mem := upd F.mem c (f (F.th t).log), aux := F.aux, th := upd F.th t { F.th t with todo := rest } } := by
    simp only [step, hT]
  rw [hs]
  refine ⟨lockInv_local hI t _ _ _ rfl ?_, completes_inside hI hC t true _ _ _ hb hb ?_ ?_ ?_, isLin_inside hb⟩
  · simp only [hb] at hw ⊢; simpa [wf] using hw
  · simp only [hT, finish]; exact Loc3.same_refl _
  · intro u hu d hd
    exfalso
    cases d with
    | true => have := (hI.wr u).2 hd; rw [hwr] at this; exact hu (Option.some.inj this).symm
    | false =>
      have hmem := (hI.rds u).2 hd
      have := hI.excl (by simp [hwr])
      rw [this] at hmem; simp at hmem
  · intro h; rw [hwr] at h; simp at h

/-- a step of thread `t` outside any section (performed by both semantics) -/
theorem completes_outside {F A : Config} (hI : LockInv F) (hC : Completes F A) (t : Tid) (T' : Thread)
    (auxF auxA : Cell → Val) (hn : (F.th t).mode = none) (hm' : T'.mode = none) :
    Completes { F with mem := F.mem, aux := auxF, th := upd F.th t T' }
              { A with aux := auxA, th := upd A.th t T' } where
  mem := by
    have h := hC.mem
    cases hw : F.writer with
    | none => simpa [hw] using h
    | some u =>
      have hu : u ≠ t := by
        intro e; subst e; have := (hI.wr u).1 hw; rw [hn] at this; simp at this
      simp only [hw, upd_other _ _ hu] at h ⊢
      rw [h]; exact (finish_aux _ _ _ _ _).1
  th := by
    intro u
    by_cases hu : u = t
    · subst hu; simp only [upd_same, hm']
    · have h := hC.th u
      simp only [upd_other _ _ hu]
      cases hmu : (F.th u).mode with
      | none => simpa [hmu] using h
      | some c =>
        simp only [hmu] at h ⊢
        have ho := finish_aux F.mem auxF F.aux (F.th u).log (F.th u).todo
        exact ⟨h.1.trans ho.2.2.symm, h.2.1.trans ho.2.1.symm, h.2.2⟩
  idle := hC.idle

theorem sim_io_outside {F A : Config} (hI : LockInv F) (hC : Completes F A) (t : Tid) (rest : List Step)
    (hT : (F.th t).todo = .io :: rest) (hn : (F.th t).mode = none) :
    LockInv (step F t) ∧ Completes (step F t) (stepA A t) ∧ isLin F t = true := by
  have hw := hI.wf t
  rw [hT] at hw
  have hA : A.th t = F.th t := by have := hC.th t; simpa [hn] using this
  have hs : step F t = { F with mem := F.mem, aux := F.aux, th := upd F.th t { F.th t with todo := rest } } := by
    simp only [step, hT]
  have hsA : stepA A t = { A with aux := A.aux, th := upd A.th t { F.th t with todo := rest } } := by
    simp only [stepA, hA, hT, hn]
  rw [hs, hsA]
  refine ⟨lockInv_local hI t _ _ _ rfl ?_, completes_outside hI hC t _ _ _ hn hn, ?_⟩
  · simp only [hn] at hw ⊢; simpa [wf] using hw
  · simp only [isLin, hT, hn]

theorem sim_uwr_outside {F A : Config} (hI : LockInv F) (hC : Completes F A) (t : Tid) (c : Cell)
    (f : List Val → Val) (rest : List Step)
    (hT : (F.th t).todo = .uwr c f :: rest) (hn : (F.th t).mode = none) :
    LockInv (step F t) ∧ Completes (step F t) (stepA A t) ∧ isLin F t = true := by
  have hw := hI.wf t
  rw [hT] at hw
  have hA : A.th t = F.th t := by have := hC.th t; simpa [hn] using this
  have hs : step F t = { F with mem := F.mem, aux := upd F.aux c (f (F.th t).log), th := upd F.th t { F.th t with todo := rest } } := by
    simp only [step, hT]
  have hsA : stepA A t = { A with aux := upd A.aux c (f (F.th t).log), th := upd A.th t { F.th t with todo := rest } } := by
    simp only [stepA, hA, hT, hn]
  rw [hs, hsA]
  refine ⟨lockInv_local hI t _ _ _ rfl ?_, completes_outside hI hC t _ _ _ hn hn, ?_⟩
  · simp only [hn] at hw ⊢; simpa [wf] using hw
  · simp only [isLin, hT, hn]

theorem writer_none_of_reader {F : Config} (hI : LockInv F) {t : Tid} (h : (F.th t).mode = some false) :
    F.writer = none := by
  cases hw : F.writer with
  | none => rfl
  | some u =>
    have h1 := hI.excl (by simp [hw])
    have h2 := (hI.rds t).2 h
    rw [h1] at h2; simp at h2

theorem sim_rel {F A : Config} (hI : LockInv F) (hC : Completes F A) (t : Tid) (rest : List Step)
    (hT : (F.th t).todo = .rel :: rest) :
    LockInv (step F t) ∧ Completes (step F t) A ∧ isLin F t = false := by
  have hw := hI.wf t
  rw [hT] at hw
  obtain ⟨b, hb⟩ := mode_of_rel hw
  have hwr : wf none rest = true := by simp only [hb] at hw; simpa [wf] using hw
  have hCt := hC.th t
  simp only [hb, hT, finish] at hCt
  refine ⟨?_, ?_, isLin_inside hb⟩
  · -- invariant
    cases b with
    | true =>
      have hwt : F.writer = some t := (hI.wr t).2 hb
      have hs : step F t = { F with writer := none, th := upd F.th t { F.th t with todo := rest, mode := none } } := by
        simp only [step, hT, hb]
      rw [hs]
      refine ⟨?_, ?_, ?_, ?_, hI.nodup⟩
      · intro u; by_cases hu : u = t
        · subst hu; simpa using hwr
        · simpa [upd_other _ _ hu] using hI.wf u
      · intro u; by_cases hu : u = t
        · subst hu; simp
        · simp only [upd_other _ _ hu]
          constructor
          · intro h; simp at h
          · intro h; have := (hI.wr u).2 h; rw [hwt] at this; exact absurd (Option.some.inj this).symm hu
      · intro u; by_cases hu : u = t
        · subst hu; simp only [upd_same]
          constructor
          · intro h; have := (hI.rds u).1 h; rw [hb] at this; simp at this
          · intro h; simp at h
        · simpa [upd_other _ _ hu] using hI.rds u
      · intro h; simp at h
    | false =>
      have hs : step F t = { F with readers := F.readers.erase t, th := upd F.th t { F.th t with todo := rest, mode := none } } := by
        simp only [step, hT, hb]
      rw [hs]
      refine ⟨?_, ?_, ?_, ?_, hI.nodup.erase t⟩
      · intro u; by_cases hu : u = t
        · subst hu; simpa using hwr
        · simpa [upd_other _ _ hu] using hI.wf u
      · intro u; by_cases hu : u = t
        · subst hu; simp only [upd_same]
          constructor
          · intro h; have := (hI.wr u).1 h; rw [hb] at this; simp at this
          · intro h; simp at h
        · simpa [upd_other _ _ hu] using hI.wr u
      · intro u; by_cases hu : u = t
        · subst hu; simp only [upd_same]
          constructor
          · intro h; exact absurd ((hI.nodup.mem_erase_iff (a := u) (b := u)).1 h).1 (by simp)
          · intro h; simp at h
        · simp only [upd_other _ _ hu]
          rw [List.mem_erase_of_ne hu]; exact hI.rds u
      · intro h
        have := hI.excl h
        simp [this]
  · -- simulation
    have hmemA : A.mem = F.mem := by
      have h := hC.mem
      cases b with
      | true =>
        have hwt : F.writer = some t := (hI.wr t).2 hb
        simpa [hwt, hT, finish] using h
      | false =>
        have := writer_none_of_reader hI hb
        simpa [this] using h
    have hAt : A.th t = { F.th t with todo := rest, mode := none } :=
      Thread.ext' hCt.1 hCt.2.1 hCt.2.2
    cases b with
    | true =>
      have hs : step F t = { F with writer := none, th := upd F.th t { F.th t with todo := rest, mode := none } } := by
        simp only [step, hT, hb]
      rw [hs]
      refine ⟨by simpa using hmemA, ?_, hC.idle⟩
      intro u; by_cases hu : u = t
      · subst hu; simpa using hAt
      · simpa [upd_other _ _ hu] using hC.th u
    | false =>
      have hwn := writer_none_of_reader hI hb
      have hs : step F t = { F with readers := F.readers.erase t, th := upd F.th t { F.th t with todo := rest, mode := none } } := by
        simp only [step, hT, hb]
      rw [hs]
      refine ⟨by simpa [hwn] using hmemA, ?_, hC.idle⟩
      intro u; by_cases hu : u = t
      · subst hu; simpa using hAt
      · simpa [upd_other _ _ hu] using hC.th u

theorem canAcq_idle {A : Config} (h : A.writer = none ∧ A.readers = []) (w : Bool) : canAcq A w = true := by
  simp [canAcq, h.1, h.2]

theorem sim_acq {F A : Config} (hI : LockInv F) (hC : Completes F A) (t : Tid) (w : Bool) (rest : List Step)
    (hT : (F.th t).todo = .acq w :: rest) :
    LockInv (step F t) ∧ Completes (step F t) (if isLin F t then stepA A t else A) := by
  have hw := hI.wf t
  rw [hT] at hw
  have hn := mode_of_acq hw
  have hwr : wf (some w) rest = true := by simp only [hn] at hw; simpa [wf] using hw
  have hA : A.th t = F.th t := by have := hC.th t; simpa [hn] using this
  have hlin : isLin F t = canAcq F w := by simp only [isLin, hT, hn]
  cases hc : canAcq F w with
  | false =>
    have hs : step F t = F := by simp [step, hT, hn, hc]
    rw [hs, hlin, hc]; exact ⟨hI, by simpa using hC⟩
  | true =>
    rw [hlin, hc]
    simp only [if_true]
    have hwn : F.writer = none := by
      simp only [canAcq, Bool.and_eq_true, Option.isNone_iff_eq_none] at hc; exact hc.1
    have hmemA : A.mem = F.mem := by have := hC.mem; simpa [hwn] using this
    have hsA : stepA A t =
        { A with mem := (finish A.mem A.aux (F.th t).log rest).mem, aux := (finish A.mem A.aux (F.th t).log rest).aux,
                 th := upd A.th t { todo := (finish A.mem A.aux (F.th t).log rest).todo,
                                    log := (finish A.mem A.aux (F.th t).log rest).log, mode := none } } := by
      simp only [stepA, hA, hT, hn, canAcq_idle hC.idle w, if_true]
    have hfa := finish_aux F.mem A.aux F.aux (F.th t).log rest
    cases w with
    | true =>
      have hre : F.readers = [] := by
        simp only [canAcq, Bool.and_eq_true, Bool.not_true, Bool.false_or, List.isEmpty_iff] at hc; exact hc.2
      have hs : step F t = { F with writer := some t, th := upd F.th t { F.th t with todo := rest, mode := some true } } := by
        simp [step, hT, hn, hc]
      rw [hs, hsA]
      refine ⟨⟨?_, ?_, ?_, ?_, hI.nodup⟩, ⟨?_, ?_, hC.idle⟩⟩
      · intro u; by_cases hu : u = t
        · subst hu; simpa using hwr
        · simpa [upd_other _ _ hu] using hI.wf u
      · intro u; by_cases hu : u = t
        · subst hu; simp
        · simp only [upd_other _ _ hu]
          constructor
          · intro h; exact absurd (Option.some.inj h).symm hu
          · intro h; have := (hI.wr u).2 h; rw [hwn] at this; simp at this
      · intro u; by_cases hu : u = t
        · subst hu; simp only [upd_same]
          constructor
          · intro h; rw [hre] at h; simp at h
          · intro h; simp at h
        · simpa [upd_other _ _ hu] using hI.rds u
      · intro _; exact hre
      · simp only [upd_same]; rw [hmemA]; exact hfa.1
      · intro u; by_cases hu : u = t
        · subst hu; simp only [upd_same]; rw [hmemA]; exact ⟨hfa.2.2, hfa.2.1, trivial⟩
        · have h := hC.th u
          simp only [upd_other _ _ hu]
          cases hmu : (F.th u).mode with
          | none => simpa [hmu] using h
          | some c =>
            exfalso
            cases c with
            | true => have := (hI.wr u).2 hmu; rw [hwn] at this; simp at this
            | false => have := (hI.rds u).2 hmu; rw [hre] at this; simp at this
    | false =>
      have hs : step F t = { F with readers := t :: F.readers, th := upd F.th t { F.th t with todo := rest, mode := some false } } := by
        simp [step, hT, hn, hc]
      have hnot : t ∉ F.readers := by
        intro h; have := (hI.rds t).1 h; rw [hn] at this; simp at this
      rw [hs, hsA]
      refine ⟨⟨?_, ?_, ?_, ?_, ?_⟩, ⟨?_, ?_, hC.idle⟩⟩
      · intro u; by_cases hu : u = t
        · subst hu; simpa using hwr
        · simpa [upd_other _ _ hu] using hI.wf u
      · intro u; by_cases hu : u = t
        · subst hu; simp [hwn]
        · simpa [upd_other _ _ hu] using hI.wr u
      · intro u; by_cases hu : u = t
        · subst hu; simp
        · simp only [upd_other _ _ hu, List.mem_cons, hu, false_or]; exact hI.rds u
      · intro h; simp [hwn] at h
      · exact List.nodup_cons.2 ⟨hnot, hI.nodup⟩
      · simp only [hwn]; rw [hmemA]; exact finish_mem_shared _ _ _ _ hwr
      · intro u; by_cases hu : u = t
        · subst hu; simp only [upd_same]; rw [hmemA]; exact ⟨hfa.2.2, hfa.2.1, trivial⟩
        · have h := hC.th u
          simp only [upd_other _ _ hu]
          cases hmu : (F.th u).mode with
          | none => simpa [hmu] using h
          | some c => simpa [hmu] using h

theorem step_sim {F A : Config} (hI : LockInv F) (hC : Completes F A) (t : Tid) :
    LockInv (step F t) ∧ Completes (step F t) (if isLin F t then stepA A t else A) := by
  cases hT : (F.th t).todo with
  | nil => rw [step_nil hT, isLin_nil hT]; exact ⟨hI, by simpa using hC⟩
  | cons s rest =>
    cases s with
    | acq w => exact sim_acq hI hC t w rest hT
    | rel => obtain ⟨a, b, c⟩ := sim_rel hI hC t rest hT; rw [c]; exact ⟨a, by simpa using b⟩
    | rd c => obtain ⟨a, b, c⟩ := sim_rd hI hC t c rest hT; rw [c]; exact ⟨a, by simpa using b⟩
    | wr c f => obtain ⟨a, b, c⟩ := sim_wr hI hC t c f rest hT; rw [c]; exact ⟨a, by simpa using b⟩
    | uwr c f =>
      cases hm : (F.th t).mode with
      | none => obtain ⟨a, b, c⟩ := sim_uwr_outside hI hC t c f rest hT hm; rw [c]; exact ⟨a, by simpa using b⟩
      | some m => obtain ⟨a, b, c⟩ := sim_uwr_inside hI hC t m c f rest hT hm; rw [c]; exact ⟨a, by simpa using b⟩
    | io =>
      cases hm : (F.th t).mode with
      | none => obtain ⟨a, b, c⟩ := sim_io_outside hI hC t rest hT hm; rw [c]; exact ⟨a, by simpa using b⟩
      | some m => obtain ⟨a, b, c⟩ := sim_io_inside hI hC t m rest hT hm; rw [c]; exact ⟨a, by simpa using b⟩

/-- **Simulation**, by induction over the schedule: the fine-grained run with its open sections completed is
the sequential run of whole sections in lock-acquisition order. -/
theorem sim {F A : Config} (hI : LockInv F) (hC : Completes F A) (σ : List Tid) :
    LockInv (exec F σ) ∧ Completes (exec F σ) (execA A (linOrder F σ)) := by
  induction σ generalizing F A with
  | nil => exact ⟨hI, hC⟩
  | cons t σ ih =>
    obtain ⟨hI', hC'⟩ := step_sim hI hC t
    have := ih hI' hC'
    simp only [exec, List.foldl_cons] at this ⊢
    simp only [linOrder]
    cases hl : isLin F t with
    | true => simpa [hl, execA] using this
    | false => simpa [hl, execA] using this

/-- the order is built left to right: what was acquired during a prefix of the schedule precedes whatever
is acquired afterwards (so a section that ended before another began comes first) -/
theorem linOrder_append (C : Config) (σ₁ σ₂ : List Tid) :
    linOrder C (σ₁ ++ σ₂) = linOrder C σ₁ ++ linOrder (exec C σ₁) σ₂ := by
  induction σ₁ generalizing C with
  | nil => simp [linOrder, exec]
  | cons t σ ih =>
    simp only [List.cons_append, linOrder, exec, List.foldl_cons]
    cases isLin C t <;> simp [ih, exec]

theorem linOrder_sublist (C : Config) (σ : List Tid) : (linOrder C σ).Sublist σ := by
  induction σ generalizing C with
  | nil => simp [linOrder]
  | cons t σ ih =>
    simp only [linOrder]
    cases isLin C t with
    | true => simpa using (ih (step C t)).cons_cons t
    | false => simpa using (ih (step C t)).cons t

/-- at quiescence "completed" is "equal" -/
theorem completes_quiescent {F A : Config} (hI : LockInv F) (hC : Completes F A) (hq : Quiescent F) :
    A.mem = F.mem ∧ ∀ t, A.th t = F.th t := by
  have hwn : F.writer = none := by
    cases hw : F.writer with
    | none => rfl
    | some u => have := (hI.wr u).1 hw; rw [hq u] at this; simp at this
  refine ⟨by simpa [hwn] using hC.mem, fun t => ?_⟩
  have := hC.th t
  simpa [hq t] using this

/-! ### The sequential semantics really is "one thread runs alone for a whole section" -/

/-- number of scheduling decisions a section body (after its `acq`) takes up to and including `rel` -/
def bodyLen : List Step → Nat
  | [] => 0
  | .rel :: _ => 1
  | .acq _ :: _ => 0
  | _ :: r => bodyLen r + 1

theorem exec_replicate_body (C : Config) (t : Tid) (b : Bool) (hm : (C.th t).mode = some b)
    (hw : wf (some b) (C.th t).todo = true)
    (hb : b = true → C.writer = some t) :
    let r := finish C.mem C.aux (C.th t).log (C.th t).todo
    let C' := exec C (List.replicate (bodyLen (C.th t).todo) t)
    C'.mem = r.mem ∧ C'.aux = r.aux ∧ (C'.th t).todo = r.todo ∧ (C'.th t).log = r.log ∧ (C'.th t).mode = none ∧
    (∀ u, u ≠ t → C'.th u = C.th u) ∧
    C'.writer = (if b then none else C.writer) ∧ C'.readers = (if b then C.readers else C.readers.erase t) := by
  generalize hl : (C.th t).todo = l at hw
  induction l generalizing C with
  | nil => simp [wf] at hw
  | cons s rest ih =>
    cases s with
    | acq w => simp [wf] at hw
    | rel =>
      cases b with
      | true => simp [bodyLen, exec, step, hl, hm, finish]; intro u hu; exact upd_other _ _ hu
      | false => simp [bodyLen, exec, step, hl, hm, finish]; intro u hu; exact upd_other _ _ hu
    | rd c =>
      have hw' : wf (some b) rest = true := by simpa [wf] using hw
      let C1 : Config := { C with th := upd C.th t { C.th t with todo := rest, log := (C.th t).log ++ [C.mem c] } }
      have hs : step C t = C1 := by simp only [step, hl]; rfl
      have := ih C1 (by simp [C1, hm]) (by simpa [C1] using hb) (by simp [C1]) hw'
      simp only [bodyLen, List.replicate_succ, exec, List.foldl_cons, hs, finish]
      simp only [exec, C1, upd_same] at this
      refine ⟨this.1, this.2.1, this.2.2.1, this.2.2.2.1, this.2.2.2.2.1, ?_, this.2.2.2.2.2.2⟩
      intro u hu; rw [this.2.2.2.2.2.1 u hu]; exact upd_other _ _ hu
    | wr c f =>
      have hbt : b = true := by cases b <;> simp [wf] at hw ⊢
      subst hbt
      have hw' : wf (some true) rest = true := by simpa [wf] using hw
      let C1 : Config := { C with mem := upd C.mem c (f (C.th t).log), th := upd C.th t { C.th t with todo := rest } }
      have hs : step C t = C1 := by simp only [step, hl]; rfl
      have := ih C1 (by simp [C1, hm]) (by simpa [C1] using hb) (by simp [C1]) hw'
      simp only [bodyLen, List.replicate_succ, exec, List.foldl_cons, hs, finish]
      simp only [exec, C1, upd_same] at this
      refine ⟨this.1, this.2.1, this.2.2.1, this.2.2.2.1, this.2.2.2.2.1, ?_, this.2.2.2.2.2.2⟩
      intro u hu; rw [this.2.2.2.2.2.1 u hu]; exact upd_other _ _ hu
    | uwr c f =>
      have hw' : wf (some b) rest = true := by simpa [wf] using hw
      let C1 : Config := { C with aux := upd C.aux c (f (C.th t).log), th := upd C.th t { C.th t with todo := rest } }
      have hs : step C t = C1 := by simp only [step, hl]; rfl
      have := ih C1 (by simp [C1, hm]) (by simpa [C1] using hb) (by simp [C1]) hw'
      simp only [bodyLen, List.replicate_succ, exec, List.foldl_cons, hs, finish]
      simp only [exec, C1, upd_same] at this
      refine ⟨this.1, this.2.1, this.2.2.1, this.2.2.2.1, this.2.2.2.2.1, ?_, this.2.2.2.2.2.2⟩
      intro u hu; rw [this.2.2.2.2.2.1 u hu]; exact upd_other _ _ hu
    | io =>
      have hw' : wf (some b) rest = true := by simpa [wf] using hw
      let C1 : Config := { C with th := upd C.th t { C.th t with todo := rest } }
      have hs : step C t = C1 := by simp only [step, hl]; rfl
      have := ih C1 (by simp [C1, hm]) (by simpa [C1] using hb) (by simp [C1]) hw'
      simp only [bodyLen, List.replicate_succ, exec, List.foldl_cons, hs, finish]
      simp only [exec, C1, upd_same] at this
      refine ⟨this.1, this.2.1, this.2.2.1, this.2.2.2.1, this.2.2.2.2.1, ?_, this.2.2.2.2.2.2⟩
      intro u hu; rw [this.2.2.2.2.2.1 u hu]; exact upd_other _ _ hu

theorem Config.ext' {a b : Config} (h1 : a.mem = b.mem) (h2 : a.aux = b.aux) (h3 : a.writer = b.writer)
    (h4 : a.readers = b.readers) (h5 : ∀ t, a.th t = b.th t) : a = b := by
  cases a; cases b; simp_all; exact funext h5

/-- a step of the sequential semantics that runs a section = the thread scheduled alone, `acq … rel` -/
theorem stepA_serial (C : Config) (t : Tid) (w : Bool) (rest : List Step)
    (hT : (C.th t).todo = .acq w :: rest) (hn : (C.th t).mode = none) (hc : canAcq C w = true)
    (hw : wf (some w) rest = true) :
    stepA C t = exec C (List.replicate (bodyLen rest + 1) t) := by
  have hwn : C.writer = none := by
    simp only [canAcq, Bool.and_eq_true, Option.isNone_iff_eq_none] at hc; exact hc.1
  cases w with
  | true =>
    let C1 : Config := { C with writer := some t, th := upd C.th t { C.th t with todo := rest, mode := some true } }
    have hs : step C t = C1 := by simp [step, hT, hn, hc]; rfl
    have h := exec_replicate_body C1 t true (by simp [C1]) (by simpa [C1] using hw) (by simp [C1])
    simp only [C1, upd_same] at h
    simp only [List.replicate_succ, exec, List.foldl_cons, hs]
    simp only [exec] at h
    apply Config.ext'
    · simp only [stepA, hT, hn, hc, if_true]; exact h.1.symm
    · simp only [stepA, hT, hn, hc, if_true]; exact h.2.1.symm
    · simp only [stepA, hT, hn, hc, if_true]; rw [h.2.2.2.2.2.2.1]; simpa using hwn
    · simp only [stepA, hT, hn, hc, if_true]; rw [h.2.2.2.2.2.2.2]; simp
    · intro u
      simp only [stepA, hT, hn, hc, if_true]
      by_cases hu : u = t
      · subst hu; simp only [upd_same]
        exact Thread.ext' h.2.2.1.symm h.2.2.2.1.symm h.2.2.2.2.1.symm
      · rw [upd_other _ _ hu, h.2.2.2.2.2.1 u hu, upd_other _ _ hu]
  | false =>
    let C1 : Config := { C with readers := t :: C.readers, th := upd C.th t { C.th t with todo := rest, mode := some false } }
    have hs : step C t = C1 := by simp [step, hT, hn, hc]; rfl
    have h := exec_replicate_body C1 t false (by simp [C1]) (by simpa [C1] using hw) (by simp)
    simp only [C1, upd_same] at h
    simp only [List.replicate_succ, exec, List.foldl_cons, hs]
    simp only [exec] at h
    apply Config.ext'
    · simp only [stepA, hT, hn, hc, if_true]; exact h.1.symm
    · simp only [stepA, hT, hn, hc, if_true]; exact h.2.1.symm
    · simp only [stepA, hT, hn, hc, if_true]; rw [h.2.2.2.2.2.2.1]; simp
    · simp only [stepA, hT, hn, hc, if_true]; rw [h.2.2.2.2.2.2.2]; simp
    · intro u
      simp only [stepA, hT, hn, hc, if_true]
      by_cases hu : u = t
      · subst hu; simp only [upd_same]
        exact Thread.ext' h.2.2.1.symm h.2.2.2.1.symm h.2.2.2.2.1.symm
      · rw [upd_other _ _ hu, h.2.2.2.2.2.1 u hu, upd_other _ _ hu]

/-- sequential composition of well-locked pieces -/
theorem wf_append (m : Option Bool) (a b : List Step) (ha : wf m a = true) (hb : wf none b = true) :
    wf m (a ++ b) = true := by
  induction a generalizing m with
  | nil => cases m with
    | none => simpa using hb
    | some _ => simp [wf] at ha
  | cons s r ih =>
    cases s with
    | acq w => cases m with
      | none => simp only [List.cons_append, wf] at ha ⊢; exact ih _ ha
      | some _ => simp [wf] at ha
    | rel => cases m with
      | none => simp [wf] at ha
      | some _ => simp only [List.cons_append, wf] at ha ⊢; exact ih _ ha
    | rd c => cases m with
      | none => simp [wf] at ha
      | some _ => simp only [List.cons_append, wf] at ha ⊢; exact ih _ ha
    | wr c f => cases m with
      | none => simp [wf] at ha
      | some b => cases b with
        | true => simp only [List.cons_append, wf] at ha ⊢; exact ih _ ha
        | false => simp [wf] at ha
    | uwr c f => simp only [List.cons_append, wf] at ha ⊢; exact ih _ ha
    | io => simp only [List.cons_append, wf] at ha ⊢; exact ih _ ha

theorem wf_flatten (l : List (List Step)) (h : ∀ p ∈ l, wf none p = true) : wf none l.flatten = true := by
  induction l with
  | nil => simp [wf]
  | cons p r ih =>
    simp only [List.flatten_cons]
    exact wf_append none p _ (h p (by simp)) (ih (fun q hq => h q (by simp [hq])))

theorem wf_io (m : Option Bool) (r : List Step) : wf m (.io :: r) = wf m r := by
  cases m with
  | none => simp [wf]
  | some b => simp [wf]

/-- the table-level discipline of a flattened row implies the step-level discipline of every instance -/
theorem wf_inst (I : Interp) (drop : List Field) (m : Option Bool) (l : List Acc) (h : wfAcc drop m l = true) :
    wf m (l.map (inst I drop)) = true := by
  induction l generalizing m with
  | nil => cases m <;> simp_all [wfAcc, wf]
  | cons a r ih =>
    cases a with
    | lock w => cases m with
      | none => simp only [wfAcc] at h; simpa [inst, wf] using ih _ h
      | some _ => simp [wfAcc] at h
    | unlock w => cases m with
      | none => simp [wfAcc] at h
      | some b => simp only [wfAcc, Bool.and_eq_true] at h; simpa [inst, wf] using ih _ h.2
    | rd f =>
      have h2 : wfAcc drop m r = true := by simp [wfAcc] at h; exact h.2
      by_cases hd : f ∈ drop
      · simp only [List.map_cons, inst, List.contains_eq_mem, hd, decide_true, if_true, wf_io]; exact ih _ h2
      · cases m with
        | none => simp [wfAcc, hd] at h
        | some b => simp only [List.map_cons, inst, List.contains_eq_mem, hd, decide_false]; simpa [wf] using ih _ h2
    | wr f =>
      have h2 : wfAcc drop m r = true := by simp [wfAcc] at h; exact h.2
      by_cases hd : f ∈ drop
      · simp only [List.map_cons, inst, List.contains_eq_mem, hd, decide_true, if_true, wf_io]; exact ih _ h2
      · cases m with
        | none => simp [wfAcc, hd] at h
        | some b => cases b with
          | true => simp only [List.map_cons, inst, List.contains_eq_mem, hd, decide_false]; simpa [wf] using ih _ h2
          | false => simp [wfAcc, hd] at h
    | call c => simp [wfAcc] at h
    | store op => simp only [wfAcc] at h; simpa [inst, wf] using ih _ h
    | hook k => simp only [wfAcc] at h; simpa [inst, wf] using ih _ h
    | lock2 k => simp only [wfAcc] at h; simpa [inst, wf] using ih _ h
    | unlock2 k => simp only [wfAcc] at h; simpa [inst, wf] using ih _ h

/-! ### Single writer per id: final memory and storage are determined by the writer's program alone -/

structure OwnInv (owner : Tid) (cm cs : Cell) (M S : Val) (C : Config) : Prop where
  others : ∀ t, t ≠ owner → noWr cm cs (C.th t).todo = true
  const : constWr cm cs (C.th owner).todo
  pm : pendM cm (C.th owner).todo (C.mem cm) = M
  ps : pendS cs (C.th owner).todo (C.aux cs) = S

/-- what one scheduling decision can do: nothing, or consume the head step with its memory effect -/
theorem step_cases (C : Config) (t : Tid) :
    step C t = C ∨
    ∃ s rest, (C.th t).todo = s :: rest ∧ ((step C t).th t).todo = rest ∧
      (∀ u, u ≠ t → (step C t).th u = C.th u) ∧
      (step C t).mem = (match s with | .wr c f => upd C.mem c (f (C.th t).log) | _ => C.mem) ∧
      (step C t).aux = (match s with | .uwr c f => upd C.aux c (f (C.th t).log) | _ => C.aux) := by
  cases hT : (C.th t).todo with
  | nil => left; simp [step, hT]
  | cons s rest =>
    cases s with
    | acq w =>
      by_cases hc : ((C.th t).mode.isNone && canAcq C w) = true
      · right; refine ⟨_, _, rfl, ?_⟩
        cases w <;> simp [step, hT, hc] <;> intro u hu <;> exact upd_other _ _ hu
      · left; simp [step, hT, hc]
    | rel =>
      cases hm : (C.th t).mode with
      | none => left; simp [step, hT, hm]
      | some b =>
        right; refine ⟨_, _, rfl, ?_⟩
        cases b <;> simp [step, hT, hm] <;> intro u hu <;> exact upd_other _ _ hu
    | rd c => right; refine ⟨_, _, rfl, ?_⟩; simp [step, hT]; intro u hu; exact upd_other _ _ hu
    | wr c f => right; refine ⟨_, _, rfl, ?_⟩; simp [step, hT]; intro u hu; exact upd_other _ _ hu
    | uwr c f => right; refine ⟨_, _, rfl, ?_⟩; simp [step, hT]; intro u hu; exact upd_other _ _ hu
    | io => right; refine ⟨_, _, rfl, ?_⟩; simp [step, hT]; intro u hu; exact upd_other _ _ hu

theorem ownInv_step {owner : Tid} {cm cs : Cell} {M S : Val} {C : Config} (h : OwnInv owner cm cs M S C) (t : Tid) :
    OwnInv owner cm cs M S (step C t) := by
  rcases step_cases C t with he | ⟨s, rest, hT, hrest, hoth, hmem, haux⟩
  · rw [he]; exact h
  · by_cases ht : t = owner
    · subst ht
      have hc := h.const
      have hpm := h.pm
      have hps := h.ps
      rw [hT] at hc hpm hps
      refine ⟨fun u hu => by rw [hoth u hu]; exact h.others u hu, ?_, ?_, ?_⟩
      · rw [hrest]; cases s <;> simp_all [constWr]
      · rw [hrest, hmem]
        cases s with
        | wr c f =>
          simp only [pendM] at hpm
          by_cases hcc : c = cm
          · subst hcc
            have hcf : ∀ l, f l = f [] := (show (c = c → ∀ l, f l = f []) ∧ _ from hc).1 rfl
            simpa [upd_same, hcf (C.th t).log] using hpm
          · simp only [hcc, if_false] at hpm
            have : cm ≠ c := fun e => hcc e.symm
            simpa [upd_other _ _ this] using hpm
        | _ => simpa [pendM] using hpm
      · rw [hrest, haux]
        cases s with
        | uwr c f =>
          simp only [pendS] at hps
          by_cases hcc : c = cs
          · subst hcc
            have hcf : ∀ l, f l = f [] := (show (c = c → ∀ l, f l = f []) ∧ _ from hc).1 rfl
            simpa [upd_same, hcf (C.th t).log] using hps
          · simp only [hcc, if_false] at hps
            have : cs ≠ c := fun e => hcc e.symm
            simpa [upd_other _ _ this] using hps
        | _ => simpa [pendS] using hps
    · have hnw := h.others t ht
      rw [hT] at hnw
      have ho : (step C t).th owner = C.th owner := hoth owner (fun e => ht e.symm)
      refine ⟨?_, by rw [ho]; exact h.const, ?_, ?_⟩
      · intro u hu
        by_cases hut : u = t
        · subst hut; rw [hrest]; cases s <;> simp_all [noWr]
        · rw [hoth u hut]; exact h.others u hu
      · rw [ho, hmem]
        cases s with
        | wr c f =>
          simp only [noWr, Bool.and_eq_true, bne_iff_ne] at hnw
          have : cm ≠ c := fun e => hnw.1 e.symm
          simpa [upd_other _ _ this] using h.pm
        | _ => exact h.pm
      · rw [ho, haux]
        cases s with
        | uwr c f =>
          simp only [noWr, Bool.and_eq_true, bne_iff_ne] at hnw
          have : cs ≠ c := fun e => hnw.1 e.symm
          simpa [upd_other _ _ this] using h.ps
        | _ => exact h.ps

theorem ownInv_exec {owner : Tid} {cm cs : Cell} {M S : Val} {C : Config} (h : OwnInv owner cm cs M S C) (σ : List Tid) :
    OwnInv owner cm cs M S (exec C σ) := by
  induction σ generalizing C with
  | nil => exact h
  | cons t σ ih => simpa [exec] using ih (ownInv_step h t)

end Conc

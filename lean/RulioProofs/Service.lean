import RulioModel.Service

/-! Helper lemmas for `Props/C18.lean` (service layer). -/

namespace Svc
open Gen.C18

/-! ## DWIMURI -/

theorem dropParamsAux_noq : ∀ (cs : List Char) (b : Bool), '?' ∉ dropParamsAux b cs := by
  intro cs
  induction cs with
  | nil => intro b; cases b <;> simp [dropParamsAux]
  | cons c cs ih =>
    intro b
    cases b with
    | true =>
      simp only [dropParamsAux]
      split
      · rename_i h; subst h; simp [ih false]
      · exact ih true
    | false =>
      simp only [dropParamsAux]
      split
      · exact ih true
      · rename_i h
        simp only [List.mem_cons, not_or]
        exact ⟨fun e => h e.symm, ih false⟩

theorem dropParamsAux_id : ∀ (cs : List Char), '?' ∉ cs → dropParamsAux false cs = cs := by
  intro cs
  induction cs with
  | nil => intro _; simp [dropParamsAux]
  | cons c cs ih =>
    intro h
    simp only [List.mem_cons, not_or] at h
    simp only [dropParamsAux]
    rw [if_neg (fun e => h.1 e.symm), ih h.2]

theorem dropParamsAux_true_nonl : ∀ (q : List Char), '\n' ∉ q → dropParamsAux true q = [] := by
  intro q
  induction q with
  | nil => intro _; simp [dropParamsAux]
  | cons c cs ih =>
    intro h
    simp only [List.mem_cons, not_or] at h
    simp only [dropParamsAux]
    rw [if_neg (fun e => h.1 e.symm), ih h.2]

theorem dropParamsAux_append_q : ∀ (u q : List Char), '?' ∉ u →
    dropParamsAux false (u ++ '?' :: q) = u ++ dropParamsAux true q := by
  intro u
  induction u with
  | nil => intro q _; simp [dropParamsAux]
  | cons c cs ih =>
    intro q h
    simp only [List.mem_cons, not_or] at h
    simp only [List.cons_append, dropParamsAux]
    rw [if_neg (fun e => h.1 e.symm), ih q h.2]

theorem dropV_subset (r : List Char) : ∀ x ∈ dropV r, x ∈ r := by
  intro x hx
  unfold dropV at hx
  split at hx
  · simp [hx]
  · exact hx

theorem dropV_ne {c : Char} (h : c ≠ 'v') (r : List Char) : dropV (c :: r) = c :: r := by
  unfold dropV
  split
  · rename_i t heq
    cases heq
    exact absurd rfl h
  · rfl

theorem dropVersionL_subset (cs : List Char) : ∀ x ∈ dropVersionL cs, x ∈ cs := by
  intro x hx
  unfold dropVersionL at hx
  split at hx
  · rename_i r
    split at hx
    · rename_i c t heq
      split at hx
      · have hmem : x ∈ t := (List.dropWhile_suffix isVerChar).subset hx
        have : x ∈ dropV r := by rw [heq]; simp [hmem]
        simp [dropV_subset r x this]
      · exact hx
    · exact hx
  · exact hx

theorem dropVersionL_slash_a (r : List Char) : dropVersionL ('/' :: 'a' :: r) = '/' :: 'a' :: r := by
  simp [dropVersionL, dropV, isVerChar]

theorem apiL_noq : '?' ∉ apiL := by decide

theorem dwimL_apiL_append (t : List Char) (h : '?' ∉ t) : dwimL (apiL ++ t) = apiL ++ t := by
  have h1 : dropParamsL (apiL ++ t) = apiL ++ t := by
    apply dropParamsAux_id
    simp only [List.mem_append, not_or]
    exact ⟨apiL_noq, h⟩
  have h2 : dropVersionL (apiL ++ t) = apiL ++ t := by
    simp [apiL, dropVersionL_slash_a]
  simp only [dwimL, h1, h2]
  simp [apiL, List.isPrefixOf]

theorem dwimL_shape (cs : List Char) : ∃ t, dwimL cs = apiL ++ t ∧ '?' ∉ t := by
  have hb : '?' ∉ dropVersionL (dropParamsL cs) := fun hq =>
    dropParamsAux_noq cs false (dropVersionL_subset _ _ hq)
  unfold dwimL
  simp only
  split
  · rename_i hp
    obtain ⟨t, ht⟩ := List.isPrefixOf_iff_prefix.mp hp
    refine ⟨t, ht.symm, ?_⟩
    intro hq
    apply hb
    rw [← ht]
    simp [hq]
  · exact ⟨_, rfl, hb⟩

theorem dwimL_idem (cs : List Char) : dwimL (dwimL cs) = dwimL cs := by
  obtain ⟨t, ht, hq⟩ := dwimL_shape cs
  rw [ht, dwimL_apiL_append t hq]

/-- a path that `DWIMURI` only prefixes -/
structure Plain (p : List Char) : Prop where
  noq : '?' ∉ p
  nover : dropVersionL p = p
  noapi : apiL.isPrefixOf p = false
  slash : p = [] ∨ ∃ r, p = '/' :: r

theorem plain_of_plainL {p : List Char} (h : plainL p = true) : Plain p := by
  unfold plainL at h
  simp only [Bool.and_eq_true, Bool.not_eq_true', Bool.or_eq_true, beq_iff_eq, List.isEmpty_iff] at h
  obtain ⟨⟨⟨h1, h2⟩, h3⟩, h4⟩ := h
  refine ⟨?_, h2, h3, ?_⟩
  · intro hq
    simp at h1
    exact h1 hq
  · rcases h4 with h4 | h4
    · exact Or.inl h4
    · cases p with
      | nil => exact Or.inl rfl
      | cons c r => simp at h4; exact Or.inr ⟨r, by rw [h4]⟩

theorem dwimL_plain {p : List Char} (hp : Plain p) : dwimL p = apiL ++ p := by
  have h1 : dropParamsL p = p := dropParamsAux_id p hp.noq
  simp only [dwimL, h1, hp.nover, hp.noapi]
  simp

theorem isVersionL_noq {ver : List Char} (h : isVersionL ver = true) : '?' ∉ ver := by
  have key : ∀ (c : Char), isVerChar c = true → c ≠ '?' := by
    intro c hc e; subst e; revert hc; decide
  have keyl : ∀ (r : List Char), r.all isVerChar = true → '?' ∉ r := by
    intro r hr hq
    exact key _ (List.all_eq_true.mp hr _ hq) rfl
  unfold isVersionL at h
  split at h
  · rename_i c r
    simp only [Bool.and_eq_true] at h
    simp only [List.mem_cons, not_or]
    exact ⟨by decide, by decide, (key c h.1).symm, keyl r h.2⟩
  · rename_i c r _
    simp only [Bool.and_eq_true] at h
    simp only [List.mem_cons, not_or]
    exact ⟨by decide, (key c h.1).symm, keyl r h.2⟩
  · cases h

theorem dropWhile_all_append (r rest : List Char) (hr : r.all isVerChar = true)
    (hrest : rest = [] ∨ ∃ t, rest = '/' :: t) : (r ++ rest).dropWhile isVerChar = rest := by
  induction r with
  | nil =>
    rcases hrest with h | ⟨t, h⟩
    · subst h; simp
    · subst h; simp [List.dropWhile, isVerChar]
  | cons c r ih =>
    simp only [List.all_cons, Bool.and_eq_true] at hr
    simp [List.dropWhile, hr.1, ih hr.2]

theorem dropVersionL_version {ver rest : List Char} (h : isVersionL ver = true)
    (hrest : rest = [] ∨ ∃ t, rest = '/' :: t) : dropVersionL (ver ++ rest) = rest := by
  unfold isVersionL at h
  split at h
  · rename_i c r
    simp only [Bool.and_eq_true] at h
    simp [dropVersionL, dropV, h.1, dropWhile_all_append r rest h.2 hrest]
  · rename_i c r hnv
    simp only [Bool.and_eq_true] at h
    have hcv : c ≠ 'v' := by
      intro e; subst e; exact absurd h.1 (by decide)
    have : dropVersionL ('/' :: c :: (r ++ rest)) = rest := by
      simp only [dropVersionL]
      rw [dropV_ne hcv]
      simp [h.1, dropWhile_all_append r rest h.2 hrest]
    simpa using this
  · cases h

theorem dwimL_version_plain {ver p : List Char} (hv : isVersionL ver = true) (hp : Plain p) :
    dwimL (ver ++ p) = apiL ++ p := by
  have hq : '?' ∉ ver ++ p := by
    simp only [List.mem_append, not_or]; exact ⟨isVersionL_noq hv, hp.noq⟩
  have h1 : dropParamsL (ver ++ p) = ver ++ p := dropParamsAux_id _ hq
  have h2 : dropVersionL (ver ++ p) = p := dropVersionL_version hv hp.slash
  simp only [dwimL, h1, h2, hp.noapi]
  simp

theorem dwimL_version_api_plain {ver p : List Char} (hv : isVersionL ver = true) (hp : Plain p) :
    dwimL (ver ++ (apiL ++ p)) = apiL ++ p := by
  have hq : '?' ∉ ver ++ (apiL ++ p) := by
    simp only [List.mem_append, not_or]; exact ⟨isVersionL_noq hv, apiL_noq, hp.noq⟩
  have h1 : dropParamsL (ver ++ (apiL ++ p)) = ver ++ (apiL ++ p) := dropParamsAux_id _ hq
  have h2 : dropVersionL (ver ++ (apiL ++ p)) = apiL ++ p :=
    dropVersionL_version hv (Or.inr ⟨['a', 'p', 'i'] ++ p, by simp [apiL]⟩)
  simp only [dwimL, h1, h2]
  simp [apiL, List.isPrefixOf]

theorem dwimL_query (u q : List Char) (hu : '?' ∉ u) (hq : '\n' ∉ q) : dwimL (u ++ '?' :: q) = dwimL u := by
  have h1 : dropParamsL (u ++ '?' :: q) = u := by
    unfold dropParamsL
    rw [dropParamsAux_append_q u q hu, dropParamsAux_true_nonl q hq]; simp
  have h2 : dropParamsL u = u := dropParamsAux_id u hu
  simp only [dwimL, h1, h2]

/-! ## facts about the regenerated table (each `decide` runs over the whole table) -/

theorem findRow_rows : ∀ r ∈ rows, findRow r.uri = some r := by decide
theorem unchecked_subset : subsetOf (uncheckedReads rows) knownUncheckedReads = true := by decide
theorem rows_uris_in_labels : ∀ r ∈ rows, caseLabels.contains r.uri = true := by decide
theorem uri_not_param : ∀ rd ∈ allReads, rd.param ≠ "uri" := by decide
theorem rows_not_envelope : ∀ r ∈ rows, r.uri ≠ "/api/json" ∧ r.uri ≠ "/api/yaml" := by decide

theorem findRow_mem {uri : String} {row : Row} (h : findRow uri = some row) : row ∈ rows ∧ row.uri = uri := by
  unfold findRow at h
  refine ⟨List.mem_of_find?_eq_some h, ?_⟩
  have := List.find?_some h
  simpa using this

theorem reads_sub_allReads {row : Row} (h : row ∈ rows) : ∀ rd ∈ row.reads, rd ∈ allReads := by
  intro rd hrd
  unfold allReads
  exact List.mem_flatMap.mpr ⟨row, h, hrd⟩

/-! ## getters -/

theorem evalReadV_ne_panic (o : Option J) (rd : Read) (e : ErrC) (h : evalReadV o rd = .error e) : e ≠ .panic := by
  intro he
  subst he
  unfold evalReadV at h
  split at h
  · unfold getMapParam at h; split at h <;> (try split at h) <;> simp at h
  · unfold getBoolParam at h; split at h <;> (try split at h) <;> simp at h
  · unfold getStringParam at h; split at h <;> (try split at h) <;> simp at h
  · unfold getIndex at h
    split at h
    · simp at h
    · split at h
      · split at h
        · split at h <;> simp at h
        · simp at h
      · simp at h
  · simp at h

theorem evalReads_error_ne_panic (m : ReqMap) : ∀ (reads : List Read) (env : Env) (e : ErrC),
    evalReads m reads env = .error e → e ≠ .panic := by
  intro reads
  induction reads with
  | nil => intro env e h; simp [evalReads] at h
  | cons r rs ih =>
    intro env e h
    unfold evalReads at h
    split at h
    · exact ih _ _ h
    · rename_i e' he'
      split at h
      · have : e' = e := by simpa using h
        subst this
        exact evalReadV_ne_panic _ _ _ he'
      · exact ih _ _ h

theorem evalReads_fails (m : ReqMap) (rd : Read) (hc : rd.checked = true) (hf : ∃ e, evalRead m rd = .error e) :
    ∀ (reads : List Read) (env : Env), rd ∈ reads → ∃ e, evalReads m reads env = .error e := by
  intro reads
  induction reads with
  | nil => intro env h; cases h
  | cons r rs ih =>
    intro env hmem
    unfold evalReads
    split
    · rename_i v hv
      rcases List.mem_cons.mp hmem with h | h
      · subst h
        obtain ⟨e, he⟩ := hf
        rw [he] at hv; cases hv
      · exact ih _ h
    · rename_i e' he'
      split
      · exact ⟨e', rfl⟩
      · rename_i hnc
        rcases List.mem_cons.mp hmem with h | h
        · subst h; exact absurd hc hnc
        · exact ih _ h

theorem readFails_error (m : ReqMap) (rd : Read) (h : readFails m rd = true) : ∃ e, evalRead m rd = .error e := by
  unfold readFails at h
  unfold evalRead evalReadV
  split at h
  · rename_i hl
    rw [hl]
    simp only [Bool.and_eq_true, bne_iff_ne, ne_eq] at h
    cases hk : getterKind rd.getter <;> simp [hk, getMapParam, getBoolParam, getStringParam, h.1] at h ⊢
  · rename_i v hl
    rw [hl]
    cases hk : getterKind rd.getter <;> simp only [hk] at h ⊢
    · cases v <;> simp [wellTypedFor, getMapParam] at h ⊢
    · cases v <;> simp [wellTypedFor, getBoolParam] at h ⊢
    · cases v <;> simp [wellTypedFor, getStringParam] at h ⊢
      rename_i xs
      cases hx : allStrs xs <;> simp [hx] at h ⊢
    · simp [wellTypedFor] at h
    · exact ⟨_, rfl⟩

/-! ## congruence: the interpreter looks at the request map only through the getters of the table -/

theorem evalReads_congr (m1 m2 : ReqMap) : ∀ (reads : List Read) (env : Env),
    (∀ rd ∈ reads, evalRead m1 rd = evalRead m2 rd) → evalReads m1 reads env = evalReads m2 reads env := by
  intro reads
  induction reads with
  | nil => intro env _; simp [evalReads]
  | cons r rs ih =>
    intro env h
    unfold evalReads
    rw [h r (List.mem_cons_self ..)]
    split
    · exact ih _ (fun rd hrd => h rd (List.mem_cons_of_mem _ hrd))
    · split
      · rfl
      · exact ih _ (fun rd hrd => h rd (List.mem_cons_of_mem _ hrd))

theorem runPlain_congr (c : Codec) (row : Row) (m1 m2 : ReqMap)
    (h : ∀ rd ∈ row.reads, evalRead m1 rd = evalRead m2 rd) : runPlain c row m1 = runPlain c row m2 := by
  unfold runPlain
  rw [evalReads_congr m1 m2 row.reads [] h]

/-- two request maps the dispatch and every getter of the family cannot tell apart -/
def Agree (m1 m2 : ReqMap) : Prop := uriNF m1 = uriNF m2 ∧ ∀ rd ∈ allReads, evalRead m1 rd = evalRead m2 rd

theorem lookupKey_put (m : ReqMap) (k k' : String) (v : J) :
    lookupKey k (put m k' v) = if k = k' then some v else lookupKey k m := by
  simp [put, lookupKey]

theorem agree_put {m1 m2 : ReqMap} (h : Agree m1 m2) (k : String) (v : J) : Agree (put m1 k v) (put m2 k v) := by
  constructor
  · have h1 := h.1
    unfold uriNF at h1 ⊢
    rw [lookupKey_put, lookupKey_put]
    by_cases hk : "uri" = k
    · simp [hk]
    · simpa [hk] using h1
  · intro rd hrd
    unfold evalRead
    rw [lookupKey_put, lookupKey_put]
    split
    · rfl
    · exact h.2 rd hrd

theorem agree_applySets : ∀ (sets : List (String × String)) {m1 m2 : ReqMap}, Agree m1 m2 →
    Agree (applySets m1 sets) (applySets m2 sets) := by
  intro sets
  induction sets with
  | nil => intro m1 m2 h; simpa [applySets] using h
  | cons kv r ih =>
    intro m1 m2 h
    obtain ⟨k, v⟩ := kv
    simp only [applySets]
    exact ih (agree_put h k (setVal v))

theorem runTarget_congr (c : Codec) {m1 m2 : ReqMap} (h : Agree m1 m2) : runTarget c m1 = runTarget c m2 := by
  unfold runTarget redirectTarget
  rw [h.1]
  split
  · rfl
  · rename_i row hrow
    have hmem : row ∈ rows := by
      split at hrow
      · exact (findRow_mem hrow).1
      · cases hrow
    exact runPlain_congr c row _ _ (fun rd hrd => h.2 rd (reads_sub_allReads hmem rd hrd))

theorem runRedirects_congr (c : Codec) : ∀ (rds : List Redirect) (m1 m2 : ReqMap) (acc : Outcome), Agree m1 m2 →
    runRedirects c m1 rds acc = runRedirects c m2 rds acc := by
  intro rds
  induction rds with
  | nil => intro m1 m2 acc _; simp [runRedirects]
  | cons rd rest ih =>
    intro m1 m2 acc h
    have h' := agree_applySets rd.sets h
    simp only [runRedirects]
    rw [runTarget_congr c h']
    split
    · exact ih _ _ _ h'
    · split
      · rfl
      · exact ih _ _ _ h'

theorem processRequest_congr (c : Codec) {m1 m2 : ReqMap} (h : Agree m1 m2) :
    processRequest c m1 = processRequest c m2 := by
  unfold processRequest
  rw [h.1]
  cases hu : uriNF m2 with
  | none => rfl
  | some o =>
    cases o with
    | none => rfl
    | some uri =>
      simp only
      cases hf : findRow uri with
      | none => rfl
      | some row =>
        have hrow := (findRow_mem hf).1
        simp only
        unfold runRow
        split
        · exact runPlain_congr c row _ _ (fun rd hrd => h.2 rd (reads_sub_allReads hrow rd hrd))
        · rw [evalReads_congr m1 m2 row.reads [] (fun rd hrd => h.2 rd (reads_sub_allReads hrow rd hrd)),
            runRedirects_congr c _ m1 m2 _ h]

/-! ## association lists -/

theorem lookupKey_append (k : String) (a b : ReqMap) :
    lookupKey k (a ++ b) = match lookupKey k a with | some v => some v | none => lookupKey k b := by
  induction a with
  | nil => simp [lookupKey]
  | cons kv r ih =>
    obtain ⟨k', v⟩ := kv
    simp only [List.cons_append, lookupKey]
    split
    · rfl
    · exact ih

theorem lookupKey_none_of_not_mem (k : String) (l : ReqMap) (h : k ∉ l.map Prod.fst) : lookupKey k l = none := by
  induction l with
  | nil => simp [lookupKey]
  | cons kv r ih =>
    obtain ⟨k', v⟩ := kv
    simp only [List.map_cons, List.mem_cons, not_or] at h
    simp only [lookupKey]
    rw [if_neg (by simpa using h.1)]
    exact ih h.2

theorem lookupKey_mem_nodup (k : String) (v : J) (l : ReqMap) (hnd : (l.map Prod.fst).Nodup) (h : (k, v) ∈ l) :
    lookupKey k l = some v := by
  induction l with
  | nil => cases h
  | cons kv r ih =>
    obtain ⟨k', v'⟩ := kv
    simp only [List.map_cons, List.nodup_cons] at hnd
    simp only [lookupKey]
    rcases List.mem_cons.mp h with h1 | h2
    · cases h1; simp
    · have : k ≠ k' := by
        intro e
        apply hnd.1
        rw [← e]
        exact List.mem_map.mpr ⟨(k, v), h2, rfl⟩
      rw [if_neg (by simpa using this)]
      exact ih hnd.2 h2

theorem lookupKey_some_mem (k : String) (v : J) (l : ReqMap) (h : lookupKey k l = some v) : (k, v) ∈ l := by
  induction l with
  | nil => simp [lookupKey] at h
  | cons kv r ih =>
    obtain ⟨k', v'⟩ := kv
    simp only [lookupKey] at h
    split at h
    · rename_i hk
      have hk' : k = k' := by simpa using hk
      cases h; subst hk'; simp
    · exact List.mem_cons_of_mem _ (ih h)

theorem lookupKey_reverse_nodup (k : String) (l : ReqMap) (hnd : (l.map Prod.fst).Nodup) :
    lookupKey k l.reverse = lookupKey k l := by
  have hnd' : (l.reverse.map Prod.fst).Nodup := by
    rw [List.map_reverse]
    unfold List.Nodup at hnd ⊢
    rw [List.pairwise_reverse]
    exact hnd.imp (fun h => fun e => h e.symm)
  cases h : lookupKey k l with
  | some v =>
    exact lookupKey_mem_nodup k v _ hnd' (List.mem_reverse.mpr (lookupKey_some_mem k v l h))
  | none =>
    cases h' : lookupKey k l.reverse with
    | none => rfl
    | some v =>
      have := lookupKey_mem_nodup k v l hnd (List.mem_reverse.mp (lookupKey_some_mem k v _ h'))
      rw [h] at this; cases this

theorem typedArgs_keys (args : List (String × J)) : (typedArgs args).map Prod.fst = args.map Prod.fst := by
  simp [typedArgs, List.map_map, Function.comp_def]

theorem lookupKey_typedArgs (k : String) (args : List (String × J)) :
    lookupKey k (typedArgs args) = (lookupKey k args).map wireTyped := by
  induction args with
  | nil => simp [typedArgs, lookupKey]
  | cons kv r ih =>
    obtain ⟨k', v⟩ := kv
    simp only [typedArgs, List.map_cons, lookupKey] at ih ⊢
    split
    · rfl
    · exact ih

/-! ## the wire: parseParameter, parseQuery -/

theorem parseParameter_wire (c : Codec) (enc : List (String × J) → String) (p : String) (v : J)
    (h : ArgOK c enc p v) : parseParameter c p (wireStr enc v) = .ok (wireTyped v) := by
  cases v with
  | str s => simp only [ArgOK] at h; simp [parseParameter, h, wireStr, wireTyped]
  | bool b => simp only [ArgOK] at h; simp [parseParameter, h.1, wireStr, wireTyped]
  | obj kvs =>
    simp only [ArgOK] at h
    obtain ⟨h1, h2, r, h3⟩ := h
    simp [parseParameter, h1, wireStr, wireTyped, unmarshalMap, h3, h2]
  | null => simp [ArgOK] at h
  | num n => simp [ArgOK] at h
  | arr xs => simp [ArgOK] at h

theorem parsePairs_wire (c : Codec) (enc : List (String × J) → String) : ∀ (args : List (String × J)) (m0 : ReqMap),
    (∀ kv ∈ args, ArgOK c enc kv.1 kv.2) →
    parsePairs c (wirePairs enc args) m0 = .ok ((typedArgs args).reverse ++ m0) := by
  intro args
  induction args with
  | nil => intro m0 _; simp [wirePairs, typedArgs, parsePairs]
  | cons kv r ih =>
    intro m0 h
    obtain ⟨k, v⟩ := kv
    have hk := h (k, v) (List.mem_cons_self ..)
    simp only [wirePairs, List.map_cons, parsePairs]
    rw [parseParameter_wire c enc k v hk]
    simp only
    have := ih (put m0 k (wireTyped v)) (fun kv hkv => h kv (List.mem_cons_of_mem _ hkv))
    simp only [wirePairs] at this
    rw [this]
    simp [typedArgs, put]

/-- a getter cannot tell a boolean from its query-string spelling, where only `getBoolParam` (or a presence test) reads it -/
theorem evalReadV_wire (c : Codec) (enc : List (String × J) → String) (p : String) (v : J) (h : ArgOK c enc p v)
    (rd : Read) (hrd : rd ∈ allReads) (hp : rd.param = p) :
    evalReadV (some (wireTyped v)) rd = evalReadV (some v) rd := by
  cases v with
  | bool b =>
    simp only [ArgOK] at h
    have hb := h.2
    unfold boolOK at hb
    have := List.all_eq_true.mp hb rd hrd
    simp only [Bool.or_eq_true, bne_iff_ne, ne_eq, beq_iff_eq, Bool.and_eq_true] at this
    unfold evalReadV
    rcases this with (h1 | h1) | h1
    · exact absurd hp h1
    · rw [h1]; cases b <;> simp [wireTyped, getBoolParam, asciiLower] <;> decide
    · rw [h1.1]
      have hl : rd.param ≠ "libraries" := by rw [hp]; exact h1.2
      simp [getIndex, hl]
  | str s => rfl
  | obj kvs => rfl
  | null => rfl
  | num n => rfl
  | arr xs => rfl

/-! ## every encoding of a logical request gives a request map that `Agree`s with the direct one -/

section encodings
variable (c : Codec) (enc : List (String × J) → String) (args : List (String × J)) (hL : Logical c enc args)
include hL

theorem lookup_uri_args : lookupKey "uri" args = none := lookupKey_none_of_not_mem _ _ hL.nouri

theorem lookup_uri_typed : lookupKey "uri" (typedArgs args).reverse = none := by
  apply lookupKey_none_of_not_mem
  rw [List.map_reverse, typedArgs_keys]
  simpa using hL.nouri

/-- typed arguments first, then the `uri` entry (JSON / YAML body) -/
theorem agree_body (u target : String) (hu : dwimURI u = target) (ht : dwimURI target = target) :
    Agree (merge args (put [] "uri" (.str u))) (("uri", .str target) :: args) := by
  constructor
  · unfold uriNF merge put
    rw [lookupKey_append, lookup_uri_args c enc args hL]
    simp [lookupKey, hu, ht]
  · intro rd hrd
    have hne := uri_not_param rd hrd
    unfold evalRead merge put
    rw [lookupKey_append]
    have h2 : lookupKey rd.param (("uri", J.str target) :: args) = lookupKey rd.param args := by
      simp [lookupKey, hne]
    rw [h2]
    cases lookupKey rd.param args with
    | some v => rfl
    | none => simp [lookupKey, hne]

/-- the envelope: the body carries the `uri` -/
theorem agree_envelope (u target : String) (hu : dwimURI u = target) (ht : dwimURI target = target) (m0 : ReqMap)
    (hm0 : m0 = []) : Agree (merge (("uri", .str u) :: args) m0) (("uri", .str target) :: args) := by
  subst hm0
  constructor
  · simp [uriNF, merge, lookupKey, hu, ht]
  · intro rd hrd
    have hne := uri_not_param rd hrd
    simp [evalRead, merge, lookupKey, hne]

theorem evalReadV_typed (rd : Read) (hrd : rd ∈ allReads) :
    evalReadV (lookupKey rd.param (typedArgs args)) rd = evalReadV (lookupKey rd.param args) rd := by
  rw [lookupKey_typedArgs]
  cases h : lookupKey rd.param args with
  | none => rfl
  | some v =>
    have hmem := lookupKey_some_mem _ _ _ h
    exact evalReadV_wire c enc rd.param v (hL.ok _ hmem) rd hrd rfl

/-- query string: the `uri` entry is put after the parameters -/
theorem agree_query (u target : String) (hu : dwimURI u = target) (ht : dwimURI target = target) :
    Agree (put ((typedArgs args).reverse ++ []) "uri" (.str u)) (("uri", .str target) :: args) := by
  have hnd : ((typedArgs args).map Prod.fst).Nodup := by rw [typedArgs_keys]; exact hL.nodup
  constructor
  · simp [uriNF, put, lookupKey, hu, ht]
  · intro rd hrd
    have hne := uri_not_param rd hrd
    unfold evalRead
    have h1 : lookupKey rd.param (put ((typedArgs args).reverse ++ []) "uri" (.str u)) = lookupKey rd.param (typedArgs args) := by
      simp only [put, lookupKey, List.append_nil]
      rw [if_neg (by simpa using hne)]
      exact lookupKey_reverse_nodup _ _ hnd
    have h2 : lookupKey rd.param (("uri", J.str target) :: args) = lookupKey rd.param args := by
      simp [lookupKey, hne]
    rw [h1, h2]
    exact evalReadV_typed c enc args hL rd hrd

/-- form body: the `uri` entry is put before the parameters -/
theorem agree_form (u target : String) (hu : dwimURI u = target) (ht : dwimURI target = target) :
    Agree ((typedArgs args).reverse ++ put [] "uri" (.str u)) (("uri", .str target) :: args) := by
  have hnd : ((typedArgs args).map Prod.fst).Nodup := by rw [typedArgs_keys]; exact hL.nodup
  constructor
  · unfold uriNF put
    rw [lookupKey_append, lookup_uri_typed c enc args hL]
    simp [lookupKey, hu, ht]
  · intro rd hrd
    have hne := uri_not_param rd hrd
    unfold evalRead
    have h1 : lookupKey rd.param ((typedArgs args).reverse ++ put [] "uri" (.str u)) = lookupKey rd.param (typedArgs args) := by
      rw [lookupKey_append, lookupKey_reverse_nodup _ _ hnd]
      cases lookupKey rd.param (typedArgs args) with
      | some v => rfl
      | none => simp [put, lookupKey, hne]
    have h2 : lookupKey rd.param (("uri", J.str target) :: args) = lookupKey rd.param args := by
      simp [lookupKey, hne]
    rw [h1, h2]
    exact evalReadV_typed c enc args hL rd hrd

end encodings

/-! ## String-level DWIMURI -/

theorem dwimURI_idem (s : String) : dwimURI (dwimURI s) = dwimURI s := by
  simp [dwimURI, String.toList_ofList, dwimL_idem]

theorem dwimURI_query (u q : String) (hu : '?' ∉ u.toList) (hq : '\n' ∉ q.toList) :
    dwimURI (u ++ "?" ++ q) = dwimURI u := by
  have : (u ++ "?" ++ q).toList = u.toList ++ '?' :: q.toList := by
    simp [String.toList_append]
  simp [dwimURI, this, dwimL_query _ _ hu hq]

/-! ## GetHTTPRequest on each encoding -/

section http
variable (c : Codec) (enc : List (String × J) → String) (args : List (String × J))

theorem parseQueryInto_empty (hq0 : c.parseQuery "" = some []) (m : ReqMap) : parseQueryInto c "" m = .ok m := by
  simp [parseQueryInto, hq0, parsePairs]

theorem http_query (hok : ∀ kv ∈ args, ArgOK c enc kv.1 kv.2) (u qtext : String)
    (hne : dwimURI u ≠ "/api/json" ∧ dwimURI u ≠ "/api/yaml")
    (huq : '?' ∉ u.toList) (hqnl : '\n' ∉ qtext.toList)
    (hq : c.parseQuery qtext = some (wirePairs enc args)) :
    getHTTPRequest c ⟨"GET", u ++ "?" ++ qtext, u, qtext, ""⟩
      = .ok (put ((typedArgs args).reverse ++ []) "uri" (.str u)) := by
  simp [getHTTPRequest, dwimURI_query u qtext huq hqnl, hne.1, hne.2, parseQueryInto, hq,
    parsePairs_wire c enc args [] hok]

theorem http_form (hok : ∀ kv ∈ args, ArgOK c enc kv.1 kv.2) (u qtext : String)
    (hne : dwimURI u ≠ "/api/json" ∧ dwimURI u ≠ "/api/yaml")
    (hqnl : '\n' ∉ qtext.toList) (hqform : ∃ ch r, qtext.toList = ch :: r ∧ ch ≠ '{')
    (hq : c.parseQuery qtext = some (wirePairs enc args)) (hq0 : c.parseQuery "" = some []) :
    getHTTPRequest c ⟨"POST", u, u, "", qtext⟩
      = .ok ((typedArgs args).reverse ++ put [] "uri" (.str u)) := by
  obtain ⟨ch, r, h1, h2⟩ := hqform
  have hnl : qtext.toList.contains '\n' = false := by simpa using hqnl
  have hnl' : '\n' ∉ ch :: r := by rw [← h1]; exact hqnl
  simp only [List.mem_cons, not_or] at hnl'
  have hq0' : parseQueryInto c "" [] = .ok [] := parseQueryInto_empty c hq0 []
  simp only [getHTTPRequest, hq0']
  simp [hne.1, hne.2, h1, h2, parseQueryInto, hq, parsePairs_wire c enc args _ hok, hnl'.2, hnl'.1]

theorem http_json (u jtext : String) (hne : dwimURI u ≠ "/api/json" ∧ dwimURI u ≠ "/api/yaml")
    (hj : c.jsonObj jtext = some args) (hj0 : ∃ r, jtext.toList = '{' :: r) (hq0 : c.parseQuery "" = some []) :
    getHTTPRequest c ⟨"POST", u, u, "", jtext⟩ = .ok (merge args (put [] "uri" (.str u))) := by
  obtain ⟨r, h1⟩ := hj0
  simp [getHTTPRequest, hne.1, hne.2, parseQueryInto_empty c hq0, h1, hj]

theorem http_yaml (u ytext : String) (hne : dwimURI u ≠ "/api/json" ∧ dwimURI u ≠ "/api/yaml")
    (hy : c.yamlObj ytext = some args) (hy0 : ∃ ch r, ytext.toList = ch :: r ∧ ch ≠ '{')
    (hynl : '\n' ∈ ytext.toList) (hq0 : c.parseQuery "" = some []) :
    getHTTPRequest c ⟨"POST", u, u, "", ytext⟩ = .ok (merge args (put [] "uri" (.str u))) := by
  obtain ⟨ch, r, h1, h2⟩ := hy0
  have hnl : '\n' ∈ ch :: r := by rw [← h1]; exact hynl
  simp only [List.mem_cons] at hnl
  have hnl2 : ('\n' = ch ∨ '\n' ∈ r) := hnl
  simp [getHTTPRequest, hne.1, hne.2, parseQueryInto_empty c hq0, h1, h2, hy]
  intro h3 h4
  rcases hnl2 with h | h
  · exact absurd h h3
  · exact absurd h h4

theorem http_envelope_json (u ue etext : String) (hue : dwimURI ue = "/api/json")
    (he : c.jsonObj etext = some (("uri", .str u) :: args)) (hq0 : c.parseQuery "" = some []) :
    getHTTPRequest c ⟨"POST", ue, ue, "", etext⟩ = .ok (merge (("uri", .str u) :: args) []) := by
  simp [getHTTPRequest, hue, parseQueryInto_empty c hq0, he, merge, lookupKey]

theorem http_envelope_yaml (u uy eytext : String) (huy : dwimURI uy = "/api/yaml")
    (he : c.yamlObj eytext = some (("uri", .str u) :: args)) (hq0 : c.parseQuery "" = some []) :
    getHTTPRequest c ⟨"POST", uy, uy, "", eytext⟩ = .ok (merge (("uri", .str u) :: args) []) := by
  simp [getHTTPRequest, huy, parseQueryInto_empty c hq0, he, merge, lookupKey]

end http

/-! ## glue for the property theorems -/

theorem dwimURI_eq_of_list (s t : String) (h : dwimL s.toList = t.toList) : dwimURI s = t := by
  unfold dwimURI
  rw [h, String.ofList_toList]

theorem api_toList : ("/api" : String).toList = apiL := by decide
theorem q_toList : ("?" : String).toList = ['?'] := by decide

theorem checked_of_not_known {row : Row} {rd : Read} (hrow : row ∈ rows) (hrd : rd ∈ row.reads)
    (hk : (row.uri, rd.param) ∉ knownUncheckedReads) : rd.checked = true := by
  cases hc : rd.checked with
  | true => rfl
  | false =>
    exfalso
    apply hk
    have hmem : (row.uri, rd.param) ∈ uncheckedReads rows := by
      unfold uncheckedReads
      refine List.mem_flatMap.mpr ⟨row, hrow, List.mem_map.mpr ⟨rd, ?_, rfl⟩⟩
      exact List.mem_filter.mpr ⟨hrd, by simp [hc]⟩
    have := List.all_eq_true.mp unchecked_subset _ hmem
    simpa using this

theorem uriNF_of_lookup {m : ReqMap} {u : String} (hu : lookupKey "uri" m = some (.str u)) :
    uriNF m = some (some (dwimURI u)) := by
  simp [uriNF, hu]

theorem processRequest_read_fails (c : Codec) (m : ReqMap) (u : String) (row : Row) (rd : Read)
    (hrow : row ∈ rows) (hrd : rd ∈ row.reads)
    (hu : lookupKey "uri" m = some (.str u)) (hd : dwimURI u = row.uri)
    (hk : (row.uri, rd.param) ∉ knownUncheckedReads) (hfail : readFails m rd = true) :
    ∃ e, processRequest c m = .error e ∧ e ≠ .panic := by
  have hc := checked_of_not_known hrow hrd hk
  obtain ⟨e, he⟩ := evalReads_fails m rd hc (readFails_error m rd hfail) row.reads [] hrd
  refine ⟨e, ?_, evalReads_error_ne_panic m _ _ _ he⟩
  unfold processRequest
  rw [uriNF_of_lookup hu, hd]
  simp only [findRow_rows row hrow, runRow]
  split
  · simp only [runPlain, he]
  · simp only [he]

theorem processRequest_unknown (c : Codec) (m : ReqMap) (u : String)
    (hu : lookupKey "uri" m = some (.str u)) (hn : caseLabels.contains (dwimURI u) = false) :
    processRequest c m = .error .unknownUri := by
  unfold processRequest
  rw [uriNF_of_lookup hu]
  cases hf : findRow (dwimURI u) with
  | some row =>
    obtain ⟨hrow, hruri⟩ := findRow_mem hf
    have := rows_uris_in_labels row hrow
    rw [hruri, hn] at this; cases this
  | none =>
    have hn' : ¬ (dwimURI u ∈ caseLabels) := by simpa using hn
    simp [hn', hf]

/-- once the request is decoded into a map that `Agree`s with a map whose `uri` is a string, `ServeHTTP` is
`ProcessRequest` on that map -/
theorem serve_eq (c : Codec) (r : HttpReq) (m m2 : ReqMap) (t : String)
    (h : getHTTPRequest c r = .ok m) (ha : Agree m m2) (hu : uriNF m2 = some (some t)) :
    serve c r = processRequest c m2 := by
  have hu1 : uriNF m = some (some t) := by rw [ha.1]; exact hu
  simp only [serve, h, hu1]
  exact processRequest_congr c ha

theorem uriNF_direct (target : String) (args : List (String × J)) (ht : dwimURI target = target) :
    uriNF (("uri", .str target) :: args) = some (some target) := by
  simp [uriNF, lookupKey, ht]

end Svc

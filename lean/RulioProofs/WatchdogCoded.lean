import RulioProofs.Watchdog

/-! # C14 lemmas: the unchanged tree (unbuffered `watchdogCleanup`), and the unguarded run -/

namespace Watchdog

/-- invariant of every guarded run with the unbuffered channel -/
def cinv (s : Ctl) : Bool :=
  (!s.intrFull || s.w == .close || s.w == .done) &&
  (!s.intrClosed || s.w == .done) &&
  !s.clnFull &&
  (match s.m with
   | .start => s.w == .idle && !s.intrFull && !s.intrClosed
   | .run => s.w != .idle
   | .dSend .fin => s.w != .idle
   | .dSend _ => s.w == .close || s.w == .done
   | .dClose .fin => s.w != .idle
   | .dRecover .fin => s.w != .idle
   | .ret .own => s.w != .idle
   | _ => false)

theorem cinv_pres_k : ∀ k, cinv k = true → ∀ fi hE z t,
    (stepCtl ⟨true, fi, false, hE⟩ z t k).all (fun r => cinv r.1) = true := by decide +kernel

theorem cinv_pres : ∀ fi hE, Preserved ⟨true, fi, false, hE⟩ cinv :=
  fun fi hE z k hk t => cinv_pres_k k hk fi hE z t

theorem cinv_init : cinv Ctl.init = true := by decide

/-- as coded, whenever the caller has control back it got the script's own outcome: the `(nil, nil)` of the
recovered Halt is never delivered, because that path never gets past the deferred send -/
theorem cinv_returned : ∀ k, cinv k = true → k.returned = true → k.m = .ret .own := by decide +kernel

/-- the interrupt was taken (or the poll hit the closed channel): the caller sits in the deferred send for ever -/
def hinv (s : Ctl) : Bool :=
  cinv s && (match s.m with | .dSend .halt => true | .dSend .nilcall => true | _ => false)

theorem hinv_pres_k : ∀ k, hinv k = true → ∀ fi hE z t,
    (stepCtl ⟨true, fi, false, hE⟩ z t k).all (fun r => hinv r.1) = true := by decide +kernel

theorem hinv_pres : ∀ fi hE, Preserved ⟨true, fi, false, hE⟩ hinv :=
  fun fi hE z k hk t => hinv_pres_k k hk fi hE z t

theorem hinv_main_blocked_k : ∀ k, hinv k = true → ∀ fi hE z, stepCtl ⟨true, fi, false, hE⟩ z .main k = none := by
  decide +kernel

theorem hinv_main_blocked : ∀ fi hE z k, hinv k = true → stepCtl ⟨true, fi, false, hE⟩ z .main k = none :=
  fun fi hE z k hk => hinv_main_blocked_k k hk fi hE z

/-- the pending Halt stays the pending Halt -/
theorem hinv_keeps_k : ∀ k, hinv k = true → k.m = .dSend .halt → ∀ fi hE z t,
    (stepCtl ⟨true, fi, false, hE⟩ z t k).all (fun r => r.1.m == .dSend .halt) = true := by decide +kernel

theorem hinv_keeps : ∀ fi hE z k, hinv k = true → k.m = .dSend .halt → ∀ t,
    (stepCtl ⟨true, fi, false, hE⟩ z t k).all (fun r => r.1.m == .dSend .halt) = true :=
  fun fi hE z k h1 h2 t => hinv_keeps_k k h1 h2 fi hE z t

/-- the script never ends by itself: the caller is at most at the deferred send -/
def linv (s : Ctl) : Bool :=
  cinv s && (match s.m with | .start => true | .run => true | .dSend .halt => true | .dSend .nilcall => true | _ => false)

theorem linv_pres_k : ∀ k, linv k = true → ∀ fi hE t,
    (stepCtl ⟨true, fi, false, hE⟩ false t k).all (fun r => linv r.1) = true := by decide +kernel

theorem linv_pres : ∀ fi hE, PreservedAt ⟨true, fi, false, hE⟩ false linv :=
  fun fi hE k hk t => linv_pres_k k hk fi hE t

theorem linv_not_returned : ∀ k, linv k = true → k.returned = false := by decide +kernel

/-! ## no watchdog installed -/

def ninv (s : Ctl) : Bool :=
  s.w == .idle && !s.fired && !s.intrFull && !s.intrClosed && !s.clnFull && !s.clnClosed &&
  (match s.m with | .start => true | .run => true | .ret .own => true | _ => false)

theorem ninv_pres_k : ∀ k, ninv k = true → ∀ fi b hE z t,
    (stepCtl ⟨false, fi, b, hE⟩ z t k).all (fun r => ninv r.1) = true := by decide +kernel

theorem ninv_pres : ∀ fi b hE, Preserved ⟨false, fi, b, hE⟩ ninv :=
  fun fi b hE z k hk t => ninv_pres_k k hk fi b hE z t

theorem ninv_returned : ∀ k, ninv k = true → k.returned = true → k.m = .ret .own := by decide +kernel

theorem ninv_dec_k : ∀ k, ninv k = true → ∀ fi b hE z t,
    (stepCtl ⟨false, fi, b, hE⟩ z t k).all
      (fun r => if r.2 then muK ⟨false, fi, b, hE⟩ r.1 == muK ⟨false, fi, b, hE⟩ k
                else decide (muK ⟨false, fi, b, hE⟩ r.1 < muK ⟨false, fi, b, hE⟩ k)) = true := by decide +kernel

theorem ninv_dec : ∀ fi b hE z, Decreasing ⟨false, fi, b, hE⟩ z ninv :=
  fun fi b hE z k hk t => ninv_dec_k k hk fi b hE z t

theorem ninv_stuck_k : ∀ k, ninv k = true → ∀ fi b hE z,
    (∀ t, stepCtl ⟨false, fi, b, hE⟩ z t k = none) → k.m = .ret .own := by decide +kernel

theorem ninv_stuck : ∀ fi b hE z k, ninv k = true →
    (∀ t, stepCtl ⟨false, fi, b, hE⟩ z t k = none) → k.m = .ret .own :=
  fun fi b hE z k hk h => ninv_stuck_k k hk fi b hE z h

end Watchdog

import RulioModel.Breaker

open Gen.C20

/-! # Capacity under concurrency once the test and the addition are one step (`Location.admission`) -/

structure CapLocked.Inv (s : CapLocked) : Prop where
  le : (s.count : Int) ≤ s.maxFacts
  held : ∀ t b, s.pcs[t]? = some (.checked b) → s.holder = some t ∧ b = atCapacity s.maxFacts s.count

theorem CapLocked.inv_step {s : CapLocked} (h : s.Inv) (tid : Nat) : (s.step tid).Inv := by
  unfold CapLocked.step
  cases hp : s.pcs[tid]? with
  | none => simpa using h
  | some pc =>
    have hlt : tid < s.pcs.length := by
      rcases Nat.lt_or_ge tid s.pcs.length with h' | h'
      · exact h'
      · rw [List.getElem?_eq_none h'] at hp; cases hp
    cases pc with
    | start =>
      cases hh : s.holder with
      | some x => simpa [hp, hh] using h
      | none =>
        simp only
        refine ⟨h.le, ?_⟩
        intro t b ht
        by_cases e : tid = t
        · subst e
          simp only [List.getElem?_set, hlt, if_true] at ht
          simp only [Option.some.injEq, APc.checked.injEq] at ht
          exact ⟨rfl, ht.symm⟩
        · simp only [List.getElem?_set, e, if_false] at ht
          have := (h.held t b ht).1
          rw [hh] at this; cases this
    | checked full =>
      obtain ⟨hhold, hfull⟩ := h.held tid full hp
      cases full with
      | false =>
        simp only
        refine ⟨?_, ?_⟩
        · have : ¬ (s.maxFacts ≤ (s.count : Int)) := by
            have := hfull.symm
            simpa [atCapacity] using this
          have hle := h.le
          push_cast
          omega
        · intro t b ht
          by_cases e : tid = t
          · subst e
            simp only [List.getElem?_set, hlt, if_true] at ht
            cases ht
          · simp only [List.getElem?_set, e, if_false] at ht
            have := (h.held t b ht).1
            rw [hhold] at this
            exact absurd (Option.some.inj this) e
      | true =>
        simp only
        refine ⟨h.le, ?_⟩
        intro t b ht
        by_cases e : tid = t
        · subst e
          simp only [List.getElem?_set, hlt, if_true] at ht
          cases ht
        · simp only [List.getElem?_set, e, if_false] at ht
          have := (h.held t b ht).1
          rw [hhold] at this
          exact absurd (Option.some.inj this) e
    | done => simpa [hp] using h

theorem CapLocked.inv_exec {s : CapLocked} (h : s.Inv) (σ : List Nat) : (s.exec σ).Inv := by
  induction σ generalizing s with
  | nil => exact h
  | cons t ts ih => exact ih (CapLocked.inv_step h t)

theorem CapLocked.step_maxFacts (s : CapLocked) (tid : Nat) : (s.step tid).maxFacts = s.maxFacts := by
  unfold CapLocked.step
  split
  · split <;> rfl
  · rfl
  · rfl
  · rfl

theorem CapLocked.exec_maxFacts (s : CapLocked) (σ : List Nat) : (s.exec σ).maxFacts = s.maxFacts := by
  induction σ generalizing s with
  | nil => rfl
  | cons t ts ih => simp only [CapLocked.exec]; rw [ih, CapLocked.step_maxFacts]

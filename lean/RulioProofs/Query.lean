import RulioModel.QuerySpec

/-! # Lemmas for C03 (query semantics) -/

namespace QueryProofs
open QSpec

/-! ## `mapM` in `Except` -/

theorem mapM_cons_ok {α β} (f : α → Except LErr β) (x : α) (xs : List α) (y : β) (ys : List β)
    (h1 : f x = .ok y) (h2 : xs.mapM f = .ok ys) : (x :: xs).mapM f = .ok (y :: ys) := by
  simp [List.mapM_cons, h1, h2]; rfl

theorem mapM_cons_err1 {α β} (f : α → Except LErr β) (x : α) (xs : List α) (e : LErr)
    (h1 : f x = .error e) : (x :: xs).mapM f = .error e := by
  simp [List.mapM_cons, h1]; rfl

theorem mapM_cons_err2 {α β} (f : α → Except LErr β) (x : α) (xs : List α) (y : β) (e : LErr)
    (h1 : f x = .ok y) (h2 : xs.mapM f = .error e) : (x :: xs).mapM f = .error e := by
  simp [List.mapM_cons, h1, h2]; rfl

theorem mapM_ok_of_forall {α β} (f : α → Except LErr β) (g : α → β) :
    ∀ (l : List α), (∀ x ∈ l, f x = .ok (g x)) → l.mapM f = .ok (l.map g)
  | [], _ => rfl
  | x :: xs, h => by
    have h1 := h x (by simp)
    have h2 := mapM_ok_of_forall f g xs (fun y hy => h y (by simp [hy]))
    exact mapM_cons_ok f x xs _ _ h1 h2

theorem mapM_err_of_mem {α β} (f : α → Except LErr β) :
    ∀ (l : List α) (x : α) (e : LErr), x ∈ l → f x = .error e → ∃ e', l.mapM f = .error e'
  | [], _, _, h, _ => by cases h
  | y :: ys, x, e, h, hx => by
    cases hy : f y with
    | error e' => exact ⟨e', mapM_cons_err1 f y ys e' hy⟩
    | ok v =>
      have hm : x ∈ ys := by
        cases h with
        | head => rw [hy] at hx; cases hx
        | tail _ h => exact h
      obtain ⟨e', he'⟩ := mapM_err_of_mem f ys x e hm hx
      exact ⟨e', mapM_cons_err2 f y ys v e' hy he'⟩

/-- a successful `mapM` is pointwise -/
theorem mapM_ok_forall₂ {α β} (f : α → Except LErr β) :
    ∀ (l : List α) (r : List β), l.mapM f = .ok r → Pointwise (fun x y => f x = .ok y) l r
  | [], r, h => by
    have : r = [] := by
      have h' : (Except.ok [] : Except LErr (List β)) = .ok r := h
      cases h'; rfl
    subst this; exact .nil
  | x :: xs, r, h => by
    cases hx : f x with
    | error e => rw [mapM_cons_err1 f x xs e hx] at h; cases h
    | ok y =>
      cases hxs : xs.mapM f with
      | error e => rw [mapM_cons_err2 f x xs y e hx hxs] at h; cases h
      | ok ys =>
        rw [mapM_cons_ok f x xs y ys hx hxs] at h
        cases h
        exact .cons hx (mapM_ok_forall₂ f xs ys hxs)

theorem mapM_of_forall₂ {α β} (f : α → Except LErr β) :
    ∀ (l : List α) (r : List β), Pointwise (fun x y => f x = .ok y) l r → l.mapM f = .ok r
  | _, _, .nil => rfl
  | _, _, .cons h t => mapM_cons_ok f _ _ _ _ h (mapM_of_forall₂ f _ _ t)

/-! ## `bindEach` -/

theorem bindEach_nil (f : Bs → Except LErr (List Bs)) : bindEach f [] = .ok [] := rfl

theorem bindEach_cons_ok (f : Bs → Except LErr (List Bs)) (b : Bs) (bs : List Bs) (r rs : List Bs)
    (h1 : f b = .ok r) (h2 : bindEach f bs = .ok rs) : bindEach f (b :: bs) = .ok (r ++ rs) := by
  unfold bindEach at *
  cases hm : bs.mapM f with
  | error e => rw [hm] at h2; cases h2
  | ok per =>
    rw [hm] at h2
    rw [mapM_cons_ok f b bs r per h1 hm]
    have : per.flatten = rs := by cases h2; rfl
    subst this; rfl

theorem bindEach_cons_err1 (f : Bs → Except LErr (List Bs)) (b : Bs) (bs : List Bs) (e : LErr)
    (h1 : f b = .error e) : bindEach f (b :: bs) = .error e := by
  unfold bindEach; rw [mapM_cons_err1 f b bs e h1]; rfl

theorem bindEach_cons_err2 (f : Bs → Except LErr (List Bs)) (b : Bs) (bs : List Bs) (r : List Bs) (e : LErr)
    (h1 : f b = .ok r) (h2 : bindEach f bs = .error e) : bindEach f (b :: bs) = .error e := by
  unfold bindEach at *
  cases hm : bs.mapM f with
  | ok per => rw [hm] at h2; cases h2
  | error e' =>
    rw [hm] at h2
    rw [mapM_cons_err2 f b bs r e' h1 hm]
    exact h2

theorem bindEach_single (f : Bs → Except LErr (List Bs)) (b : Bs) : bindEach f [b] = f b := by
  cases h : f b with
  | error e => exact bindEach_cons_err1 f b [] e h
  | ok r => have := bindEach_cons_ok f b [] r [] h rfl; simpa using this

theorem bindEach_ok_of_forall (f : Bs → Except LErr (List Bs)) (g : Bs → List Bs) (bss : List Bs)
    (h : ∀ bs ∈ bss, f bs = .ok (g bs)) : bindEach f bss = .ok (bss.flatMap g) := by
  unfold bindEach
  rw [mapM_ok_of_forall f g bss h]
  rfl

theorem bindEach_err_of_mem (f : Bs → Except LErr (List Bs)) (bss : List Bs) (bs : Bs) (e : LErr)
    (hm : bs ∈ bss) (h : f bs = .error e) : ∃ e', bindEach f bss = .error e' := by
  obtain ⟨e', he'⟩ := mapM_err_of_mem f bss bs e hm h
  exact ⟨e', by unfold bindEach; rw [he']; rfl⟩

theorem bindEach_ok_forall₂ (f : Bs → Except LErr (List Bs)) (bss : List Bs) (r : List Bs)
    (h : bindEach f bss = .ok r) :
    ∃ per, Pointwise (fun bs x => f bs = .ok x) bss per ∧ r = per.flatten := by
  unfold bindEach at h
  cases hm : bss.mapM f with
  | error e => rw [hm] at h; cases h
  | ok per =>
    rw [hm] at h
    refine ⟨per, mapM_ok_forall₂ f bss per hm, ?_⟩
    cases h; rfl

theorem bindEach_additive (f : Bs → Except LErr (List Bs)) : Additive (bindEach f) := by
  intro b₁ b₂
  induction b₁ with
  | nil =>
    refine ⟨?_, ?_, ?_⟩
    · intro r₁ r₂ h1 h2
      rw [bindEach_nil] at h1; cases h1; simpa using h2
    · intro e h1; rw [bindEach_nil] at h1; cases h1
    · intro e h2; exact ⟨e, by simpa using h2⟩
  | cons b bs ih =>
    obtain ⟨ih1, ih2, ih3⟩ := ih
    cases hb : f b with
    | error e =>
      have hw := bindEach_cons_err1 f b (bs ++ b₂) e hb
      refine ⟨?_, fun _ _ => ⟨e, hw⟩, fun _ _ => ⟨e, hw⟩⟩
      intro r₁ r₂ h1 _
      rw [bindEach_cons_err1 f b bs e hb] at h1; cases h1
    | ok r =>
      have lift : ∀ e', bindEach f (bs ++ b₂) = .error e' → ∃ e'', bindEach f (b :: bs ++ b₂) = .error e'' :=
        fun e' he' => ⟨e', bindEach_cons_err2 f b (bs ++ b₂) r e' hb he'⟩
      refine ⟨?_, ?_, ?_⟩
      · intro r₁ r₂ h1 h2
        cases hbs : bindEach f bs with
        | error e => rw [bindEach_cons_err2 f b bs r e hb hbs] at h1; cases h1
        | ok rs =>
          rw [bindEach_cons_ok f b bs r rs hb hbs] at h1
          cases h1
          have := bindEach_cons_ok f b (bs ++ b₂) r (rs ++ r₂) hb (ih1 rs r₂ hbs h2)
          simpa [List.append_assoc] using this
      · intro e h1
        cases hbs : bindEach f bs with
        | error e1 => obtain ⟨e', he'⟩ := ih2 e1 hbs; exact lift e' he'
        | ok rs => rw [bindEach_cons_ok f b bs r rs hb hbs] at h1; cases h1
      · intro e h2
        obtain ⟨e', he'⟩ := ih3 e h2; exact lift e' he'

/-! ## each operator other than `and` works binding by binding -/

theorem subst_obj (bs : Bs) (p : Obj) : subst bs (.obj p) = .obj (substO bs p) := by
  rw [subst]

theorem exec_pattern_eq (srch : Srch) (p : Obj) (l : List String) (bss : List Bs) :
    execQ srch (.pattern p l) bss = bindEach (patOne srch p) bss := by
  rw [execQ.eq_2]; unfold bindEach patOne
  simp only [subst_obj]

theorem exec_code_eq (srch : Srch) (t : J) (bss : List Bs) :
    execQ srch (.code t) bss = bindEach (codeOne t) bss := by
  rw [execQ.eq_3]; rfl

theorem exec_or_eq (srch : Srch) (qs : List Q) (sc : Bool) (bss : List Bs) :
    execQ srch (.or qs sc) bss = bindEach (execOr srch qs sc) bss := by
  rw [execQ.eq_5]; rfl

theorem exec_not_eq (srch : Srch) (q : Q) (bss : List Bs) :
    execQ srch (.not q) bss = bindEach (notOne (execQ srch q)) bss := by
  rw [execQ.eq_6]
  induction bss with
  | nil => rw [execNot.eq_1]; rfl
  | cons b bs ih =>
    rw [execNot.eq_2]
    cases h1 : execQ srch q [b] with
    | error e =>
      rw [bindEach_cons_err1 _ b bs e (by unfold notOne; rw [h1]; rfl)]; rfl
    | ok more =>
      have hb : notOne (execQ srch q) b = .ok (if more.isEmpty then [b] else []) := by
        unfold notOne; rw [h1]; rfl
      cases h2 : bindEach (notOne (execQ srch q)) bs with
      | error e =>
        rw [bindEach_cons_err2 _ b bs _ e hb h2, ih, h2]; rfl
      | ok r =>
        rw [bindEach_cons_ok _ b bs _ r hb h2, ih, h2]
        show Except.ok _ = _
        cases more.isEmpty <;> rfl

/-! ## `and` = Kleisli fold; the compositional law -/

theorem exec_and_eq (srch : Srch) (qs : List Q) (bss : List Bs) :
    execQ srch (.and qs) bss = qs.foldlM (fun acc q => execQ srch q acc) bss := by
  rw [execQ.eq_4]
  induction qs generalizing bss with
  | nil => rw [execAnd.eq_1]; rfl
  | cons q qs ih =>
    rw [execAnd.eq_2, List.foldlM_cons]
    cases h : execQ srch q bss with
    | error e => rfl
    | ok r => exact ih r

theorem additive_id : Additive (fun bss => (Except.ok bss : Except LErr (List Bs))) := by
  intro b₁ b₂
  refine ⟨?_, ?_, ?_⟩
  · intro r₁ r₂ h1 h2; cases h1; cases h2; rfl
  · intro e h; cases h
  · intro e h; cases h

theorem bind_ok {α β} (x : Except LErr α) (a : α) (g : α → Except LErr β) (h : x = .ok a) :
    (do let r ← x; g r) = g a := by rw [h]; rfl
theorem bind_err {α β} (x : Except LErr α) (e : LErr) (g : α → Except LErr β) (h : x = .error e) :
    (do let r ← x; g r) = .error e := by rw [h]; rfl

theorem additive_comp (f g : List Bs → Except LErr (List Bs)) (hf : Additive f) (hg : Additive g) :
    Additive (fun bss => do let r ← f bss; g r) := by
  intro b₁ b₂
  obtain ⟨hf1, hf2, hf3⟩ := hf b₁ b₂
  refine ⟨?_, ?_, ?_⟩
  · intro r₁ r₂ h1 h2
    dsimp only at h1 h2
    cases e1 : f b₁ with
    | error e => rw [bind_err _ e g e1] at h1; cases h1
    | ok s₁ =>
      cases e2 : f b₂ with
      | error e => rw [bind_err _ e g e2] at h2; cases h2
      | ok s₂ =>
        rw [bind_ok _ s₁ g e1] at h1
        rw [bind_ok _ s₂ g e2] at h2
        show (do let r ← f (b₁ ++ b₂); g r) = _
        rw [bind_ok _ _ g (hf1 s₁ s₂ e1 e2)]
        exact (hg s₁ s₂).1 r₁ r₂ h1 h2
  · intro e h1
    dsimp only at h1
    show ∃ e', (do let r ← f (b₁ ++ b₂); g r) = _
    cases e1 : f b₁ with
    | error e0 => obtain ⟨e', he'⟩ := hf2 e0 e1; exact ⟨e', bind_err _ e' g he'⟩
    | ok s₁ =>
      rw [bind_ok _ s₁ g e1] at h1
      cases e2 : f b₂ with
      | error e0 => obtain ⟨e', he'⟩ := hf3 e0 e2; exact ⟨e', bind_err _ e' g he'⟩
      | ok s₂ =>
        rw [bind_ok _ _ g (hf1 s₁ s₂ e1 e2)]
        exact (hg s₁ s₂).2.1 e h1
  · intro e h2
    dsimp only at h2
    show ∃ e', (do let r ← f (b₁ ++ b₂); g r) = _
    cases e2 : f b₂ with
    | error e0 => obtain ⟨e', he'⟩ := hf3 e0 e2; exact ⟨e', bind_err _ e' g he'⟩
    | ok s₂ =>
      rw [bind_ok _ s₂ g e2] at h2
      cases e1 : f b₁ with
      | error e0 => obtain ⟨e', he'⟩ := hf2 e0 e1; exact ⟨e', bind_err _ e' g he'⟩
      | ok s₁ =>
        rw [bind_ok _ _ g (hf1 s₁ s₂ e1 e2)]
        exact (hg s₁ s₂).2.2 e h2

/-- the compositional law, for every query program -/
theorem exec_additive (srch : Srch) (q : Q) : Additive (execQ srch q) := by
  have := execQ.mutual_induct
    (motive1 := fun q _ => Additive (execQ srch q))
    (motive2 := fun _ _ => True) (motive3 := fun _ _ _ => True)
    (motive4 := fun qs _ => Additive (execAnd srch qs))
    (fun _ => by
      have : execQ srch .empty = fun bss => Except.ok bss := funext (fun b => execQ.eq_1 srch b)
      rw [this]; exact additive_id)
    (fun p l _ => by
      have : execQ srch (.pattern p l) = bindEach (patOne srch p) := funext (exec_pattern_eq srch p l)
      rw [this]; exact bindEach_additive _)
    (fun t _ => by
      have : execQ srch (.code t) = bindEach (codeOne t) := funext (exec_code_eq srch t)
      rw [this]; exact bindEach_additive _)
    (fun qs _ ih => by
      have : execQ srch (.and qs) = execAnd srch qs := funext (fun b => execQ.eq_4 srch b qs)
      rw [this]; exact ih)
    (fun qs sc _ _ => by
      have : execQ srch (.or qs sc) = bindEach (execOr srch qs sc) := funext (exec_or_eq srch qs sc)
      rw [this]; exact bindEach_additive _)
    (fun q _ _ => by
      have : execQ srch (.not q) = bindEach (notOne (execQ srch q)) := funext (exec_not_eq srch q)
      rw [this]; exact bindEach_additive _)
    (fun _ => trivial) (fun _ _ _ _ _ => trivial) (fun _ _ => trivial) (fun _ _ _ _ _ _ => trivial)
    (fun _ => by
      have : execAnd srch [] = fun bss => Except.ok bss := funext (fun b => execAnd.eq_1 srch b)
      rw [this]; exact additive_id)
    (fun q qs bss ih1 ih2 => by
      have : execAnd srch (q :: qs) = fun bss => (do let r ← execQ srch q bss; execAnd srch qs r) :=
        funext (fun b => execAnd.eq_2 srch b q qs)
      rw [this]; exact additive_comp _ _ ih1 (ih2 bss))
  exact this.1 q []


theorem exec_nil (srch : Srch) (q : Q) : execQ srch q [] = .ok [] := by
  have := execQ.mutual_induct
    (motive1 := fun q _ => execQ srch q [] = .ok [])
    (motive2 := fun _ _ => True) (motive3 := fun _ _ _ => True)
    (motive4 := fun qs _ => execAnd srch qs [] = .ok [])
    (fun _ => execQ.eq_1 srch [])
    (fun p l _ => by rw [exec_pattern_eq]; rfl)
    (fun t _ => by rw [exec_code_eq]; rfl)
    (fun qs _ ih => by rw [execQ.eq_4]; exact ih)
    (fun qs sc _ _ => by rw [exec_or_eq]; rfl)
    (fun q _ _ => by rw [exec_not_eq]; rfl)
    (fun _ => trivial) (fun _ _ _ _ _ => trivial) (fun _ _ => trivial) (fun _ _ _ _ _ _ => trivial)
    (fun _ => execAnd.eq_1 srch [])
    (fun q qs bss ih1 ih2 => by rw [execAnd.eq_2, bind_ok _ _ _ ih1]; exact ih2 bss)
  exact this.1 q []

/-- a successful evaluation on several bindings is the concatenation of the evaluations on the singletons -/
theorem exec_singletons (srch : Srch) (q : Q) : ∀ (bss : List Bs) (r : List Bs),
    execQ srch q bss = .ok r →
    ∃ per, Pointwise (fun bs x => execQ srch q [bs] = .ok x) bss per ∧ r = per.flatten
  | [], r, h => by
    rw [exec_nil] at h; cases h; exact ⟨[], .nil, rfl⟩
  | b :: bs, r, h => by
    obtain ⟨h1, h2, h3⟩ := exec_additive srch q [b] bs
    have h' : execQ srch q ([b] ++ bs) = .ok r := h
    cases e1 : execQ srch q [b] with
    | error e => obtain ⟨e', he'⟩ := h2 e e1; rw [he'] at h'; cases h'
    | ok r₁ =>
      cases e2 : execQ srch q bs with
      | error e => obtain ⟨e', he'⟩ := h3 e e2; rw [he'] at h'; cases h'
      | ok r₂ =>
        rw [h1 r₁ r₂ e1 e2] at h'
        cases h'
        obtain ⟨per, hp, hr⟩ := exec_singletons srch q bs r₂ e2
        exact ⟨r₁ :: per, .cons e1 hp, by rw [hr]; rfl⟩

/-! ## `or` -/

theorem execOr_nil (srch : Srch) (sc : Bool) (bs : Bs) : execOr srch [] sc bs = .ok [] := execOr.eq_1 srch sc bs

theorem execOr_cons_err (srch : Srch) (q : Q) (qs : List Q) (sc : Bool) (bs : Bs) (e : LErr)
    (h : execQ srch q [bs] = .error e) : execOr srch (q :: qs) sc bs = .error e := by
  rw [execOr.eq_2, bind_err _ e _ h]

theorem execOr_cons_empty (srch : Srch) (q : Q) (qs : List Q) (sc : Bool) (bs : Bs)
    (h : execQ srch q [bs] = .ok []) : execOr srch (q :: qs) sc bs = execOr srch qs sc bs := by
  rw [execOr.eq_2, bind_ok _ _ _ h]
  rw [if_neg (by simp)]
  cases execOr srch qs sc bs <;> rfl

theorem execOr_cons_sc (srch : Srch) (q : Q) (qs : List Q) (bs : Bs) (r : List Bs)
    (h : execQ srch q [bs] = .ok r) (hne : r ≠ []) : execOr srch (q :: qs) true bs = .ok r := by
  rw [execOr.eq_2, bind_ok _ _ _ h]
  have : (true && !r.isEmpty) = true := by cases r with | nil => exact absurd rfl hne | cons _ _ => rfl
  rw [if_pos this]; rfl

theorem execOr_cons_nosc (srch : Srch) (q : Q) (qs : List Q) (bs : Bs) (r rest : List Bs)
    (h : execQ srch q [bs] = .ok r) (h2 : execOr srch qs false bs = .ok rest) :
    execOr srch (q :: qs) false bs = .ok (r ++ rest) := by
  rw [execOr.eq_2, bind_ok _ _ _ h]
  rw [if_neg (by simp), bind_ok _ _ _ h2]; rfl

theorem execOr_all (srch : Srch) (bs : Bs) : ∀ (qs : List Q) (rs : List (List Bs)),
    Pointwise (fun q r => execQ srch q [bs] = .ok r) qs rs → execOr srch qs false bs = .ok rs.flatten
  | _, _, .nil => execOr_nil srch false bs
  | _, _, .cons h t => execOr_cons_nosc srch _ _ bs _ _ h (execOr_all srch bs _ _ t)

theorem execOr_first (srch : Srch) (bs : Bs) : ∀ (qs : List Q) (rs : List (List Bs)),
    Pointwise (fun q r => execQ srch q [bs] = .ok r) qs rs → execOr srch qs true bs = .ok (orFirst rs)
  | _, _, .nil => execOr_nil srch true bs
  | q :: qs, r :: rs, .cons h t => by
    cases r with
    | nil =>
      rw [execOr_cons_empty srch q qs true bs h, execOr_first srch bs qs rs t]; rfl
    | cons x xs =>
      rw [execOr_cons_sc srch q qs bs _ h (by simp)]; rfl

/-! ## `not` -/

theorem exec_not_filter (srch : Srch) (q : Q) (res : Bs → List Bs) (bss : List Bs)
    (h : ∀ bs ∈ bss, execQ srch q [bs] = .ok (res bs)) :
    execQ srch (.not q) bss = .ok (bss.filter (fun bs => (res bs).isEmpty)) := by
  rw [exec_not_eq, bindEach_ok_of_forall _ (fun bs => if (res bs).isEmpty then [bs] else []) bss]
  · congr 1
    clear h
    induction bss with
    | nil => rfl
    | cons b bs ih =>
      rw [List.flatMap_cons, ih, List.filter_cons]
      cases (res b).isEmpty <;> rfl
  · intro bs hm
    unfold notOne; rw [bind_ok _ _ _ (h bs hm)]; rfl


/-! ## bindings as association lists -/

theorem get?_cons (k k' : String) (v : J) (r : Bs) :
    Bs.get? ((k', v) :: r) k = if k == k' then some v else Bs.get? r k := by
  rw [Bs.get?]

theorem get?_nil (k : String) : Bs.get? [] k = none := by rw [Bs.get?]

theorem get?_append (a b : Bs) (k : String) : Bs.get? (a ++ b) k = (Bs.get? a k).or (Bs.get? b k) := by
  induction a with
  | nil => rw [List.nil_append, get?_nil]; rfl
  | cons kv a ih =>
    obtain ⟨k', v⟩ := kv
    rw [List.cons_append, get?_cons, get?_cons, ih]
    split <;> rfl

theorem get?_filter_ne (bs : Bs) (k k' : String) (h : (k' == k) = false) :
    Bs.get? (bs.filter (fun p => p.1 != k)) k' = Bs.get? bs k' := by
  induction bs with
  | nil => rfl
  | cons kv bs ih =>
    obtain ⟨k₀, v⟩ := kv
    rw [List.filter_cons]
    by_cases hk : k₀ = k
    · subst hk
      simp only [bne_self_eq_false, Bool.false_eq_true, if_false]
      rw [ih, get?_cons, h]; rfl
    · have : (k₀ != k) = true := by simpa using hk
      simp only [this, if_true]
      rw [get?_cons, get?_cons, ih]

theorem get?_set (bs : Bs) (k k' : String) (v : J) :
    Bs.get? (bs.set k v) k' = if k' == k then some v else Bs.get? bs k' := by
  unfold Bs.set
  rw [get?_cons]
  cases h : k' == k
  · simp only [Bool.false_eq_true, if_false]; exact get?_filter_ne bs k k' h
  · rfl

/-- `ExtendBindings` is a right-biased merge: the *last* entry of `y` for `k` wins, else `x`'s -/
theorem extendBs_get_last (x y : Bs) (k : String) :
    Bs.get? (extendBs x y) k = (Bs.getLast? y k).or (Bs.get? x k) := by
  unfold extendBs Bs.getLast?
  induction y generalizing x with
  | nil => rw [List.reverse_nil, get?_nil]; rfl
  | cons kv y ih =>
    rw [List.foldl_cons, ih, List.reverse_cons, get?_append, get?_set, get?_cons, get?_nil]
    cases Bs.get? y.reverse k with
    | some v => rfl
    | none =>
      cases k == kv.1 <;> rfl

theorem get?_some_mem (bs : Bs) (k : String) (v : J) (h : Bs.get? bs k = some v) : (k, v) ∈ bs := by
  induction bs with
  | nil => rw [get?_nil] at h; cases h
  | cons kv bs ih =>
    obtain ⟨k', v'⟩ := kv
    rw [get?_cons] at h
    by_cases hk : k = k'
    · subst hk; simp at h; subst h; exact List.mem_cons_self
    · have : (k == k') = false := by simpa using hk
      rw [this] at h
      exact List.mem_cons_of_mem _ (ih h)

theorem get?_of_mem_nodup (bs : Bs) (k : String) (v : J) (hn : (bs.map (·.1)).Nodup) (hm : (k, v) ∈ bs) :
    Bs.get? bs k = some v := by
  induction bs with
  | nil => cases hm
  | cons kv bs ih =>
    obtain ⟨k', v'⟩ := kv
    rw [List.map_cons, List.nodup_cons] at hn
    rw [get?_cons]
    cases hm with
    | head => simp
    | tail _ hm =>
      have hne : k ≠ k' := by
        intro he; subst he
        exact hn.1 (List.mem_map.mpr ⟨(k, v), hm, rfl⟩)
      have : (k == k') = false := by simpa using hne
      rw [this]; exact ih hn.2 hm

theorem getLast?_eq_get?_of_nodup (y : Bs) (k : String) (hn : (y.map (·.1)).Nodup) :
    Bs.getLast? y k = Bs.get? y k := by
  unfold Bs.getLast?
  have hn' : (y.reverse.map (·.1)).Nodup := by
    rw [List.map_reverse]
    unfold List.Nodup at *
    rw [List.pairwise_reverse]
    exact hn.imp (fun h => h.symm)
  cases h : Bs.get? y k with
  | some v =>
    exact get?_of_mem_nodup _ k v hn' (List.mem_reverse.mpr (get?_some_mem y k v h))
  | none =>
    cases h' : Bs.get? y.reverse k with
    | none => rfl
    | some v =>
      have := get?_of_mem_nodup y k v hn (List.mem_reverse.mp (get?_some_mem _ k v h'))
      rw [this] at h; cases h

/-- `ExtendBindings x y` on a proper map `y` (distinct keys): `y`'s value if `y` binds `k`, else `x`'s -/
theorem extendBs_get (x y : Bs) (k : String) (hn : (y.map (·.1)).Nodup) :
    Bs.get? (extendBs x y) k = (Bs.get? y k).or (Bs.get? x k) := by
  rw [extendBs_get_last, getLast?_eq_get?_of_nodup y k hn]

/-! ## `codeKeep` -/

theorem codeKeep_obj (bs : Bs) (o : Obj) :
    codeKeep bs (.obj o) = [extendBs bs (o.map (fun kv => ("?" ++ kv.1, kv.2)))] := by
  unfold codeKeep extendBs
  rw [List.foldl_map]

theorem codeKeep_eq_nil (bs : Bs) (v : J) : codeKeep bs v = [] ↔ v = .null ∨ v = .bool false := by
  cases v with
  | bool b => cases b <;> simp [codeKeep]
  | _ => simp [codeKeep]

theorem codeKeep_keep (bs : Bs) (v : J) (h1 : v ≠ .null) (h2 : v ≠ .bool false) (h3 : ∀ o, v ≠ .obj o) :
    codeKeep bs v = [bs] := by
  cases v with
  | bool b => cases b with | true => rfl | false => exact absurd rfl h2
  | null => exact absurd rfl h1
  | obj o => exact absurd rfl (h3 o)
  | _ => rfl


/-! ## `ParseQuery` -/

theorem parse_empty (n : Nat) : parseQuery (n + 1) (.obj []) = .ok .empty := parseQuery.eq_2 n

theorem parse_fuel0 (j : J) : parseQuery 0 j = .error "fuel" := by rw [parseQuery]

theorem parse_nonmap (n : Nat) (j : J) (h : ∀ o, j ≠ .obj o) : parseQuery (n + 1) j = .error "syntax" := by
  exact parseQuery.eq_4 j n (fun he => h _ he) (fun q he => h q he)

theorem parse_code (n : Nat) (q : Obj) (hne : q ≠ []) (h : Obj.has q "code" = true) :
    parseQuery (n + 1) (.obj q) =
      if Obj.has q "verif_bad" then .error "syntax" else .ok (.code ((Obj.get? q "verif_tmpl").getD .null)) := by
  rw [parseQuery.eq_3 n q hne, if_pos h]

theorem parse_pattern (n : Nat) (q : Obj) (hne : q ≠ []) (h0 : Obj.has q "code" = false)
    (h : Obj.has q "pattern" = true) :
    parseQuery (n + 1) (.obj q) =
      match Obj.get? q "pattern" with
      | some (.obj p) => .ok (.pattern p [])
      | _ => .error "syntax" := by
  rw [parseQuery.eq_3 n q hne, if_neg (by simp [h0]), if_pos h]
  generalize Obj.get? q _ = o
  cases o with
  | none => rfl
  | some v => cases v <;> rfl

theorem parse_and (n : Nat) (q : Obj) (hne : q ≠ []) (h0 : Obj.has q "code" = false)
    (h1 : Obj.has q "pattern" = false) (h : Obj.has q "and" = true) :
    parseQuery (n + 1) (.obj q) =
      match Obj.get? q "and" with
      | some (.arr xs) => do let qs ← xs.mapM (parseQuery n); pure (.and qs)
      | _ => .error "syntax" := by
  rw [parseQuery.eq_3 n q hne, if_neg (by simp [h0]), if_neg (by simp [h1]), if_pos h]
  generalize Obj.get? q _ = o
  cases o with
  | none => rfl
  | some v => cases v <;> rfl

theorem sc_inline_gen (q : Obj) (ks : List String) :
    (match (ks.filterMap (Obj.get? q)).head? with
      | none => pure false
      | some (.bool b) => pure b
      | some _ => .error "syntax" : Except LErr Bool) =
    (match ks.find? (Obj.has q) with
      | none => .ok false
      | some k =>
        match Obj.get? q k with
        | some (.bool b) => .ok b
        | _ => .error "syntax") := by
  induction ks with
  | nil => rfl
  | cons k ks ih =>
    cases h : Obj.get? q k with
    | none =>
      have hh : Obj.has q k = false := by unfold Obj.has; unfold Obj.get? at h; rw [h]; rfl
      rw [List.filterMap_cons, h, List.find?_cons, hh]
      exact ih
    | some v =>
      have hh : Obj.has q k = true := by unfold Obj.has; unfold Obj.get? at h; rw [h]; rfl
      rw [List.filterMap_cons, h, List.find?_cons, hh, List.head?_cons]
      simp only [h]
      cases v <;> rfl

theorem sc_inline_eq (q : Obj) :
    (match (["shortCircuit", "ShortCircuit", "short_circuit", "shortcircuit"].filterMap (Obj.get? q)).head? with
      | none => pure false
      | some (.bool b) => pure b
      | some _ => .error "syntax" : Except LErr Bool) = scSpec q := by
  rw [sc_inline_gen]; rfl

theorem parse_or (n : Nat) (q : Obj) (hne : q ≠ []) (h0 : Obj.has q "code" = false)
    (h1 : Obj.has q "pattern" = false) (h2 : Obj.has q "and" = false) (h : Obj.has q "or" = true) :
    parseQuery (n + 1) (.obj q) =
      match Obj.get? q "or" with
      | some (.arr xs) => do let qs ← xs.mapM (parseQuery n); let sc ← scSpec q; pure (.or qs sc)
      | _ => .error "syntax" := by
  rw [parseQuery.eq_3 n q hne, if_neg (by simp [h0]), if_neg (by simp [h1]), if_neg (by simp [h2]), if_pos h]
  rw [← sc_inline_eq q]
  generalize (List.filterMap (Obj.get? q) _).head? = o'
  generalize Obj.get? q _ = o
  cases o with
  | none => rfl
  | some v =>
    cases v <;> rfl

theorem parse_not (n : Nat) (q : Obj) (hne : q ≠ []) (h0 : Obj.has q "code" = false)
    (h1 : Obj.has q "pattern" = false) (h2 : Obj.has q "and" = false) (h3 : Obj.has q "or" = false)
    (h : Obj.has q "not" = true) :
    parseQuery (n + 1) (.obj q) =
      match Obj.get? q "not" with
      | some (.obj a) => do let q' ← parseQuery n (.obj a); pure (.not q')
      | _ => .error "syntax" := by
  rw [parseQuery.eq_3 n q hne, if_neg (by simp [h0]), if_neg (by simp [h1]), if_neg (by simp [h2]),
    if_neg (by simp [h3]), if_pos h]
  generalize Obj.get? q _ = o
  cases o with
  | none => rfl
  | some v => cases v <;> rfl

theorem parse_none (n : Nat) (q : Obj) (hne : q ≠ []) (h0 : Obj.has q "code" = false)
    (h1 : Obj.has q "pattern" = false) (h2 : Obj.has q "and" = false) (h3 : Obj.has q "or" = false)
    (h4 : Obj.has q "not" = false) :
    parseQuery (n + 1) (.obj q) = .error "syntax" := by
  rw [parseQuery.eq_3 n q hne, if_neg (by simp [h0]), if_neg (by simp [h1]), if_neg (by simp [h2]),
    if_neg (by simp [h3]), if_neg (by simp [h4])]

/-- none of the four spellings present: no short-circuit -/
theorem scSpec_absent (q : Obj) (h : ∀ k ∈ scKeys, Obj.has q k = false) : scSpec q = .ok false := by
  unfold scSpec
  have : scKeys.find? (Obj.has q) = none := by
    rw [List.find?_eq_none]; intro k hk; simp [h k hk]
  rw [this]

/-- the first spelling that is present decides, whatever the later ones say -/
theorem scSpec_first (q : Obj) (pre post : List String) (k : String) (v : J)
    (hk : scKeys = pre ++ k :: post) (hpre : ∀ k' ∈ pre, Obj.has q k' = false) (hv : Obj.get? q k = some v) :
    scSpec q = match v with | .bool b => .ok b | _ => .error "syntax" := by
  unfold scSpec
  have hh : Obj.has q k = true := by unfold Obj.has; unfold Obj.get? at hv; rw [hv]; rfl
  have : scKeys.find? (Obj.has q) = some k := by
    rw [hk, List.find?_append]
    have : pre.find? (Obj.has q) = none := by
      rw [List.find?_eq_none]; intro k' hk'; simp [hpre k' hk']
    rw [this, List.find?_cons, hh]; rfl
  rw [this]; simp only [hv]
  cases v <;> rfl


/-! ## `StripQuestionMarks` -/

theorem stripQ_eq (bs : Bs) :
    stripQ bs = (bs.filter (fun kv => !kv.1.isEmpty)).map (fun kv => (stripKey kv.1, kv.2)) := rfl

theorem stripKey_var (s : String) : stripKey ("?" ++ s) = s := by
  unfold stripKey
  rw [if_pos (by simp)]
  simp
  rw [← String.toList_inj, String.toList_copy_drop]
  simp

theorem stripKey_nonvar (k : String) (h : k.startsWith "?" = false) : stripKey k = k := by
  unfold stripKey; rw [if_neg (by simp [h])]

theorem startsWith_q_iff (k : String) : k.startsWith "?" = true ↔ ∃ t, k = "?" ++ t := by
  constructor
  · intro h
    simp at h
    obtain ⟨r, hr⟩ := h
    exact ⟨String.ofList r, by rw [← String.toList_inj]; simp [← hr]⟩
  · rintro ⟨t, rfl⟩; simp

theorem mem_stripQ (bs : Bs) (k' : String) (v : J) :
    (k', v) ∈ stripQ bs ↔ ∃ k, (k, v) ∈ bs ∧ k ≠ "" ∧ k' = stripKey k := by
  rw [stripQ_eq, List.mem_map]
  constructor
  · rintro ⟨⟨k, w⟩, hm, he⟩
    rw [List.mem_filter] at hm
    simp only [Prod.mk.injEq] at he
    obtain ⟨h1, h2⟩ := he
    subst h2
    exact ⟨k, hm.1, by simpa using hm.2, h1.symm⟩
  · rintro ⟨k, hm, hne, he⟩
    exact ⟨(k, v), List.mem_filter.mpr ⟨hm, by simpa using hne⟩, by rw [he]⟩

theorem stripQ_nil : stripQ [] = [] := rfl

theorem stripQ_cons (k : String) (v : J) (bs : Bs) :
    stripQ ((k, v) :: bs) = if k = "" then stripQ bs else (stripKey k, v) :: stripQ bs := by
  rw [stripQ_eq, stripQ_eq, List.filter_cons]
  by_cases h : k = ""
  · subst h; simp
  · simp [h]


theorem execOr_skip_empty (srch : Srch) (sc : Bool) (bs : Bs) (rest : List Q) : ∀ (pre : List Q),
    (∀ q ∈ pre, execQ srch q [bs] = .ok []) → execOr srch (pre ++ rest) sc bs = execOr srch rest sc bs
  | [], _ => rfl
  | q :: pre, h => by
    rw [List.cons_append, execOr_cons_empty srch q _ sc bs (h q (by simp))]
    exact execOr_skip_empty srch sc bs rest pre (fun q' hq' => h q' (by simp [hq']))

theorem execOr_nosc_err (srch : Srch) (bs : Bs) (q : Q) (post : List Q) (e : LErr) : ∀ (pre : List Q),
    (∀ q' ∈ pre, ∃ r, execQ srch q' [bs] = .ok r) → execQ srch q [bs] = .error e →
    execOr srch (pre ++ q :: post) false bs = .error e
  | [], _, he => execOr_cons_err srch q post false bs e he
  | p :: pre, h, he => by
    obtain ⟨r, hr⟩ := h p (by simp)
    rw [List.cons_append, execOr.eq_2, bind_ok _ _ _ hr, if_neg (by simp),
      bind_err _ e _ (execOr_nosc_err srch bs q post e pre (fun q' hq' => h q' (by simp [hq'])) he)]

theorem exec_pattern_ok (srch : Srch) (p : Obj) (l : List String) (found : Bs → List Bs) (bss : List Bs)
    (h : ∀ bs ∈ bss, srch (substO bs p) = .ok (found bs)) :
    execQ srch (.pattern p l) bss = .ok (bss.flatMap fun bs => (found bs).map (extendBs bs)) := by
  rw [exec_pattern_eq]
  exact bindEach_ok_of_forall _ _ bss (fun bs hm => by unfold patOne; rw [bind_ok _ _ _ (h bs hm)]; rfl)

theorem exec_code_ok (srch : Srch) (t : J) (val : Bs → J) (bss : List Bs)
    (h : ∀ bs ∈ bss, evalTmpl t (stripQ bs) = .ok (val bs)) :
    execQ srch (.code t) bss = .ok (bss.flatMap fun bs => codeKeep bs (val bs)) := by
  rw [exec_code_eq]
  exact bindEach_ok_of_forall _ _ bss (fun bs hm => by unfold codeOne; rw [bind_ok _ _ _ (h bs hm)]; rfl)

/-! ## fuel -/

theorem sz_pos (j : J) : 1 ≤ sz j := by cases j <;> simp [sz] <;> omega

theorem sz_mem_le {x : J} {xs : List J} (h : x ∈ xs) : sz x ≤ szL xs := by
  induction xs with
  | nil => cases h
  | cons y ys ih =>
    rw [szL]
    cases h with
    | head => omega
    | tail _ h => have := ih h; omega

theorem sz_lookup_le {k : String} {q : List (String × J)} {v : J} (h : lookupKey k q = some v) : sz v ≤ szO q := by
  induction q with
  | nil => simp [lookupKey] at h
  | cons kv r ih =>
    obtain ⟨k', w⟩ := kv
    rw [szO]
    rw [lookupKey] at h
    by_cases hk : (k == k') = true
    · rw [if_pos hk] at h; cases h; omega
    · rw [if_neg hk] at h; have := ih h; omega

theorem mapM_congr' {α β} (f g : α → Except LErr β) (l : List α) (h : ∀ x ∈ l, f x = g x) : l.mapM f = l.mapM g := by
  induction l with
  | nil => rfl
  | cons x xs ih =>
    rw [List.mapM_cons, List.mapM_cons, h x (by simp), ih (fun y hy => h y (by simp [hy]))]

/-- any fuel ≥ the size of the document gives the same parse: the fuel that callers pass
(`4 * sz q + 4`) never influences the result -/
theorem parse_fuel_irrelevant : ∀ (n m : Nat) (j : J), sz j ≤ n → sz j ≤ m → parseQuery n j = parseQuery m j
  | 0, _, j, h, _ => by have := sz_pos j; omega
  | _, 0, j, _, h => by have := sz_pos j; omega
  | n + 1, m + 1, j, hn, hm => by
    cases j with
    | obj q =>
      cases q with
      | nil => rw [parseQuery.eq_2, parseQuery.eq_2]
      | cons kv r =>
        have hq : sz (.obj (kv :: r)) = 1 + szO (kv :: r) := by rw [sz]
        rw [parseQuery.eq_3 n _ (by simp), parseQuery.eq_3 m _ (by simp)]
        have hand : ∀ xs, Obj.get? (kv :: r) "and" = some (.arr xs) →
            xs.mapM (parseQuery n) = xs.mapM (parseQuery m) := by
          intro xs hx
          apply mapM_congr'
          intro x hxm
          have h1 := sz_lookup_le hx
          have h2 := sz_mem_le hxm
          rw [sz] at h1
          exact parse_fuel_irrelevant n m x (by omega) (by omega)
        have hor : ∀ xs, Obj.get? (kv :: r) "or" = some (.arr xs) →
            xs.mapM (parseQuery n) = xs.mapM (parseQuery m) := by
          intro xs hx
          apply mapM_congr'
          intro x hxm
          have h1 := sz_lookup_le hx
          have h2 := sz_mem_le hxm
          rw [sz] at h1
          exact parse_fuel_irrelevant n m x (by omega) (by omega)
        have hnot : ∀ a, Obj.get? (kv :: r) "not" = some (.obj a) →
            parseQuery n (.obj a) = parseQuery m (.obj a) := by
          intro a hx
          have h1 := sz_lookup_le hx
          exact parse_fuel_irrelevant n m _ (by omega) (by omega)
        generalize kv :: r = q at *
        split
        · rfl
        · split
          · rfl
          · split
            · cases h : Obj.get? q "and" with
              | none => rfl
              | some v =>
                cases v with
                | arr xs => dsimp only; rw [hand _ h]
                | _ => rfl
            · split
              · cases h : Obj.get? q "or" with
                | none => rfl
                | some v =>
                  cases v with
                  | arr xs => dsimp only; rw [hor _ h]
                  | _ => rfl
              · split
                · cases h : Obj.get? q "not" with
                  | none => rfl
                  | some v =>
                    cases v with
                    | obj a => dsimp only; rw [hnot _ h]
                    | _ => rfl
                · rfl
    | _ => rw [parseQuery.eq_4 _ n (by simp) (by simp), parseQuery.eq_4 _ m (by simp) (by simp)]


theorem pointwise_map {α β} (R : α → β → Prop) (f : α → β) : ∀ (l : List α), (∀ x ∈ l, R x (f x)) → Pointwise R l (l.map f)
  | [], _ => .nil
  | x :: xs, h => .cons (h x (by simp)) (pointwise_map R f xs (fun y hy => h y (by simp [hy])))

theorem flatten_map_eq_flatMap {α β} (l : List α) (f : α → List β) : (l.map f).flatten = l.flatMap f := by
  induction l with
  | nil => rfl
  | cons x xs ih => rw [List.map_cons, List.flatten_cons, ih, List.flatMap_cons]

/-- `or` on any list of incoming bindings, given every disjunct's result on every singleton -/
theorem exec_or_spec' (srch : Srch) (qs : List Q) (sc : Bool) (res : Bs → Q → List Bs) (bss : List Bs)
    (h : ∀ bs ∈ bss, ∀ q ∈ qs, execQ srch q [bs] = .ok (res bs q)) :
    execQ srch (.or qs sc) bss =
      .ok (bss.flatMap fun bs => if sc then orFirst (qs.map (res bs)) else qs.flatMap (res bs)) := by
  rw [exec_or_eq]
  apply bindEach_ok_of_forall
  intro bs hbs
  have hp := pointwise_map (fun q r => execQ srch q [bs] = .ok r) (res bs) qs (h bs hbs)
  cases sc with
  | true => exact execOr_first srch bs qs _ hp
  | false =>
    rw [execOr_all srch bs qs _ hp, flatten_map_eq_flatMap]
    rfl


end QueryProofs

import RulioModel.MatchIneq
import RulioProofs.MatchUnfold

/-! # Inequality variables (C05): the faithful matcher `matchJI` is a conservative extension of `matchJ`,
and what `matchStrI` does on an inequality variable, operator by operator -/

open List

/-! ## parsing the variable name -/
theorem ineqOf_le (r : String) : ineqOf ("?<=" ++ r) = some ("<=", r) := by
  simp [ineqOf, String.toList_append, String.ofList_toList]
theorem ineqOf_ge (r : String) : ineqOf ("?>=" ++ r) = some (">=", r) := by
  simp [ineqOf, String.toList_append, String.ofList_toList]
theorem ineqOf_ne (r : String) : ineqOf ("?!=" ++ r) = some ("!=", r) := by
  simp [ineqOf, String.toList_append, String.ofList_toList]

/-- `"?<" ++ r` is the strict inequality unless `r` is empty (`"?<"` is an ordinary variable) or starts
with `=` (then it is `"<="`) -/
theorem ineqOf_lt (r : String) (hne : r ≠ "") (heq : ¬ ['='] <+: r.toList) :
    ineqOf ("?<" ++ r) = some ("<", r) := by
  have hl : r.toList ≠ [] := fun h => hne (by rw [← String.ofList_toList (s := r), h])
  unfold ineqOf
  rw [String.toList_append]
  cases hr : r.toList with
  | nil => exact absurd hr hl
  | cons c t =>
    have hc : c ≠ '=' := by
      rintro rfl; exact heq ⟨t, by rw [hr]; rfl⟩
    have : "?<".toList = ['?', '<'] := rfl
    rw [this]
    simp only [List.cons_append, List.nil_append]
    rw [← hr, String.ofList_toList]
theorem ineqOf_gt (r : String) (hne : r ≠ "") (heq : ¬ ['='] <+: r.toList) :
    ineqOf ("?>" ++ r) = some (">", r) := by
  have hl : r.toList ≠ [] := fun h => hne (by rw [← String.ofList_toList (s := r), h])
  unfold ineqOf
  rw [String.toList_append]
  cases hr : r.toList with
  | nil => exact absurd hr hl
  | cons c t =>
    have hc : c ≠ '=' := by
      rintro rfl; exact heq ⟨t, by rw [hr]; rfl⟩
    have : "?>".toList = ['?', '>'] := rfl
    rw [this]
    simp only [List.cons_append, List.nil_append]
    rw [← hr, String.ofList_toList]

/-- an inequality variable is a variable, and it is not the anonymous one -/
theorem ineqOf_isVar {v : String} {x : String × String} (h : ineqOf v = some x) : isVar v = true ∧ v ≠ "?" := by
  unfold ineqOf at h
  constructor
  · rw [isVar_iff]
    split at h <;> first | (cases h; done) | (rename_i hv; exact ⟨_, by rw [hv]; rfl⟩)
  · rintro rfl
    simp at h

/-- every operator name `ineqOf` returns is one of the five -/
theorem ineqOf_op {v : String} {ie rest : String} (h : ineqOf v = some (ie, rest)) :
    ie = "<=" ∨ ie = ">=" ∨ ie = "!=" ∨ ie = ">" ∨ ie = "<" := by
  unfold ineqOf at h
  split at h <;> simp at h <;> simp [← h.1]

theorem ineqSat_lt (a b : Int) : ineqSat "<" a b = decide (a < b) := by simp [ineqSat]
theorem ineqSat_le (a b : Int) : ineqSat "<=" a b = decide (a ≤ b) := by simp [ineqSat]
theorem ineqSat_gt (a b : Int) : ineqSat ">" a b = decide (a > b) := by simp [ineqSat]
theorem ineqSat_ge (a b : Int) : ineqSat ">=" a b = decide (a ≥ b) := by simp [ineqSat]
theorem ineqSat_ne (a b : Int) : ineqSat "!=" a b = (a != b) := by simp [ineqSat]

/-! ## `inequal` / `matchStrI` -/
theorem inequal_of_not_ineq {v : String} (h : ineqOf v = none) (f : J) (bs : Bs) : inequal f bs v = none := by
  unfold inequal
  split
  · split
    · rw [h]
    · rfl
  · rfl

theorem inequal_of_fact_not_num {f : J} (hf : ∀ a, f ≠ .num a) (bs : Bs) (v : String) : inequal f bs v = none := by
  unfold inequal
  split
  · split
    · exact absurd rfl (hf _)
    · rfl
  · rfl

theorem inequal_of_unbound {v : String} {bs : Bs} (h : bs.get? v = none) (f : J) : inequal f bs v = none := by
  unfold inequal; rw [h]

theorem inequal_of_bound_not_num {v : String} {bs : Bs} {x : J} (h : bs.get? v = some x) (hx : ∀ b, x ≠ .num b) (f : J) :
    inequal f bs v = none := by
  unfold inequal; rw [h]
  cases x <;> first | rfl | exact absurd rfl (hx _)

/-- the whole behaviour of `inequal` once the variable parses, is bound to a number and sees a number -/
theorem inequal_eq {v ie rest : String} (hv : ineqOf v = some (ie, rest)) {bs : Bs} {a b : Int}
    (hb : bs.get? v = some (.num b)) :
    inequal (.num a) bs v =
      if ineqSat ie a b = false then some []
      else match bs.get? ("?" ++ rest) with
        | some (.num c) => some (if c == a then [bs] else [])
        | some _ => none
        | none => some [bs.set ("?" ++ rest) (.num a)] := by
  unfold inequal
  rw [hb]
  simp only [hv]
  cases ineqSat ie a b <;> rfl

theorem matchStrI_of_not_ineq {s : String} (h : ineqOf s = none) (f : J) (bs : Bs) :
    matchStrI s f bs = matchStr s f bs := by
  unfold matchStrI
  rw [inequal_of_not_ineq h]
  by_cases hv : isVar s = true
  · by_cases ha : s = "?"
    · subst ha; simp [matchStr, isVar]
    · simp [hv, ha]
  · simp [hv]

theorem matchStrI_of_fact_not_num {f : J} (hf : ∀ a, f ≠ .num a) (s : String) (bs : Bs) :
    matchStrI s f bs = matchStr s f bs := by
  unfold matchStrI
  rw [inequal_of_fact_not_num hf]
  by_cases hv : isVar s = true
  · by_cases ha : s = "?"
    · subst ha; simp [matchStr, isVar]
    · simp [hv, ha]
  · simp [hv]

/-- an unbound inequality variable is an ordinary variable (it binds itself to whatever it sees) -/
theorem matchStrI_of_unbound {s : String} {bs : Bs} (h : bs.get? s = none) (f : J) :
    matchStrI s f bs = matchStr s f bs := by
  unfold matchStrI
  rw [inequal_of_unbound h]
  by_cases hv : isVar s = true
  · by_cases ha : s = "?"
    · subst ha; simp [matchStr, isVar]
    · simp [hv, ha]
  · simp [hv]

/-- **Characterisation.** An inequality variable bound to the number `b`, laid over the number `a`. -/
theorem matchStrI_ineq {v ie rest : String} (hv : ineqOf v = some (ie, rest)) {bs : Bs} {a b : Int}
    (hb : bs.get? v = some (.num b)) :
    matchStrI v (.num a) bs =
      if ineqSat ie a b = false then .ok []
      else match bs.get? ("?" ++ rest) with
        | some (.num c) => .ok (if c == a then [bs] else [])
        | some _ => matchStr v (.num a) bs
        | none => .ok [bs.set ("?" ++ rest) (.num a)] := by
  obtain ⟨h1, h2⟩ := ineqOf_isVar hv
  unfold matchStrI
  rw [inequal_eq hv hb]
  simp only [h1, Bool.not_true, Bool.false_eq_true, if_false, beq_iff_eq, h2]
  cases ineqSat ie a b
  · simp
  · simp only [Bool.true_eq_false, if_false]
    cases hg : bs.get? ("?" ++ rest) with
    | none => rfl
    | some x => cases x <;> rfl

/-- target variable unbound: the inequality decides, and the target is bound to the number seen -/
theorem matchStrI_ineq_fresh {v ie rest : String} (hv : ineqOf v = some (ie, rest)) {bs : Bs} {a b : Int}
    (hb : bs.get? v = some (.num b)) (hn : bs.get? ("?" ++ rest) = none) :
    matchStrI v (.num a) bs = .ok (if ineqSat ie a b then [bs.set ("?" ++ rest) (.num a)] else []) := by
  rw [matchStrI_ineq hv hb, hn]
  cases ineqSat ie a b <;> simp

/-- target variable bound to a number `c`: the inequality *and* `c = a` decide; nothing new is bound -/
theorem matchStrI_ineq_bound_num {v ie rest : String} (hv : ineqOf v = some (ie, rest)) {bs : Bs} {a b c : Int}
    (hb : bs.get? v = some (.num b)) (hn : bs.get? ("?" ++ rest) = some (.num c)) :
    matchStrI v (.num a) bs = .ok (if ineqSat ie a b && c == a then [bs] else []) := by
  rw [matchStrI_ineq hv hb, hn]
  cases ineqSat ie a b <;> simp

/-- target variable bound to a non-number: a *refuted* inequality still refutes, but a satisfied one hands
over to the ordinary bound-variable test of `v` itself, i.e. `a = b` -/
theorem matchStrI_ineq_bound_other {v ie rest : String} (hv : ineqOf v = some (ie, rest)) {bs : Bs} {a b : Int}
    {x : J} (hb : bs.get? v = some (.num b)) (hn : bs.get? ("?" ++ rest) = some x) (hx : ∀ c, x ≠ .num c) :
    matchStrI v (.num a) bs = .ok (if ineqSat ie a b && b == a then [bs] else []) := by
  obtain ⟨h1, h2⟩ := ineqOf_isVar hv
  rw [matchStrI_ineq hv hb, hn]
  have hm : matchStr v (.num a) bs = .ok (if b == a then [bs] else []) := by
    unfold matchStr
    simp only [h1, Bool.not_true, Bool.false_eq_true, if_false, beq_iff_eq, h2, hb, J.ground, if_true]
    rw [gmatch.eq_def]
    by_cases hba : b = a <;> simp [hba]
  cases ineqSat ie a b
  · simp
  · simp only [Bool.true_eq_false, if_false, Bool.true_and]
    cases x <;> first | exact absurd rfl (hx _) | exact hm

/-! ## unfolding of the faithful matcher -/
theorem matchJI_str (s : String) (f : J) (bs : Bs) : matchJI (.str s) f bs = matchStrI s f bs := by
  rw [matchJI.eq_def]
theorem matchJI_obj (kvs : List (String × J)) (f : J) (bs : Bs) :
    matchJI (.obj kvs) f bs =
      (match f with
       | .obj fm =>
         if kvs.isEmpty then .ok [bs]
         else if kvs.length > 1 && kvs.any (fun kv => isVar kv.1) then .error .propVarWithOthers
         else matchOI kvs fm [bs]
       | _ => .ok []) := by
  rw [matchJI.eq_def]; rfl
theorem matchJI_arr (xs : List J) (f : J) (bs : Bs) :
    matchJI (.arr xs) f bs =
      (match getVariable xs none with
       | .error e => .error e
       | .ok (v, _) =>
         match f with
         | .arr fa =>
           (matchAI xs (fa.filter (fun y => !y.isScalar)).isEmpty
              [([bs], (fa.filter J.isScalar).eraseDups, fa.filter (fun y => !y.isScalar))]) >>= fun branches =>
           match v with
           | none => pure (branches.flatMap (·.1))
           | some v =>
             (branches.mapM (fun br =>
               (splitNth (br.2.2 ++ br.2.1)).mapM (fun fr => br.1.mapM (fun b => matchStrI v fr.1 b)))) >>= fun ext =>
             if (ext.flatMap (fun per => per.flatMap (fun r => r.flatMap id))).isEmpty && isOptVar v
             then pure (branches.flatMap (·.1))
             else pure (ext.flatMap (fun per => per.flatMap (fun r => r.flatMap id)))
         | _ => .ok []) := by
  rw [matchJI.eq_def]; rfl

theorem matchOI_nil (fm : List (String × J)) (bss : List Bs) : matchOI [] fm bss = .ok bss := by
  rw [matchOI.eq_def]
theorem matchOI_cons_const {k : String} (hk : isVar k = false) (v : J) (r fm : List (String × J)) (bss : List Bs) :
    matchOI ((k, v) :: r) fm bss =
      (match lookupKey k fm with
       | none => (match v with
                  | .str s => if isOptVar s then matchOI r fm bss else .ok []
                  | _ => .ok [])
       | some fv =>
         (bss.mapM (fun b => matchJI v fv b)) >>= fun acc =>
           if (acc.flatMap id).isEmpty then pure [] else matchOI r fm (acc.flatMap id)) := by
  rw [matchOI.eq_def]; simp only [hk, Bool.false_eq_true, if_false]; rfl
theorem matchOI_cons_var {k : String} (hk : isVar k = true) (v : J) (r fm : List (String × J)) (bss : List Bs) :
    matchOI ((k, v) :: r) fm bss =
      ((fm.mapM (fun (fk, fv) =>
          (bss.mapM (fun b => matchStrI k (.str fk) b)) >>= fun e1 =>
            if (e1.flatMap id).isEmpty then pure []
            else ((e1.flatMap id).mapM (fun b => matchJI v fv b)) >>= fun e2 => pure (e2.flatMap id))) >>= fun per =>
        pure (per.flatMap id)) := by
  rw [matchOI.eq_def]; simp only [hk, if_true]

theorem matchAI_nil (ns : Bool) (branches : List (List Bs × List J × List J)) :
    matchAI [] ns branches = .ok branches := by
  rw [matchAI.eq_def]
theorem matchAI_cons_eq (x : J) (xs : List J) (ns : Bool) (branches : List (List Bs × List J × List J)) :
    matchAI (x :: xs) ns branches =
      (if isVarElem x = true then matchAI xs ns branches
       else if x.isScalar = true then
         (match branches with
          | [] => .ok []
          | (_, sc, _) :: _ =>
            if sc.contains x then matchAI xs ns (branches.map (fun br => (br.1, br.2.1.erase x, br.2.2)))
            else .ok [])
       else if ns = true then .ok [] else
        (branches.mapM (fun br =>
          (splitNth br.2.2).mapM (fun fr =>
            (br.1.mapM (fun b => matchJI x fr.1 b)) >>= fun acc =>
              pure (if (acc.flatMap id).isEmpty then [] else [(acc.flatMap id, br.2.1, fr.2)])))) >>= fun nb =>
        if (nb.flatMap (fun per => per.flatMap id)).isEmpty then pure []
        else matchAI xs ns (nb.flatMap (fun per => per.flatMap id))) := by
  rw [matchAI.eq_def]; rfl

/-! ## conservativity -/
theorem noIneqVarsL_mem : ∀ {xs : List J}, noIneqVarsL xs = true → ∀ x ∈ xs, noIneqVars x = true
  | [], _, x, hx => by cases hx
  | y :: ys, h, x, hx => by
      simp only [noIneqVarsL, Bool.and_eq_true] at h
      rcases List.mem_cons.1 hx with rfl | hx
      · exact h.1
      · exact noIneqVarsL_mem h.2 x hx

mutual
/-- on a pattern without inequality variables the faithful matcher is the matcher of `RulioModel/Match.lean` -/
theorem matchJI_eq_matchJ : ∀ (p : J), noIneqVars p = true → ∀ (f : J) (bs : Bs), matchJI p f bs = matchJ p f bs
  | .null, _, f, bs => by rw [matchJI.eq_def, matchJ.eq_def]; rfl
  | .bool _, _, f, bs => by rw [matchJI.eq_def, matchJ.eq_def]; rfl
  | .num _, _, f, bs => by rw [matchJI.eq_def, matchJ.eq_def]; rfl
  | .str s, h, f, bs => by
      rw [matchJI_str, matchJ_str]
      exact matchStrI_of_not_ineq (by simpa [noIneqVars] using h) f bs
  | .obj kvs, h, f, bs => by
      have hk : noIneqVarsO kvs = true := by simpa [noIneqVars] using h
      rw [matchJI_obj, matchJ_obj]
      cases f <;> simp only [matchOI_eq_matchO kvs hk]
  | .arr xs, h, f, bs => by
      have hx : noIneqVarsL xs = true := by simpa [noIneqVars] using h
      rw [matchJI_arr, matchJ_arr]
      cases hg : getVariable xs none with
      | error e => rfl
      | ok va =>
        obtain ⟨v, acc⟩ := va
        cases f with
        | arr fa =>
          simp only [matchAI_eq_matchA xs hx]
          cases v with
          | none => rfl
          | some v =>
            have hv : ineqOf v = none := by
              have := noIneqVarsL_mem hx _ (getVariable_some_isVar xs none (some v) acc hg rfl v rfl).1
              simpa [noIneqVars] using this
            simp only [matchStrI_of_not_ineq hv]
        | _ => rfl
theorem matchOI_eq_matchO : ∀ (kvs : List (String × J)), noIneqVarsO kvs = true →
    ∀ (fm : List (String × J)) (bss : List Bs), matchOI kvs fm bss = matchO kvs fm bss
  | [], _, fm, bss => by rw [matchOI_nil, matchO_nil]
  | (k, v) :: r, h, fm, bss => by
      simp only [noIneqVarsO, Bool.and_eq_true] at h
      obtain ⟨⟨hk, hv⟩, hr⟩ := h
      have hk' : ineqOf k = none := by simpa using hk
      by_cases hkv : isVar k = true
      · rw [matchOI_cons_var hkv, matchO_cons_var hkv]
        simp only [matchStrI_of_not_ineq hk', matchJI_eq_matchJ v hv]
      · have hkv' : isVar k = false := by simpa using hkv
        rw [matchOI_cons_const hkv', matchO_cons_const hkv']
        simp only [matchJI_eq_matchJ v hv, matchOI_eq_matchO r hr]
        rfl
theorem matchAI_eq_matchA : ∀ (xs : List J), noIneqVarsL xs = true →
    ∀ (ns : Bool) (br : List (List Bs × List J × List J)), matchAI xs ns br = matchA xs ns br
  | [], _, ns, br => by rw [matchAI_nil, matchA_nil]
  | x :: xs, h, ns, br => by
      simp only [noIneqVarsL, Bool.and_eq_true] at h
      rw [matchAI_cons_eq, matchA_cons_eq]
      simp only [matchJI_eq_matchJ x h.1, matchAI_eq_matchA xs h.2]
      rfl
end

import RulioProofs.StateFrame
import RulioProofs.StateMatch

set_option linter.unusedSimpArgs false
set_option linter.unusedVariables false

/-! # Search of both states when nothing is expired: a pure stScan over the candidate ids -/

/-- the re-match loop of both `search` functions without the expiry branch -/
def stScan (facts : List (String × Obj)) (p : Obj) :
    List String → List (String × Obj × List Bs) → Except LErr (List (String × Obj × List Bs))
  | [], acc => .ok acc
  | i :: rest, acc =>
    match amGet facts i with
    | none => stScan facts p rest acc
    | some fact =>
      match matchesJ (.obj p) (.obj fact) with
      | .error e => .error e
      | .ok bss => stScan facts p rest (if bss.isEmpty then acc else acc ++ [(i, fact, bss)])

theorem merr_ne_fuel (e : MErr) : merr e ≠ "fuel" := by cases e <;> decide

theorem matchesJ_err_ne_fuel {p d : J} {e : LErr} (h : matchesJ p d = .error e) : e ≠ "fuel" := by
  simp only [matchesJ] at h
  split at h
  · cases h
  · injection h with h; subst h; exact merr_ne_fuel _

theorem scan_ne_fuel {facts : List (String × Obj)} {p : Obj} {ids : List String} {acc} :
    stScan facts p ids acc ≠ .error "fuel" := by
  induction ids generalizing acc with
  | nil => simp [stScan]
  | cons i rest ih =>
    simp only [stScan]
    split
    · exact ih
    · split
      · rename_i e he
        intro h; injection h with h
        exact matchesJ_err_ne_fuel he h
      · exact ih

theorem amGet_noneExpired {s : St} {now : Int} (hne : NoneExpired s now) {i : String} {fact : Obj}
    (h : amGet s.facts i = some fact) : checkExpiration fact now = .ok false :=
  hne (i, fact) (amGet_some_mem h)

theorem isearchLoop_scan {s : St} {now : Int} (hne : NoneExpired s now) (p : Obj) : ∀ (f : Nat) (ids : List String) (acc),
    (St.isearchLoop f s p ids now acc = (s, .error "fuel") ∨
      St.isearchLoop f s p ids now acc = (s, stScan s.facts p ids acc)) ∧
    (ids.length < f → St.isearchLoop f s p ids now acc = (s, stScan s.facts p ids acc)) := by
  intro f
  induction f with
  | zero => intro ids acc; exact ⟨Or.inl rfl, fun h => absurd h (Nat.not_lt_zero _)⟩
  | succ f ih =>
    intro ids acc
    cases ids with
    | nil => exact ⟨Or.inr rfl, fun _ => rfl⟩
    | cons i rest =>
      rw [St.isearchLoop_cons]
      simp only [stScan, List.length_cons, Nat.add_lt_add_iff_right]
      cases hg : amGet s.facts i with
      | none => exact ih rest acc
      | some fact =>
        simp only [amGet_noneExpired hne hg]
        cases matchesJ (.obj p) (.obj fact) with
        | error e => exact ⟨Or.inr rfl, fun _ => rfl⟩
        | ok bss => exact ih rest _

theorem lsearchLoop_scan {s : St} {now : Int} (hne : NoneExpired s now) (p : Obj) : ∀ (f : Nat) (ids : List String) (acc),
    (St.lsearchLoop f s p ids now acc = (s, .error "fuel") ∨
      St.lsearchLoop f s p ids now acc = (s, stScan s.facts p ids acc)) ∧
    (ids.length < f → St.lsearchLoop f s p ids now acc = (s, stScan s.facts p ids acc)) := by
  intro f
  induction f with
  | zero => intro ids acc; exact ⟨Or.inl rfl, fun h => absurd h (Nat.not_lt_zero _)⟩
  | succ f ih =>
    intro ids acc
    cases ids with
    | nil => exact ⟨Or.inr rfl, fun _ => rfl⟩
    | cons i rest =>
      rw [St.lsearchLoop_cons]
      simp only [stScan, List.length_cons, Nat.add_lt_add_iff_right]
      cases hg : amGet s.facts i with
      | none => exact ih rest acc
      | some fact =>
        simp only [amGet_noneExpired hne hg]
        cases matchesJ (.obj p) (.obj fact) with
        | error e => exact ⟨Or.inr rfl, fun _ => rfl⟩
        | ok bss => exact ih rest _

/-- the indexed search as a pure function of the state (valid when nothing is expired) -/
def St.ispec (s : St) (p : Obj) : Except LErr (List (String × Obj × List Bs)) :=
  match s.cands p with
  | .error e => .error e
  | .ok ids => stScan s.facts p ids []

/-- the linear search as a pure function of the state (valid when nothing is expired) -/
def St.lspec (s : St) (p : Obj) : Except LErr (List (String × Obj × List Bs)) :=
  stScan s.facts p (s.facts.map (·.1)) []

def St.candsLen (s : St) (p : Obj) : Nat := match s.cands p with | .ok ids => ids.length | .error _ => 0

theorem isearch_spec {s : St} {now : Int} (hne : NoneExpired s now) (p : Obj) (f : Nat) :
    (St.isearch f s p now = (s, .error "fuel") ∨ St.isearch f s p now = (s, s.ispec p)) ∧
    (s.candsLen p + 1 < f → St.isearch f s p now = (s, s.ispec p)) := by
  cases f with
  | zero => exact ⟨Or.inl rfl, fun h => absurd h (Nat.not_lt_zero _)⟩
  | succ f =>
    rw [St.isearch_succ]
    simp only [St.ispec, St.candsLen]
    cases s.cands p with
    | error e => exact ⟨Or.inr rfl, fun _ => rfl⟩
    | ok ids =>
      simp only
      refine ⟨(isearchLoop_scan hne p f ids []).1, fun h => (isearchLoop_scan hne p f ids []).2 (by omega)⟩

theorem lsearch_spec {s : St} {now : Int} (hne : NoneExpired s now) (p : Obj) (f : Nat) :
    (St.lsearch f s p now = (s, .error "fuel") ∨ St.lsearch f s p now = (s, s.lspec p)) ∧
    (s.facts.length + 1 < f → St.lsearch f s p now = (s, s.lspec p)) := by
  cases f with
  | zero => exact ⟨Or.inl rfl, fun h => absurd h (Nat.not_lt_zero _)⟩
  | succ f =>
    rw [St.lsearch_succ]
    simp only [St.lspec]
    refine ⟨(lsearchLoop_scan hne p f _ []).1, fun h => (lsearchLoop_scan hne p f _ []).2 (by simp; omega)⟩

theorem ispec_ne_fuel {s : St} {p : Obj} (h : s.cands p ≠ .error "fuel") : s.ispec p ≠ .error "fuel" := by
  simp only [St.ispec]
  split
  · rename_i e he; intro h2; injection h2 with h2; subst h2; exact h he
  · exact scan_ne_fuel

theorem lspec_ne_fuel {s : St} {p : Obj} : s.lspec p ≠ .error "fuel" := scan_ne_fuel

theorem cands_ne_fuel (s : St) (p : Obj) : s.cands p ≠ .error "fuel" := by
  simp only [St.cands]
  split
  · simp
  · cases h : extractTerms p with
    | nil => simp [TI.search]
    | cons t ts => rw [TI.search_cons]; simp

/-! ## what a stScan returns -/

/-- the entry a candidate id contributes -/
def stHit (facts : List (String × Obj)) (p : Obj) (i : String) : Option (String × Obj × List Bs) :=
  match amGet facts i with
  | none => none
  | some fact =>
    match matchesJ (.obj p) (.obj fact) with
    | .ok bss => if bss.isEmpty then none else some (i, fact, bss)
    | .error _ => none

/-- no present candidate makes the matcher fail -/
def ScanOK (facts : List (String × Obj)) (p : Obj) (ids : List String) : Prop :=
  ∀ i, i ∈ ids → ∀ fact, amGet facts i = some fact → ∃ bss, matchesJ (.obj p) (.obj fact) = .ok bss

theorem scan_eq_of_ok {facts : List (String × Obj)} {p : Obj} {ids : List String} (h : ScanOK facts p ids) (acc) :
    stScan facts p ids acc = .ok (acc ++ ids.filterMap (stHit facts p)) := by
  induction ids generalizing acc with
  | nil => simp [stScan]
  | cons i rest ih =>
    have hrest : ScanOK facts p rest := fun j hj => h j (List.mem_cons_of_mem _ hj)
    simp only [stScan, List.filterMap_cons, stHit]
    cases hg : amGet facts i with
    | none => simp only; exact ih hrest acc
    | some fact =>
      obtain ⟨bss, hb⟩ := h i (by simp) fact hg
      simp only [hb]
      rw [ih hrest]
      by_cases hemp : bss.isEmpty = true
      · simp [hemp]
      · simp [hemp]

theorem scan_ok_inv {facts : List (String × Obj)} {p : Obj} {ids : List String} {acc R}
    (h : stScan facts p ids acc = .ok R) : ScanOK facts p ids := by
  induction ids generalizing acc with
  | nil => intro i hi; simp at hi
  | cons i rest ih =>
    simp only [stScan] at h
    intro j hj fact hf
    cases hg : amGet facts i with
    | none =>
      rw [hg] at h
      rcases List.mem_cons.1 hj with hj | hj
      · subst hj; rw [hg] at hf; cases hf
      · exact ih h j hj fact hf
    | some fact0 =>
      rw [hg] at h
      simp only at h
      cases hm : matchesJ (.obj p) (.obj fact0) with
      | error e => rw [hm] at h; cases h
      | ok bss =>
        rw [hm] at h
        rcases List.mem_cons.1 hj with hj | hj
        · subst hj; rw [hg] at hf; injection hf with hf; subst hf; exact ⟨bss, hm⟩
        · exact ih h j hj fact hf

/-- a stScan with the cascade pattern never fails and returns the candidates that are stored and name `id` -/
theorem scan_depPat (facts : List (String × Obj)) (id : String) (hid : isVar id = false) (ids : List String) :
    stScan facts (depPat id) ids [] = .ok (ids.filterMap (stHit facts (depPat id))) := by
  have := scan_eq_of_ok (facts := facts) (p := depPat id) (ids := ids)
    (fun i _ fact _ => ⟨_, matchesJ_depPat id hid fact⟩) []
  simpa using this

theorem hit_depPat_map (facts : List (String × Obj)) (id : String) (hid : isVar id = false) (ids : List String) :
    (ids.filterMap (stHit facts (depPat id))).map (·.1) =
      ids.filter (fun i => match amGet facts i with | some fact => depOn fact id | none => false) := by
  induction ids with
  | nil => rfl
  | cons i rest ih =>
    simp only [List.filterMap_cons, List.filter_cons, stHit]
    cases hg : amGet facts i with
    | none => simp only; exact ih
    | some fact =>
      simp only [matchesJ_depPat id hid fact]
      by_cases hd : depOn fact id = true
      · simp [hd, ih]
      · simp [hd, ih]

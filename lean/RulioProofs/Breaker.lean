import RulioModel.Breaker
import RulioModel.BreakerGhost

/-! # Helper lemmas for C20: the `counts` array of the real breaker refines the ghost model `G` -/

open Gen.C20

theorem getD_range_map (n : Nat) (f : Nat → Nat) (i : Nat) (h : i < n) :
    ((List.range n).map f).getD i 0 = f i := by
  simp [List.getD, h]

theorem range_map_congr (n : Nat) (f g : Nat → Nat) (h : ∀ i, i < n → f i = g i) :
    (List.range n).map f = (List.range n).map g := by
  apply List.map_congr_left
  intro i hi
  exact h i (List.mem_range.mp hi)

/-- the net effect of the copy and the zeroing loop of `slide`: shift right by `k`, zero-fill -/
def shiftL (k : Nat) (cs : List Nat) : List Nat :=
  (List.range cs.length).map fun i => if i < k then 0 else cs.getD (i - k) 0

theorem goCopySelf_length (cs : List Nat) (d s : Nat) : (goCopySelf cs d s).length = cs.length := by
  simp [goCopySelf]

/-- **tie to the generated offsets**: with the extracted `copyDst`, `copySrc`, `zeroLo`, `zeroCond` the two
statements of `slide` are a right shift by `k` -/
theorem slide_counts_eq (cs : List Nat) (k : Nat) :
    goZeroWhile (goCopySelf cs (copyDst k) (copySrc k)) (zeroLo k) (fun i => zeroCond i k) = shiftL k cs := by
  unfold goZeroWhile shiftL
  rw [goCopySelf_length]
  apply range_map_congr
  intro i hi
  simp only [zeroLo, zeroCond, copyDst, copySrc, Nat.zero_le, true_and, decide_eq_true_eq]
  by_cases hk : i < k
  · simp [hk]
  · simp only [hk, if_false]
    unfold goCopySelf
    rw [getD_range_map _ _ _ hi]
    have h1 : k ≤ i := Nat.le_of_not_lt hk
    have h2 : i - k < cs.length := by omega
    simp [h1, h2]

/-- per-bucket counts of the ghost admissions -/
def countsOf (all : List (Nat × Nat)) (n : Nat) : List Nat :=
  (List.range n).map fun i => all.countP (fun p => p.2 == i)

theorem countsOf_length (all : List (Nat × Nat)) (n : Nat) : (countsOf all n).length = n := by
  simp [countsOf]

theorem shiftL_countsOf (all : List (Nat × Nat)) (n k : Nat) :
    shiftL k (countsOf all n) = countsOf (all.map (fun p => (p.1, p.2 + k))) n := by
  unfold shiftL
  rw [countsOf_length]
  unfold countsOf
  apply range_map_congr
  intro i hi
  rw [List.countP_map]
  by_cases hk : i < k
  · simp only [hk, if_true]
    symm
    rw [List.countP_eq_zero]
    intro p _
    simp only [Function.comp_apply, beq_iff_eq]
    omega
  · simp only [hk, if_false]
    rw [getD_range_map _ _ _ (by omega)]
    apply List.countP_congr
    intro p _
    simp only [Function.comp_apply, beq_iff_eq]
    omega

theorem countP_lt_succ (all : List (Nat × Nat)) (n : Nat) :
    all.countP (fun p => decide (p.2 < n)) + all.countP (fun p => p.2 == n) =
      all.countP (fun p => decide (p.2 < n + 1)) := by
  induction all with
  | nil => simp
  | cons p all ih =>
    simp only [List.countP_cons]
    by_cases h1 : p.2 < n
    · have h2 : ¬ p.2 = n := by omega
      have h3 : p.2 < n + 1 := by omega
      simp [h1, h2, h3]; omega
    · by_cases h2 : p.2 = n
      · simp [h2]; omega
      · have h3 : ¬ p.2 < n + 1 := by omega
        simp [h1, h2, h3]; omega

theorem countsOf_sum (all : List (Nat × Nat)) (n : Nat) :
    (countsOf all n).sum = all.countP (fun p => decide (p.2 < n)) := by
  induction n with
  | zero => simp [countsOf]
  | succ n ih =>
    have : countsOf all (n + 1) = countsOf all n ++ [all.countP (fun p => p.2 == n)] := by
      simp [countsOf, List.range_succ]
    rw [this, List.sum_append, ih]
    simp only [List.sum_cons, List.sum_nil, Nat.add_zero]
    exact countP_lt_succ all n

theorem goIncrAt_countsOf (all : List (Nat × Nat)) (n now : Nat) :
    goIncrAt (countsOf all n) 0 = countsOf ((now, 0) :: all) n := by
  unfold goIncrAt
  rw [countsOf_length]
  unfold countsOf
  apply range_map_congr
  intro i hi
  rw [getD_range_map _ _ _ hi]
  simp only [List.countP_cons]
  by_cases h : i = 0
  · simp [h]
  · have : ¬ (0 : Nat) = i := by omega
    simp [h, this]

/-! ## the simulation relation -/

/-- bucket `i` of the real `counts` = number of ghost admissions that have been shifted `i` ticks -/
structure Refines (b : OB) (g : G) : Prop where
  counts : b.counts = countsOf g.all g.ticks
  res : b.res = g.res
  limit : b.limit = g.limit
  updated : b.updated = g.updated
  tpos : 0 < g.ticks

theorem OB.slide_res (b : OB) (now : Nat) : (b.slide now).res = b.res := rfl
theorem OB.slide_limit (b : OB) (now : Nat) : (b.slide now).limit = b.limit := rfl
theorem OB.slide_updated (b : OB) (now : Nat) : (b.slide now).updated = now := by
  simp [OB.slide, slideUpdatedUnconditional, slideUpdated]
theorem OB.slide_counts (b : OB) (now : Nat) : (b.slide now).counts = shiftL (b.shiftBy now) b.counts := by
  simp only [OB.slide]
  exact slide_counts_eq _ _

/-- **tie to the generated clamp**: `if len(b.counts) < ticks { ticks = len(b.counts) }` is `min` -/
theorem clampTicks_eq_min (len r : Nat) : clampTicks len r = min r len := by
  unfold clampTicks
  by_cases h1 : len < r
  · simp [h1]; omega
  · simp [h1]; omega

theorem shiftBy_eq (b : OB) (g : G) (h : Refines b g) (now : Nat) :
    b.shiftBy now = min ((now - g.updated) / g.res) g.ticks := by
  unfold OB.shiftBy
  rw [h.counts, countsOf_length, h.res, h.updated]
  rw [clampTicks_eq_min]
  rfl

theorem slide_refines (b : OB) (g : G) (h : Refines b g) (now : Nat) : Refines (b.slide now) (g.slide now) := by
  refine ⟨?_, ?_, ?_, ?_, h.tpos⟩
  · rw [OB.slide_counts, shiftBy_eq b g h, h.counts, shiftL_countsOf]
    rfl
  · rw [OB.slide_res, h.res]; rfl
  · rw [OB.slide_limit, h.limit]; rfl
  · rw [OB.slide_updated]; rfl

theorem total_refines (b : OB) (g : G) (h : Refines b g) : b.total = g.total := by
  unfold OB.total G.total
  rw [h.counts, countsOf_sum, List.countP_eq_length_filter]

/-- one call: the real breaker and the ghost take the same decision and stay related -/
theorem call_refines (b : OB) (g : G) (h : Refines b g) (now : Nat) :
    Refines (b.call now).1 (g.call now) ∧
    (b.call now).2 = decide ((g.slide now).total < (g.slide now).limit) := by
  have hs := slide_refines b g h now
  have ht := total_refines _ _ hs
  have hdec : admitTest (b.slide now).total (b.slide now).limit =
      decide ((g.slide now).total < (g.slide now).limit) := by
    simp [admitTest, ht, hs.limit]
  unfold OB.call G.call
  simp only [hdec]
  by_cases hc : (g.slide now).total < (g.slide now).limit
  · simp only [hc, decide_true, if_true, and_true]
    refine ⟨?_, hs.res, hs.limit, hs.updated, hs.tpos⟩
    show goIncrAt (b.slide now).counts incrIndex = countsOf ((now, 0) :: (g.slide now).all) (g.slide now).ticks
    rw [hs.counts]
    exact goIncrAt_countsOf _ _ _
  · simp only [hc, decide_false, if_false, and_true]
    exact hs

theorem call_updated (b : OB) (now : Nat) : (b.call now).1.updated = now := by
  unfold OB.call
  simp only []
  split <;> simp [OB.slide_updated]

theorem gcall_adm (g : G) (now : Nat) :
    (g.call now).adm = if (g.slide now).total < (g.slide now).limit then now :: g.adm else g.adm := by
  have hadm : (g.slide now).adm = g.adm := by simp [G.slide, G.adm, List.map_map, Function.comp_def]
  unfold G.call
  simp only []
  split
  · show now :: (g.slide now).adm = now :: g.adm
    rw [hadm]
  · exact hadm

/-- the admitted times of the real model are the admission list of the ghost -/
theorem admitted_refines (b : OB) (g : G) (h : Refines b g) (ts : List Nat) :
    OB.admitted.go b ts g.adm = (g.run ts).adm := by
  induction ts generalizing b g with
  | nil => rfl
  | cons t ts ih =>
    have hc := call_refines b g h t
    simp only [OB.admitted.go, G.run]
    rw [← ih _ _ hc.1, gcall_adm, hc.2]
    by_cases hlt : (g.slide t).total < (g.slide t).limit <;> simp [hlt]

/-- the ghost that corresponds to a breaker whose counts are all zero -/
def ghost0 (b : OB) : G := { limit := b.limit, res := b.res, ticks := b.ticks, all := [], updated := b.updated }

theorem refines_zero (b : OB) (hz : b.counts = List.replicate b.ticks 0) (ht : 0 < b.ticks) : Refines b (ghost0 b) := by
  refine ⟨?_, rfl, rfl, rfl, ht⟩
  rw [hz]
  simp only [ghost0, countsOf, List.countP_nil]
  apply List.ext_getElem <;> simp

theorem binv_ghost0 (b : OB) (hr : 0 < b.res) : BInv (ghost0 b) := by
  refine ⟨hr, ?_, ?_, ?_⟩
  · intro p hp; simp [ghost0] at hp
  · simp [ghost0, G.adm]
  · intro newer t older he
    simp [ghost0, G.adm] at he

/-- window bound for the real `counts` model started from all-zero counts -/
theorem window_counts (b : OB) (hz : b.counts = List.replicate b.ticks 0) (ht : 0 < b.ticks) (hr : 0 < b.res)
    (ts : List Nat) (hmono : (b.updated :: ts).Pairwise (· ≤ ·)) (a : Nat) :
    ((b.admitted ts).filter (fun t => a ≤ t ∧ t < a + b.ticks * b.res)).length ≤ b.limit := by
  have h := admitted_refines b (ghost0 b) (refines_zero b hz ht) ts
  have hw := breaker_window (ghost0 b) ts (binv_ghost0 b hr) hmono a
  unfold OB.admitted
  have : (ghost0 b).adm = [] := rfl
  rw [this] at h
  rw [h]
  exact hw

/-! ## fast polling never recovers -/

theorem shiftL_zero (cs : List Nat) : shiftL 0 cs = cs := by
  unfold shiftL
  apply List.ext_getElem
  · simp
  · intro i h1 h2
    simp [List.getD, List.getElem?_eq_getElem h2]

theorem shiftL_length (k : Nat) (cs : List Nat) : (shiftL k cs).length = cs.length := by simp [shiftL]

theorem goIncrAt_length (cs : List Nat) (i : Nat) : (goIncrAt cs i).length = cs.length := by simp [goIncrAt]

theorem goIncrAt_zero_cons (c : Nat) (cs : List Nat) : goIncrAt (c :: cs) 0 = (c + 1) :: cs := by
  unfold goIncrAt
  apply List.ext_getElem
  · simp
  · intro i h1 h2
    cases i with
    | zero => simp
    | succ i =>
      have h3 : i < cs.length := by simpa using h2
      simp [List.getD, List.getElem?_eq_getElem h3]

theorem goIncrAt_sum (cs : List Nat) (h : 0 < cs.length) : (goIncrAt cs 0).sum = cs.sum + 1 := by
  cases cs with
  | nil => simp at h
  | cons c cs => rw [goIncrAt_zero_cons]; simp; omega

theorem slide_fast (b : OB) (now : Nat) (h : now - b.updated < b.res) : (b.slide now).counts = b.counts := by
  rw [OB.slide_counts]
  have : b.shiftBy now = 0 := by
    unfold OB.shiftBy
    rw [clampTicks_eq_min]
    simp only [rawTicks, elapsed]
    rw [Nat.div_eq_of_lt h]
    simp
  rw [this, shiftL_zero]

theorem call_counts_length (b : OB) (now : Nat) : (b.call now).1.counts.length = b.counts.length := by
  unfold OB.call
  simp only []
  split
  · simp [goIncrAt_length, OB.slide_counts, shiftL_length]
  · simp [OB.slide_counts, shiftL_length]

theorem call_res (b : OB) (now : Nat) : (b.call now).1.res = b.res := by
  unfold OB.call
  simp only []
  split <;> rfl

theorem call_limit (b : OB) (now : Nat) : (b.call now).1.limit = b.limit := by
  unfold OB.call
  simp only []
  split <;> rfl

/-- a call that comes less than one tick after the previous one sees exactly the previous counts -/
theorem call_fast (b : OB) (now : Nat) (h : now - b.updated < b.res) (hl : 0 < b.counts.length) :
    (b.call now).2 = decide (b.total < b.limit) ∧
    (b.call now).1.total = (if b.total < b.limit then b.total + 1 else b.total) := by
  have hs := slide_fast b now h
  have ht : (b.slide now).total = b.total := by unfold OB.total; rw [hs]
  unfold OB.call
  simp only [admitTest, ht, OB.slide_limit]
  by_cases hc : b.total < b.limit
  · simp only [hc, decide_true, if_true, true_and]
    show (goIncrAt (b.slide now).counts incrIndex).sum = b.total + 1
    rw [hs]
    exact goIncrAt_sum _ hl
  · simp only [hc, decide_false, if_false, true_and]
    exact ht

theorem admitted_fast (b : OB) (ts : List Nat) (acc : List Nat) (hl : 0 < b.counts.length)
    (hf : FastPolled b.res b.updated ts) :
    (OB.admitted.go b ts acc).length = acc.length + min ts.length (b.limit - b.total) := by
  induction ts generalizing b acc with
  | nil => simp [OB.admitted.go]
  | cons t ts ih =>
    obtain ⟨_, hgap, hrest⟩ := hf
    have hc := call_fast b t hgap hl
    simp only [OB.admitted.go]
    have hl' : 0 < (b.call t).1.counts.length := by rw [call_counts_length]; exact hl
    have hrest' : FastPolled (b.call t).1.res (b.call t).1.updated ts := by
      rw [call_res, call_updated]; exact hrest
    rw [ih _ _ hl' hrest', hc.1, hc.2, call_limit]
    by_cases hlt : b.total < b.limit
    · simp only [hlt, decide_true, if_true, List.length_cons]; omega
    · simp only [hlt, decide_false, if_false]
      simp only [Bool.false_eq_true, if_false, List.length_cons]; omega

theorem shiftL_replicate_zero (k n : Nat) : shiftL k (List.replicate n 0) = List.replicate n 0 := by
  unfold shiftL
  apply List.ext_getElem
  · simp
  · intro i h1 h2
    simp only [List.getElem_map, List.getElem_range, List.getElem_replicate]
    split
    · rfl
    · simp only [List.getD, List.getElem?_replicate]
      split <;> rfl

/-- the first call on a fresh breaker -/
theorem call_fresh (b : OB) (now : Nat) (hz : b.counts = List.replicate b.counts.length 0) (hl : 0 < b.counts.length) :
    (b.call now).2 = decide (0 < b.limit) ∧ (b.call now).1.total = (if 0 < b.limit then 1 else 0) := by
  have hs : (b.slide now).counts = b.counts := by
    rw [OB.slide_counts, hz, shiftL_replicate_zero]
  have h0 : b.total = 0 := by unfold OB.total; rw [hz]; simp
  have ht : (b.slide now).total = 0 := by unfold OB.total; rw [hs]; exact h0
  unfold OB.call
  simp only [admitTest, ht, OB.slide_limit]
  by_cases hc : 0 < b.limit
  · simp only [hc, decide_true, if_true, true_and]
    show (goIncrAt (b.slide now).counts incrIndex).sum = 1
    rw [hs]
    have := goIncrAt_sum b.counts hl
    unfold OB.total at h0
    rw [incrIndex, this, h0]
  · simp only [hc, decide_false, if_false, true_and]
    exact ht

/-! ## concurrent callers: every schedule is a sequential run of `call` at the lock-acquisition clock readings -/

/-- **tie to the generated lock structure** of `Do`: one critical section holds clock reading, slide, sum, test and
increment; running `f` is outside -/
theorem do_segments_shape : doSegments = [[.readClock, .slide, .sum, .test, .incr], [.runF]] := rfl

theorem seg_call (clk : Nat) (b : OB) (l : DoLocal) (log : List (Nat × Bool)) :
    ∃ l', runSeg clk [DoStep.readClock, .slide, .sum, .test, .incr] (b, l, log) =
      ((b.call clk).1, l', (clk, (b.call clk).2) :: log) := by
  refine ⟨{ now := clk, total := (b.slide clk).total, closed := admitTest (b.slide clk).total b.limit }, ?_⟩
  rfl

theorem seg_runF (clk : Nat) (st : OB × DoLocal × List (Nat × Bool)) : runSeg clk [DoStep.runF] st = st := by
  simp [runSeg, List.foldl, doStep]

def ThreadsOK (s : DoSys) : Prop := ∀ th ∈ s.threads, th.todo = [] ∨ th.todo = [[DoStep.runF]]

theorem threadsOK_set (s : DoSys) (h : ThreadsOK s) (tid : Nat) (th : DoThread) (b : OB) (log : List (Nat × Bool))
    (hth : th.todo = [] ∨ th.todo = [[DoStep.runF]]) :
    ThreadsOK { b := b, threads := s.threads.set tid th, log := log } := by
  intro x hx
  rcases List.mem_or_eq_of_mem_set hx with hx | hx
  · exact h x hx
  · rw [hx]; exact hth

theorem step_cases (s : DoSys) (h : ThreadsOK s) (tid clk : Nat) :
    ThreadsOK (s.step tid clk) ∧
    (((s.step tid clk).b = s.b ∧ (s.step tid clk).log = s.log) ∨
     ((s.step tid clk).b = (s.b.call clk).1 ∧ (s.step tid clk).log = (clk, (s.b.call clk).2) :: s.log)) := by
  unfold DoSys.step
  cases hg : s.threads[tid]? with
  | none => exact ⟨h, Or.inl ⟨rfl, rfl⟩⟩
  | some th =>
    have hmem : th ∈ s.threads := List.mem_of_getElem? hg
    simp only []
    rcases h th hmem with h0 | h1
    · cases hm : th.more with
      | zero =>
        have hn : th.next = th := by simp [DoThread.next, h0, hm]
        simp only [hn, h0]
        exact ⟨h, by simp⟩
      | succ n =>
        have hn : th.next = { th with todo := doSegments, more := n } := by simp [DoThread.next, h0, hm]
        simp only [hn, do_segments_shape]
        obtain ⟨l', hl'⟩ := seg_call clk s.b th.regs s.log
        simp only [hl']
        exact ⟨threadsOK_set s h tid _ _ _ (Or.inr rfl), by simp⟩
    · have hn : th.next = th := by simp [DoThread.next, h1]
      simp only [hn, h1, seg_runF]
      exact ⟨threadsOK_set s h tid _ _ _ (Or.inl rfl), by simp⟩

theorem exec_sequential (s : DoSys) (h : ThreadsOK s) (sch : List (Nat × Nat)) :
    ∃ ts, ts.Sublist (sch.map (·.2)) ∧ (s.exec sch).b = s.b.after ts ∧
      (s.exec sch).admitted = OB.admitted.go s.b ts s.admitted := by
  induction sch generalizing s with
  | nil => exact ⟨[], List.Sublist.refl _, rfl, rfl⟩
  | cons e sch ih =>
    obtain ⟨tid, clk⟩ := e
    obtain ⟨hok, hcase⟩ := step_cases s h tid clk
    obtain ⟨ts, hsub, hb, hadm⟩ := ih (s.step tid clk) hok
    simp only [DoSys.exec, List.map_cons]
    rcases hcase with ⟨e1, e2⟩ | ⟨e1, e2⟩
    · refine ⟨ts, List.Sublist.cons _ hsub, ?_, ?_⟩
      · rw [hb, e1]
      · rw [hadm, e1]; unfold DoSys.admitted; rw [e2]
    · refine ⟨clk :: ts, List.Sublist.cons_cons _ hsub, ?_, ?_⟩
      · rw [hb, e1]; rfl
      · rw [hadm, e1]
        unfold DoSys.admitted
        rw [e2]
        simp only [OB.admitted.go, List.filter_cons]
        cases (s.b.call clk).2 <;> simp

theorem start_ok (b : OB) (calls : List Nat) : ThreadsOK (DoSys.start b calls) := by
  intro th hth
  simp only [DoSys.start, List.mem_map] at hth
  obtain ⟨n, _, rfl⟩ := hth
  exact Or.inl rfl

/-! ## recovery when polled slower than a tick (or in bursts): every counted admission is younger than two windows -/

/-- upper bound on the age of an admission still counted: the shifts lose less than half of the elapsed time -/
def UB (g : G) : Prop := ∀ p ∈ g.all, p.2 < g.ticks → g.updated ≤ p.1 + 2 * (p.2 * g.res)

theorem slide_ub (g : G) (now : Nat) (h : UB g) (hr : 0 < g.res) (hn : g.updated ≤ now)
    (hgap : now = g.updated ∨ g.res ≤ now - g.updated) : UB (g.slide now) := by
  intro p hp hlt
  simp only [G.slide, List.mem_map] at hp
  obtain ⟨q, hq, rfl⟩ := hp
  have hlt' : q.2 + min ((now - g.updated) / g.res) g.ticks < g.ticks := hlt
  show now ≤ q.1 + 2 * ((q.2 + min ((now - g.updated) / g.res) g.ticks) * g.res)
  clear hlt
  have hdm := Nat.div_add_mod (now - g.updated) g.res
  have hml := Nat.mod_lt (now - g.updated) hr
  have hkpos : g.res ≤ now - g.updated → 0 < (now - g.updated) / g.res := fun hge => Nat.div_pos hge hr
  generalize (now - g.updated) / g.res = k at *
  generalize (now - g.updated) % g.res = r at *
  have hk : min k g.ticks = k := by
    have : k < g.ticks := by
      rw [Nat.min_def] at hlt'; split at hlt' <;> omega
    exact Nat.min_eq_left (Nat.le_of_lt this)
  rw [hk] at hlt' ⊢
  have hq2 : q.2 < g.ticks := by omega
  have hold := h q hq hq2
  rw [Nat.add_mul]
  rcases hgap with rfl | hge
  · omega
  · have hB : g.res ≤ k * g.res := Nat.le_mul_of_pos_left _ (hkpos hge)
    rw [Nat.mul_comm] at hdm
    generalize k * g.res = B at *
    generalize q.2 * g.res = A at *
    omega

theorem call_ub (g : G) (now : Nat) (h : UB g) (hr : 0 < g.res) (hn : g.updated ≤ now)
    (hgap : now = g.updated ∨ g.res ≤ now - g.updated) : UB (g.call now) := by
  have hs := slide_ub g now h hr hn hgap
  unfold G.call
  simp only []
  split
  · intro p hp hlt
    simp only [List.mem_cons] at hp
    rcases hp with rfl | hp
    · show (g.slide now).updated ≤ _
      simp [G.slide]
    · exact hs p hp hlt
  · exact hs

theorem gcall_fields (g : G) (now : Nat) :
    (g.call now).updated = now ∧ (g.call now).res = g.res ∧ (g.call now).ticks = g.ticks ∧ (g.call now).limit = g.limit := by
  unfold G.call; simp only []; split <;> exact ⟨rfl, rfl, rfl, rfl⟩

theorem ghost_recovers (g : G) (pre : List Nat) (now : Nat) (h : UB g) (hr : 0 < g.res)
    (hs : SlowPolled g.res g.updated (pre ++ [now])) :
    ((g.run pre).slide now).total ≤ windowCount (2 * g.W) (g.run pre).adm now := by
  induction pre generalizing g with
  | nil =>
    simp only [List.nil_append, SlowPolled] at hs
    obtain ⟨hn, hgap, _⟩ := hs
    have hu := slide_ub g now h hr hn (by omega)
    simp only [G.run]
    have hadm : (g.slide now).adm = g.adm := by simp [G.slide, G.adm, List.map_map, Function.comp_def]
    rw [← hadm]
    unfold windowCount G.total G.adm
    rw [List.filter_map, List.length_map]
    apply filter_len_mono
    intro p hp hlt
    simp only [decide_eq_true_eq] at hlt
    have hb := hu p hp hlt
    have hup : (g.slide now).updated = now := rfl
    have ht : (g.slide now).ticks = g.ticks := rfl
    have hres : (g.slide now).res = g.res := rfl
    rw [hup, hres] at hb
    rw [ht] at hlt
    simp only [Function.comp_apply, G.W]
    refine decide_eq_true ?_
    have h1 : p.2 * g.res + g.res ≤ g.ticks * g.res := by
      have : (p.2 + 1) * g.res ≤ g.ticks * g.res := Nat.mul_le_mul_right _ hlt
      rw [Nat.add_mul] at this; omega
    generalize p.2 * g.res = A at *
    generalize g.ticks * g.res = B at *
    omega
  | cons t pre ih =>
    simp only [List.cons_append, SlowPolled] at hs
    obtain ⟨hn, hgap, hrest⟩ := hs
    obtain ⟨e1, e2, e3, e4⟩ := gcall_fields g t
    have hu := call_ub g t h hr hn (by omega)
    have := ih (g.call t) hu (by rw [e2]; exact hr) (by rw [e1, e2]; exact hrest)
    simp only [G.run]
    have hW : (g.call t).W = g.W := by simp [G.W, e2, e3]
    rw [hW] at this
    exact this

theorem after_refines (b : OB) (g : G) (h : Refines b g) (ts : List Nat) : Refines (b.after ts) (g.run ts) := by
  induction ts generalizing b g with
  | nil => exact h
  | cons t ts ih => exact ih _ _ (call_refines b g h t).1

theorem after_limit (b : OB) (ts : List Nat) : (b.after ts).limit = b.limit := by
  induction ts generalizing b with
  | nil => rfl
  | cons t ts ih => simp only [OB.after]; rw [ih, call_limit]

theorem recovers_slow (b : OB) (hz : b.counts = List.replicate b.ticks 0) (ht : 0 < b.ticks) (hr : 0 < b.res)
    (pre : List Nat) (now : Nat) (hs : SlowPolled b.res b.updated (pre ++ [now]))
    (hfew : ((b.admitted pre).filter (fun t => now < t + 2 * (b.ticks * b.res))).length < b.limit) :
    ((b.after pre).call now).2 = true := by
  have hR := refines_zero b hz ht
  have hA := after_refines b _ hR pre
  have hc := (call_refines _ _ hA now).2
  have hadm := admitted_refines b _ hR pre
  have hub : UB (ghost0 b) := by intro p hp; simp [ghost0] at hp
  have hg := ghost_recovers (ghost0 b) pre now hub hr hs
  rw [hc]
  simp only [decide_eq_true_eq]
  have hl : (((ghost0 b).run pre).slide now).limit = b.limit := by
    show ((ghost0 b).run pre).limit = b.limit
    rw [← hA.limit, after_limit]
  rw [hl]
  have h0 : (ghost0 b).adm = [] := rfl
  rw [h0] at hadm
  unfold OB.admitted at hfew
  rw [hadm] at hfew
  exact Nat.lt_of_le_of_lt hg hfew

theorem pollEvery_length (t0 δ n : Nat) : (pollEvery t0 δ n).length = n := by
  induction n generalizing t0 with
  | zero => rfl
  | succ n ih => simp [pollEvery, ih]

theorem pollEvery_fast (res t0 δ n : Nat) (h : δ < res) : FastPolled res t0 (pollEvery t0 δ n) := by
  induction n generalizing t0 with
  | zero => trivial
  | succ n ih => exact ⟨by omega, by omega, ih _⟩

theorem pollEvery_mono (t0 δ n : Nat) : (t0 :: pollEvery t0 δ n).Pairwise (· ≤ ·) := by
  induction n generalizing t0 with
  | zero => simp [pollEvery]
  | succ n ih =>
    have := ih (t0 + δ)
    simp only [pollEvery, List.pairwise_cons] at this ⊢
    refine ⟨?_, this⟩
    intro a ha
    rcases List.mem_cons.mp ha with rfl | ha
    · omega
    · have := this.1 a ha; omega

theorem init_fields (limit interval : Nat) :
    (OB.init limit interval).counts = List.replicate (OB.init limit interval).counts.length 0 ∧
    (OB.init limit interval).counts.length = breakerTicks ∧ (OB.init limit interval).ticks = breakerTicks ∧
    (OB.init limit interval).res = interval / breakerTicks ∧ (OB.init limit interval).limit = limit ∧
    (OB.init limit interval).updated = 0 := by
  simp [OB.init, OB.res, resolution, initTicks]

/-- a fresh breaker polled with every gap shorter than a tick admits exactly the first `limit` calls, for ever -/
theorem fast_poll_general (limit interval t0 : Nat) (rest : List Nat)
    (hf : FastPolled (interval / breakerTicks) t0 rest) :
    ((OB.init limit interval).admitted (t0 :: rest)).length = min (rest.length + 1) limit := by
  obtain ⟨hz, hlen, _, hres, hlim, _⟩ := init_fields limit interval
  have hl : 0 < (OB.init limit interval).counts.length := by rw [hlen]; decide
  have hc := call_fresh (OB.init limit interval) t0 hz hl
  unfold OB.admitted
  simp only [OB.admitted.go]
  have hl' : 0 < ((OB.init limit interval).call t0).1.counts.length := by rw [call_counts_length]; exact hl
  rw [admitted_fast _ _ _ hl' (by rw [call_res, call_updated, hres]; exact hf), hc.1, hc.2, call_limit, hlim]
  by_cases h0 : 0 < limit
  · simp only [h0, decide_true, if_true, List.length_cons, List.length_nil]; omega
  · simp only [h0, decide_false, if_false]
    simp only [Bool.false_eq_true, if_false, List.length_nil]; omega
